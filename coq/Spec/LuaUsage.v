(* C07 - reference semantics of name usage in a Lua chunk (core fragment).

   Part 1: vocabulary (names, Loc comparisons of lexer/common.go).
   Part 2: the tool's documented exemption rules, as pure functions of the syntax of a declaration
           and of the values later assigned to it (analysis_check_loc_var.go, common/util.go).
   Part 3: the textbook environment-passing binder: every name READ and every assignment to a
           plain name is resolved against an association list (innermost declaration first);
           `local` is visible after its statement (not in its initialisers), `local function` in
           its own body, parameters / loop variables in the body only, `repeat ... until e` sees
           the block's locals, function bodies see the enclosing locals, otherwise the name is global.
   Part 4: what the property demands, as sets of (diagnostic type, Loc):
           type 4  = local declarations that no read binds to, minus the exemptions;
           type 17 = assignments to such a declaration;
           type 2/3 = reads of a global name that no file of the workspace defines (2), or that only
                      this file defines, later in evaluation order than a top-level read (3). *)
From Coq Require Import List NArith ZArith Bool.
From LH Require Import Base.Bytes Model.Lexer Model.Ast.
From LH Require Model.Scope.
Import ListNotations.
Local Open Scope N_scope.

(* ------------------------------------------------------------------ Part 1: vocabulary *)
Definition name := list N.
Definition name_eqb (a b : name) : bool := beq_bytes a b.
Definition name_mem (n : name) (l : list name) : bool := existsb (name_eqb n) l.

Definition loc_eqb (a b : loc) : bool :=
  ((sl a =? sl b) && (sc a =? sc b) && (el a =? el b) && (ec a =? ec b))%Z.
Definition loc_mem (l : loc) (ls : list loc) : bool := existsb (loc_eqb l) ls.

(* lexer.Location.IsBeforeLoc / IsContainLoc / IsInitialLoc *)
Definition loc_before (a b : loc) : bool :=
  ((sl a <? sl b) || ((sl a =? sl b) && (sc a <=? sc b)))%Z.
Definition loc_contains (a b : loc) : bool :=
  (negb ((sl a >? sl b) || (el a <? el b))
   && negb ((sl a =? sl b) && (sc a >? sc b))
   && negb ((el a =? el b) && (ec a <? ec b)))%Z.
Definition loc_initial (a : loc) : bool := ((sl a =? 0) && (sc a =? 0) && (el a =? 0) && (ec a =? 0))%Z.

(* diagnostic = (CheckErrorType number, Loc) *)
Definition diag := (N * loc)%type.
Definition diag_eqb (a b : diag) : bool := (fst a =? fst b)%N && loc_eqb (snd a) (snd b).

(* configuration of the run: name sets of common/global_conf.go *)
Record cfg := mkCfg {
  c_ignored  : list name;     (* IgnoreVarMap: IsIgnoreNameVar *)
  c_luain    : list name;     (* LuaInMap *)
  c_sysnouse : list name;     (* ignoreSysNoUseMap: IsInSysNotUseMap *)
  c_locnouse : list name      (* IgnoreLocalNoUseVarMap: IsIgnoreLocNotUseVar *)
}.

(* ------------------------------------------------------------------ Part 2: exemption rules *)
Definition ch_bang : N := 33.   (* ! *)
Definition ch_hash : N := 35.   (* # *)
Definition ch_dot  : N := 46.   (* . *)
Definition s_us : name := [95].             (* _  *)
Definition s_G  : name := [95; 71].         (* _G *)

Definition has_byte (c : N) (s : list N) : bool := existsb (N.eqb c) s.

(* strings.Split(s, ".") *)
Fixpoint split_dot_aux (s cur : list N) : list (list N) :=
  match s with
  | [] => [rev cur]
  | c :: r => if (c =? ch_dot)%N then rev cur :: split_dot_aux r [] else split_dot_aux r (c :: cur)
  end.
Definition split_dot (s : list N) : list (list N) := split_dot_aux s [].

(* common.GetExpName on the fragment ("#..." for everything that is not a name, a string or parentheses) *)
Fixpoint exp_name (e : exp) : list N :=
  match e with
  | EStr s _ => s
  | EParens e1 _ => exp_name e1
  | EName n _ => ch_bang :: n
  | _ => [ch_hash]
  end.
Definition opt_exp_name (o : option exp) : list N :=
  match o with Some e => exp_name e | None => [ch_hash] end.

(* common.JudgeSimpleStr *)
Definition simple_str (s : list N) : bool := negb (has_byte ch_bang s || has_byte ch_hash s || has_byte ch_dot s).

(* common.GetExpSubKey *)
Definition sub_key (s : list N) : list N :=
  if has_byte ch_hash s then [] else
  match split_dot s with
  | [one] => match one with c :: r => if (c =? ch_bang)%N then r else [] | [] => [] end
  | [one; two] => if beq_bytes one (ch_bang :: s_G) then two else []
  | _ => []
  end.

(* common.GetSimpleValue *)
Definition simple_value (s : list N) : list N :=
  match s with
  | c :: r =>
    match r with
    | [] => []
    | _ => if negb (c =? ch_bang)%N then [] else if beq_bytes s (ch_bang :: s_G) then []
           else if simple_str r then r else []
    end
  | [] => []
  end.

(* common.StrRemovePreG + GetTableStrTwoStr: module name of "!mod.key" *)
Definition module_of (s : list N) : list N :=
  let s1 := match s with
            | 33 :: 95 :: 71 :: 46 :: r => ch_bang :: r
            | _ => s
            end%N in
  if has_byte ch_hash s1 then [] else
  match split_dot s1 with
  | [one; two] => if negb (simple_str two) then [] else
                  match one with c :: r => if (c =? ch_bang)%N then (match two with [] => [] | _ => r end) else [] | [] => [] end
  | _ => []
  end.

Definition is_nil_exp (e : exp) : bool := match e with ENil _ => true | _ => false end.
Definition is_empty_table (e : exp) : bool := match e with ETable [] [] _ => true | _ => false end.
Definition is_func_exp (e : exp) : bool := match e with EFunc _ _ _ _ _ _ _ _ => true | _ => false end.
Definition is_call_exp (e : exp) : bool := match e with ECall _ _ _ _ => true | _ => false end.

(* common.IsLocalReferExpEmpty *)
Definition local_refer_empty (n : name) (e : exp) : bool :=
  match e with
  | ENil _ => true
  | ETable [] [] _ => true
  | EBinop TkOpOr e1 e2 _ =>
    if beq_bytes (simple_value (exp_name e1)) n then is_nil_exp e2 || is_empty_table e2 else false
  | _ => false
  end.

(* common.IsReferExpEmpty (leftExp = the plain name n, ignoreLeft = false) *)
Definition refer_empty (n : name) (e : exp) : bool :=
  match sub_key (ch_bang :: n) with
  | [] => false
  | _ =>
    match e with
    | ENil _ => true
    | ETable [] [] _ => true
    | EBinop TkOpOr e1 e2 _ =>
      if beq_bytes (ch_bang :: n) (exp_name e1) then is_nil_exp e2 || is_empty_table e2 else false
    | _ => false
    end
  end.

(* the value a local is known to hold: (ReferExp, IsExpEmpty) *)
Definition refer := (option exp * bool)%type.

(* cgAssignStat: an assignment `n = rhs` re-points a local whose value was still empty *)
Definition repoint (n : name) (rhs : option exp) (r : refer) : refer :=
  if snd r then
    match rhs with
    | Some e => (Some e, refer_empty n e)
    | None => (fst r, false)
    end
  else r.

(* "alias of a library name": checkLocVarCall 1) and 2) *)
Definition sys_alias (c : cfg) (r : option exp) : bool :=
  let s := opt_exp_name r in
  (match sub_key s with [] => false | k => name_mem k (c_sysnouse c) end)
  || (match module_of s with [] => false | m => name_mem m (c_sysnouse c) end).

(* ------------------------------------------------------------------ Part 3: the binder *)
Inductive binding := BLocal (d : loc) | BGlobal.

Inductive dkind := DParam | DLoop | DLocal | DLocalFun.
Record decl := mkDecl8 {
  d_name : name; d_loc : loc; d_kind : dkind;
  d_close : bool;              (* <close> attribute *)
  d_value : option exp;        (* the expression the declaration binds the name to (if any) *)
  d_empty : bool;              (* declared without value / nil / {} / `n or nil` *)
  d_init : option loc;         (* `local` statement with initialisers: the region behind the names up to its end *)
  d_tab : option loc           (* the table constructor that initialises the name *)
}.
Notation mkDecl n l k c v e := (mkDecl8 n l k c v e None None).

Inductive occ :=
| ORead  (n : name) (l : loc) (b : binding) (flv : N)
| OWrite (n : name) (l : loc) (b : binding) (flv slv : N) (rhs : option exp).

Definition env := list (name * loc).
Fixpoint lookup (n : name) (en : env) : binding :=
  match en with
  | [] => BGlobal
  | (m, l) :: r => if name_eqb m n then BLocal l else lookup n r
  end.

Definition bind_names (ns : list name) (ls : list loc) (en : env) : env := rev (combine ns ls) ++ en.

(* declarations of one `local` statement *)
Fixpoint local_decls (il : option loc) (ns : list name) (ls : list loc) (ats : list attr) (es : list exp)
  (lastcall : option exp) : list decl :=
  match ns, ls, ats with
  | n :: ns', l :: ls', a :: ats' =>
    let cl := match a with AttrClose => true | _ => false end in
    match es with
    | e :: es' =>
      mkDecl8 n l DLocal cl (Some e) (local_refer_empty n e) il (Scope.tab_of_exp e)
      :: local_decls il ns' ls' ats' es' (match es' with [] => if is_call_exp e then Some e else None | _ => None end)
    | [] =>
      mkDecl8 n l DLocal cl lastcall (match lastcall with Some _ => false | None => true end) il None
      :: local_decls il ns' ls' ats' [] lastcall
    end
  | _, _, _ => []
  end.

Definition plain_decls (k : dkind) (ns : list name) (ls : list loc) : list decl :=
  map (fun p => mkDecl (fst p) (snd p) k false None false) (combine ns ls).

Section Thread.
  Context {A S B : Type} (f : A -> S -> list B * S).
  Fixpoint thread (l : list A) (s : S) : list B * S :=
    match l with
    | [] => ([], s)
    | a :: r => let (b1, s1) := f a s in let (b2, s2) := thread r s1 in (b1 ++ b2, s2)
    end.
End Thread.

(* x1 ++ y1 ++ x2 ++ y2 ++ ... (conditions and blocks of an `if` statement, in order) *)
Fixpoint interleave {A} (xs ys : list (list A)) : list A :=
  match xs, ys with
  | x :: xs', y :: ys' => x ++ y ++ interleave xs' ys'
  | _, _ => []
  end.

Fixpoint b_exp (en : env) (flv : N) (e : exp) {struct e} : list occ :=
  match e with
  | EName n l => [ORead n l (lookup n en) flv]
  | EParens e1 _ => b_exp en flv e1
  | EUnop _ e1 _ => b_exp en flv e1
  | EBinop _ e1 e2 _ => b_exp en flv e1 ++ b_exp en flv e2
  | ECall p _ args _ => b_exp en flv p ++ flat_map (b_exp en flv) args
  | EFunc _ _ pars plocs b _ _ _ => fst (b_block (bind_names pars plocs en) (flv + 1) 0 b)
  | _ => []
  end
with b_stat (en : env) (flv slv : N) (s : stat) {struct s} : list occ * env :=
  match s with
  | SDo b _ => (fst (b_block en flv (slv + 1) b), en)
  | SCall e => (b_exp en flv e, en)
  | SWhile e b _ => (b_exp en flv e ++ fst (b_block en flv (slv + 1) b), en)
  | SRepeat b e _ =>
    let (o, en1) := b_block en flv (slv + 1) b in (o ++ b_exp en1 flv e, en)
  | SIf es bs _ =>
    (interleave (map (b_exp en flv) es) (map (fun b => fst (b_block en flv (slv + 1) b)) bs), en)
  | SForNum n vl e1 e2 e3 b _ =>
    (b_exp en flv e1 ++ b_exp en flv e2 ++ b_exp en flv e3
     ++ fst (b_block ((n, vl) :: en) flv (slv + 1) b), en)
  | SForIn ns ls es b _ =>
    (flat_map (b_exp en flv) es ++ fst (b_block (bind_names ns ls en) flv (slv + 1) b), en)
  | SAssign vars es _ =>
    (flat_map (b_exp en flv) es
     ++ (fix go (vs : list exp) (es : list exp) {struct vs} : list occ :=
           match vs with
           | EName n l :: vs' =>
             OWrite n l (lookup n en) flv slv (hd_error es) :: go vs' (tl es)
           | _ :: vs' => go vs' (tl es)
           | [] => []
           end) vars es, en)
  | SLocal ns ls _ es _ => (flat_map (b_exp en flv) es, bind_names ns ls en)
  | SLocalFunc n nl f _ => let en1 := (n, nl) :: en in (b_exp en1 flv f, en1)
  | _ => ([], en)
  end
with b_block (en : env) (flv slv : N) (b : block) {struct b} : list occ * env :=
  match b with
  | Block ss ret _ =>
    let (o, en1) := thread (fun s en0 => b_stat en0 flv slv s) ss en in
    (o ++ match ret with Some es => flat_map (b_exp en1 flv) es | None => [] end, en1)
  end.

(* all declarations of a piece of code *)
Fixpoint d_exp (e : exp) {struct e} : list decl :=
  match e with
  | EParens e1 _ => d_exp e1
  | EUnop _ e1 _ => d_exp e1
  | EBinop _ e1 e2 _ => d_exp e1 ++ d_exp e2
  | ECall p _ args _ => d_exp p ++ flat_map d_exp args
  | EFunc _ _ pars plocs b _ _ _ => plain_decls DParam pars plocs ++ d_block b
  | _ => []
  end
with d_stat (s : stat) {struct s} : list decl :=
  match s with
  | SDo b _ => d_block b
  | SCall e => d_exp e
  | SWhile e b _ => d_exp e ++ d_block b
  | SRepeat b e _ => d_block b ++ d_exp e
  | SIf es bs _ =>
    interleave (map d_exp es) (map d_block bs)
  | SForNum n vl e1 e2 e3 b _ =>
    d_exp e1 ++ d_exp e2 ++ d_exp e3 ++ mkDecl n vl DLoop false None false :: d_block b
  | SForIn ns ls es b _ => flat_map d_exp es ++ plain_decls DLoop ns ls ++ d_block b
  | SAssign _ es _ => flat_map d_exp es
  | SLocal ns ls ats es l => flat_map d_exp es ++ local_decls (Scope.init_loc ns ls es l) ns ls ats es None
  | SLocalFunc n nl f _ => mkDecl n nl DLocalFun false (Some f) false :: d_exp f
  | _ => []
  end
with d_block (b : block) {struct b} : list decl :=
  match b with
  | Block ss ret _ => flat_map d_stat ss ++ match ret with Some es => flat_map d_exp es | None => [] end
  end.

Definition file_occs (b : block) : list occ := fst (b_block [] 0 0 b).
Definition file_decls (b : block) : list decl := d_block b.

(* ------------------------------------------------------------------ Part 4: the demanded diagnostics *)
Definition binds_to (d : loc) (b : binding) : bool :=
  match b with BLocal l => loc_eqb l d | BGlobal => false end.

Definition read_binds_to (d : loc) (o : occ) : bool :=
  match o with ORead _ _ b _ => binds_to d b | _ => false end.
Definition write_binds_to (d : loc) (o : occ) : bool :=
  match o with OWrite _ _ b _ _ _ => binds_to d b | _ => false end.

(* "some read binds to d" *)
Definition is_read (os : list occ) (d : loc) : bool := existsb (read_binds_to d) os.

(* the value d is known to hold at the end of its scope *)
Definition final_refer (os : list occ) (d : decl) : refer :=
  fold_left (fun r o => match o with
                        | OWrite n _ b _ _ rhs => if binds_to (d_loc d) b then repoint n rhs r else r
                        | _ => r end) os (d_value d, d_empty d).

(* documented exemptions *)
Definition exempt (c : cfg) (os : list occ) (d : decl) : bool :=
  match d_kind d with DParam | DLoop | DLocalFun => true | DLocal => false end     (* parameters, loop variables, local functions *)
  || name_eqb (d_name d) s_us || name_eqb (d_name d) s_G || name_mem (d_name d) (c_locnouse c)
  || d_close d
  || match d_value d with Some e => (match d_kind d with DLocal => is_func_exp e | _ => false end) | None => false end   (* function values *)
  || sys_alias c (fst (final_refer os d)).                                         (* aliases of library names *)

Definition unused (c : cfg) (os : list occ) (d : decl) : bool :=
  negb (is_read os (d_loc d)) && negb (exempt c os d).

Definition spec_unused (c : cfg) (b : block) : list diag :=
  let os := file_occs b in
  flat_map (fun d =>
    if unused c os d then
      (4%N, d_loc d) ::
      flat_map (fun o => match o with
                         | OWrite _ l bd _ _ _ => if binds_to (d_loc d) bd && negb (loc_initial l) then [(17%N, l)] else []
                         | _ => [] end) os
    else []) (file_decls b).

(* global definitions of a file: assignments to a name that binds to no local *)
Definition gdef_names (os : list occ) : list name :=
  flat_map (fun o => match o with OWrite n _ BGlobal _ _ _ => [n] | _ => [] end) os.

(* reads of undefined globals. `supp l` = the tool's idiom exemption for the read at l (x = x or v / if not x / x == nil),
   `circ n l` = its same-line exemption for a use-before-definition in a comparison / and / or;
   both are syntactic and supplied by the caller (Model/Usage.v computes them). *)
Section Undefined.
  Variable c : cfg.
  Variable ws : list name.                 (* names defined as globals by the OTHER files of the workspace *)
  Variable supp : loc -> bool.
  Variable circ : name -> loc -> bool.

  Fixpoint undef_scan (own : list name) (sofar : list name) (os : list occ) : list diag :=
    match os with
    | [] => []
    | ORead n l BGlobal flv :: r =>
      (if name_mem n (c_ignored c) || supp l || name_mem n (c_luain c) then []
       else if (flv =? 0)%N then
         if name_mem n sofar then []
         else if name_mem n own then (if name_mem n ws || circ n l then [] else [(3%N, l)])
         else if name_mem n ws then [] else [(2%N, l)]
       else if name_mem n own || name_mem n ws then [] else [(2%N, l)])
      ++ undef_scan own sofar r
    | OWrite n _ BGlobal _ _ _ :: r => undef_scan own (n :: sofar) r
    | _ :: r => undef_scan own sofar r
    end.

  Definition spec_undefined (b : block) : list diag :=
    let os := file_occs b in undef_scan (gdef_names os) [] os.
End Undefined.
