(* What the LSP specification says about text synchronisation (3.17, "Text Documents", "Position",
   "DidChangeTextDocument"): the client's side of property C02.

   A document is a list of code points.  Lines end at LF, CRLF or a lone CR.  A position is line:character with
   the character counted in UTF-16 code units (2 for a code point >= 0x10000).  A range edit replaces the text
   between two positions; a change without range replaces the whole text.  Saving does not change the text. *)
From Coq Require Import List NArith Bool.
From LH Require Import Base.Bytes Base.Res Base.Utf8 Model.TextSync.
Import ListNotations.
Local Open Scope N_scope.

(* All positions of a document, in order, each with the index (in code points) it denotes.
   State: `line`,`col` = position of the gap before the next code point, `idx` = its index,
   `after_cr` = the previous code point was a CR (which has already started a new line): an LF that follows
   belongs to the same line terminator, and there is no position between the two. *)
Fixpoint positions (d : list N) (after_cr : bool) (line col idx : N) : list (N * N * N) :=
  match d with
  | [] => [(line, col, idx)]
  | c :: t =>
    if after_cr && (c =? 10) then positions t false line col (idx + 1)
    else (line, col, idx) ::
         (if c =? 10 then positions t false (line + 1) 0 (idx + 1)
          else if c =? 13 then positions t true (line + 1) 0 (idx + 1)
          else positions t false line (col + utf16_len c) (idx + 1))
  end.

Fixpoint lookup (line col : N) (tab : list (N * N * N)) : option N :=
  match tab with
  | [] => None
  | (l, c, i) :: t => if (l =? line) && (c =? col) then Some i else lookup line col t
  end.

(* index of a position; None = not a position of this document (beyond a line end, beyond the last line,
   inside a surrogate pair) - such input is outside the property's quantifier *)
Definition pos_index (d : list N) (p : pos) : option N :=
  lookup (p_line p) (p_ch p) (positions d false 0 0 0).

Definition range_index (d : list N) (r : range) : option (N * N) :=
  match pos_index d (r_start r), pos_index d (r_end r) with
  | Some i, Some j => if i <=? j then Some (i, j) else None
  | _, _ => None
  end.

(* one content change on the client's text (texts are code points here) *)
Definition spec_apply (d : list N) (ch : change) : option (list N) :=
  match c_range ch with
  | None => Some (c_text ch)
  | Some r => match range_index d r with
              | Some (i, j) => Some (firstn (N.to_nat i) d ++ c_text ch ++ skipn (N.to_nat j) d)
              | None => None
              end
  end.

Fixpoint spec_apply_all (d : list N) (chs : list change) : option (list N) :=
  match chs with
  | [] => Some d
  | ch :: t => match spec_apply d ch with Some d' => spec_apply_all d' t | None => None end
  end.

(* the client: open documents with their text (code points) *)
Definition spec_step (cs : cache) (n : note) : cache :=
  match n with
  | DidOpen d t => upd cs d (Some t)
  | DidChange d chs =>
    match cs d with
    | Some cur => match spec_apply_all cur chs with Some new => upd cs d (Some new) | None => cs end
    | None => cs
    end
  | DidSave _ _ => cs
  | DidClose d => upd cs d None
  end.

Definition client (ns : list note) : cache := fold_left spec_step ns empty_cache.

(* what goes over the wire: JSON strings arrive in Go as UTF-8 *)
Definition enc_change (ch : change) : change := mkchange (c_range ch) (c_rlen ch) (utf8_of (c_text ch)).
Definition enc_note (n : note) : note :=
  match n with
  | DidOpen d t => DidOpen d (utf8_of t)
  | DidChange d chs => DidChange d (map enc_change chs)
  | DidSave d t => DidSave d (option_map utf8_of t)
  | DidClose d => DidClose d
  end.
Definition enc_cache (cs : cache) : cache := fun d => option_map utf8_of (cs d).

(* byte offset of index i *)
Definition blen (l : list N) : N := N.of_nat (length (utf8_of l)).
Definition spec_offsets (d : list N) (r : range) : option (N * N) :=
  match range_index d r with
  | Some (i, j) => Some (blen (firstn (N.to_nat i) d), blen (firstn (N.to_nat j) d))
  | None => None
  end.

(* ---- conformant histories: what a client that follows the protocol sends ---- *)
Fixpoint changes_ok (d : list N) (chs : list change) : bool :=
  match chs with
  | [] => true
  | ch :: t =>
    forallb scalar (c_text ch) &&
    match c_range ch with None => c_rlen ch =? 0 | Some _ => true end &&
    match spec_apply d ch with Some d' => changes_ok d' t | None => false end
  end.

Definition note_ok (cs : cache) (n : note) : bool :=
  match n with
  | DidOpen d t => is_lua d && forallb scalar t && match cs d with None => true | Some _ => false end
  | DidChange d chs => match cs d with Some cur => changes_ok cur chs | None => false end
  | DidSave d (Some t) => match cs d with Some cur => beq_bytes t cur | None => false end   (* includeText: true *)
  | DidSave d None => false
  | DidClose d => match cs d with Some _ => true | None => false end
  end.

Fixpoint conformant_from (cs : cache) (ns : list note) : bool :=
  match ns with
  | [] => true
  | n :: t => note_ok cs n && conformant_from (spec_step cs n) t
  end.
Definition conformant (ns : list note) : bool := conformant_from empty_cache ns.

(* ---- the guard: classes of text on which the code in /repo interprets positions differently ---- *)
Definition no_astral (d : list N) : bool := negb (existsb is_astral d).

(* no CR other than as the first half of CRLF *)
Fixpoint no_lone_cr_st (after_cr : bool) (d : list N) : bool :=
  match d with
  | [] => negb after_cr
  | c :: t => if after_cr then (c =? 10) && no_lone_cr_st false t else no_lone_cr_st (c =? 13) t
  end.
Definition no_lone_cr (d : list N) : bool := no_lone_cr_st false d.

Definition text_ok (fx : bool) (d : list N) : bool := fx || (no_astral d && no_lone_cr d).

(* every text in which a *range* is interpreted is in the class *)
Fixpoint changes_class_ok (P : list N -> bool) (d : list N) (chs : list change) : bool :=
  match chs with
  | [] => true
  | ch :: t =>
    match c_range ch with None => true | Some _ => P d end &&
    match spec_apply d ch with Some d' => changes_class_ok P d' t | None => true end
  end.

Definition note_class_ok (P : list N -> bool) (cs : cache) (n : note) : bool :=
  match n with
  | DidChange d chs => match cs d with Some cur => changes_class_ok P cur chs | None => true end
  | _ => true
  end.

Fixpoint class_ok_from (P : list N -> bool) (cs : cache) (ns : list note) : bool :=
  match ns with
  | [] => true
  | n :: t => note_class_ok P cs n && class_ok_from P (spec_step cs n) t
  end.
Definition class_ok (fx : bool) (ns : list note) : bool := class_ok_from (text_ok fx) empty_cache ns.

(* class predicates of the refuted theorems, as the correspondence driver reports them *)
Definition astral (ns : list note) : bool := negb (class_ok_from no_astral empty_cache ns).
Definition lone_cr (ns : list note) : bool := negb (class_ok_from no_lone_cr empty_cache ns).
Definition stale (fx : bool) (ns : list note) : bool := any_rejected fx empty_cache (map enc_note ns).

(* vocabulary of the statements in Properties/C02.v *)
Definition ins (l c : N) (t : list N) : change := mkchange (Some (mkrange (mkpos l c) (mkpos l c))) 0 t.
Definition server_text (fx : bool) (ns : list note) (d : N) : option (list N) :=
  match run fx empty_cache (map enc_note ns) with Ok s => s d | _ => None end.
Definition client_text (ns : list note) (d : N) : option (list N) := enc_cache (client ns) d.

(* witnesses of the refuted statements *)
(* "a\U0001F600b", the client inserts X at 0:3 (between the emoji and b) *)
Definition astral_witness : list note := [DidOpen 0 [97; 128512; 98]; DidChange 0 [ins 0 3 [88]]].
(* "a\rb", the client inserts X at 1:0 (before b) *)
Definition stale_witness : list note := [DidOpen 0 [97; 13; 98]; DidChange 0 [ins 1 0 [88]]].
