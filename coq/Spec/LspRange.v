(* C04: what it means for a reported range to "lie in the document and cover exactly the thing it names".
   Documents are code points (Spec/LspText.v: lines end at LF, CRLF or CR; columns in UTF-16 units). *)
From Coq Require Import List NArith ZArith Bool.
From LH Require Import Base.Bytes Base.Res Base.Utf8 Model.TextSync Spec.LspText Model.Lexer.
Import ListNotations.
Local Open Scope N_scope.

(* lspcommon.LocToRange: (StartLine-1, StartColumn) .. (EndLine-1, EndColumn); the Go conversion to uint32 of a
   negative number gives a huge value, which is outside every document: None *)
Definition loc_to_range (l : loc) : option range :=
  if ((sl l >=? 1) && (sc l >=? 0) && (el l >=? 1) && (ec l >=? 0))%Z
  then Some (mkrange (mkpos (Z.to_N (sl l - 1)) (Z.to_N (sc l))) (mkpos (Z.to_N (el l - 1)) (Z.to_N (ec l))))
  else None.

(* the text under a range: None if the range is not inside the document or has start > end *)
Definition slice_lsp (cps : list N) (r : range) : option (list N) :=
  match range_index cps r with
  | Some (i, j) => Some (utf8_of (firstn (N.to_nat (j - i)) (skipn (N.to_nat i) cps)))
  | None => None
  end.

(* a range designating a named entity is right iff it lies in the document, start <= end, and the text under
   it is exactly that name *)
Definition covers (cps : list N) (l : loc) (name : list N) : bool :=
  match loc_to_range l with
  | Some r => match slice_lsp cps r with Some s => beq_bytes s name | None => false end
  | None => false
  end.

(* tokens whose recorded text is their source text (strings are recorded decoded, illegal tokens cut) *)
Definition raw_kind (k : tkind) : bool :=
  match k with TkString | IKIllegal | TkEOF => false | _ => true end.

(* all tokens of the stand-alone token stream with the Loc GetNowTokenLoc gives them *)
Fixpoint tok_locs (prev : tok) (ts : list ltok) : list (tok * loc) :=
  match ts with
  | [] => []
  | t :: r => (lt t, tok_loc prev (lt t)) :: tok_locs (lt t) r
  end.

Definition all_tokens_covered (cps : list N) (ts : list ltok) : bool :=
  forallb (fun p => negb (raw_kind (tk (fst p))) || covers cps (snd p) (tstr (fst p))) (tok_locs zero_tok ts).

(* ---------------------------------------------------------------- the classes where the unchanged lexer deviates *)
Fixpoint has_pair (a b : N) (l : list N) : bool :=
  match l with
  | x :: ((y :: _) as t) => ((x =? a) && (y =? b)) || has_pair a b t
  | _ => false
  end.
Definition cls_escape (cps : list N) : bool := existsb (fun c => c =? 92) cps.             (* a backslash (string escapes) *)
Definition cls_long_bracket (cps : list N) : bool := has_pair 91 91 cps || has_pair 91 61 cps.   (* "[[" or "[=" *)
Definition cls_astral (cps : list N) : bool := existsb is_astral cps.
Definition cls_two_byte (cps : list N) : bool := existsb is_two_byte cps.
Definition cls_lfcr (cps : list N) : bool := has_pair 10 13 cps.
Definition cls_bom (cps : list N) : bool := match cps with 65279 :: _ => true | _ => false end.
Definition cls_lexerr (ts : list ltok) : bool :=
  existsb (fun t => match lerrs t with [] => false | _ => true end) ts.

Definition file_class_ok (cps : list N) : bool :=
  negb (cls_escape cps || cls_long_bracket cps || cls_astral cps || cls_two_byte cps || cls_lfcr cps || cls_bom cps).
