(* C19 - reference declaration list of a Lua file and what the property demands of an outline.

   Reading of the property text fixed here:
   * "top-level local": a name declared by a `local` / `local function` statement that is a direct statement of the
     file's main block. Every such declaration is demanded separately (DLocal, one declaring identifier).
   * "global variable": a name that occurs as an assignment target `n = ...` / `function n ... end` somewhere in the
     file (any depth) while no local of that name is in scope (standard Lua lexical scoping - the reference binder
     below). A global has no single declaration: one entry per name is demanded, located at ONE of these
     occurrences (DGlobal, candidates = all of them).
   * "function (including table members such as t.f and t:m)": the function-valued top-level locals / globals are
     already covered by the two items above; in addition every function-valued member at ANY depth, `function b.k`,
     `function b:k`, `function b.s.k`, `b.k = function ... end`, and the fields `k = function ... end` of a table
     constructor (nested constructors included) that is the value of a declaration / assignment of `b` or of a member
     of `b` - where `b` is a top-level local or a global (DFunc "b.k" / "b.s.k", candidates = the identifiers `k` of all
     such definitions).  `_G.n = v` assigns the global n and `_G.b.k` is the member b.k of the global b, whatever locals
     are in scope (unless `_G` itself is bound as a local).
   * workspace/symbol, "any global or function declared anywhere": every DGlobal and DFunc of every file, and every
     function-valued `local` declaration (`local function n`, `local n = function ... end`) at ANY nesting depth,
     each declaration separately (DLocalFn, one declaring identifier; no demand on the outline beyond DLocal).
   An outline covers a declaration iff it has an entry of that name (top-level entry, or child entry for DFunc) whose
   range is well formed (start <= end), lies inside the file and contains one of the candidate identifiers. *)
From Coq Require Import List NArith ZArith Bool.
From LH Require Import Base.Bytes Base.Res Model.Lexer Model.Ast.
Import ListNotations.

(* ------------------------------------------------------------------ reference binder *)
Inductive origin := Top | Inner.                      (* where the innermost binding of a name was declared *)
Definition lenv := list (bytes * origin).             (* innermost first *)

Fixpoint lookup (n : bytes) (e : lenv) : option origin :=
  match e with
  | [] => None
  | (m, o) :: e' => if beq_bytes n m then Some o else lookup n e'
  end.

Inductive occ :=
| OLocal (n : bytes) (l : loc)                        (* top-level local declaration *)
| OGlobal (n : bytes) (l : loc)                       (* assignment to a name that is not bound *)
| OFunc (b k : bytes) (l : loc)                       (* function-valued member b.k; b = the path of the table: t, t.s, .. *)
| OLocalFn (n : bytes) (l : loc).                     (* function-valued local declaration, any depth *)

Definition is_efunc (e : exp) : bool := match e with EFunc _ _ _ _ _ _ _ _ => true | _ => false end.

Definition member_key (b k : bytes) : bytes := b ++ [46%N] ++ k.

(* fields `k = function` of a table constructor, nested constructors included (fuel: nesting depth) *)
Fixpoint ctor_funcs (n : nat) (b : bytes) (ks : list (option exp)) (vs : list exp) {struct n} : list occ :=
  match n with
  | O => []
  | S n' =>
    match ks, vs with
    | Some (EStr k l) :: ks', v :: vs' =>
      (if is_efunc v then [OFunc b k l] else []) ++
      (match v with ETable ks2 vs2 _ => ctor_funcs n' (member_key b k) ks2 vs2 | _ => [] end) ++
      ctor_funcs n' b ks' vs'
    | _ :: ks', _ :: vs' => ctor_funcs n' b ks' vs'
    | _, _ => []
    end
  end.

Definition ctor_of (n : nat) (b : bytes) (v : option exp) : list occ :=
  match v with Some (ETable ks vs _) => ctor_funcs n b ks vs | _ => [] end.

(* `base.k1. ... .kn` with string keys: (base, [(k1, l1); ..; (kn, ln)]) *)
Fixpoint target_path (e : exp) : option (bytes * list (bytes * loc)) :=
  match e with
  | EName n _ => Some (n, [])
  | EIndex p (EStr k l) _ =>
    match target_path p with Some (b, ks) => Some (b, ks ++ [(k, l)]) | None => None end
  | _ => None
  end.

(* the member `b.k1. ... .kn = v` (n >= 1) of the table variable b *)
Definition member_occ (n : nat) (b : bytes) (ks : list (bytes * loc)) (v : option exp) : list occ :=
  match rev ks with
  | [] => []
  | (k, l) :: rpre =>
    let pre := fold_left member_key (map fst (rev rpre)) b in
    (match v with Some fv => if is_efunc fv then [OFunc pre k l] else [] | None => [] end) ++
    ctor_of n (member_key pre k) v
  end.

Definition s_G : bytes := [95; 71]%N.                  (* _G *)

(* function-valued names of `local n1, n2 = v1, v2` *)
Fixpoint local_fn_occs (nms : list bytes) (ls : list loc) (es : list exp) : list occ :=
  match nms, ls, es with
  | nm :: nms', l :: ls', e :: es' => (if is_efunc e then [OLocalFn nm l] else []) ++ local_fn_occs nms' ls' es'
  | _, _, _ => []
  end.

Definition add_names (ns : list bytes) (o : origin) (e : lenv) : lenv := rev (map (fun n => (n, o)) ns) ++ e.

Fixpoint iter_occ {A} (f : A -> list occ) (l : list A) : list occ :=
  match l with [] => [] | a :: l' => f a ++ iter_occ f l' end.

(* occurrences inside an expression / statement / block; `top` = the block is the file's main block.
   Fuel: the nesting depth of the syntax tree (fuel_of in Model/Symbols.v is far above it). *)
Fixpoint occ_exp (n : nat) (env : lenv) (e : exp) {struct n} : list occ :=
  match n with
  | O => []
  | S n' =>
    match e with
    | EUnop _ e1 _ | EParens e1 _ => occ_exp n' env e1
    | EBinop _ e1 e2 _ | EIndex e1 e2 _ => occ_exp n' env e1 ++ occ_exp n' env e2
    | ETable ks vs _ =>
      iter_occ (fun k => match k with Some ke => occ_exp n' env ke | None => [] end) ks ++ iter_occ (occ_exp n' env) vs
    | EFunc _ _ pars _ b _ _ _ => occ_block n' false (add_names pars Inner env) b
    | ECall p _ args _ => occ_exp n' env p ++ iter_occ (occ_exp n' env) args
    | _ => []
    end
  end

with occ_stats (n : nat) (top : bool) (env : lenv) (ss : list stat) (ret : option (list exp)) {struct n} : list occ :=
  match n with
  | O => []
  | S n' =>
    match ss with
    | [] => match ret with Some es => iter_occ (occ_exp n' env) es | None => [] end     (* `return` sees every local *)
    | st :: ss' =>
      let here := if top then Top else Inner in
      let ex := occ_exp n' env in
      let blk := occ_block n' false in
      match st with
      | SLocal nms ls _ es _ =>
        iter_occ ex es ++
        (if top then map (fun nl => OLocal (fst nl) (snd nl)) (combine nms ls) else []) ++
        (local_fn_occs nms ls es ++
         (if top then match nms, es with
                      | [b], [v] => ctor_of n' b (Some v)
                      | _, _ => [] end else [])) ++
        occ_stats n' top (add_names (map fst (combine nms ls)) here env) ss' ret
      | SLocalFunc nm nl f _ =>
        let env1 := (nm, here) :: env in
        (if top then [OLocal nm nl] else []) ++ (OLocalFn nm nl :: occ_exp n' env1 f) ++ occ_stats n' top env1 ss' ret
      | SAssign vars es _ =>
        iter_occ ex es ++
        iter_occ (fun te =>
                    let t := fst te in
                    let v := snd te in
                    match target_path t with
                    | Some (nm, []) =>
                      match t, lookup nm env with
                      | EName _ l, None => OGlobal nm l :: ctor_of n' nm v
                      | _, Some Top => ctor_of n' nm v
                      | _, _ => []
                      end
                    | Some (b, (k1, l1) :: ks) =>
                      if beq_bytes b s_G && match lookup b env with None => true | Some _ => false end then
                        (* the table of globals *)
                        match ks with
                        | [] => OGlobal k1 l1 :: ctor_of n' k1 v
                        | _ => member_occ n' k1 ks v
                        end
                      else
                        match lookup b env with
                        | Some Inner => []
                        | _ => member_occ n' b ((k1, l1) :: ks) v
                        end
                    | None => match t with EIndex p k _ => ex p ++ ex k | _ => [] end
                    end)
                 (combine vars (map Some es ++ repeat None (length vars))) ++
        occ_stats n' top env ss' ret
      | SCall e => ex e ++ occ_stats n' top env ss' ret
      | SDo b _ => blk env b ++ occ_stats n' top env ss' ret
      | SWhile e b _ => ex e ++ blk env b ++ occ_stats n' top env ss' ret
      | SRepeat b e _ =>
        (* the condition sees the locals of the body *)
        (match b with Block bs r l => occ_block n' false env (Block (bs ++ [SCall e]) r l) end) ++
        occ_stats n' top env ss' ret
      | SIf es bs _ => iter_occ ex es ++ iter_occ (blk env) bs ++ occ_stats n' top env ss' ret
      | SForNum nm _ e1 e2 e3 b _ =>
        ex e1 ++ ex e2 ++ ex e3 ++ blk ((nm, Inner) :: env) b ++ occ_stats n' top env ss' ret
      | SForIn nms _ es b _ =>
        iter_occ ex es ++ blk (add_names nms Inner env) b ++ occ_stats n' top env ss' ret
      | SBreak | SLabel _ _ | SGoto _ _ => occ_stats n' top env ss' ret
      end
    end
  end

with occ_block (n : nat) (top : bool) (env : lenv) (b : block) {struct n} : list occ :=
  match n with
  | O => []
  | S n' =>
    match b with
    | Block ss ret _ => occ_stats n' top env ss ret
    end
  end.

Definition occs (fuel : nat) (b : block) : list occ := occ_block fuel true [] b.

(* ------------------------------------------------------------------ declarations *)
Inductive dkind := DLocal | DGlobal | DFunc | DLocalFn.
Record decl := mkD { d_kind : dkind; d_key : bytes; d_locs : list loc }.

Fixpoint add_cand (kd : dkind) (key : bytes) (l : loc) (ds : list decl) : list decl :=
  match ds with
  | [] => [mkD kd key [l]]
  | d :: ds' =>
    if (match d_kind d, kd with DGlobal, DGlobal => true | DFunc, DFunc => true | _, _ => false end) && beq_bytes (d_key d) key
    then mkD kd key (d_locs d ++ [l]) :: ds'
    else d :: add_cand kd key l ds'
  end.

Definition decls_of (os : list occ) : list decl :=
  fold_left (fun ds o => match o with
                         | OLocal n l => ds ++ [mkD DLocal n [l]]
                         | OGlobal n l => add_cand DGlobal n l ds
                         | OFunc b k l => add_cand DFunc (member_key b k) l ds
                         | OLocalFn n l => ds ++ [mkD DLocalFn n [l]]
                         end) os [].

Definition decls_spec (fuel : nat) (b : block) : list decl := decls_of (occs fuel b).

(* ------------------------------------------------------------------ what an outline must do *)
(* an outline entry as far as the property looks at it *)
Record entry := mkE { e_local : bool;      (* listed as a local ("local " prefix) *)
                      e_child : bool;      (* child entry (member) *)
                      e_key : bytes;       (* undecorated name: n, or b.k for a member *)
                      e_range : loc }.     (* in Loc conventions: lines from 1, columns from 0 *)

Definition pos_le (l1 c1 l2 c2 : Z) : bool := (l1 <? l2)%Z || ((l1 =? l2)%Z && (c1 <=? c2)%Z).
Definition well_formed (r : loc) : bool := pos_le (sl r) (sc r) (el r) (ec r).
Definition contains (r i : loc) : bool :=
  pos_le (sl r) (sc r) (sl i) (sc i) && pos_le (el i) (ec i) (el r) (ec r).

(* line_lens = number of characters of each line of the file (line 1 first) *)
Definition pos_inside (line_lens : list Z) (l c : Z) : bool :=
  (1 <=? l)%Z && (0 <=? c)%Z &&
  match nth_error line_lens (Z.to_nat (l - 1)) with Some len => (c <=? len)%Z | None => false end.
Definition inside (line_lens : list Z) (r : loc) : bool :=
  pos_inside line_lens (sl r) (sc r) && pos_inside line_lens (el r) (ec r).

Definition good_range (line_lens : list Z) (d : decl) (r : loc) : bool :=
  well_formed r && inside line_lens r && existsb (contains r) (d_locs d).

Definition entry_for (d : decl) (e : entry) : bool :=
  beq_bytes (e_key e) (d_key d) &&
  match d_kind d with
  | DLocal => e_local e && negb (e_child e)
  | DGlobal => negb (e_local e) && negb (e_child e)
  | DFunc => e_child e
  | DLocalFn => false                 (* demanded of workspace/symbol only *)
  end.

Inductive verdict := Covered | Missing | BadRange.

Definition judge_decl (line_lens : list Z) (es : list entry) (d : decl) : verdict :=
  let cands := filter (entry_for d) es in
  match cands with
  | [] => Missing
  | _ => if existsb (fun e => good_range line_lens d (e_range e)) cands then Covered else BadRange
  end.

Definition outline_demand (d : decl) : bool := match d_kind d with DLocalFn => false | _ => true end.

Definition covers (line_lens : list Z) (es : list entry) (ds : list decl) : bool :=
  forallb (fun d => negb (outline_demand d) || match judge_decl line_lens es d with Covered => true | _ => false end) ds.

(* character counts of the lines of an ASCII file (LF or CRLF line ends) *)
Fixpoint line_lens_aux (bs : list N) (cur : Z) : list Z :=
  match bs with
  | [] => [cur]
  | 10%N :: bs' => cur :: line_lens_aux bs' 0
  | 13%N :: ((10%N :: _) as bs') => line_lens_aux bs' cur
  | _ :: bs' => line_lens_aux bs' (cur + 1)
  end.
Definition line_lens (bs : list N) : list Z := line_lens_aux bs 0.

(* workspace/symbol: the answer to the exact name of a declared global / function must contain an entry of that
   name whose range is one of the declaring identifiers *)
Record wentry := mkWE { we_file : nat; we_name : bytes; we_range : loc }.
Definition loc_eqb (a b : loc) : bool := (sl a =? sl b)%Z && (sc a =? sc b)%Z && (el a =? el b)%Z && (ec a =? ec b)%Z.
Definition ws_covers (file : nat) (d : decl) (ans : list wentry) : bool :=
  existsb (fun w => Nat.eqb (we_file w) file && beq_bytes (we_name w) (d_key d) && existsb (loc_eqb (we_range w)) (d_locs d)) ans.
