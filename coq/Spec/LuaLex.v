(* The lexical grammar of Lua 5.3/5.4 (reference manual, section 3.1 "Lexical Conventions") over BYTES, plus the
   LuaJIT `LL` / `ULL` numeral suffix characters of the supported language (Spec/LuaNumeral.v).

   Style: as in Spec/LuaGrammar.v every class is a LONGEST-MATCH relation  X bs r :
       "the byte string bs starts with an X, and r is what follows that X".
   The manual leaves "where a token ends" to the reference lexer (llex.c); the rule that ends a run carries that
   disambiguation as a side condition on the head of r (maximal munch):
     - white space / line breaks / comments are skipped as far as possible (Sep);
     - a name is the longest run of letters, digits and underscores; it is a keyword iff it is one of the 22 words;
     - an operator is the LONGEST entry of the operator table that is a prefix of the text (`...` before `..` before `.`),
       except that `.` before a digit starts a numeral and `[` before `[` or `=` starts a long bracket;
     - a numeral is cut by the reference lexer's scan (read_numeral of Lua 5.3: hex digits, `.`, an exponent mark with an
       optional sign - `e E`, after `0x`: `p P` -, and the LuaJIT suffix letters `u l`); whether the text that was cut IS
       a numeral (Spec/LuaNumeral.v) is checked on the token, as in the reference lexer (`NumbersValid`, and `num_ok` of
       Spec/LuaGrammar.v at the token level);
     - a short string ends at the first unescaped quote; a raw line break inside it is an error; the escape sequences
       are a parameter `Esc` of the grammar: `EscLua` is the manual's list;
     - a long bracket of level n ends at the FIRST closing bracket of level n (shortest match); `--` followed by an
       opening long bracket is a long comment, any other `--` a comment up to the end of the line.
   A byte string that cannot be split this way (unfinished string or long bracket, `[=` without the second `[`, a byte
   that starts no token) has no token sequence: `LexesTo bs ts` holds for no ts.

   Where Lua 5.3 and 5.4 differ (5.4 also rejects a numeral that touches a letter, `3x`), the 5.3 reading is taken. *)
From Coq Require Import Ascii String List NArith Bool.
From LH Require Import Base.Bytes Model.Lexer Spec.LuaNumeral.
Import ListNotations.
Local Open Scope N_scope.

(* text of a literal, for the two tables below *)
Fixpoint txt (s : string) : list N :=
  match s with EmptyString => [] | String a r => N_of_ascii a :: txt r end.

(* ------------------------------------------------------------------ character classes *)
Definition lx_space (c : N) : bool := (c =? 32) || (c =? 9) || (c =? 11) || (c =? 12).       (* ' ' \t \v \f *)
Definition lx_newline (c : N) : bool := (c =? 10) || (c =? 13).                              (* \n \r *)
Definition lx_blank (c : N) : bool := lx_space c || lx_newline c.
Definition lx_digit (c : N) : bool := (48 <=? c) && (c <=? 57).
Definition lx_xdigit (c : N) : bool := lx_digit c || ((97 <=? c) && (c <=? 102)) || ((65 <=? c) && (c <=? 70)).
Definition lx_alpha (c : N) : bool := ((97 <=? c) && (c <=? 122)) || ((65 <=? c) && (c <=? 90)) || (c =? 95).
Definition lx_alnum (c : N) : bool := lx_alpha c || lx_digit c.
Definition lx_sign (c : N) : bool := (c =? 43) || (c =? 45).                                 (* + - *)

(* the next byte satisfies p (false at the end of the text) *)
Definition hd_is (p : N -> bool) (l : list N) : bool := match l with c :: _ => p c | [] => false end.
(* l starts with p *)
Definition starts (p l : list N) : Prop := exists q, l = p ++ q.
Fixpoint startsb (p l : list N) : bool :=
  match p with
  | [] => true
  | c :: p' => match l with x :: l' => (x =? c) && startsb p' l' | [] => false end
  end.
(* what an X consumed: bs without its remainder r *)
Definition consumed (bs r : list N) : list N := firstn (length bs - length r) bs.

(* ------------------------------------------------------------------ long brackets *)
Definition lb_open (n : nat) : list N := 91 :: repeat 61 n ++ [91].          (* [ =^n [ *)
Definition lb_close (n : nat) : list N := 93 :: repeat 61 n ++ [93].         (* ] =^n ] *)
Definition opens_long (l : list N) : Prop := exists n, starts (lb_open n) l.

(* the closing bracket occurs in  body ++ closing  at the very end only *)
Inductive LongBracket : list N -> list N -> Prop :=
| LB n body r :
    (forall i, (i < length body)%nat -> ~ starts (lb_close n) (skipn i (body ++ lb_close n))) ->
    LongBracket (lb_open n ++ body ++ lb_close n ++ r) r.

(* ------------------------------------------------------------------ comments, separators *)
Inductive Comment : list N -> list N -> Prop :=
| Cm_long bs r : LongBracket bs r -> Comment (45 :: 45 :: bs) r
| Cm_short body r :
    ~ opens_long (body ++ r) -> forallb (fun c => negb (lx_newline c)) body = true ->
    r = [] \/ hd_is lx_newline r = true ->
    Comment (45 :: 45 :: body ++ r) r.

Inductive Sep : list N -> list N -> Prop :=
| Sep_end r : hd_is lx_blank r = false -> ~ starts [45; 45] r -> Sep r r
| Sep_blank c bs r : lx_blank c = true -> Sep bs r -> Sep (c :: bs) r
| Sep_comment bs r1 r : Comment bs r1 -> Sep r1 r -> Sep bs r.

(* ------------------------------------------------------------------ names and keywords *)
Definition lx_keywords : list (list N * tkind) :=
  [ (txt "and", TkOpAnd); (txt "break", TkKwBreak); (txt "do", TkKwDo); (txt "else", TkKwElse);
    (txt "elseif", TkKwElseif); (txt "end", TkKwEnd); (txt "false", TkKwFalse); (txt "for", TkKwFor);
    (txt "function", TkKwFunction); (txt "goto", TkKwGoto); (txt "if", TkKwIf); (txt "in", TkKwIn);
    (txt "local", TkKwLocal); (txt "nil", TkKwNil); (txt "not", TkOpNot); (txt "or", TkOpOr);
    (txt "repeat", TkKwRepeat); (txt "return", TkKwReturn); (txt "then", TkKwThen); (txt "true", TkKwTrue);
    (txt "until", TkKwUntil); (txt "while", TkKwWhile) ].
Definition name_kind (w : list N) : tkind :=
  match find (fun p => beq_bytes w (fst p)) lx_keywords with Some p => snd p | None => TkIdentifier end.

(* ------------------------------------------------------------------ operators and punctuation, longest first *)
Definition lx_operators : list (list N * tkind) :=
  [ (txt "...", TkVararg);
    (txt "..", TkOpConcat); (txt "::", TkSepLabel); (txt "//", TkOpIdiv); (txt "~=", TkOpNe); (txt "==", TkOpEq);
    (txt "<<", TkOpShl); (txt "<=", TkOpLe); (txt ">>", TkOpShr); (txt ">=", TkOpGe);
    (txt ";", TkSepSemi); (txt ",", TkSepComma); (txt ".", TkSepDot); (txt ":", TkSepColon);
    (txt "(", TkSepLparen); (txt ")", TkSepRparen); (txt "[", TkSepLbrack); (txt "]", TkSepRbrack);
    (txt "{", TkSepLcurly); (txt "}", TkSepRcurly);
    (txt "=", TkOpAssign); (txt "-", TkOpMinus); (txt "~", TkOpWave); (txt "+", TkOpAdd); (txt "*", TkOpMul);
    (txt "/", TkOpDiv); (txt "^", TkOpPow); (txt "%", TkOpMod); (txt "&", TkOpBand); (txt "|", TkOpBor);
    (txt "<", TkOpLt); (txt ">", TkOpGt); (txt "#", TkOpNen) ].
(* the longest operator the text starts with *)
Definition op_match (bs : list N) : option (list N * tkind) := find (fun p => startsb (fst p) bs) lx_operators.
(* ... unless the text starts something longer of another class *)
Definition not_an_operator (bs : list N) : bool :=
  match bs with
  | c :: d :: _ => ((c =? 46) && lx_digit d)                   (* .5   : numeral *)
                   || ((c =? 91) && ((d =? 91) || (d =? 61)))  (* [[ [= : long bracket (or an error) *)
                   || ((c =? 45) && (d =? 45))                 (* --   : comment *)
  | _ => false
  end.

(* ------------------------------------------------------------------ numerals: where the reference lexer cuts *)
(* characters that continue a numeral: hex digits, the radix point, LuaJIT's u U l L *)
Definition lx_numch (c : N) : bool :=
  lx_xdigit c || (c =? 46) || (c =? 117) || (c =? 85) || (c =? 108) || (c =? 76).
Definition expo_dec (c : N) : bool := (c =? 101) || (c =? 69).       (* e E *)
Definition expo_hex (c : N) : bool := (c =? 112) || (c =? 80).       (* p P *)
(* read_numeral's loop (Lua 5.3): [exponent mark [sign]] then one numeral character, as long as there is one *)
Fixpoint num_tail (expo : N -> bool) (l : list N) : nat :=
  match l with
  | [] => 0
  | c :: t =>
    if expo c then
      match t with
      | s :: t' =>
        if lx_sign s
        then match t' with
             | d :: t'' => if lx_numch d then S (S (S (num_tail expo t''))) else 2
             | [] => 2
             end
        else if lx_numch s then S (S (num_tail expo t')) else 1
      | [] => 1
      end
    else if lx_numch c then S (num_tail expo t) else 0
  end%nat.
Definition num_starts (bs : list N) : bool :=
  match bs with
  | c :: t => lx_digit c || ((c =? 46) && hd_is lx_digit t)
  | [] => false
  end.
(* length of the numeral the text starts with: an optional leading point, the first digit, `x` after a first `0` *)
Definition num_len (bs : list N) : nat :=
  let after_first (d : N) (t : list N) : nat :=
    match t with
    | x :: t' => if (d =? 48) && ((x =? 120) || (x =? 88)) then S (S (num_tail expo_hex t')) else S (num_tail expo_dec t)
    | [] => 1
    end%nat in
  match bs with
  | c :: t => if c =? 46 then match t with d :: t' => S (after_first d t') | [] => 1%nat end
              else after_first c t
  | [] => 0%nat
  end.

(* ------------------------------------------------------------------ escape sequences of the manual *)
(* Esc e r : after a backslash the text e ++ r starts with the escape sequence e *)
Definition simple_escape (c : N) : bool :=
  existsb (fun x => x =? c) (txt "abfnrtv\""'").
Inductive EscLua : list N -> list N -> Prop :=
| El_simple c r : simple_escape c = true -> EscLua [c] r                              (* \a \b \f \n \r \t \v, escaped backslash, double and single quote *)
| El_newline c r : lx_newline c = true -> hd_is lx_newline r = false \/ hd_is (N.eqb c) r = true ->
                   EscLua [c] r                                                        (* backslash + line break *)
| El_newline2 c d r : lx_newline c = true -> lx_newline d = true -> c <> d -> EscLua [c; d] r    (* \r\n or \n\r *)
| El_z ws r : forallb lx_blank ws = true -> hd_is lx_blank r = false -> EscLua (122 :: ws) r      (* \z + white space *)
| El_hex h1 h2 r : lx_xdigit h1 = true -> lx_xdigit h2 = true -> EscLua [120; h1; h2] r           (* \xXX *)
| El_dec ds r : ds <> [] -> forallb lx_digit ds = true -> (length ds <= 3)%nat ->
                length ds = 3%nat \/ hd_is lx_digit r = false ->
                num_value 10 ds <= 255 -> EscLua ds r                                  (* \d \dd \ddd, at most 255 *)
| El_utf8 hs r : hs <> [] -> forallb lx_xdigit hs = true ->
                 num_value 16 (map num_lc hs) < 2147483648 ->
                 EscLua (117 :: 123 :: hs ++ [125]) r.                                 (* \u{XXX}, below 2^31 *)

(* ------------------------------------------------------------------ tokens *)
Record stok := mkS { sk : tkind; stxt : list N }.      (* kind and lexeme *)

Section Grammar.
  Variable Esc : list N -> list N -> Prop.

  (* after the opening quote q: string items up to the closing quote *)
  Inductive StrItems (q : N) : list N -> list N -> Prop :=
  | SI_close r : StrItems q (q :: r) r
  | SI_plain c bs r : c <> q -> c <> 92 -> lx_newline c = false -> StrItems q bs r -> StrItems q (c :: bs) r
  | SI_esc e bs r : Esc e bs -> StrItems q bs r -> StrItems q (92 :: e ++ bs) r.

  Inductive Token : stok -> list N -> list N -> Prop :=
  | Tk_name c body r :
      lx_alpha c = true -> forallb lx_alnum body = true -> hd_is lx_alnum r = false ->
      Token (mkS (name_kind (c :: body)) (c :: body)) (c :: body ++ r) r
  | Tk_number bs :
      num_starts bs = true ->
      Token (mkS TkNumber (firstn (num_len bs) bs)) bs (skipn (num_len bs) bs)
  | Tk_op bs w k :
      op_match bs = Some (w, k) -> not_an_operator bs = false ->
      Token (mkS k w) bs (skipn (length w) bs)
  | Tk_short q bs r :
      q = 34 \/ q = 39 -> StrItems q bs r ->
      Token (mkS TkString (consumed (q :: bs) r)) (q :: bs) r
  | Tk_long bs r :
      LongBracket bs r ->
      Token (mkS TkString (consumed bs r)) bs r.

  (* the whole text: separators, token, ..., separators *)
  Inductive Lex : list N -> list stok -> Prop :=
  | Lex_end bs : Sep bs [] -> Lex bs []
  | Lex_token bs r1 t r ts : Sep bs r1 -> Token t r1 r -> Lex r ts -> Lex bs (t :: ts).
End Grammar.

(* a file may start with a UTF-8 byte order mark and then a `#` line (skipped up to its line break) *)
Definition strip_bom (bs : list N) : list N := match bs with 239 :: 187 :: 191 :: t => t | _ => bs end.
Fixpoint drop_line (l : list N) : list N :=
  match l with c :: t => if lx_newline c then l else drop_line t | [] => [] end.
Definition strip_first_line (bs : list N) : list N :=
  match bs with c :: t => if c =? 35 then drop_line t else bs | [] => [] end.

Definition LexesToWith (Esc : list N -> list N -> Prop) (bs : list N) (ts : list stok) : Prop :=
  Lex Esc (strip_first_line (strip_bom bs)) ts.
Definition LexesTo : list N -> list stok -> Prop := LexesToWith EscLua.

(* every numeral token is a numeral of Spec/LuaNumeral.v *)
Definition NumbersValid (ts : list stok) : Prop := Forall (fun t => sk t = TkNumber -> Numeral (stxt t)) ts.

(* ------------------------------------------------------------------ the guard of the soundness theorem *)
(* the text after a backslash starts with an escape sequence of the manual *)
Fixpoint take_while (p : N -> bool) (l : list N) : list N :=
  match l with c :: t => if p c then c :: take_while p t else [] | [] => [] end.
Definition legal_escape (l : list N) : bool :=
  match l with
  | [] => false
  | c :: t =>
    if simple_escape c || lx_newline c || (c =? 122) then true
    else if c =? 120 then match t with h1 :: h2 :: _ => lx_xdigit h1 && lx_xdigit h2 | _ => false end
    else if lx_digit c then num_value 10 (firstn 3 (take_while lx_digit l)) <=? 255
    else if c =? 117 then
      match t with
      | b :: t' => let hs := take_while lx_xdigit t' in
                   (b =? 123) && negb (match hs with [] => true | _ => false end)
                   && hd_is (N.eqb 125) (skipn (length hs) t') && (num_value 16 (map num_lc hs) <? 2147483648)
      | [] => false
      end
    else false
  end.
(* every backslash that is not itself escaped by a backslash (odd position in its run of backslashes) starts a legal
   escape sequence. Context free on purpose: it constrains the backslashes of comments and long strings as well, which
   makes it a SUFFICIENT guard that needs no tokenisation. `esc` = the previous byte was an escaping backslash. *)
Fixpoint no_bad_escape_from (esc : bool) (l : list N) : bool :=
  match l with
  | [] => true
  | c :: t =>
    if esc then (legal_escape l) && no_bad_escape_from false t
    else if c =? 92 then no_bad_escape_from true t
    else no_bad_escape_from false t
  end.
Definition no_bad_escape (bs : list N) : bool := no_bad_escape_from false bs.
