(* Reference binder for the WIDE fragment of the binder family (C05 C06 C11 C12 C14).
   Adds to Spec/LuaScope.v:
     - `_G.name` (read or assignment target, `_G` itself never declared as a local - guaranteed by `in_wide`) is an
       occurrence of the GLOBAL `name`, whatever locals are in scope (Lua semantics: `_G` is the globals table);
     - plain names inside table constructors, index expressions, method calls, `function t.f()` / `function t:m()` are
       ordinary occurrences (LuaScope.b_exp already walks those nodes);
   field names, method names and the synthetic `self` parameter are not occurrences anyone may ask about (the request
   models answer SKIP there).
   `bw_exp` / `bw_stat` / `bw_block` are copies of LuaScope.b_exp / b_stat / b_block; the only new cases are marked NEW.
   Proofs/WideNarrow.v: `in_fragment b = true -> in_wide b = true` and `bind_file_wide b = bind_file b` on every chunk
   without a `_G.name` node (in particular on the narrow fragment). *)
From Coq Require Import List NArith ZArith Bool.
From LH Require Import Base.Bytes Model.Lexer Model.Ast Model.Scope Model.Resolve Model.ResolveWide Spec.LuaScope.
Import ListNotations.
Local Open Scope Z_scope.

(* the two occurrences of `_G.x`: the name `_G` (a global, like any undeclared name) and the global x *)
Definition g_occs (flv slv : Z) (reg : loc) (en : env) (r : role) (gl : loc) (x : list N) (xl : loc) : list socc :=
  [mkS gl name_G (resolve en name_G) RRead flv slv reg false [] en;
   mkS xl x (BGlobal x) r flv slv reg false [] en].

(* class B1 in the wide fragment (since fixes/C05-own-initialiser.diff).  The server hides the variables of a `local`
   statement from every position of its initialiser list (VarInfo.InitLoc) - EXCEPT that the variable n_i stays
   visible inside its own initialiser e_i when e_i is a table constructor (VarInfo.InitTableLoc: key completion looks
   the variable up from inside the constructor, test TestCompleteTableKey).  A use of n_i in there, `local t = {t}`,
   still resolves to the new variable instead of the outer one: the only shape that keeps tag CB1. *)
Definition tag_local_init_w (en : env) (ns : list (list N)) (i : nat) (e : exp) (os : list socc) : list socc :=
  match e with
  | ETable _ _ _ => tag_if (fun o => outer_use en o && Nat.ltb i (length ns) && beq_bytes (nth i ns []) (s_name o)) CB1 os
  | _ => tag_local_init en ns i e os
  end.

Fixpoint bw_exp (flv slv : Z) (reg : loc) (e : exp) (en : env) {struct e} : list socc :=
  match e with
  | EName n l => [mkS l n (resolve en n) RRead flv slv reg false [] en]
  | EParens e1 _ => bw_exp flv slv reg e1 en
  | EUnop _ e1 _ => bw_exp flv slv reg e1 en
  | EBinop _ e1 e2 _ => bw_exp flv slv reg e1 en ++ bw_exp flv slv reg e2 en
  | EIndex p k _ =>
    match g_key e with
    | Some (gl, x, xl) => g_occs flv slv reg en RRead gl x xl                                          (* NEW *)
    | None => bw_exp flv slv reg p en ++ bw_exp flv slv reg k en
    end
  | ECall p _ args _ => bw_exp flv slv reg p en ++ flat_map (fun a => bw_exp flv slv reg a en) args
  | ETable ks vs _ =>
    flat_map (fun k => match k with Some k' => bw_exp flv slv reg k' en | None => [] end) ks
             ++ flat_map (fun v => bw_exp flv slv reg v en) vs
  | EFunc _ _ pars plocs b l _ _ =>
    let pl := combine pars plocs in
    map (decl_occ en (flv + 1) 0 l false) pl
        ++ snd (bw_block (flv + 1) 0 l b (push_decls en pl (map (fun _ => false) pl)))
  | _ => []
  end
with bw_stat (flv slv : Z) (reg : loc) (s : stat) (en : env) {struct s} : bres :=
  match s with
  | SBreak | SLabel _ _ | SGoto _ _ => (en, [])
  | SDo b l => (en, snd (bw_block flv (slv + 1) l b en))
  | SCall e => (en, bw_exp flv slv reg e en)
  | SIf es bs _ =>
    (en, flat_map (fun e => bw_exp flv slv reg e en) es
                  ++ flat_map (fun b => snd (bw_block flv (slv + 1) (block_loc b) b en)) bs)
  | SWhile e b l => (en, bw_exp flv slv reg e en ++ snd (bw_block flv (slv + 1) l b en))
  | SRepeat b e l =>
    let (en1, os) := bw_block flv (slv + 1) l b en in
    (en, os ++ bw_exp flv (slv + 1) l e en1)
  | SForNum n vl e1 e2 e3 b l =>
    let bounds := bw_exp flv slv reg e1 en ++ bw_exp flv slv reg e2 en ++ bw_exp flv slv reg e3 en in
    (en, tag_if (fun o => outer_use en o && beq_bytes (s_name o) n) CB2 bounds
                ++ decl_occ en flv (slv + 1) l false (n, vl)
                :: snd (bw_block flv (slv + 1) l b (push_decls en [(n, vl)] [false])))
  | SForIn ns ls es b l =>
    let its := flat_map (fun e => bw_exp flv slv reg e en) es in
    let nls := combine ns ls in
    (en, tag_if (fun o => outer_use en o && name_in (s_name o) ns) CB2 its
                ++ map (decl_occ en flv (slv + 1) l false) nls
                ++ snd (bw_block flv (slv + 1) l b (push_decls en nls (map (fun _ => false) nls))))
  | SAssign vars es _ =>
    let eocc := map (fun e => (e, bw_exp flv slv reg e en)) es in
    let b4 (i : nat) (os : list socc) : list socc :=
        match nth_error vars i, nth_error es i with
        | Some (EName n _), Some e =>
          match env_find en n, ref_of_exp e with
          | Some (_, d, true), (RFunc _ | RName _ | RCall _) =>
            tag_if (fun o => binding_eqb (s_bind o) (BLocal d) && loc_contains (exp_loc e) (s_loc o)) CB4 os
          | _, _ => os
          end
        | _, _ => os
        end in
    let tocc := index_map (fun i v =>
                  match v with
                  | EName n l => b4 i [mkS l n (resolve en n) RWrite flv slv reg false [] en]
                  | EIndex p k _ =>
                    match g_key v with
                    | Some (gl, x, xl) => g_occs flv slv reg en RWrite gl x xl                       (* NEW *)
                    | None => bw_exp flv slv reg p en ++ bw_exp flv slv reg k en
                    end
                  | _ => []
                  end) O vars in
    (en, concat tocc ++ concat (index_map (fun i eo => b4 i (snd eo)) O eocc))
  | SLocal ns ls _ es _ =>
    let nls := combine ns ls in
    let empties := local_empties ns es in
    let eocc := map (fun e => (e, bw_exp flv slv reg e en)) es in
    (push_decls en nls empties,
     concat (index_map (fun i eo => tag_local_init_w en ns i (fst eo) (snd eo)) O eocc)
            ++ map (fun x => decl_occ en flv slv reg (snd x) (fst x)) (combine nls empties))
  | SLocalFunc n nl f _ =>
    let en1 := push_decls en [(n, nl)] [false] in
    (en1, decl_occ en flv slv reg false (n, nl) :: bw_exp flv slv reg f en1)
  end
with bw_block (flv slv : Z) (reg : loc) (b : block) (en : env) {struct b} : bres :=
  match b with
  | Block ss ret _ =>
    let (en1, os) := seq_stats (map (fun s => bw_stat flv slv reg s) ss) en in
    match ret with
    | Some es => (en1, os ++ flat_map (fun e => bw_exp flv slv reg e en1) es)
    | None => (en1, os)
    end
  end.

Definition bind_file_wide (b : block) : list socc := snd (bw_block 0 0 (block_loc b) b []).

(* ------------------------------------------------------------------ the wide fragment *)
Local Open Scope N_scope.

(* a field / method name or the x of `_G.x`: an identifier that is none of the special names *)
Definition wide_key (s : list N) : bool := is_ident s && frag_name s.

Definition is_str (e : exp) : bool := match e with EStr _ _ => true | _ => false end.

Fixpoint wide_exp (e : exp) {struct e} : bool :=
  match e with
  | ENil _ | ETrue _ | EFalse _ | EVararg _ | EInt _ _ | EFloat _ _ => true
  | EBad _ => false
  | EStr s _ => forallb frag_str_byte s
  | EUnop _ e1 _ => wide_exp e1
  | EBinop _ e1 e2 _ => wide_exp e1 && wide_exp e2
  | EParens e1 _ => wide_exp e1
  | EName n _ => frag_name n
  | EIndex p k _ =>
    match g_key e with
    | Some (_, x, _) => wide_key x                                   (* `_G.x`: the only place where `_G` may occur *)
    | None => wide_exp p && wide_exp k
    end
  | ECall p m args _ =>
    wide_exp p && match m with Some (mn, _) => wide_key mn | None => true end && forallb wide_exp args
  | ETable ks vs _ =>
    (* positional values, `k = v`, and `[e] = v` with a key that creates no function scope (the server visits key and
       value of each field in turn, Scope.tr_exp all keys first: without scopes in the keys the difference is invisible) *)
    forallb (fun k => match k with Some k' => wide_exp k' && negb (has_func k') | None => true end) ks
    && forallb wide_exp vs
  | EFunc _ _ pars _ b _ _ colon =>
    (* `function t:m()`: the parser puts the synthetic parameter `self` first *)
    (if colon then match pars with p :: ps => beq_bytes p [115;101;108;102] && forallb frag_name ps | [] => false end
     else forallb frag_name pars)
    && wide_block b
  end
with wide_stat (s : stat) {struct s} : bool :=
  match s with
  | SBreak => true
  | SLabel _ _ | SGoto _ _ => false
  | SDo b _ => wide_block b
  | SCall e => match e with ECall _ _ _ _ => wide_exp e | _ => false end
  | SIf es bs _ => forallb wide_exp es && forallb wide_block bs
  | SWhile e b _ => wide_exp e && wide_block b
  | SRepeat b e _ => wide_block b && wide_exp e
  | SForNum n _ e1 e2 e3 b _ => frag_name n && wide_exp e1 && wide_exp e2 && wide_exp e3 && wide_block b
  | SForIn ns _ es b _ => forallb frag_name ns && forallb wide_exp es && wide_block b
  | SAssign vars es _ =>
    (* no function expression inside an assignment target (`t[function() .. end] = e`): the server visits e_i before
       target i, so a function scope of the target is stored after the function scopes of e_i and FindMinScope's early
       exit misses it when e_i's function starts on a later line (the mechanism of class B5) *)
    forallb (fun v => match v with
                      | EName n _ => frag_name n
                      | EIndex _ _ _ => wide_exp v && negb (has_func v)
                      | _ => false
                      end) vars && forallb wide_exp es
  | SLocal ns _ _ es _ => forallb frag_name ns && forallb wide_exp es      (* any number of initialisers *)
  | SLocalFunc n _ f _ => frag_name n && match f with EFunc _ _ _ _ _ _ _ _ => wide_exp f | _ => false end
  end
with wide_block (b : block) {struct b} : bool :=
  match b with
  | Block ss ret _ =>
    forallb wide_stat ss && match ret with Some es => forallb wide_exp es | None => true end
  end.

Definition in_wide (b : block) : bool := wide_block b.

(* does the chunk contain a construct on which the wide traversal differs from Scope.tr_stat: a `_G.name` node, or an
   assignment to a member chain (`t.a = e`, `function t.f()`) - see ResolveWide.member_target *)
Fixpoint has_w_exp (e : exp) {struct e} : bool :=
  match e with
  | EUnop _ e1 _ | EParens e1 _ => has_w_exp e1
  | EBinop _ e1 e2 _ => has_w_exp e1 || has_w_exp e2
  | EIndex p k _ => match g_key e with Some _ => true | None => has_w_exp p || has_w_exp k end
  | ECall p _ args _ => has_w_exp p || existsb has_w_exp args
  | ETable ks vs _ =>
    existsb (fun k => match k with Some k' => has_w_exp k' | None => false end) ks || existsb has_w_exp vs
  | EFunc _ _ _ _ b _ _ _ => has_w_block b
  | _ => false
  end
with has_w_stat (s : stat) {struct s} : bool :=
  match s with
  | SBreak | SLabel _ _ | SGoto _ _ => false
  | SDo b _ => has_w_block b
  | SCall e => has_w_exp e
  | SIf es bs _ => existsb has_w_exp es || existsb has_w_block bs
  | SWhile e b _ => has_w_exp e || has_w_block b
  | SRepeat b e _ => has_w_block b || has_w_exp e
  | SForNum _ _ e1 e2 e3 b _ => has_w_exp e1 || has_w_exp e2 || has_w_exp e3 || has_w_block b
  | SForIn _ _ es b _ => existsb has_w_exp es || has_w_block b
  | SAssign vars es _ =>
    existsb (fun v => has_w_exp v || match member_target v with Some _ => true | None => false end) vars
    || existsb has_w_exp es
  | SLocal _ _ _ es _ => existsb has_w_exp es
  | SLocalFunc _ _ f _ => has_w_exp f
  end
with has_w_block (b : block) {struct b} : bool :=
  match b with
  | Block ss ret _ =>
    existsb has_w_stat ss || match ret with Some es => existsb has_w_exp es | None => false end
  end.
Local Close Scope N_scope.

(* ------------------------------------------------------------------ string nodes (field names `t.k`, `{k = v}`, string
   literals) with their Locs.  getVarCommonFuncParam (step 6: IsExistLocVarTableStrKey / IsExistGlobalVarTableStrKey)
   re-interprets a bare identifier as the member `t.name` when a string key `name` of some table lies on the cursor's
   line with the cursor between one column before its start and one column after its end (made for a cursor ON a key of
   a constructor; it also fires for `{x=x}`, `t.x=x`, `function t.f(f)` written without blanks).  The request models make
   no prediction for such cursors: `near_str` is the (conservative: every string node counts) test the drivers use. *)
Fixpoint strs_exp (e : exp) {struct e} : list (list N * loc) :=
  match e with
  | EStr s l => [(s, l)]
  | EUnop _ e1 _ | EParens e1 _ => strs_exp e1
  | EBinop _ e1 e2 _ => strs_exp e1 ++ strs_exp e2
  | EIndex e1 e2 _ =>
    match g_key e with
    | Some _ => []                     (* the x of `_G.x` is a global, never a member of some table variable *)
    | None => strs_exp e1 ++ strs_exp e2
    end
  | ECall p m args _ =>
    strs_exp p ++ (match m with Some ml => [ml] | None => [] end) ++ flat_map strs_exp args
  | ETable ks vs _ =>
    flat_map (fun k => match k with Some k' => strs_exp k' | None => [] end) ks ++ flat_map strs_exp vs
  | EFunc _ _ _ _ b _ _ _ => strs_block b
  | _ => []
  end
with strs_stat (s : stat) {struct s} : list (list N * loc) :=
  match s with
  | SBreak | SLabel _ _ | SGoto _ _ => []
  | SDo b _ => strs_block b
  | SCall e => strs_exp e
  | SIf es bs _ => flat_map strs_exp es ++ flat_map strs_block bs
  | SWhile e b _ => strs_exp e ++ strs_block b
  | SRepeat b e _ => strs_block b ++ strs_exp e
  | SForNum _ _ e1 e2 e3 b _ => strs_exp e1 ++ strs_exp e2 ++ strs_exp e3 ++ strs_block b
  | SForIn _ _ es b _ => flat_map strs_exp es ++ strs_block b
  | SAssign vars es _ => flat_map strs_exp vars ++ flat_map strs_exp es
  | SLocal _ _ _ es _ => flat_map strs_exp es
  | SLocalFunc _ _ f _ => strs_exp f
  end
with strs_block (b : block) {struct b} : list (list N * loc) :=
  match b with
  | Block ss ret _ => flat_map strs_stat ss ++ match ret with Some es => flat_map strs_exp es | None => [] end
  end.

(* ------------------------------------------------------------------ the initialiser regions of the `local` statements
   (VarInfo.InitLoc, fixes/C05-own-initialiser.diff) with the names they hide.  Loc end columns are exclusive but
   IsContainLoc compares them inclusively, so that the cursor at the END of an identifier that is the last token of
   the statement is still inside.  The price: an identifier that starts RIGHT at the end of the statement
   (`local c = #{}c()`, no blank in between) is inside as well when the cursor stands on its first column - a name of
   the statement is not found there (class B1_adjacent_local_end, `after_local`). *)
Fixpoint lends_exp (e : exp) {struct e} : list (loc * list (list N)) :=
  match e with
  | EUnop _ e1 _ | EParens e1 _ => lends_exp e1
  | EBinop _ e1 e2 _ | EIndex e1 e2 _ => lends_exp e1 ++ lends_exp e2
  | ECall p _ args _ => lends_exp p ++ flat_map lends_exp args
  | ETable ks vs _ =>
    flat_map (fun k => match k with Some k' => lends_exp k' | None => [] end) ks ++ flat_map lends_exp vs
  | EFunc _ _ _ _ b _ _ _ => lends_block b
  | _ => []
  end
with lends_stat (s : stat) {struct s} : list (loc * list (list N)) :=
  match s with
  | SBreak | SLabel _ _ | SGoto _ _ => []
  | SDo b _ => lends_block b
  | SCall e => lends_exp e
  | SIf es bs _ => flat_map lends_exp es ++ flat_map lends_block bs
  | SWhile e b _ => lends_exp e ++ lends_block b
  | SRepeat b e _ => lends_block b ++ lends_exp e
  | SForNum _ _ e1 e2 e3 b _ => lends_exp e1 ++ lends_exp e2 ++ lends_exp e3 ++ lends_block b
  | SForIn _ _ es b _ => flat_map lends_exp es ++ lends_block b
  | SAssign vars es _ => flat_map lends_exp vars ++ flat_map lends_exp es
  | SLocal ns ls _ es l =>
    (match init_loc ns ls es l with Some il => [(il, ns)] | None => [] end) ++ flat_map lends_exp es
  | SLocalFunc _ _ f _ => lends_exp f
  end
with lends_block (b : block) {struct b} : list (loc * list (list N)) :=
  match b with
  | Block ss ret _ => flat_map lends_stat ss ++ match ret with Some es => flat_map lends_exp es | None => [] end
  end.

Definition after_local (les : list (loc * list (list N))) (name : list N) (line col : Z) : bool :=
  existsb (fun x => name_in name (snd x) && (el (fst x) =? line) && (ec (fst x) =? col)) les.

Definition near_str (strs : list (list N * loc)) (name : list N) (line col : Z) : bool :=
  existsb (fun x => beq_bytes (fst x) name && (sl (snd x) =? line) && (el (snd x) =? line)
                    && (sc (snd x) - 1 <=? col) && (col <=? ec (snd x) + 1)) strs.

(* ------------------------------------------------------------------ boundary cursors (end-inclusive Loc tests)
   Loc end columns are exclusive, but IsContainLoc / isInLocation compare them inclusively and the handlers look a
   cursor up as a POINT.  Two more places where a cursor on the boundary of an identifier falls into a neighbouring
   region (both classes are cursor dependent, like B1_adjacent_local_end):
   * B4 at the boundary: the Loc of a call starts at the LAST token of its callee (`v[n]()`: at `]`).  When that token
     is glued to an identifier (`[n]`), the cursor at the END of the identifier lies on the first column of the call's
     Loc: if the call re-points the "empty" local n (`n = v[n]()`, class B4) the cursor is inside n's ReferExp and n is
     not found there, although the identifier's own Loc is not contained in the call's Loc (no tag CB4).
     rp_block = the re-pointing right-hand sides with their target names; b4_boundary o line col: the cursor (line,
     col) stands at the end of the occurrence o of a local declared without a value (in the environment of o) and on
     the first column of a re-pointing right-hand side of an assignment to that name.
   * the scope of a `repeat` block ends with the `until` expression, the only block end that is not a keyword: an
     identifier glued to it (`until f{v}v = 1`) starts on the (inclusive) end column of the scope and is looked up
     INSIDE the block.  rends_block = the Locs of the repeat statements; at_repeat_end: the cursor stands there. *)
Definition repoints (e : exp) : bool := match ref_of_exp e with RNone => false | _ => true end.

Fixpoint rp_pairs (vars es : list exp) {struct vars} : list (list N * loc) :=
  match vars, es with
  | v :: vars', e :: es' =>
    (match v with EName n _ => if repoints e then [(n, exp_loc e)] else [] | _ => [] end) ++ rp_pairs vars' es'
  | _, _ => []
  end.

Fixpoint rp_exp (e : exp) {struct e} : list (list N * loc) :=
  match e with
  | EUnop _ e1 _ | EParens e1 _ => rp_exp e1
  | EBinop _ e1 e2 _ | EIndex e1 e2 _ => rp_exp e1 ++ rp_exp e2
  | ECall p _ args _ => rp_exp p ++ flat_map rp_exp args
  | ETable ks vs _ =>
    flat_map (fun k => match k with Some k' => rp_exp k' | None => [] end) ks ++ flat_map rp_exp vs
  | EFunc _ _ _ _ b _ _ _ => rp_block b
  | _ => []
  end
with rp_stat (s : stat) {struct s} : list (list N * loc) :=
  match s with
  | SBreak | SLabel _ _ | SGoto _ _ => []
  | SDo b _ => rp_block b
  | SCall e => rp_exp e
  | SIf es bs _ => flat_map rp_exp es ++ flat_map rp_block bs
  | SWhile e b _ => rp_exp e ++ rp_block b
  | SRepeat b e _ => rp_block b ++ rp_exp e
  | SForNum _ _ e1 e2 e3 b _ => rp_exp e1 ++ rp_exp e2 ++ rp_exp e3 ++ rp_block b
  | SForIn _ _ es b _ => flat_map rp_exp es ++ rp_block b
  | SAssign vars es _ => rp_pairs vars es ++ flat_map rp_exp vars ++ flat_map rp_exp es
  | SLocal _ _ _ es _ => flat_map rp_exp es
  | SLocalFunc _ _ f _ => rp_exp f
  end
with rp_block (b : block) {struct b} : list (list N * loc) :=
  match b with
  | Block ss ret _ => flat_map rp_stat ss ++ match ret with Some es => flat_map rp_exp es | None => [] end
  end.

Definition b4_boundary (rps : list (list N * loc)) (o : socc) (line col : Z) : bool :=
  (el (s_loc o) =? line) && (ec (s_loc o) =? col)
  && match env_find (s_env o) (s_name o) with Some (_, _, true) => true | _ => false end
  && existsb (fun x => beq_bytes (fst x) (s_name o) && (sl (snd x) =? line) && (sc (snd x) =? col)) rps.

Fixpoint rends_exp (e : exp) {struct e} : list loc :=
  match e with
  | EUnop _ e1 _ | EParens e1 _ => rends_exp e1
  | EBinop _ e1 e2 _ | EIndex e1 e2 _ => rends_exp e1 ++ rends_exp e2
  | ECall p _ args _ => rends_exp p ++ flat_map rends_exp args
  | ETable ks vs _ =>
    flat_map (fun k => match k with Some k' => rends_exp k' | None => [] end) ks ++ flat_map rends_exp vs
  | EFunc _ _ _ _ b _ _ _ => rends_block b
  | _ => []
  end
with rends_stat (s : stat) {struct s} : list loc :=
  match s with
  | SBreak | SLabel _ _ | SGoto _ _ => []
  | SDo b _ => rends_block b
  | SCall e => rends_exp e
  | SIf es bs _ => flat_map rends_exp es ++ flat_map rends_block bs
  | SWhile e b _ => rends_exp e ++ rends_block b
  | SRepeat b e l => l :: rends_block b ++ rends_exp e
  | SForNum _ _ e1 e2 e3 b _ => rends_exp e1 ++ rends_exp e2 ++ rends_exp e3 ++ rends_block b
  | SForIn _ _ es b _ => flat_map rends_exp es ++ rends_block b
  | SAssign vars es _ => flat_map rends_exp vars ++ flat_map rends_exp es
  | SLocal _ _ _ es _ => flat_map rends_exp es
  | SLocalFunc _ _ f _ => rends_exp f
  end
with rends_block (b : block) {struct b} : list loc :=
  match b with
  | Block ss ret _ => flat_map rends_stat ss ++ match ret with Some es => flat_map rends_exp es | None => [] end
  end.

Definition at_repeat_end (res : list loc) (line col : Z) : bool :=
  existsb (fun l => (el l =? line) && (ec l =? col)) res.
