(* C16 - every documented annotation form is accepted with its structure intact
   (+ the annotation part of C01: the annotation front end never faults).
   Only statements closed by `exact` + Print Assumptions live here. *)
From Coq Require Import List NArith Bool.
From LH Require Import Base.Bytes Base.Res Model.AnnLexer Model.AnnAst Model.AnnParser Model.AnnPrint Spec.AnnGrammar
  Proofs.AnnTotal.
Import ListNotations.
Local Open Scope N_scope.

(* ---- totality (cited by Properties/C01.v) *)
Theorem C16_line_total : forall line, exists r, ann_parse_line (fuel_of line) line = Ok r.
Proof. exact ann_parse_line_no_fault. Qed.
Print Assumptions C16_line_total.

Theorem C16_fragment_total : forall lines, exists fr, parse_fragment lines = Ok fr.
Proof. exact parse_fragment_no_fault. Qed.
Print Assumptions C16_fragment_total.
