(* C16 - every documented annotation form is accepted with its structure intact
   (+ the annotation part of C01: the annotation front end never faults).
   Only statements closed by `exact` + Print Assumptions live here (and vm_compute witnesses of `_refuted`).

   Vocabulary:  Spec/AnnGrammar.v   dtype / dstat = the documented grammar, show_type / show_line = canonical text
                                    (`(T[])[]`), show_type_plain / show_line_plain = the plain text (`T[][]`),
                                    embed_type / embed_line (and _plain) = the implementation tree the text must be
                                    read as, abs = reading an implementation tree back as a documented type;
                Model/AnnParser.v   ann_parse_line (ParserLine), parse_type (parserOneType + rest-of-line comment),
                                    parse_fragment (ParseCommentFragment);  Model/AnnPrint.v  type_convert_str;
                Model/AnnAst.v      ann_fixes / deployed: which repairs are in the code (the models are
                                    parametrised by them; parse_fragment and type_convert_str are the code as it is). *)
From Coq Require Import String List NArith Bool.
From LH Require Import Base.Bytes Base.Res Model.AnnLexer Model.AnnAst Model.AnnParser Model.AnnPrint Spec.AnnGrammar
  Proofs.AnnLexFacts Proofs.AnnTotal Proofs.AnnRoundtrip Proofs.AnnStat Proofs.AnnPlain Proofs.AnnFragment
  Proofs.AnnPrinter Proofs.AnnLine.
Import ListNotations.
Local Open Scope N_scope.
Local Open Scope string_scope.

(* ================================================================== types: unbounded depth *)

(* every documented type, printed canonically, is read back as exactly the expected tree, with no comment left *)
Theorem C16_type_roundtrip :
  forall t, doc_type t = true ->
    parse_type (fuel_of (show_type t)) (show_type t) = Ok (inl (embed_type t, [])).
Proof. exact type_roundtrip. Qed.
Print Assumptions C16_type_roundtrip.

(* ... and that tree denotes the documented type (singleton MultiTypes forgotten): structure intact *)
Theorem C16_embed_faithful : forall t, doc_type t = true -> abs (embed_type t) = t.
Proof. exact abs_embed_one. Qed.
Print Assumptions C16_embed_faithful.

(* the documented rule TYPE[] applied repeatedly, written without parentheses (`string[][]`, any depth, anywhere
   inside any documented type): the plain text parses back to itself (repaired: the array suffix is read in a loop) *)
Theorem C16_nested_array_roundtrip :
  forall t, doc_type t = true ->
    parse_type (fuel_of (show_type_plain t)) (show_type_plain t) = Ok (inl (embed_type_plain t, [])) /\
    abs (embed_type_plain t) = t.
Proof. exact (fun t Hd => conj (type_roundtrip_plain t Hd) (abs_embed_one_plain t Hd)). Qed.
Print Assumptions C16_nested_array_roundtrip.

(* the same seen as a text: any documented T (in parentheses when it is a union or a fun type) followed by n + 1
   suffixes "[]" is read as the (n+1)-dimensional array of T, with nothing left as comment *)
Theorem C16_nested_array_depth :
  forall t n, doc_type t = true ->
    let txt := (paren (item_paren false t) (show_type_plain t) ++ brs (S n))%list in
    exists a, parse_type (fuel_of txt) txt = Ok (inl (a, [])) /\ abs a = darrs (S n) t.
Proof. exact nested_array_depth. Qed.
Print Assumptions C16_nested_array_depth.

(* regression: the witness of the repaired finding C16-nested-array *)
Example C16_nested_array_witness :
  show_type_plain (DArray (DArray (DName (bs "string")))) = bs "string[][]" /\
  parse_type (fuel_of (bs "string[][]")) (bs "string[][]")
  = Ok (inl (AMulti [AArray (AArray (ANormal (bs "string") true))], [])) /\
  ann_parse_line (fuel_of (bs "type string[][][]")) (bs "type string[][][]")
  = Ok (inl (SType [(false, false, AMulti [AArray (AArray (AArray (ANormal (bs "string") true)))])] [])).
Proof. repeat split; vm_compute; reflexivity. Qed.

(* ================================================================== statements *)

(* all ten statement forms (type, alias, class, overload, field, param, return, generic, vararg, enum), all
   modifiers and any trailing comment *)
Theorem C16_stat_roundtrip :
  forall s, doc_stat s = true ->
    ann_parse_line (fuel_of (show_line s)) (show_line s) = Ok (inl (embed_line s)).
Proof. exact stat_roundtrip. Qed.
Print Assumptions C16_stat_roundtrip.

(* the trailing @comment is returned verbatim, whatever bytes it contains (repaired: also on `---@enum start @c`) *)
Theorem C16_comment_kept :
  forall s x, doc_stat s = true -> dstat_comment s = Some x ->
    exists a, ann_parse_line (fuel_of (show_line s)) (show_line s) = Ok (inl a) /\ stat_comment a = x.
Proof. exact comment_kept. Qed.
Print Assumptions C16_comment_kept.

(* regression: the witness of the repaired finding C16-enum-comment (was " @c") *)
Example C16_enum_comment_witness :
  enum_with_comment (DSEnum true (Some [99])) = true /\
  show_line (DSEnum true (Some [99])) = bs "enum start @c" /\
  ann_parse_line (fuel_of (bs "enum start @c")) (bs "enum start @c") = Ok (inl (SEnum 1 [99])).
Proof. repeat split; vm_compute; reflexivity. Qed.

(* the documented grammar written plainly (TYPE[] applied to any TYPE, no extra parentheses, `string[][]`):
   accepted with its structure intact -- no exception left (repaired) *)
Theorem C16_stat_roundtrip_plain :
  forall s, doc_stat s = true ->
    ann_parse_line (fuel_of (show_line_plain s)) (show_line_plain s) = Ok (inl (embed_line_plain s)).
Proof. exact stat_roundtrip_plain. Qed.
Print Assumptions C16_stat_roundtrip_plain.

(* the same through ParseCommentFragment, for the comment line "-@..." (what leg c16.line observes) *)
Theorem C16_stat_fragment_roundtrip :
  forall s lno, doc_stat s = true ->
    parse_fragment [(lno, (s_head ++ show_line s)%list)] = Ok (mkFrag [embed_line s] [lno] []) /\
    parse_fragment [(lno, (s_head ++ show_line_plain s)%list)] = Ok (mkFrag [embed_line_plain s] [lno] []).
Proof. exact (fun s lno Hd => conj (stat_fragment_roundtrip s lno Hd) (stat_fragment_roundtrip_plain s lno Hd)). Qed.
Print Assumptions C16_stat_fragment_roundtrip.

(* without a nested array the plain printer is the canonical one *)
Theorem C16_plain_is_canonical : forall s, stat_nested_array s = false -> show_line_plain s = show_line s.
Proof. exact show_line_plain_eq. Qed.
Print Assumptions C16_plain_is_canonical.

Example C16_plain_differs :
  stat_nested_array (DSField (Some 1) false (bs "f") (DArray (DArray (DName (bs "a")))) None) = true /\
  show_line_plain (DSField (Some 1) false (bs "f") (DArray (DArray (DName (bs "a")))) None) = bs "field protected f a[][]" /\
  show_line (DSField (Some 1) false (bs "f") (DArray (DArray (DName (bs "a")))) None) = bs "field protected f (a[])[]".
Proof. repeat split; vm_compute; reflexivity. Qed.

(* ================================================================== fragments: line isolation *)
(* The code as it is (`parse_fragment`, `frag_loop_fx`) keeps lastAliasState: a continuation line ("-| 'x'") is
   appended to the alias of the line directly above it only (repaired; `parse_fragment_gen false` / `frag_loop` is
   the loop before the repair, which appended it to the last statement read so far). *)

(* whatever was read before, a block of lines contributes the same statements, lines and errors -- every block,
   no condition on its continuation lines (repaired) *)
Theorem C16_isolation_general :
  forall ls fr,
    frag_loop_fx (fr, false) ls = do r <- frag_loop_fx (frag_empty, false) ls; Ok (frag_app fr (fst r), snd r).
Proof. exact isolation_fx_empty. Qed.
Print Assumptions C16_isolation_general.

(* the same from any state of the loop in which lastAliasState, when set, is the last statement (its invariant) *)
Theorem C16_isolation_invariant :
  forall ls fr frx b, fx_inv (frx, b) ->
    frag_loop_fx (frag_app fr frx, b) ls = do r <- frag_loop_fx (frx, b) ls; Ok (frag_app fr (fst r), snd r).
Proof. exact isolation_fx. Qed.
Print Assumptions C16_isolation_invariant.

(* a malformed line yields its own error and nothing else: the statements / lines of the neighbours are the ones
   they have without it, the errors are theirs plus the one of the malformed line, in order -- whatever the
   neighbours are (repaired: the lines after it may start with continuation lines) *)
Theorem C16_line_isolation :
  forall ls1 bad ls2 p1 p2 e,
    parse_fragment ls1 = Ok p1 -> parse_fragment ls2 = Ok p2 ->
    is_cont_line bad = false -> frag_step frag_empty bad = Ok (mkFrag [] [] [e]) ->
    parse_fragment (ls1 ++ bad :: ls2) =
    Ok (mkFrag (f_stats p1 ++ f_stats p2) (f_lines p1 ++ f_lines p2) (f_errs p1 ++ e :: f_errs p2)).
Proof. exact line_isolation_fx. Qed.
Print Assumptions C16_line_isolation.

(* the executable form used by the check (leg c16.fragment), the full statement: ParseCommentFragment = every unit
   (a line + its continuation lines) read on its own, Stats and Lines aligned -- for ALL lists of lines *)
Definition C16_fragment_spec_full : Prop := forall ls, parse_fragment ls = parse_fragment_spec ls.

Theorem C16_fragment_spec_full_proved : C16_fragment_spec_full.
Proof. exact fragment_spec_full. Qed.
Print Assumptions C16_fragment_spec_full_proved.

(* the repair changes nothing outside the class of the finding *)
Theorem C16_cont_repair_conservative :
  forall ls, frag_cont_after_bad ls = false -> parse_fragment ls = parse_fragment_gen false ls.
Proof. exact repair_conservative. Qed.
Print Assumptions C16_cont_repair_conservative.

(* regression: the witness of the repaired finding C16-cont-after-bad (before the repair the constant 'x' of line 3
   was appended to alias A of line 1) *)
Example C16_cont_after_bad_witness :
  let ls := [(1, bs "-@alias A string"); (2, bs "-@alias B ?"); (3, bs "-| 'x'")] in
  frag_cont_after_bad ls = true /\
  parse_fragment ls = parse_fragment_spec ls /\
  (exists e, parse_fragment ls
             = Ok (mkFrag [SAlias (bs "A") (Some (AMulti [ANormal (bs "string") true])) []] [1] [e])) /\
  (exists e, parse_fragment_gen false ls
             = Ok (mkFrag [SAlias (bs "A") (Some (AMulti [ANormal (bs "string") true; AConst (bs "x") false []])) []]
                          [1] [e])).
Proof. repeat split; try (eexists; vm_compute; reflexivity); vm_compute; reflexivity. Qed.

(* Lines[i] is the line of Stats[i], for ALL inputs (repaired: clearEmpytAlias removes the line together with the
   statement): the two slices have the same length ... *)
Theorem C16_alias_lines_aligned :
  forall ls fr, parse_fragment ls = Ok fr -> length (f_stats fr) = length (f_lines fr).
Proof. exact parse_fragment_aligned. Qed.
Print Assumptions C16_alias_lines_aligned.

(* ... and they are exactly the (statement, line) pairs collected while the lines were read, minus the aliases
   that never got a type *)
Theorem C16_alias_lines_pairs :
  forall ls, exists fr0 b,
    frag_loop_fx (frag_empty, false) ls = Ok (fr0, b) /\ length (f_stats fr0) = length (f_lines fr0) /\
    parse_fragment ls = Ok (clear_aligned fr0).
Proof. exact fragment_pairs_fx. Qed.
Print Assumptions C16_alias_lines_pairs.

(* regression: the witness of the repaired finding C16-alias-lines (was Stats = [type], Lines = [1; 2]) *)
Example C16_alias_lines_witness :
  frag_has_empty_alias [(1, bs "-@alias A"); (2, bs "-@type string")] = true /\
  parse_fragment [(1, bs "-@alias A"); (2, bs "-@type string")]
  = Ok (mkFrag [SType [(false, false, AMulti [ANormal (bs "string") true])] []] [2] []) /\
  parse_fragment [(1, bs "-@alias A"); (2, bs "-@type string")]
  = parse_fragment_spec [(1, bs "-@alias A"); (2, bs "-@type string")].
Proof. repeat split; vm_compute; reflexivity. Qed.

(* ================================================================== the implementation printer *)
(* `type_convert_str` = TypeConvertStr of the code as it is = `type_convert_str_fx deployed`: string constants are
   printed with their quotes and a union directly inside a union keeps its parentheses (repaired); fun types are
   still printed `function(...)` (finding C16-printer-fun: its repair changes a text that two tests of the
   existing suite assert).  `type_convert_str_fx all_fixes` is the printer with that repair too. *)

Definition C16_impl_printer_full : Prop :=
  forall a, doc_type (abs a) = true ->
    exists a', parse_type (fuel_of (type_convert_str a)) (type_convert_str a) = Ok (inl (a', [])) /\ abs a' = abs a.

(* proved part for the code as it is: every documented type without a fun type
   (repaired: string constants, unions directly inside unions; earlier: array items that are unions or arrays) *)
Theorem C16_impl_printer_partial :
  forall a, doc_type (abs a) = true -> has_fun (abs a) = false ->
    exists a', parse_type (fuel_of (type_convert_str a)) (type_convert_str a) = Ok (inl (a', [])) /\ abs a' = abs a.
Proof. exact impl_printer_partial. Qed.
Print Assumptions C16_impl_printer_partial.

(* the full statement holds for the printer with the prepared repair of the fun types (fixes/C16-printer-fun.diff):
   print, then read = the same documented type, for EVERY documented type *)
Theorem C16_impl_printer_full_all_fixes :
  forall a, doc_type (abs a) = true ->
    exists a', parse_type (fuel_of (type_convert_str_fx all_fixes a)) (type_convert_str_fx all_fixes a)
               = Ok (inl (a', [])) /\ abs a' = abs a.
Proof. exact impl_printer_full_all_fixes. Qed.
Print Assumptions C16_impl_printer_full_all_fixes.

(* ... and for any set of repairs, under the guard of the missing ones (fun types / string constants / a union
   directly in a union); the printed text is the canonical text of the documented type *)
Theorem C16_impl_printer_any_fixes :
  forall fx a, pguard fx (abs a) = true ->
    type_convert_str_fx fx a = show_type (abs a) /\
    exists a', parse_type (fuel_of (type_convert_str_fx fx a)) (type_convert_str_fx fx a) = Ok (inl (a', [])) /\
               abs a' = abs a.
Proof.
  exact (fun fx a Hg => conj (tcs_show fx (asize a) a (le_n _) (pguard_G fx _ Hg)) (impl_printer_fx fx a Hg)).
Qed.
Print Assumptions C16_impl_printer_any_fixes.

(* the same through ParseCommentFragment (what leg c16.print observes) *)
Theorem C16_impl_printer_line :
  forall a lno, doc_type (abs a) = true -> has_fun (abs a) = false ->
    parse_fragment [(lno, (s_head ++ k_type ++ type_convert_str a)%list)]
    = Ok (mkFrag [SType [(false, false, embed_type (abs a))] []] [lno] []).
Proof. exact printer_fragment. Qed.
Print Assumptions C16_impl_printer_line.

(* regression: the witnesses of the repaired finding C16-printer-union: `(string|number)[]` (was printed
   `string | number[]` = string | (number[])) and `(string[])[]` (was printed `string[][]`) *)
Example C16_printer_union_witness :
  let a := AMulti [AArray (AMulti [ANormal (bs "string") true; ANormal (bs "number") true])] in
  let b := AMulti [AArray (AMulti [AArray (ANormal (bs "string") true)])] in
  has_paren_item (abs a) = true /\ printer_guard a = true /\ type_convert_str a = bs "(string | number)[]" /\
  has_paren_item (abs b) = true /\ printer_guard b = true /\ type_convert_str b = bs "(string[])[]" /\
  parse_type (fuel_of (type_convert_str a)) (type_convert_str a) = Ok (inl (a, [])) /\
  parse_type (fuel_of (type_convert_str b)) (type_convert_str b) = Ok (inl (b, [])).
Proof. repeat split; vm_compute; reflexivity. Qed.

(* regression: the witnesses of the repaired finding C16-printer-const: '"r"' (was printed "r": QuotesFlag lost on
   reading) and "abc" (was printed abc: read again as a type name) *)
Example C16_printer_const_witness :
  let a := AMulti [AConst (bs "r") true []] in
  let b := AMulti [AConst (bs "abc") false []] in
  has_const (abs a) = true /\ printer_guard a = true /\
  type_convert_str a = [39; 34; 114; 34; 39] /\ type_convert_str_fx no_fixes a = [34; 114; 34] /\
  parse_type (fuel_of (type_convert_str a)) (type_convert_str a) = Ok (inl (a, [])) /\
  parse_type (fuel_of (bs "abc")) (bs "abc") = Ok (inl (AMulti [ANormal (bs "abc") true], [])) /\
  type_convert_str b = bs "'abc'" /\ type_convert_str_fx no_fixes b = bs "abc" /\
  parse_type (fuel_of (type_convert_str b)) (type_convert_str b) = Ok (inl (b, [])).
Proof. repeat split; vm_compute; reflexivity. Qed.

(* regression: a union directly inside a union, `(a | b) | c` (was printed flat, `a | b | c`, and read back as a
   union of three; repaired together with the constants, fixes/C16-printer-nested-union.diff) *)
Example C16_printer_nested_union_witness :
  let a := AMulti [AMulti [ANormal (bs "a") true; ANormal (bs "b") true]; ANormal (bs "c") true] in
  has_union_in_union (abs a) = true /\ printer_guard a = true /\
  type_convert_str a = bs "(a | b) | c" /\ type_convert_str_fx no_fixes a = bs "a | b | c" /\
  parse_type (fuel_of (type_convert_str a)) (type_convert_str a) = Ok (inl (a, [])) /\
  parse_type (fuel_of (bs "a | b | c")) (bs "a | b | c")
  = Ok (inl (AMulti [ANormal (bs "a") true; ANormal (bs "b") true; ANormal (bs "c") true], [])).
Proof. repeat split; vm_compute; reflexivity. Qed.

(* OPEN: fun types are printed as `function(...)`, which reads back as the name `function` + a comment *)
Theorem C16_printer_fun_refuted :
  exists a, doc_type (abs a) = true /\ has_fun (abs a) = true /\
            type_convert_str a = bs "function(a: string): number" /\
            parse_type (fuel_of (type_convert_str a)) (type_convert_str a)
            = Ok (inl (AMulti [ANormal (bs "function") true], bs "(a: string): number")).
Proof.
  exists (AMulti [AFun [(bs "a", false, AMulti [ANormal (bs "string") true])] [AMulti [ANormal (bs "number") true]]]).
  split; [reflexivity|]. split; [reflexivity|]. split; vm_compute; reflexivity.
Qed.
Print Assumptions C16_printer_fun_refuted.

Theorem C16_impl_printer_full_refuted : ~ C16_impl_printer_full.
Proof.
  intros H.
  destruct (H (AMulti [AFun [(bs "a", false, AMulti [ANormal (bs "string") true])] [AMulti [ANormal (bs "number") true]]])
              eq_refl) as (a' & H1 & H2).
  vm_compute in H1. discriminate H1.
Qed.
Print Assumptions C16_impl_printer_full_refuted.

(* the same witness with the prepared repair: printed in the annotation syntax, read back as itself; a fun type
   with an optional parameter, a parameter without a type and a fun type among its return types *)
Example C16_printer_fun_all_fixes_witness :
  let a := AMulti [AFun [(bs "a", false, AMulti [ANormal (bs "string") true])] [AMulti [ANormal (bs "number") true]]] in
  let b := AMulti [AFun [(bs "cb", true, AMulti [AMulti [AFun [] []]]); (bs "x", false, ANormal (bs "any") false)]
                        [AMulti [AMulti [AFun [] [AMulti [ANormal (bs "r") true]]]]; AMulti [ANormal (bs "s") true]]] in
  type_convert_str_fx all_fixes a = bs "fun(a: string): number" /\
  parse_type (fuel_of (type_convert_str_fx all_fixes a)) (type_convert_str_fx all_fixes a) = Ok (inl (a, [])) /\
  type_convert_str_fx all_fixes b = bs "fun(cb?: (fun()), x): (fun(): r), s" /\
  parse_type (fuel_of (type_convert_str_fx all_fixes b)) (type_convert_str_fx all_fixes b) = Ok (inl (b, [])).
Proof. repeat split; vm_compute; reflexivity. Qed.

(* ================================================================== totality (cited by Properties/C01.v) *)

(* ParserLine on ANY bytes: returns a statement or a ParseAnnotateErr; no runtime panic reaches the type assertion
   of its recover(), no loop runs away (fuel_of is linear in the length of the line) *)
Theorem C16_line_total : forall line, exists r, ann_parse_line (fuel_of line) line = Ok r.
Proof. exact ann_parse_line_no_fault. Qed.
Print Assumptions C16_line_total.

Theorem C16_type_total : forall text, exists r, parse_type (fuel_of text) text = Ok r.
Proof. exact parse_type_no_fault. Qed.
Print Assumptions C16_type_total.

(* ParseCommentFragment on ANY list of byte lines (incl. the continuation-line path that runs outside recover()) *)
Theorem C16_fragment_total : forall lines, exists fr, parse_fragment lines = Ok fr.
Proof. exact parse_fragment_no_fault. Qed.
Print Assumptions C16_fragment_total.

Theorem C16_lex_total :
  forall l, (exists t l', next_token l = Ok (t, l')) /\ (exists l', look_ahead l = Ok l').
Proof. exact ann_lex_total. Qed.
Print Assumptions C16_lex_total.

(* ================================================================== non-vacuity of the guards *)
Definition ex_type : dtype :=
  DUnion [DName (bs "string");
          DArray (DUnion [DName (bs "a.b");
                          DTable (DName (bs "k"))
                                 (DFun [(bs "x", true, Some (DName (bs "y"))); (bs "...", false, None)]
                                       [DName (bs "r"); DArray (DArray (DConst (bs "q") true))])]);
          DFun [] []].
(* prints: string | (a.b | table<k, (fun(x?: y, ...): r, ('"q"'[])[])>)[] | (fun()) *)
Example C16_doc_type_inhabited : doc_type ex_type = true.
Proof. reflexivity. Qed.

Example C16_doc_stat_inhabited :
  doc_stat (DSType [(true, true, DFun [] [DName (bs "a")]); (false, true, ex_type);
                    (false, false, DFun [(bs "type", false, Some (DFun [] []))] [DName (bs "a"); DName (bs "b")])]
                   (Some (bs "hello @ world "))) = true /\
  doc_stat (DSField None true (bs "type") ex_type (Some [228; 184; 173])) = true /\
  doc_stat (DSParam true (bs "const") true ex_type None) = true /\
  doc_stat (DSReturn [(DFun [] [DName (bs "a")], true); (ex_type, false)] (Some [])) = true /\
  doc_stat (DSGeneric [(bs "T", Some (bs "Base")); (bs "K", None)] (Some (bs "c"))) = true /\
  doc_stat (DSClass (bs "Man") [bs "People"; bs "Team"] (Some (bs "c"))) = true /\
  doc_stat (DSEnum false (Some (bs " @ x"))) = true /\
  doc_stat (DSVararg (DArray (DArray (DArray (DUnion [DName (bs "a"); DArray (DArray DTable0)])))) None) = true.
Proof. repeat split. Qed.

Example C16_printer_guard_inhabited :
  let a := AMulti [ATable (AMulti [ANormal (bs "string") true])
                          (AMulti [AArray (ANormal (bs "People") true)]);
                   AArray (AMulti [ATableEmpty; AArray (AArray (ANormal (bs "a.b") true))]);
                   AArray (AMulti [AArray (AMulti [ANormal (bs "x") true; ANormal (bs "y") true])]);
                   AMulti [AConst (bs "r") true (bs "read"); AConst (bs "w+") false []];
                   ANormal (bs "...") true] in
  doc_type (abs a) = true /\ has_fun (abs a) = false /\ printer_guard a = true /\
  has_const (abs a) = true /\ has_union_in_union (abs a) = true /\ has_paren_item (abs a) = true.
Proof. repeat split. Qed.

Example C16_printer_all_fixes_guard_inhabited :
  doc_type (abs (embed_type ex_type)) = true /\ has_fun (abs (embed_type ex_type)) = true /\
  pguard all_fixes (abs (embed_type ex_type)) = true /\ pguard deployed (abs (embed_type ex_type)) = false.
Proof. repeat split. Qed.

(* the premise of C16_line_isolation: a line that yields exactly an error *)
Example C16_bad_line_inhabited :
  is_cont_line (3, bs "-@param ") = false /\
  frag_step frag_empty (3, bs "-@param ") =
  Ok (mkFrag [] [] [(3, 8%nat, mkErr 2 KEOF (bs "annotate warn : syntax error near 'EOF'") 0)]).
Proof. split; vm_compute; reflexivity. Qed.

(* a fragment with every kind of unit: continuation lines first, after an alias, after another statement, after a
   malformed line, after a plain comment *)
Example C16_fragment_units_inhabited :
  let ls := [(1, bs "-| 'lost'"); (2, bs "-@alias M"); (3, bs "-| 'r' # read"); (4, bs "-@type ?"); (5, bs "-| 'x'");
             (6, bs "-@class A : B @c"); (7, bs "-| 'y'"); (8, bs "- plain"); (9, bs "-| 'z'");
             (10, bs "-@alias Empty @never typed"); (11, bs "-@enum end @c")] in
  frag_cont_after_bad ls = true /\ length (units ls) = 7%nat /\
  parse_fragment ls = parse_fragment_spec ls /\
  (exists e, parse_fragment ls
             = Ok (mkFrag [SAlias (bs "M") (Some (AMulti [AConst (bs "r") false (bs "read")])) [];
                           SClass (bs "A") [bs "B"] (bs "c"); SEnum 2 (bs "c")] [2; 6; 11] [e])).
Proof. repeat split; try (eexists; vm_compute; reflexivity); vm_compute; reflexivity. Qed.
