(* C16 - every documented annotation form is accepted with its structure intact
   (+ the annotation part of C01: the annotation front end never faults).
   Only statements closed by `exact` + Print Assumptions live here (and vm_compute witnesses of `_refuted`).

   Vocabulary:  Spec/AnnGrammar.v   dtype / dstat = the documented grammar, show_type / show_line = canonical text,
                                    embed_one / embed_stat = the implementation tree the text must be read as,
                                    abs = reading an implementation tree back as a documented type;
                Model/AnnParser.v   ann_parse_line (ParserLine), parse_type (parserOneType + rest-of-line comment),
                                    parse_fragment (ParseCommentFragment);  Model/AnnPrint.v  type_convert_str. *)
From Coq Require Import String List NArith Bool.
From LH Require Import Base.Bytes Base.Res Model.AnnLexer Model.AnnAst Model.AnnParser Model.AnnPrint Spec.AnnGrammar
  Proofs.AnnLexFacts Proofs.AnnTotal Proofs.AnnRoundtrip Proofs.AnnStat Proofs.AnnPlain Proofs.AnnFragment
  Proofs.AnnPrinter Proofs.AnnLine.
Import ListNotations.
Local Open Scope N_scope.
Local Open Scope string_scope.

(* ================================================================== types: unbounded depth *)

(* every documented type, printed canonically, is read back as exactly the expected tree, with no comment left *)
Theorem C16_type_roundtrip :
  forall t, doc_type t = true ->
    parse_type (fuel_of (show_type t)) (show_type t) = Ok (inl (embed_one t, [])).
Proof. exact type_roundtrip. Qed.
Print Assumptions C16_type_roundtrip.

(* ... and that tree denotes the documented type (singleton MultiTypes forgotten): structure intact *)
Theorem C16_embed_faithful : forall t, doc_type t = true -> abs (embed_one t) = t.
Proof. exact abs_embed_one. Qed.
Print Assumptions C16_embed_faithful.

(* ================================================================== statements *)

Definition C16_stat_roundtrip_full : Prop :=
  forall s, doc_stat s = true ->
    ann_parse_line (fuel_of (show_line s)) (show_line s) = Ok (inl (embed_stat s)).

(* proved for all ten statement forms (type, alias, class, overload, field, param, return, generic, vararg, enum),
   all modifiers and any trailing comment; the only exclusion is a comment on an enum line (refuted below) *)
Theorem C16_stat_roundtrip :
  forall s, doc_stat s = true -> enum_with_comment s = false ->
    ann_parse_line (fuel_of (show_line s)) (show_line s) = Ok (inl (embed_stat s)).
Proof. exact stat_roundtrip. Qed.
Print Assumptions C16_stat_roundtrip.

(* the trailing @comment is returned verbatim, whatever bytes it contains *)
Theorem C16_comment_kept :
  forall s x, doc_stat s = true -> enum_with_comment s = false -> dstat_comment s = Some x ->
    exists a, ann_parse_line (fuel_of (show_line s)) (show_line s) = Ok (inl a) /\ stat_comment a = x.
Proof. exact comment_kept. Qed.
Print Assumptions C16_comment_kept.

(* `---@enum start @c`: GetRemainComment is called without a look-ahead token, the comment keeps " @" *)
Theorem C16_enum_comment_refuted : ~ C16_stat_roundtrip_full.
Proof.
  intros H. specialize (H (DSEnum true (Some [99])) eq_refl). vm_compute in H. discriminate H.
Qed.
Print Assumptions C16_enum_comment_refuted.

Example C16_enum_comment_witness :
  ann_parse_line (fuel_of (show_line (DSEnum true (Some [99])))) (show_line (DSEnum true (Some [99])))
  = Ok (inl (SEnum 1 [32; 64; 99])).                         (* " @c" instead of "c" *)
Proof. vm_compute. reflexivity. Qed.

(* the documented rule TYPE[] applied twice: `string[][]` is silently read as `string[]` + comment "[]" *)
Theorem C16_nested_array_refuted :
  exists s, doc_stat s = true /\ stat_nested_array s = true /\
            ann_parse_line (fuel_of (show_line_plain s)) (show_line_plain s)
            = Ok (inl (SType [(false, false, AMulti [AArray (ANormal (bs "string") true)])] (bs "[]"))) /\
            ann_parse_line (fuel_of (show_line_plain s)) (show_line_plain s) <> Ok (inl (embed_stat s)).
Proof.
  exists (DSType [(false, false, DArray (DArray (DName (bs "string"))))] None).
  split; [reflexivity|]. split; [reflexivity|]. split; [vm_compute; reflexivity|]. vm_compute. discriminate.
Qed.
Print Assumptions C16_nested_array_refuted.

(* the documented grammar written naively (TYPE[] applied to any TYPE, no extra parentheses): accepted with its
   structure intact unless a nested array occurs -- nested_array is the ONLY class of documented lines that fails *)
Theorem C16_stat_roundtrip_plain :
  forall s, doc_stat s = true -> enum_with_comment s = false -> stat_nested_array s = false ->
    ann_parse_line (fuel_of (show_line_plain s)) (show_line_plain s) = Ok (inl (embed_stat s)).
Proof. exact stat_roundtrip_plain. Qed.
Print Assumptions C16_stat_roundtrip_plain.

(* the same through ParseCommentFragment, for the comment line "-@..." (what leg c16.line observes) *)
Theorem C16_stat_fragment_roundtrip :
  forall s lno, doc_stat s = true -> enum_with_comment s = false -> stat_nested_array s = false ->
    parse_fragment [(lno, (s_head ++ show_line_plain s)%list)] = Ok (mkFrag [embed_stat s] [lno] []).
Proof. exact stat_fragment_roundtrip_plain. Qed.
Print Assumptions C16_stat_fragment_roundtrip.

(* without a nested array the naive printer is the canonical one *)
Example C16_plain_is_canonical :
  show_line_plain (DSField (Some 1) false (bs "f") (DArray (DUnion [DName (bs "a"); DName (bs "b")])) None)
  = show_line (DSField (Some 1) false (bs "f") (DArray (DUnion [DName (bs "a"); DName (bs "b")])) None).
Proof. reflexivity. Qed.

(* ================================================================== fragments: line isolation *)

(* a block of lines whose continuation lines ("-| ...") all follow a statement of the block contributes the same
   statements, lines and errors whatever was read before it *)
Theorem C16_isolation_general :
  forall ls fr frx, safe_from frx ls = true ->
    frag_loop (frag_app fr frx) ls = do r <- frag_loop frx ls; Ok (frag_app fr r).
Proof. exact isolation_general. Qed.
Print Assumptions C16_isolation_general.

(* a malformed line yields its own error and nothing else: the statements / lines of the neighbours are the ones
   they have without it, the errors are theirs plus the one of the malformed line, in order *)
Theorem C16_line_isolation :
  forall ls1 bad ls2 p1 p2 e,
    parse_fragment ls1 = Ok p1 -> parse_fragment ls2 = Ok p2 ->
    is_cont_line bad = false -> frag_step frag_empty bad = Ok (mkFrag [] [] [e]) ->
    self_contained ls2 = true ->
    parse_fragment (ls1 ++ bad :: ls2) =
    Ok (mkFrag (f_stats p1 ++ f_stats p2) (f_lines p1 ++ f_lines p2) (f_errs p1 ++ e :: f_errs p2)).
Proof. exact line_isolation. Qed.
Print Assumptions C16_line_isolation.

(* the executable form used by the check (leg c16.fragment): outside the two classes below, ParseCommentFragment
   = every unit (a line + its continuation lines) read on its own, Stats and Lines aligned *)
Theorem C16_fragment_spec_agrees :
  forall ls, frag_cont_after_bad ls = false -> frag_lines_desync ls = false ->
    parse_fragment ls = parse_fragment_spec ls.
Proof. exact fragment_spec_agrees. Qed.
Print Assumptions C16_fragment_spec_agrees.

Definition C16_fragment_spec_full : Prop := forall ls, parse_fragment ls = parse_fragment_spec ls.

(* class cont_after_bad: the continuation line after a malformed alias line is appended to the PREVIOUS alias *)
Theorem C16_cont_after_bad_refuted :
  exists ls, frag_cont_after_bad ls = true /\ frag_lines_desync ls = false /\
             parse_fragment ls <> parse_fragment_spec ls.
Proof.
  exists [(1, bs "-@alias A string"); (2, bs "-@alias B ?"); (3, bs "-| 'x'")].
  split; [vm_compute; reflexivity|]. split; [vm_compute; reflexivity|]. vm_compute. discriminate.
Qed.
Print Assumptions C16_cont_after_bad_refuted.

(* class alias_lines: clearEmpytAlias removes an alias without type from Stats but not its line from Lines *)
Theorem C16_alias_lines_refuted :
  exists ls fr, frag_cont_after_bad ls = false /\ frag_lines_desync ls = true /\
                parse_fragment ls = Ok fr /\ length (f_stats fr) <> length (f_lines fr) /\
                parse_fragment ls <> parse_fragment_spec ls.
Proof.
  exists [(1, bs "-@alias A"); (2, bs "-@type string")]. eexists.
  split; [vm_compute; reflexivity|]. split; [vm_compute; reflexivity|]. split; [vm_compute; reflexivity|].
  split; [cbn; discriminate|]. vm_compute. discriminate.
Qed.
Print Assumptions C16_alias_lines_refuted.

Theorem C16_fragment_spec_full_refuted : ~ C16_fragment_spec_full.
Proof.
  intros H. specialize (H [(1, bs "-@alias A"); (2, bs "-@type string")]). vm_compute in H. discriminate H.
Qed.
Print Assumptions C16_fragment_spec_full_refuted.

(* ================================================================== the implementation printer *)

Definition C16_impl_printer_full : Prop :=
  forall a, doc_type (abs a) = true ->
    exists a', parse_type (fuel_of (type_convert_str a)) (type_convert_str a) = Ok (inl (a', [])) /\ abs a' = abs a.

(* proved part: no fun type, no string constant, no parenthesised array item, no union directly in a union *)
Theorem C16_impl_printer_partial :
  forall a, printer_guard a = true ->
    exists a', parse_type (fuel_of (type_convert_str a)) (type_convert_str a) = Ok (inl (a', [])) /\ abs a' = abs a.
Proof. exact impl_printer_partial. Qed.
Print Assumptions C16_impl_printer_partial.

(* the same through ParseCommentFragment (what leg c16.print observes) *)
Theorem C16_impl_printer_line :
  forall a lno, printer_guard a = true ->
    parse_fragment [(lno, (s_head ++ k_type ++ type_convert_str a)%list)]
    = Ok (mkFrag [SType [(false, false, embed_one (abs a))] []] [lno] []).
Proof. exact printer_fragment. Qed.
Print Assumptions C16_impl_printer_line.

(* `(string|number)[]` prints `string | number[]`, which is `string | (number[])` *)
Theorem C16_printer_union_refuted :
  exists a, doc_type (abs a) = true /\ has_paren_item (abs a) = true /\
            type_convert_str a = bs "string | number[]" /\
            exists a', parse_type (fuel_of (type_convert_str a)) (type_convert_str a) = Ok (inl (a', [])) /\
                       abs a' = DUnion [DName (bs "string"); DArray (DName (bs "number"))] /\ abs a' <> abs a.
Proof.
  exists (AMulti [AArray (AMulti [ANormal (bs "string") true; ANormal (bs "number") true])]).
  split; [reflexivity|]. split; [reflexivity|]. split; [vm_compute; reflexivity|].
  eexists. split; [vm_compute; reflexivity|]. split; [vm_compute; reflexivity|]. vm_compute. discriminate.
Qed.
Print Assumptions C16_printer_union_refuted.

(* fun types are printed as `function(...)`, which reads back as the name `function` + a comment *)
Theorem C16_printer_fun_refuted :
  exists a, doc_type (abs a) = true /\ has_fun (abs a) = true /\
            type_convert_str a = bs "function(a: string): number" /\
            parse_type (fuel_of (type_convert_str a)) (type_convert_str a)
            = Ok (inl (AMulti [ANormal (bs "function") true], bs "(a: string): number")).
Proof.
  exists (AMulti [AFun [(bs "a", false, AMulti [ANormal (bs "string") true])] [AMulti [ANormal (bs "number") true]]]).
  split; [reflexivity|]. split; [reflexivity|]. split; vm_compute; reflexivity.
Qed.
Print Assumptions C16_printer_fun_refuted.

(* string constants: '"r"' prints "r" (QuotesFlag lost on reading); "abc" prints abc (a type name) *)
Theorem C16_printer_const_refuted :
  exists a, doc_type (abs a) = true /\ has_const (abs a) = true /\
            exists a', parse_type (fuel_of (type_convert_str a)) (type_convert_str a) = Ok (inl (a', [])) /\
                       abs a' <> abs a.
Proof.
  exists (AMulti [AConst (bs "r") true []]). split; [reflexivity|]. split; [reflexivity|].
  eexists. split; [vm_compute; reflexivity|]. vm_compute. discriminate.
Qed.
Print Assumptions C16_printer_const_refuted.

Theorem C16_impl_printer_full_refuted : ~ C16_impl_printer_full.
Proof.
  intros H. destruct (H (AMulti [AConst (bs "r") true []]) eq_refl) as (a' & H1 & H2).
  vm_compute in H1. injection H1 as <-. vm_compute in H2. discriminate H2.
Qed.
Print Assumptions C16_impl_printer_full_refuted.

(* ================================================================== totality (cited by Properties/C01.v) *)

(* ParserLine on ANY bytes: returns a statement or a ParseAnnotateErr; no runtime panic reaches the type assertion
   of its recover(), no loop runs away (fuel_of is linear in the length of the line) *)
Theorem C16_line_total : forall line, exists r, ann_parse_line (fuel_of line) line = Ok r.
Proof. exact ann_parse_line_no_fault. Qed.
Print Assumptions C16_line_total.

Theorem C16_type_total : forall text, exists r, parse_type (fuel_of text) text = Ok r.
Proof. exact parse_type_no_fault. Qed.
Print Assumptions C16_type_total.

(* ParseCommentFragment on ANY list of byte lines (incl. the continuation-line path that runs outside recover()) *)
Theorem C16_fragment_total : forall lines, exists fr, parse_fragment lines = Ok fr.
Proof. exact parse_fragment_no_fault. Qed.
Print Assumptions C16_fragment_total.

Theorem C16_lex_total :
  forall l, (exists t l', next_token l = Ok (t, l')) /\ (exists l', look_ahead l = Ok l').
Proof. exact ann_lex_total. Qed.
Print Assumptions C16_lex_total.

(* ================================================================== non-vacuity of the guards *)
Definition ex_type : dtype :=
  DUnion [DName (bs "string");
          DArray (DUnion [DName (bs "a.b");
                          DTable (DName (bs "k"))
                                 (DFun [(bs "x", true, Some (DName (bs "y"))); (bs "...", false, None)]
                                       [DName (bs "r"); DArray (DArray (DConst (bs "q") true))])]);
          DFun [] []].
(* prints: string | (a.b | table<k, (fun(x?: y, ...): r, ('"q"'[])[])>)[] | (fun()) *)
Example C16_doc_type_inhabited : doc_type ex_type = true.
Proof. reflexivity. Qed.

Example C16_doc_stat_inhabited :
  doc_stat (DSType [(true, true, DFun [] [DName (bs "a")]); (false, true, ex_type);
                    (false, false, DFun [(bs "type", false, Some (DFun [] []))] [DName (bs "a"); DName (bs "b")])]
                   (Some (bs "hello @ world "))) = true /\
  doc_stat (DSField None true (bs "type") ex_type (Some [228; 184; 173])) = true /\
  doc_stat (DSParam true (bs "const") true ex_type None) = true /\
  doc_stat (DSReturn [(DFun [] [DName (bs "a")], true); (ex_type, false)] (Some [])) = true /\
  doc_stat (DSGeneric [(bs "T", Some (bs "Base")); (bs "K", None)] (Some (bs "c"))) = true /\
  doc_stat (DSClass (bs "Man") [bs "People"; bs "Team"] (Some (bs "c"))) = true.
Proof. repeat split. Qed.

Example C16_printer_guard_inhabited :
  printer_guard (AMulti [ATable (AMulti [ANormal (bs "string") true])
                                (AMulti [AArray (ANormal (bs "People") true)]);
                         AArray (AMulti [ATableEmpty]); ANormal (bs "...") true]) = true.
Proof. reflexivity. Qed.

Example C16_self_contained_inhabited :
  self_contained [(4, bs "- plain comment"); (5, bs "-@alias M"); (6, bs "-| 'r' # read"); (7, bs "-| 'w'");
                  (8, bs "-@type ?"); (9, bs "-@field x string @c")] = true /\
  frag_step frag_empty (3, bs "-@param ") =
  Ok (mkFrag [] [] [(3, 8%nat, mkErr 2 KEOF (bs "annotate warn : syntax error near 'EOF'") 0)]).
Proof. split; vm_compute; reflexivity. Qed.

Example C16_fragment_guard_inhabited :
  let ls := [(1, bs "-@alias M"); (2, bs "-| 'r' # read"); (3, bs "-@type ?"); (4, bs "-@class A : B @c")] in
  frag_cont_after_bad ls = false /\ frag_lines_desync ls = false.
Proof. split; vm_compute; reflexivity. Qed.
