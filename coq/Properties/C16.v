(* C16 - every documented annotation form is accepted with its structure intact
   (+ the annotation part of C01: the annotation front end never faults).
   Only statements closed by `exact` + Print Assumptions live here (and vm_compute witnesses of `_refuted`).

   Vocabulary:  Spec/AnnGrammar.v   dtype / dstat = the documented grammar, show_type / show_line = canonical text
                                    (`(T[])[]`), show_type_plain / show_line_plain = the plain text (`T[][]`),
                                    embed_type / embed_line (and _plain) = the implementation tree the text must be
                                    read as, abs = reading an implementation tree back as a documented type;
                Model/AnnParser.v   ann_parse_line (ParserLine), parse_type (parserOneType + rest-of-line comment),
                                    parse_fragment (ParseCommentFragment);  Model/AnnPrint.v  type_convert_str. *)
From Coq Require Import String List NArith Bool.
From LH Require Import Base.Bytes Base.Res Model.AnnLexer Model.AnnAst Model.AnnParser Model.AnnPrint Spec.AnnGrammar
  Proofs.AnnLexFacts Proofs.AnnTotal Proofs.AnnRoundtrip Proofs.AnnStat Proofs.AnnPlain Proofs.AnnFragment
  Proofs.AnnPrinter Proofs.AnnLine.
Import ListNotations.
Local Open Scope N_scope.
Local Open Scope string_scope.

(* ================================================================== types: unbounded depth *)

(* every documented type, printed canonically, is read back as exactly the expected tree, with no comment left *)
Theorem C16_type_roundtrip :
  forall t, doc_type t = true ->
    parse_type (fuel_of (show_type t)) (show_type t) = Ok (inl (embed_type t, [])).
Proof. exact type_roundtrip. Qed.
Print Assumptions C16_type_roundtrip.

(* ... and that tree denotes the documented type (singleton MultiTypes forgotten): structure intact *)
Theorem C16_embed_faithful : forall t, doc_type t = true -> abs (embed_type t) = t.
Proof. exact abs_embed_one. Qed.
Print Assumptions C16_embed_faithful.

(* the documented rule TYPE[] applied repeatedly, written without parentheses (`string[][]`, any depth, anywhere
   inside any documented type): the plain text parses back to itself (repaired: the array suffix is read in a loop) *)
Theorem C16_nested_array_roundtrip :
  forall t, doc_type t = true ->
    parse_type (fuel_of (show_type_plain t)) (show_type_plain t) = Ok (inl (embed_type_plain t, [])) /\
    abs (embed_type_plain t) = t.
Proof. exact (fun t Hd => conj (type_roundtrip_plain t Hd) (abs_embed_one_plain t Hd)). Qed.
Print Assumptions C16_nested_array_roundtrip.

(* the same seen as a text: any documented T (in parentheses when it is a union or a fun type) followed by n + 1
   suffixes "[]" is read as the (n+1)-dimensional array of T, with nothing left as comment *)
Theorem C16_nested_array_depth :
  forall t n, doc_type t = true ->
    let txt := (paren (item_paren false t) (show_type_plain t) ++ brs (S n))%list in
    exists a, parse_type (fuel_of txt) txt = Ok (inl (a, [])) /\ abs a = darrs (S n) t.
Proof. exact nested_array_depth. Qed.
Print Assumptions C16_nested_array_depth.

(* regression: the witness of the repaired finding C16-nested-array *)
Example C16_nested_array_witness :
  show_type_plain (DArray (DArray (DName (bs "string")))) = bs "string[][]" /\
  parse_type (fuel_of (bs "string[][]")) (bs "string[][]")
  = Ok (inl (AMulti [AArray (AArray (ANormal (bs "string") true))], [])) /\
  ann_parse_line (fuel_of (bs "type string[][][]")) (bs "type string[][][]")
  = Ok (inl (SType [(false, false, AMulti [AArray (AArray (AArray (ANormal (bs "string") true)))])] [])).
Proof. repeat split; vm_compute; reflexivity. Qed.

(* ================================================================== statements *)

(* all ten statement forms (type, alias, class, overload, field, param, return, generic, vararg, enum), all
   modifiers and any trailing comment *)
Theorem C16_stat_roundtrip :
  forall s, doc_stat s = true ->
    ann_parse_line (fuel_of (show_line s)) (show_line s) = Ok (inl (embed_line s)).
Proof. exact stat_roundtrip. Qed.
Print Assumptions C16_stat_roundtrip.

(* the trailing @comment is returned verbatim, whatever bytes it contains (repaired: also on `---@enum start @c`) *)
Theorem C16_comment_kept :
  forall s x, doc_stat s = true -> dstat_comment s = Some x ->
    exists a, ann_parse_line (fuel_of (show_line s)) (show_line s) = Ok (inl a) /\ stat_comment a = x.
Proof. exact comment_kept. Qed.
Print Assumptions C16_comment_kept.

(* regression: the witness of the repaired finding C16-enum-comment (was " @c") *)
Example C16_enum_comment_witness :
  enum_with_comment (DSEnum true (Some [99])) = true /\
  show_line (DSEnum true (Some [99])) = bs "enum start @c" /\
  ann_parse_line (fuel_of (bs "enum start @c")) (bs "enum start @c") = Ok (inl (SEnum 1 [99])).
Proof. repeat split; vm_compute; reflexivity. Qed.

(* the documented grammar written plainly (TYPE[] applied to any TYPE, no extra parentheses, `string[][]`):
   accepted with its structure intact -- no exception left (repaired) *)
Theorem C16_stat_roundtrip_plain :
  forall s, doc_stat s = true ->
    ann_parse_line (fuel_of (show_line_plain s)) (show_line_plain s) = Ok (inl (embed_line_plain s)).
Proof. exact stat_roundtrip_plain. Qed.
Print Assumptions C16_stat_roundtrip_plain.

(* the same through ParseCommentFragment, for the comment line "-@..." (what leg c16.line observes) *)
Theorem C16_stat_fragment_roundtrip :
  forall s lno, doc_stat s = true ->
    parse_fragment [(lno, (s_head ++ show_line s)%list)] = Ok (mkFrag [embed_line s] [lno] []) /\
    parse_fragment [(lno, (s_head ++ show_line_plain s)%list)] = Ok (mkFrag [embed_line_plain s] [lno] []).
Proof. exact (fun s lno Hd => conj (stat_fragment_roundtrip s lno Hd) (stat_fragment_roundtrip_plain s lno Hd)). Qed.
Print Assumptions C16_stat_fragment_roundtrip.

(* without a nested array the plain printer is the canonical one *)
Theorem C16_plain_is_canonical : forall s, stat_nested_array s = false -> show_line_plain s = show_line s.
Proof. exact show_line_plain_eq. Qed.
Print Assumptions C16_plain_is_canonical.

Example C16_plain_differs :
  stat_nested_array (DSField (Some 1) false (bs "f") (DArray (DArray (DName (bs "a")))) None) = true /\
  show_line_plain (DSField (Some 1) false (bs "f") (DArray (DArray (DName (bs "a")))) None) = bs "field protected f a[][]" /\
  show_line (DSField (Some 1) false (bs "f") (DArray (DArray (DName (bs "a")))) None) = bs "field protected f (a[])[]".
Proof. repeat split; vm_compute; reflexivity. Qed.

(* ================================================================== fragments: line isolation *)

(* a block of lines whose continuation lines ("-| ...") all follow a statement of the block contributes the same
   statements, lines and errors whatever was read before it *)
Theorem C16_isolation_general :
  forall ls fr frx, safe_from frx ls = true ->
    frag_loop (frag_app fr frx) ls = do r <- frag_loop frx ls; Ok (frag_app fr r).
Proof. exact isolation_general. Qed.
Print Assumptions C16_isolation_general.

(* a malformed line yields its own error and nothing else: the statements / lines of the neighbours are the ones
   they have without it, the errors are theirs plus the one of the malformed line, in order *)
Theorem C16_line_isolation :
  forall ls1 bad ls2 p1 p2 e,
    parse_fragment ls1 = Ok p1 -> parse_fragment ls2 = Ok p2 ->
    is_cont_line bad = false -> frag_step frag_empty bad = Ok (mkFrag [] [] [e]) ->
    self_contained ls2 = true ->
    parse_fragment (ls1 ++ bad :: ls2) =
    Ok (mkFrag (f_stats p1 ++ f_stats p2) (f_lines p1 ++ f_lines p2) (f_errs p1 ++ e :: f_errs p2)).
Proof. exact line_isolation. Qed.
Print Assumptions C16_line_isolation.

(* the executable form used by the check (leg c16.fragment): outside the class below, ParseCommentFragment
   = every unit (a line + its continuation lines) read on its own, Stats and Lines aligned *)
Theorem C16_fragment_spec_agrees :
  forall ls, frag_cont_after_bad ls = false -> parse_fragment ls = parse_fragment_spec ls.
Proof. exact fragment_spec_agrees. Qed.
Print Assumptions C16_fragment_spec_agrees.

Definition C16_fragment_spec_full : Prop := forall ls, parse_fragment ls = parse_fragment_spec ls.

(* class cont_after_bad: the continuation line after a malformed alias line is appended to the PREVIOUS alias *)
Theorem C16_cont_after_bad_refuted :
  exists ls, frag_cont_after_bad ls = true /\ parse_fragment ls <> parse_fragment_spec ls.
Proof.
  exists [(1, bs "-@alias A string"); (2, bs "-@alias B ?"); (3, bs "-| 'x'")].
  split; [vm_compute; reflexivity|]. vm_compute. discriminate.
Qed.
Print Assumptions C16_cont_after_bad_refuted.

Theorem C16_fragment_spec_full_refuted : ~ C16_fragment_spec_full.
Proof.
  intros H. specialize (H [(1, bs "-@alias A string"); (2, bs "-@alias B ?"); (3, bs "-| 'x'")]).
  vm_compute in H. discriminate H.
Qed.
Print Assumptions C16_fragment_spec_full_refuted.

(* Lines[i] is the line of Stats[i], for ALL inputs (repaired: clearEmpytAlias removes the line together with the
   statement): the two slices have the same length ... *)
Theorem C16_alias_lines_aligned :
  forall ls fr, parse_fragment ls = Ok fr -> length (f_stats fr) = length (f_lines fr).
Proof. exact parse_fragment_aligned. Qed.
Print Assumptions C16_alias_lines_aligned.

(* ... and they are exactly the (statement, line) pairs collected while the lines were read, minus the aliases
   that never got a type *)
Theorem C16_alias_lines_pairs :
  forall ls, exists fr0,
    frag_loop frag_empty ls = Ok fr0 /\ length (f_stats fr0) = length (f_lines fr0) /\
    parse_fragment ls = Ok (clear_aligned fr0).
Proof. exact fragment_pairs. Qed.
Print Assumptions C16_alias_lines_pairs.

(* regression: the witness of the repaired finding C16-alias-lines (was Stats = [type], Lines = [1; 2]) *)
Example C16_alias_lines_witness :
  frag_has_empty_alias [(1, bs "-@alias A"); (2, bs "-@type string")] = true /\
  parse_fragment [(1, bs "-@alias A"); (2, bs "-@type string")]
  = Ok (mkFrag [SType [(false, false, AMulti [ANormal (bs "string") true])] []] [2] []) /\
  parse_fragment [(1, bs "-@alias A"); (2, bs "-@type string")]
  = parse_fragment_spec [(1, bs "-@alias A"); (2, bs "-@type string")].
Proof. repeat split; vm_compute; reflexivity. Qed.

(* ================================================================== the implementation printer *)

Definition C16_impl_printer_full : Prop :=
  forall a, doc_type (abs a) = true ->
    exists a', parse_type (fuel_of (type_convert_str a)) (type_convert_str a) = Ok (inl (a', [])) /\ abs a' = abs a.

(* proved part: no fun type, no string constant, no union directly in a union
   (repaired: array items that are unions or arrays keep their parentheses, so they are inside the proved part) *)
Theorem C16_impl_printer_partial :
  forall a, printer_guard a = true ->
    exists a', parse_type (fuel_of (type_convert_str a)) (type_convert_str a) = Ok (inl (a', [])) /\ abs a' = abs a.
Proof. exact impl_printer_partial. Qed.
Print Assumptions C16_impl_printer_partial.

(* the same through ParseCommentFragment (what leg c16.print observes) *)
Theorem C16_impl_printer_line :
  forall a lno, printer_guard a = true ->
    parse_fragment [(lno, (s_head ++ k_type ++ type_convert_str a)%list)]
    = Ok (mkFrag [SType [(false, false, embed_type (abs a))] []] [lno] []).
Proof. exact printer_fragment. Qed.
Print Assumptions C16_impl_printer_line.

(* regression: the witnesses of the repaired finding C16-printer-union: `(string|number)[]` (was printed
   `string | number[]` = string | (number[])) and `(string[])[]` (was printed `string[][]`) *)
Example C16_printer_union_witness :
  let a := AMulti [AArray (AMulti [ANormal (bs "string") true; ANormal (bs "number") true])] in
  let b := AMulti [AArray (AMulti [AArray (ANormal (bs "string") true)])] in
  has_paren_item (abs a) = true /\ printer_guard a = true /\ type_convert_str a = bs "(string | number)[]" /\
  has_paren_item (abs b) = true /\ printer_guard b = true /\ type_convert_str b = bs "(string[])[]" /\
  parse_type (fuel_of (type_convert_str a)) (type_convert_str a) = Ok (inl (a, [])) /\
  parse_type (fuel_of (type_convert_str b)) (type_convert_str b) = Ok (inl (b, [])).
Proof. repeat split; vm_compute; reflexivity. Qed.

(* fun types are printed as `function(...)`, which reads back as the name `function` + a comment *)
Theorem C16_printer_fun_refuted :
  exists a, doc_type (abs a) = true /\ has_fun (abs a) = true /\
            type_convert_str a = bs "function(a: string): number" /\
            parse_type (fuel_of (type_convert_str a)) (type_convert_str a)
            = Ok (inl (AMulti [ANormal (bs "function") true], bs "(a: string): number")).
Proof.
  exists (AMulti [AFun [(bs "a", false, AMulti [ANormal (bs "string") true])] [AMulti [ANormal (bs "number") true]]]).
  split; [reflexivity|]. split; [reflexivity|]. split; vm_compute; reflexivity.
Qed.
Print Assumptions C16_printer_fun_refuted.

(* string constants: '"r"' prints "r" (QuotesFlag lost on reading); "abc" prints abc (a type name) *)
Theorem C16_printer_const_refuted :
  exists a, doc_type (abs a) = true /\ has_const (abs a) = true /\
            exists a', parse_type (fuel_of (type_convert_str a)) (type_convert_str a) = Ok (inl (a', [])) /\
                       abs a' <> abs a.
Proof.
  exists (AMulti [AConst (bs "r") true []]). split; [reflexivity|]. split; [reflexivity|].
  eexists. split; [vm_compute; reflexivity|]. vm_compute. discriminate.
Qed.
Print Assumptions C16_printer_const_refuted.

Theorem C16_impl_printer_full_refuted : ~ C16_impl_printer_full.
Proof.
  intros H. destruct (H (AMulti [AConst (bs "r") true []]) eq_refl) as (a' & H1 & H2).
  vm_compute in H1. injection H1 as <-. vm_compute in H2. discriminate H2.
Qed.
Print Assumptions C16_impl_printer_full_refuted.

(* ================================================================== totality (cited by Properties/C01.v) *)

(* ParserLine on ANY bytes: returns a statement or a ParseAnnotateErr; no runtime panic reaches the type assertion
   of its recover(), no loop runs away (fuel_of is linear in the length of the line) *)
Theorem C16_line_total : forall line, exists r, ann_parse_line (fuel_of line) line = Ok r.
Proof. exact ann_parse_line_no_fault. Qed.
Print Assumptions C16_line_total.

Theorem C16_type_total : forall text, exists r, parse_type (fuel_of text) text = Ok r.
Proof. exact parse_type_no_fault. Qed.
Print Assumptions C16_type_total.

(* ParseCommentFragment on ANY list of byte lines (incl. the continuation-line path that runs outside recover()) *)
Theorem C16_fragment_total : forall lines, exists fr, parse_fragment lines = Ok fr.
Proof. exact parse_fragment_no_fault. Qed.
Print Assumptions C16_fragment_total.

Theorem C16_lex_total :
  forall l, (exists t l', next_token l = Ok (t, l')) /\ (exists l', look_ahead l = Ok l').
Proof. exact ann_lex_total. Qed.
Print Assumptions C16_lex_total.

(* ================================================================== non-vacuity of the guards *)
Definition ex_type : dtype :=
  DUnion [DName (bs "string");
          DArray (DUnion [DName (bs "a.b");
                          DTable (DName (bs "k"))
                                 (DFun [(bs "x", true, Some (DName (bs "y"))); (bs "...", false, None)]
                                       [DName (bs "r"); DArray (DArray (DConst (bs "q") true))])]);
          DFun [] []].
(* prints: string | (a.b | table<k, (fun(x?: y, ...): r, ('"q"'[])[])>)[] | (fun()) *)
Example C16_doc_type_inhabited : doc_type ex_type = true.
Proof. reflexivity. Qed.

Example C16_doc_stat_inhabited :
  doc_stat (DSType [(true, true, DFun [] [DName (bs "a")]); (false, true, ex_type);
                    (false, false, DFun [(bs "type", false, Some (DFun [] []))] [DName (bs "a"); DName (bs "b")])]
                   (Some (bs "hello @ world "))) = true /\
  doc_stat (DSField None true (bs "type") ex_type (Some [228; 184; 173])) = true /\
  doc_stat (DSParam true (bs "const") true ex_type None) = true /\
  doc_stat (DSReturn [(DFun [] [DName (bs "a")], true); (ex_type, false)] (Some [])) = true /\
  doc_stat (DSGeneric [(bs "T", Some (bs "Base")); (bs "K", None)] (Some (bs "c"))) = true /\
  doc_stat (DSClass (bs "Man") [bs "People"; bs "Team"] (Some (bs "c"))) = true /\
  doc_stat (DSEnum false (Some (bs " @ x"))) = true /\
  doc_stat (DSVararg (DArray (DArray (DArray (DUnion [DName (bs "a"); DArray (DArray DTable0)])))) None) = true.
Proof. repeat split. Qed.

Example C16_printer_guard_inhabited :
  printer_guard (AMulti [ATable (AMulti [ANormal (bs "string") true])
                                (AMulti [AArray (ANormal (bs "People") true)]);
                         AArray (AMulti [ATableEmpty; AArray (AArray (ANormal (bs "a.b") true))]);
                         AArray (AMulti [AArray (AMulti [ANormal (bs "x") true; ANormal (bs "y") true])]);
                         ANormal (bs "...") true]) = true.
Proof. reflexivity. Qed.

Example C16_self_contained_inhabited :
  self_contained [(4, bs "- plain comment"); (5, bs "-@alias M"); (6, bs "-| 'r' # read"); (7, bs "-| 'w'");
                  (8, bs "-@type ?"); (9, bs "-@field x string @c")] = true /\
  frag_step frag_empty (3, bs "-@param ") =
  Ok (mkFrag [] [] [(3, 8%nat, mkErr 2 KEOF (bs "annotate warn : syntax error near 'EOF'") 0)]).
Proof. split; vm_compute; reflexivity. Qed.

Example C16_fragment_guard_inhabited :
  let ls := [(1, bs "-@alias M"); (2, bs "-| 'r' # read"); (3, bs "-@type ?"); (4, bs "-@class A : B @c");
             (5, bs "-@alias Empty @never typed"); (6, bs "-@enum end @c")] in
  frag_cont_after_bad ls = false.
Proof. vm_compute. reflexivity. Qed.
