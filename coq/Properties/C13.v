(* C13 - hover shows the right symbol and its comment verbatim.
   Only statements closed by `exact` + Print Assumptions live here. *)
From Coq Require Import List NArith Bool.
From LH Require Import Base.Bytes Base.Utf8 Model.Codec Proofs.CodecProofs.
Import ListNotations.
Local Open Scope N_scope.

(* Full statement of the encoding sentence ("Text of UTF-8 sources is reproduced
   unaltered whatever script it is written in"), for any GBK decoder whatsoever: *)
Definition C13_codec_full : Prop :=
  forall (gbk : list N -> option (list N)) cps,
    forallb scalar cps = true -> convert gbk (utf8_of cps) = utf8_of cps.

(* proved part: every valid UTF-8 text without a two-byte character (U+0080..U+07FF) is unchanged *)
Theorem C13_utf8_identity :
  forall (gbk : list N -> option (list N)) cps,
    forallb scalar cps = true -> existsb is_two_byte cps = false ->
    convert gbk (utf8_of cps) = utf8_of cps.
Proof. exact convert_identity. Qed.
Print Assumptions C13_utf8_identity.

(* the detector's exact behaviour on valid UTF-8: it says "UTF-8" iff no two-byte character occurs *)
Theorem C13_detector_exact :
  forall cps, forallb scalar cps = true ->
    is_utf8 (utf8_of cps) = negb (existsb is_two_byte cps).
Proof. exact is_utf8_iff_no_two_byte. Qed.
Print Assumptions C13_detector_exact.

(* hence: texts with a two-byte character are handed to the GBK decoder (class of the known finding) *)
Theorem C13_two_byte_goes_to_gbk :
  forall (gbk : list N -> option (list N)) cps,
    forallb scalar cps = true -> existsb is_two_byte cps = true ->
    convert gbk (utf8_of cps) = match gbk (utf8_of cps) with Some r => r | None => utf8_of cps end.
Proof. exact convert_two_byte. Qed.
Print Assumptions C13_two_byte_goes_to_gbk.

(* refutation of the full statement on the faithful model: "é" (U+00E9) with a decoder that maps it elsewhere *)
Theorem C13_two_byte_refuted :
  forallb scalar [233] = true /\ is_utf8 (utf8_of [233]) = false /\
  exists gbk, convert gbk (utf8_of [233]) <> utf8_of [233].
Proof.
  split; [reflexivity|]. split; [vm_compute; reflexivity|].
  exists (fun _ => Some [232; 140; 133]). vm_compute. discriminate.
Qed.
Print Assumptions C13_two_byte_refuted.

Theorem C13_is_utf8_sound : forall l, is_utf8 l = true -> WellChunked l.
Proof. exact is_utf8_sound. Qed.
Print Assumptions C13_is_utf8_sound.

(* non-vacuity: a CJK + astral + ASCII text meets the hypotheses of C13_utf8_identity *)
Example C13_guard_inhabited :
  forallb scalar [104; 20013; 128512; 33] = true /\ existsb is_two_byte [104; 20013; 128512; 33] = false.
Proof. split; vm_compute; reflexivity. Qed.

(* ================================================================================================================
   Comment attachment and clean-up (Model/Comments.v, Spec/CommentSpec.v; proofs in Proofs/Comments*.v)
   ================================================================================================================ *)
From Coq Require Import ZArith.
From LH Require Import Base.Res Model.Lexer Model.Ast Model.LuaFront Model.Comments Spec.CommentSpec
  Proofs.CommentsCleanup Proofs.CommentsGap Proofs.CommentsAttach.

(* Full statement of the attachment sentence, from file BYTES, for EVERY file: the comment the server attaches to line L
   (GetLineComment on the map the lexer filled while the parser consumed the file) is the trailing comment recorded for L
   if its text is non-empty, else the block ending on line L-1, lines joined by "\n", bytes unchanged.
   It is REFUTED as stated (C13_leading_empty_refuted); proved below are
   (1) C13_gap_entries: what one gap records (all structured gaps of white space, LF/CRLF breaks, `--text` comments),
   (2) C13_comment_attach / _partial: the lookup, under the boolean guard attach_guard (no key shared by two entries,
       no block of >= 2 lines starting with an empty line), (3) the clean-up characterisations.
   Missing for a proof of the full sentence on a guarded class of BYTES: gaps with `--[[ ]]` comments, lone CR / LFCR
   breaks or `--[x` comments (outside gap_ok), and a proof that entries of DIFFERENT gaps of one file never share a
   key (today part of attach_guard, which is evaluated on the file's own map). *)
Definition C13_comment_attach_full : Prop :=
  forall (gbk_runes : list N -> Z) (classify : list N -> numcls) bs es,
    comment_writes gbk_runes classify bs = Ok (Some es) ->
    forall L, doc_comment gbk_runes classify bs L = Ok (Some (spec_attach es L)).

(* (1) one gap: for ALL structured gaps (indentation, optional `--text`, LF / CRLF line breaks) followed by any token
   start, skipWhiteSpaces records exactly the described entries: a trailing entry for a comment on the line the previous
   token ends on, and one entry per maximal run of consecutive comment lines, keyed by its last line. *)
Theorem C13_gap_entries : forall p2 p1 s g tail,
  chunk s = render_gap g ++ tail -> gap_ok g tail = true -> (pline p1 <= line s)%Z ->
  exists s', skip_ws p2 p1 s = (s', spec_entries (pline p1) (line s) (pos s - lsp s)%Z g, [])
             /\ chunk s' = tail /\ line s' = (line s + Z.of_nat (length (g_rest g)))%Z.
Proof. exact skip_ws_gap. Qed.
Print Assumptions C13_gap_entries.

(* (2) the lookup: for ALL comment maps without key collisions and without a block that starts with an empty line,
   GetLineComment = the trailing comment stored for the line if its text is non-empty, else the block ending on the
   line above, lines joined by "\n", bytes unchanged. *)
Theorem C13_comment_attach : forall es, attach_guard es = true ->
  forall L, get_line_comment es L = spec_attach es L.
Proof. exact attach_lookup. Qed.
Print Assumptions C13_comment_attach.

(* the same for a file, from its bytes *)
Theorem C13_comment_attach_partial :
  forall (gbk_runes : list N -> Z) (classify : list N -> numcls) bs es,
    comment_writes gbk_runes classify bs = Ok (Some es) -> attach_guard es = true ->
    forall L, doc_comment gbk_runes classify bs L = Ok (Some (spec_attach es L)).
Proof. exact doc_comment_attach. Qed.
Print Assumptions C13_comment_attach_partial.

(* non-vacuity of both guards: a gap with a trailing comment, a two-line block, a blank line and a one-line block;
   a program with leading / trailing / separated comments *)
Example C13_gap_guard_inhabited :
  let g := mkGap (mkGl [32] (Some [32; 116]))
                 [(NlLF, mkGl [] (Some [32; 97])); (NlCRLF, mkGl [32; 32] (Some [32; 98])); (NlLF, mkGl [] None);
                  (NlLF, mkGl [] (Some [32; 99])); (NlLF, mkGl [9] None)] in
  gap_ok g [120] = true /\ length (spec_entries 3 3 11 g) = 3%nat.
Proof. split; vm_compute; reflexivity. Qed.

(* "-- a\n-- b\nlocal x = 1 -- t\n\n-- s\n\nlocal y = 2\n" *)
Definition C13_prog : list N :=
  [45;45;32;97;10; 45;45;32;98;10; 108;111;99;97;108;32;120;32;61;32;49;32;45;45;32;116;10; 10;
   45;45;32;115;10; 10; 108;111;99;97;108;32;121;32;61;32;50;10].
Example C13_attach_guard_inhabited :
  exists es, comment_writes (fun _ => 0%Z) classify_tok C13_prog = Ok (Some es) /\ attach_guard es = true /\
             spec_attach es 3 = [32; 116] /\ spec_attach es 7 = [] /\ length es = 3%nat.
Proof. eexists. split; [vm_compute; reflexivity|]. split; [vm_compute; reflexivity|]. split; [|split]; vm_compute; reflexivity. Qed.

(* refutation of the full statement on the faithful model: a block whose first line is an empty `--` loses that line
   ("--\n-- text\nlocal a = 1": the server shows " text", the block is "\n text") *)
Definition C13_prog_empty_first : list N :=
  [45;45;10; 45;45;32;116;101;120;116;10; 108;111;99;97;108;32;97;32;61;32;49].
Theorem C13_leading_empty_refuted : ~ C13_comment_attach_full.
Proof.
  intros H.
  assert (Hw : comment_writes (fun _ => 0%Z) classify_tok C13_prog_empty_first
               = Ok (Some [(2%Z, mkCinfo [mkCline [] 1 2; mkCline [32;116;101;120;116] 2 2] true true)])) by (vm_compute; reflexivity).
  specialize (H (fun _ => 0%Z) classify_tok _ _ Hw 3%Z). vm_compute in H. discriminate H.
Qed.
Print Assumptions C13_leading_empty_refuted.

(* (3) clean-up: what the two clean-up functions remove in front of a line, and nothing else *)
Theorem C13_cleanup : forall l,
  exists p sp, l = p ++ sp ++ final_line l /\ final_decoration p /\ all_spaces sp = true /\ no_lead_space (final_line l) = true.
Proof. exact final_line_char. Qed.
Print Assumptions C13_cleanup.

Theorem C13_cleanup_text_untouched : forall c l, c <> 45 -> c <> 42 -> c <> 32 -> final_line (c :: l) = c :: l.
Proof. exact final_line_id. Qed.
Print Assumptions C13_cleanup_text_untouched.

Theorem C13_cleanup_lines : forall s, s <> [] ->
  final_comment s = join_nl (drop_last_empty (map final_line (split_nl s))).
Proof. exact final_comment_char. Qed.
Print Assumptions C13_cleanup_lines.

Theorem C13_hover_cleanup : forall l,
  exists s1 p s2, l = s1 ++ p ++ s2 ++ hover_line l /\ all_spaces s1 = true /\ hover_decoration p /\ all_spaces s2 = true
                  /\ no_lead_space (hover_line l) = true.
Proof. exact hover_line_char. Qed.
Print Assumptions C13_hover_cleanup.

Theorem C13_hover_cleanup_lines : forall s, s <> [] ->
  forallb (fun l => negb (is_annot_line (hover_line l))) (split_nl s) = true ->
  get_str_comment s = flat_map (fun l => s_br ++ hover_line l) (split_nl s).
Proof. exact get_str_comment_plain. Qed.
Print Assumptions C13_hover_cleanup_lines.
