(* C13 - hover shows the right symbol and its comment verbatim.
   Only statements closed by `exact` + Print Assumptions live here. *)
From Coq Require Import List NArith Bool.
From LH Require Import Base.Bytes Base.Utf8 Model.Codec Proofs.CodecProofs.
Import ListNotations.
Local Open Scope N_scope.

(* Full statement of the encoding sentence ("Text of UTF-8 sources is reproduced
   unaltered whatever script it is written in"), for any GBK decoder whatsoever: *)
Definition C13_codec_full : Prop :=
  forall (gbk : list N -> option (list N)) cps,
    forallb scalar cps = true -> convert gbk (utf8_of cps) = utf8_of cps.

(* proved part: every valid UTF-8 text without a two-byte character (U+0080..U+07FF) is unchanged *)
Theorem C13_utf8_identity :
  forall (gbk : list N -> option (list N)) cps,
    forallb scalar cps = true -> existsb is_two_byte cps = false ->
    convert gbk (utf8_of cps) = utf8_of cps.
Proof. exact convert_identity. Qed.
Print Assumptions C13_utf8_identity.

(* the detector's exact behaviour on valid UTF-8: it says "UTF-8" iff no two-byte character occurs *)
Theorem C13_detector_exact :
  forall cps, forallb scalar cps = true ->
    is_utf8 (utf8_of cps) = negb (existsb is_two_byte cps).
Proof. exact is_utf8_iff_no_two_byte. Qed.
Print Assumptions C13_detector_exact.

(* hence: texts with a two-byte character are handed to the GBK decoder (class of the known finding) *)
Theorem C13_two_byte_goes_to_gbk :
  forall (gbk : list N -> option (list N)) cps,
    forallb scalar cps = true -> existsb is_two_byte cps = true ->
    convert gbk (utf8_of cps) = match gbk (utf8_of cps) with Some r => r | None => utf8_of cps end.
Proof. exact convert_two_byte. Qed.
Print Assumptions C13_two_byte_goes_to_gbk.

(* refutation of the full statement on the faithful model: "é" (U+00E9) with a decoder that maps it elsewhere *)
Theorem C13_two_byte_refuted :
  forallb scalar [233] = true /\ is_utf8 (utf8_of [233]) = false /\
  exists gbk, convert gbk (utf8_of [233]) <> utf8_of [233].
Proof.
  split; [reflexivity|]. split; [vm_compute; reflexivity|].
  exists (fun _ => Some [232; 140; 133]). vm_compute. discriminate.
Qed.
Print Assumptions C13_two_byte_refuted.

Theorem C13_is_utf8_sound : forall l, is_utf8 l = true -> WellChunked l.
Proof. exact is_utf8_sound. Qed.
Print Assumptions C13_is_utf8_sound.

(* non-vacuity: a CJK + astral + ASCII text meets the hypotheses of C13_utf8_identity *)
Example C13_guard_inhabited :
  forallb scalar [104; 20013; 128512; 33] = true /\ existsb is_two_byte [104; 20013; 128512; 33] = false.
Proof. split; vm_compute; reflexivity. Qed.

(* ================================================================================================================
   Comment attachment and clean-up (Model/Comments.v, Spec/CommentSpec.v; proofs in Proofs/Comments*.v)
   ================================================================================================================ *)
From Coq Require Import ZArith.
From LH Require Import Base.Res Model.Lexer Model.Ast Model.Parser Model.LuaFront Model.Comments Model.Hover Spec.CommentSpec
  Proofs.CommentsCleanup Proofs.CommentsGap Proofs.CommentsAttach Proofs.CommentsTable Proofs.CommentsFile Proofs.ParserLocBase Proofs.CommentsDecl.

(* The attachment sentence on the comment map of a file, for EVERY file: the comment the server attaches to line L
   (GetLineComment on the map the lexer filled while the parser consumed the file) is the trailing comment recorded for L
   if its text is non-empty, else the block recorded as ending on line L-1, lines joined by "\n", bytes unchanged -
   provided no two map writes share a key. (Before fix 699f51d this was refuted: a block starting with an
   empty `--` line lost that line; see C13_leading_empty_regression.)
   Proved below: (1) C13_gap_entries: what one gap records (all structured gaps of white space, LF/CRLF breaks, `--text`
   comments); (2) C13_comment_attach / _partial: the lookup under the boolean guard attach_guard (positive keys, no key
   shared by two entries); (3) the clean-up characterisations; (4) C13_comment_attach_file: the sentence from the file
   BYTES against the declarative table of comment lines, with the guard discharged for the whole class of files whose
   gaps are structured. *)
Definition C13_comment_attach_full : Prop :=
  forall (gbk_runes : list N -> Z) (classify : list N -> numcls) bs es,
    comment_writes gbk_runes classify bs = Ok (Some es) ->
    forall L, doc_comment gbk_runes classify bs L = Ok (Some (spec_attach es L)).

(* C13_comment_attach_full reads the map ENTRY BY ENTRY (spec_attach takes the first entry of a key); it is false
   without the guard because a Go map keeps the LAST write of a key and two gaps - or a long-bracket and a `--` comment of
   one gap - can write the same key: "--[[ a ]] -- b\nlocal y" writes key 1 twice (an empty long-comment entry, then the
   line " b"); the server shows " b" for line 2, the first entry is empty. Not a defect of the code: the entry-wise
   reading needs distinct keys (attach_guard), and C13_comment_attach_file proves they are distinct for structured files
   and states the sentence on the table of comment LINES instead. *)
Theorem C13_comment_attach_full_needs_guard : ~ C13_comment_attach_full.
Proof.
  intros H.
  set (bs := [45;45;91;91;32;97;32;93;93;32;45;45;32;98;10;108;111;99;97;108;32;121]).
  assert (Hw : comment_writes (fun _ => 0%Z) classify_tok bs
               = Ok (Some [(1%Z, mkCinfo [] false true); (1%Z, mkCinfo [mkCline [32; 98] 1 3] true true)])) by (vm_compute; reflexivity).
  specialize (H (fun _ => 0%Z) classify_tok _ _ Hw 2%Z). vm_compute in H. discriminate H.
Qed.
Print Assumptions C13_comment_attach_full_needs_guard.

(* (1) one gap: for ALL structured gaps (indentation, optional `--text`, LF / CRLF line breaks) followed by any token
   start, skipWhiteSpaces records exactly the described entries: a trailing entry for a comment on the line the previous
   token ends on, and one entry per maximal run of consecutive comment lines, keyed by its last line. *)
Theorem C13_gap_entries : forall p2 p1 s g tail,
  chunk s = render_gap g ++ tail -> gap_ok g tail = true -> (pline p1 <= line s)%Z ->
  exists s', skip_ws p2 p1 s = (s', spec_entries (pline p1) (line s) (pos s - lsp s)%Z g, [])
             /\ chunk s' = tail /\ line s' = (line s + Z.of_nat (length (g_rest g)))%Z.
Proof. exact skip_ws_gap. Qed.
Print Assumptions C13_gap_entries.

(* (2) the lookup: for ALL comment maps without key collisions,
   GetLineComment = the trailing comment stored for the line if its text is non-empty, else the block ending on the
   line above, lines joined by "\n", bytes unchanged. *)
Theorem C13_comment_attach : forall es, attach_guard es = true ->
  forall L, get_line_comment es L = spec_attach es L.
Proof. exact attach_lookup. Qed.
Print Assumptions C13_comment_attach.

(* the same for a file, from its bytes *)
Theorem C13_comment_attach_partial :
  forall (gbk_runes : list N -> Z) (classify : list N -> numcls) bs es,
    comment_writes gbk_runes classify bs = Ok (Some es) -> attach_guard es = true ->
    forall L, doc_comment gbk_runes classify bs L = Ok (Some (spec_attach es L)).
Proof. exact doc_comment_attach. Qed.
Print Assumptions C13_comment_attach_partial.

(* non-vacuity of both guards: a gap with a trailing comment, a two-line block, a blank line and a one-line block;
   a program with leading / trailing / separated comments *)
Example C13_gap_guard_inhabited :
  let g := mkGap (mkGl [32] (Some [32; 116]))
                 [(NlLF, mkGl [] (Some [32; 97])); (NlCRLF, mkGl [32; 32] (Some [32; 98])); (NlLF, mkGl [] None);
                  (NlLF, mkGl [] (Some [32; 99])); (NlLF, mkGl [9] None)] in
  gap_ok g [120] = true /\ length (spec_entries 3 3 11 g) = 3%nat.
Proof. split; vm_compute; reflexivity. Qed.

(* "-- a\n-- b\nlocal x = 1 -- t\n\n-- s\n\nlocal y = 2\n" *)
Definition C13_prog : list N :=
  [45;45;32;97;10; 45;45;32;98;10; 108;111;99;97;108;32;120;32;61;32;49;32;45;45;32;116;10; 10;
   45;45;32;115;10; 10; 108;111;99;97;108;32;121;32;61;32;50;10].
Example C13_attach_guard_inhabited :
  exists es, comment_writes (fun _ => 0%Z) classify_tok C13_prog = Ok (Some es) /\ attach_guard es = true /\
             spec_attach es 3 = [32; 116] /\ spec_attach es 7 = [] /\ length es = 3%nat.
Proof. eexists. split; [vm_compute; reflexivity|]. split; [vm_compute; reflexivity|]. split; [|split]; vm_compute; reflexivity. Qed.

(* regression for the repaired defect C13-leading-empty-comment-line: a block whose first line is an empty `--` keeps
   that line ("--\n-- text\nlocal a = 1": the documentation of line 3 is "\n text"; before the fix it was " text") *)
Definition C13_prog_empty_first : list N :=
  [45;45;10; 45;45;32;116;101;120;116;10; 108;111;99;97;108;32;97;32;61;32;49].
Example C13_leading_empty_regression :
  comment_writes (fun _ => 0%Z) classify_tok C13_prog_empty_first
    = Ok (Some [(2%Z, mkCinfo [mkCline [] 1 2; mkCline [32;116;101;120;116] 2 2] true true)]) /\
  doc_comment (fun _ => 0%Z) classify_tok C13_prog_empty_first 3 = Ok (Some [10; 32;116;101;120;116]).
Proof. split; vm_compute; reflexivity. Qed.

(* (4) whole files, from the BYTES. The file is read as gap token gap ... token gap (Spec/CommentSpec.v file_gaps: gaps
   cut out by a structural parser, token extents and line counts from scan_token of the shared lexer model); its comment
   lines form a table (line, trailing?, text). For EVERY file of the boolean class file_class (every gap consists of
   white space, LF / CRLF line breaks and `--text` comments whose text does not start with `[`; the parser reads the file
   to its end) and EVERY line L that is not itself a comment-only line:
     the documentation the server attaches to L = the trailing comment on L if its text is non-empty, else the maximal
     block of comment-only lines ending on L-1, joined by "\n", bytes unchanged.
   Nothing is assumed about the comment map: that entries of different gaps never share a key and that keys are positive
   (attach_guard) is proved from the layout (C13_file_attach_guard). The side condition on L holds for every line a
   token ends on - in particular the line of a declared name (C13_token_lines_no_comment). *)
(* the statement without the class guard. NOT claimed: outside file_class the table is not defined (file_table = [] when
   some gap is unstructured), so as written it fails there; what is missing for a full statement is a description
   (table) for gaps with long-bracket comments, `--[x` comments, lone CR / LF CR breaks, and for files the parser does
   not read to the end (there the map only holds the gaps in front of the tokens the parser pulled) *)
Definition C13_comment_attach_file_full : Prop :=
  forall (gbk_runes : list N -> Z) (classify : list N -> numcls) bs,
    forall L, pure_at (file_table gbk_runes bs) L = None ->
      doc_comment gbk_runes classify bs L = Ok (Some (spec_comment (file_table gbk_runes bs) L)).

Theorem C13_comment_attach_file :
  forall (gbk_runes : list N -> Z) (classify : list N -> numcls) bs,
    file_class gbk_runes classify bs = true ->
    forall L, pure_at (file_table gbk_runes bs) L = None ->
      doc_comment gbk_runes classify bs L = Ok (Some (spec_comment (file_table gbk_runes bs) L)).
Proof. exact comment_attach_file. Qed.
Print Assumptions C13_comment_attach_file.

Theorem C13_file_attach_guard :
  forall (gbk_runes : list N -> Z) (classify : list N -> numcls) bs,
    file_class gbk_runes classify bs = true ->
    exists es, comment_writes gbk_runes classify bs = Ok (Some es) /\ attach_guard es = true.
Proof. exact file_attach_guard. Qed.
Print Assumptions C13_file_attach_guard.

Theorem C13_token_lines_no_comment :
  forall (gbk_runes : list N -> Z) (classify : list N -> numcls) bs ts,
    file_class gbk_runes classify bs = true -> lex_all gbk_runes bs = Ok ts ->
    forall t, In t ts -> tk (lt t) <> TkEOF -> pure_at (file_table gbk_runes bs) (tline (lt t)) = None.
Proof. exact token_lines_no_comment. Qed.
Print Assumptions C13_token_lines_no_comment.

(* the same for every file WITHOUT SYNTAX ERROR whose gaps are structured (such a file is read to its end; lexical
   errors do not matter): no reference to the parser's consumption *)
Corollary C13_comment_attach_valid_file :
  forall (gbk_runes : list N -> Z) (classify : list N -> numcls) bs b le rs,
    parse_bytes gbk_runes classify bs = Ok (PR b le []) -> file_gaps gbk_runes bs = Some rs ->
    forall L, pure_at (table_of_gaps rs) L = None ->
      doc_comment gbk_runes classify bs L = Ok (Some (spec_comment (table_of_gaps rs) L)).
Proof. exact comment_attach_valid_file. Qed.
Print Assumptions C13_comment_attach_valid_file.

(* end to end: the documentation text of a hover (ConvertStrToUtf8 (GetStrComment (GetLineComment file line))) = the
   spec comment of the line, cleaned up line by line (C13_hover_cleanup_lines says how), handed to the encoding
   heuristic; and unchanged by it when it is UTF-8 without a two-byte character, for ANY GBK decoder *)
Theorem C13_hover_doc_file :
  forall (gbk_runes : list N -> Z) (classify : list N -> numcls) (gbk_decode : list N -> option (list N)) bs es,
    file_class gbk_runes classify bs = true -> comment_writes gbk_runes classify bs = Ok (Some es) ->
    forall L, pure_at (file_table gbk_runes bs) L = None ->
      hover_doc gbk_decode es L = convert gbk_decode (get_str_comment (spec_comment (file_table gbk_runes bs) L)) /\
      forall cps, get_str_comment (spec_comment (file_table gbk_runes bs) L) = utf8_of cps ->
        forallb scalar cps = true -> existsb is_two_byte cps = false ->
        hover_doc gbk_decode es L = get_str_comment (spec_comment (file_table gbk_runes bs) L).
Proof. exact hover_doc_file. Qed.
Print Assumptions C13_hover_doc_file.

(* the sentence for DECLARATIONS (DESIGN: "forall bs decl, class_ok bs -> doc_comment bs decl = spec_comment bs decl"):
   in every file without syntax error whose gaps are structured, for EVERY name-bearing node of the AST (name_locs of
   C04: the names of `local`, `local function`, `for`, parameters, and every name expression - hence every declared
   local, global and function name), the documentation attached to the line the node's Loc ends on is the spec comment
   of that line. No side condition on the line is left: a name is a token (C04_name_is_token), and a line a token ends
   on is not a comment-only line. *)
Theorem C13_comment_attach_decl :
  forall (gbk_runes : list N -> Z) (classify : list N -> numcls) bs b le rs,
    parse_bytes gbk_runes classify bs = Ok (PR b le []) -> file_gaps gbk_runes bs = Some rs ->
    Forall (fun x => doc_comment gbk_runes classify bs (el (snd x))
                     = Ok (Some (spec_comment (table_of_gaps rs) (el (snd x))))) (name_locs b).
Proof. exact comment_attach_decl. Qed.
Print Assumptions C13_comment_attach_decl.

(* the hover model (Model/Hover.v, tied to the real server by leg c13.hover) end to end, for EVERY file whose gaps are
   structured, every position and every GBK decoder: the hover text is the one computed with the spec comment of the
   declaration's line as documentation - cleaned up by GetStrComment, then handed to ConvertStrToUtf8 (identity on UTF-8
   without two-byte characters: C13_hover_doc_file / C13_utf8_identity). `inherit = true` is the server (for a
   declaration initialised from another name the first non-empty comment along the initialiser chain is shown: class
   inherited_doc when the declaration has no comment of its own), `inherit = false` the property's demand (the
   declaration's own comment only); the documentation of EVERY declaration on the chain is its spec comment. *)
Theorem C13_hover_file :
  forall (gbk_runes : list N -> Z) (classify : list N -> numcls) (gbk_decode : list N -> option (list N)) bs rs,
    file_gaps gbk_runes bs = Some rs ->
    forall inherit file line col,
      hover_with gbk_runes classify inherit (hover_doc gbk_decode) file bs line col
      = hover_with gbk_runes classify inherit
          (fun _ ln => convert gbk_decode (get_str_comment (spec_comment (table_of_gaps rs) ln))) file bs line col.
Proof. exact hover_file. Qed.
Print Assumptions C13_hover_file.

(* the layout step on its own: the lexer's map writes are the entries of the file's gaps, for every file whose gaps are
   structured (no condition on the parser) *)
Theorem C13_file_layout :
  forall (gbk_runes : list N -> Z) bs rs, file_gaps gbk_runes bs = Some rs ->
    exists ts, lex_all gbk_runes bs = Ok ts /\ cm_writes ts = flat_map gap_entries rs /\ chain_ok 0 rs
               /\ 0%Z :: tok_lines ts = map gr_p rs.
Proof. exact file_layout. Qed.
Print Assumptions C13_file_layout.

(* non-vacuity of file_class: C13_prog above, and a file with a shebang line, a CRLF break, a two-line long string, a
   trailing comment behind it, a block starting with an empty `--`, an illegal token that swallows its line break, and a
   trailing comment at the end of the file without a final line break:
   "#!/bin/lua\n-- h\r\nlocal s = [[a\nb]] -- tr\n--\n--x\n$\n-- after illegal\ny = 1 -- last" *)
Definition C13_prog2 : list N :=
  [35;33;47;98;105;110;47;108;117;97;10; 45;45;32;104;13;10;
   108;111;99;97;108;32;115;32;61;32;91;91;97;10;98;93;93;32;45;45;32;116;114;10;
   45;45;10; 45;45;120;10; 36;10;
   45;45;32;97;102;116;101;114;32;105;108;108;101;103;97;108;10;
   121;32;61;32;49;32;45;45;32;108;97;115;116].
Example C13_file_class_inhabited :
  file_class (fun _ => 0%Z) classify_tok C13_prog = true /\
  file_class (fun _ => 0%Z) classify_tok C13_prog2 = true /\
  length (file_table (fun _ => 0%Z) C13_prog2) = 6%nat /\
  spec_comment (file_table (fun _ => 0%Z) C13_prog2) 3 = [32; 104] /\               (* block above `local s` *)
  spec_comment (file_table (fun _ => 0%Z) C13_prog2) 4 = [32; 116; 114] /\          (* trailing, line the string ends on *)
  spec_comment (file_table (fun _ => 0%Z) C13_prog2) 7 = [10; 120] /\               (* "" and "x" above `$` *)
  spec_comment (file_table (fun _ => 0%Z) C13_prog2) 9 = [32; 108; 97; 115; 116] /\ (* trailing wins over the block *)
  doc_comment (fun _ => 0%Z) classify_tok C13_prog2 9 = Ok (Some [32; 108; 97; 115; 116]).
Proof. repeat split; vm_compute; reflexivity. Qed.

(* outside the class: a long-bracket comment in a gap; a stray `end` that stops the parser *)
Example C13_file_class_excludes :
  file_class (fun _ => 0%Z) classify_tok [120;32;61;32;49;32;45;45;91;91;32;97;32;93;93;10] = false /\       (* x = 1 --[[ a ]] *)
  file_class (fun _ => 0%Z) classify_tok [101;110;100;32;45;45;32;99;10;120;32;61;32;49] = false.            (* end -- c\nx = 1 *)
Proof. split; vm_compute; reflexivity. Qed.

(* (3) clean-up: what the two clean-up functions remove in front of a line, and nothing else *)
Theorem C13_cleanup : forall l,
  exists p sp, l = p ++ sp ++ final_line l /\ final_decoration p /\ all_spaces sp = true /\ no_lead_space (final_line l) = true.
Proof. exact final_line_char. Qed.
Print Assumptions C13_cleanup.

Theorem C13_cleanup_text_untouched : forall c l, c <> 45 -> c <> 42 -> c <> 32 -> final_line (c :: l) = c :: l.
Proof. exact final_line_id. Qed.
Print Assumptions C13_cleanup_text_untouched.

Theorem C13_cleanup_lines : forall s, s <> [] ->
  final_comment s = join_nl (drop_last_empty (map final_line (split_nl s))).
Proof. exact final_comment_char. Qed.
Print Assumptions C13_cleanup_lines.

Theorem C13_hover_cleanup : forall l,
  exists s1 p s2, l = s1 ++ p ++ s2 ++ hover_line l /\ all_spaces s1 = true /\ hover_decoration p /\ all_spaces s2 = true
                  /\ no_lead_space (hover_line l) = true.
Proof. exact hover_line_char. Qed.
Print Assumptions C13_hover_cleanup.

Theorem C13_hover_cleanup_lines : forall s, s <> [] ->
  forallb (fun l => negb (is_annot_line (hover_line l))) (split_nl s) = true ->
  get_str_comment s = flat_map (fun l => s_br ++ hover_line l) (split_nl s).
Proof. exact get_str_comment_plain. Qed.
Print Assumptions C13_hover_cleanup_lines.

(* ================================================================================================================
   Long-bracket comments as documentation; trailing comments behind multi-line initialisers (agent c13-long)
   Reading of the statement: (a) "the comment block directly above it" includes a long-bracket comment `--[[ text ]]`
   (Lua's block comment; one line or several, any level) ending on the line directly above the declaration, and a
   long-bracket comment behind a token of the identifier's line is a trailing comment: the UNCHANGED code never showed
   either (skipWhiteSpaces kept no text for a long-bracket comment although it computes and tidies it) - genuine
   deviation, repaired by fixes/C13-long-comment-doc.diff (finding C13-long-comment-doc). (b) "the trailing comment on
   its line" is a comment on the line of the declaration's IDENTIFIER: a comment behind a multi-line initialiser
   (`local s = [[a` / `b]] -- t`, `local t = {` / `} -- t`) stands on the initialiser's last line and is not the
   declaration's documentation - statement and code agree (C13_trailing_multiline_example; such files are in file_class).
   Model: Model/Comments.v variant flag fx (fx = false: before the fix; long_fix_deployed = true). Proofs/CommentsLong.v. *)
From LH Require Import Proofs.CommentsLong.

(* the variant fx = false is the shared lexer model, so everything above is about the code before the fix ... *)
Theorem C13_prefix_variant_is_shared_model :
  forall (gbk_runes : list N -> Z) (classify : list N -> numcls) bs,
    lex_all_v false gbk_runes bs = lex_all gbk_runes bs /\
    forall L, doc_comment_v false gbk_runes classify bs L = doc_comment gbk_runes classify bs L.
Proof. intros g c bs. split; [apply lex_all_v_false|apply doc_comment_v_false]. Qed.
Print Assumptions C13_prefix_variant_is_shared_model.

(* ... and the deployed variant differs from it ONLY in the text kept for long-bracket comments: same tokens, same
   lexical errors, same comment entries (keys, head / short flags, `--` lines) for EVERY file *)
Theorem C13_deployed_differs_in_long_text_only :
  forall (gbk_runes : list N -> Z) bs,
    lex_all gbk_runes bs = res_map (map strip_lt) (lex_all_v true gbk_runes bs).
Proof. exact lex_all_strip. Qed.
Print Assumptions C13_deployed_differs_in_long_text_only.

(* hence on every file whose gaps are structured (no long-bracket comment) the deployed lexer IS the shared model, and
   every theorem above holds for the deployed code; in particular the whole-file theorem: *)
Theorem C13_deployed_is_shared_on_class :
  forall (gbk_runes : list N -> Z) (classify : list N -> numcls) bs rs, file_gaps gbk_runes bs = Some rs ->
    lex_all_v true gbk_runes bs = lex_all gbk_runes bs /\
    forall L, doc_comment_v true gbk_runes classify bs L = doc_comment gbk_runes classify bs L.
Proof. intros g c bs rs H. split; [apply (deployed_is_shared g bs rs H)|apply (doc_comment_deployed_class g c bs rs H)]. Qed.
Print Assumptions C13_deployed_is_shared_on_class.

Theorem C13_comment_attach_file_deployed :
  forall (gbk_runes : list N -> Z) (classify : list N -> numcls) bs,
    file_class gbk_runes classify bs = true ->
    forall L, pure_at (file_table gbk_runes bs) L = None ->
      doc_comment_v true gbk_runes classify bs L = Ok (Some (spec_comment (file_table gbk_runes bs) L)).
Proof. exact comment_attach_file_deployed. Qed.
Print Assumptions C13_comment_attach_file_deployed.

(* (b): "-- above\nlocal s = [[a\nb]] -- behind\nlocal t = 1 -- own": the comment behind the two-line string is stored for
   line 3 (the line the string ends on); the declaration `s` (identifier on line 2) gets the block above it, not that
   comment; `t` gets its own trailing comment. The file is in file_class: the theorem above decides it. *)
Definition C13_prog_multiline : list N :=
  [45;45;32;97;98;111;118;101;10; 108;111;99;97;108;32;115;32;61;32;91;91;97;10;98;93;93;32;45;45;32;98;101;104;105;110;100;10;
   108;111;99;97;108;32;116;32;61;32;49;32;45;45;32;111;119;110].
Example C13_trailing_multiline_example :
  file_class (fun _ => 0%Z) classify_tok C13_prog_multiline = true /\
  spec_comment (file_table (fun _ => 0%Z) C13_prog_multiline) 2 = [32;97;98;111;118;101] /\
  doc_comment_v true (fun _ => 0%Z) classify_tok C13_prog_multiline 2 = Ok (Some [32;97;98;111;118;101]) /\
  spec_comment (file_table (fun _ => 0%Z) C13_prog_multiline) 3 = [32;98;101;104;105;110;100] /\
  doc_comment_v true (fun _ => 0%Z) classify_tok C13_prog_multiline 4 = Ok (Some [32;111;119;110]).
Proof. repeat split; vm_compute; reflexivity. Qed.

(* (a): the blocks of a file with long-bracket comments, from its BYTES (Spec/CommentSpec.v: flat items, occurrences with
   line numbers, a long-bracket comment is a block of its own; file_blocks), and the statement for the class
   file_class_long (every gap made of white space, LF / CRLF, `--text` and closed long-bracket comments; no two blocks
   stored under one line; the parser reads the file to its end):
     documentation of line L = the trailing block of L if its text is non-empty, else the block ending on L-1. *)
Definition C13_comment_attach_long_full : Prop :=
  forall (gbk_runes : list N -> Z) (classify : list N -> numcls) bs,
    file_class_long gbk_runes classify bs = true ->
    forall L, doc_comment_v true gbk_runes classify bs L = Ok (Some (spec_attach (file_blocks gbk_runes bs) L)).
(* NOT proved yet (correspondence only: leg c13.hover states exactly this demand for files of the class, leg c13.cmap
   compares the map). Missing: the scan lemma "skip_ws_v true on the items of parse_items records items_entries and ends
   in after_items" (the analogue of C13_gap_entries for the four-item gaps; needs a shift lemma for scan_long_string)
   and the lockstep of lex_loop_v with file_lgaps_f (the analogue of C13_file_layout). The look-up part is proved for
   every map (C13_comment_attach). What IS proved about the deployed variant: the three theorems above. *)

(* "-- s1\n--[[ doc\n two ]]\nlocal a = 1 --[[ t ]]\n--[==[ x ]==]\n-- y\nlocal z = 2": regression for the repaired defect and
   instance of the full statement: line 4 (`a`) has the trailing long-bracket comment " t "; without it the block above
   would be the two-line long-bracket comment; line 7 (`z`) has the `--` block " y" (the long-bracket comment above it is a
   block of its own). Before the fix (variant false) line 4 had no documentation. *)
Definition C13_prog_long : list N :=
  [45;45;32;115;49;10; 45;45;91;91;32;100;111;99;10;32;116;119;111;32;93;93;10;
   108;111;99;97;108;32;97;32;61;32;49;32;45;45;91;91;32;116;32;93;93;10;
   45;45;91;61;61;91;32;120;32;93;61;61;93;10; 45;45;32;121;10; 108;111;99;97;108;32;122;32;61;32;50].
Example C13_long_comment_regression :
  file_class_long (fun _ => 0%Z) classify_tok C13_prog_long = true /\
  file_class (fun _ => 0%Z) classify_tok C13_prog_long = false /\
  doc_comment_v true (fun _ => 0%Z) classify_tok C13_prog_long 4 = Ok (Some [32;116;32]) /\
  spec_attach (file_blocks (fun _ => 0%Z) C13_prog_long) 4 = [32;116;32] /\
  doc_comment_v true (fun _ => 0%Z) classify_tok C13_prog_long 7 = Ok (Some [32;121]) /\
  spec_attach (file_blocks (fun _ => 0%Z) C13_prog_long) 7 = [32;121] /\
  doc_comment_v false (fun _ => 0%Z) classify_tok C13_prog_long 4 = Ok (Some []).
Proof. repeat split; vm_compute; reflexivity. Qed.

(* "--[[ doc\n two ]]\nlocal a = 1": a leading two-line long-bracket comment is the documentation (text " doc\n two ") *)
Definition C13_prog_long_lead : list N :=
  [45;45;91;91;32;100;111;99;10;32;116;119;111;32;93;93;10; 108;111;99;97;108;32;97;32;61;32;49].
Example C13_long_lead_regression :
  file_class_long (fun _ => 0%Z) classify_tok C13_prog_long_lead = true /\
  doc_comment_v true (fun _ => 0%Z) classify_tok C13_prog_long_lead 3 = Ok (Some [32;100;111;99;10;32;116;119;111;32]) /\
  spec_attach (file_blocks (fun _ => 0%Z) C13_prog_long_lead) 3 = [32;100;111;99;10;32;116;119;111;32].
Proof. repeat split; vm_compute; reflexivity. Qed.

(* the code before the fix violated the statement on this class: *)
Theorem C13_long_doc_prefix_refuted :
  exists bs L, file_class_long (fun _ => 0%Z) classify_tok bs = true /\
    doc_comment_v false (fun _ => 0%Z) classify_tok bs L <> Ok (Some (spec_attach (file_blocks (fun _ => 0%Z) bs) L)).
Proof. exists C13_prog_long_lead, 3%Z. split; [vm_compute; reflexivity|]. vm_compute. discriminate. Qed.
Print Assumptions C13_long_doc_prefix_refuted.

(* the hover model of the driver is Model/Hover.v hover_with_v: hover_with on the tokens of lex_all_v, plus - for a
   function - the last link of the server's chain of definitions: the function expression, whose comment is looked up on
   the line its Loc ends on (the line of `end`; class inherited_doc when that supplies the text). Full statement for it
   (the analogue of C13_hover_file): *)
Definition C13_hover_file_v_full : Prop :=
  forall (gbk_runes : list N -> Z) (classify : list N -> numcls) (gbk_decode : list N -> option (list N)) bs rs,
    file_gaps gbk_runes bs = Some rs ->
    forall inherit file line col,
      hover_with_v true gbk_runes classify inherit (hover_doc gbk_decode) file bs line col
      = hover_with_v true gbk_runes classify inherit
          (fun _ ln => convert gbk_decode (get_str_comment (spec_comment (table_of_gaps rs) ln))) file bs line col.
(* NOT proved: needs, beside C13_hover_file's argument, that the line a function expression's Loc ends on is a line a
   token ends on (C04's end-point theorem) so that the side condition pure_at = None is discharged for it. *)
