(* C13 - hover shows the right symbol and its comment verbatim.
   Only statements closed by `exact` + Print Assumptions live here. *)
From Coq Require Import List NArith Bool.
From LH Require Import Base.Bytes Base.Utf8 Model.Codec Proofs.CodecProofs.
Import ListNotations.
Local Open Scope N_scope.

(* Full statement of the encoding sentence ("Text of UTF-8 sources is reproduced
   unaltered whatever script it is written in"), for any GBK decoder whatsoever: *)
Definition C13_codec_full : Prop :=
  forall (gbk : list N -> option (list N)) cps,
    forallb scalar cps = true -> convert gbk (utf8_of cps) = utf8_of cps.

(* proved part: every valid UTF-8 text without a two-byte character (U+0080..U+07FF) is unchanged *)
Theorem C13_utf8_identity :
  forall (gbk : list N -> option (list N)) cps,
    forallb scalar cps = true -> existsb is_two_byte cps = false ->
    convert gbk (utf8_of cps) = utf8_of cps.
Proof. exact convert_identity. Qed.
Print Assumptions C13_utf8_identity.

(* the detector's exact behaviour on valid UTF-8: it says "UTF-8" iff no two-byte character occurs *)
Theorem C13_detector_exact :
  forall cps, forallb scalar cps = true ->
    is_utf8 (utf8_of cps) = negb (existsb is_two_byte cps).
Proof. exact is_utf8_iff_no_two_byte. Qed.
Print Assumptions C13_detector_exact.

(* hence: texts with a two-byte character are handed to the GBK decoder (class of the known finding) *)
Theorem C13_two_byte_goes_to_gbk :
  forall (gbk : list N -> option (list N)) cps,
    forallb scalar cps = true -> existsb is_two_byte cps = true ->
    convert gbk (utf8_of cps) = match gbk (utf8_of cps) with Some r => r | None => utf8_of cps end.
Proof. exact convert_two_byte. Qed.
Print Assumptions C13_two_byte_goes_to_gbk.

(* refutation of the full statement on the faithful model: "é" (U+00E9) with a decoder that maps it elsewhere *)
Theorem C13_two_byte_refuted :
  forallb scalar [233] = true /\ is_utf8 (utf8_of [233]) = false /\
  exists gbk, convert gbk (utf8_of [233]) <> utf8_of [233].
Proof.
  split; [reflexivity|]. split; [vm_compute; reflexivity|].
  exists (fun _ => Some [232; 140; 133]). vm_compute. discriminate.
Qed.
Print Assumptions C13_two_byte_refuted.

Theorem C13_is_utf8_sound : forall l, is_utf8 l = true -> WellChunked l.
Proof. exact is_utf8_sound. Qed.
Print Assumptions C13_is_utf8_sound.

(* non-vacuity: a CJK + astral + ASCII text meets the hypotheses of C13_utf8_identity *)
Example C13_guard_inhabited :
  forallb scalar [104; 20013; 128512; 33] = true /\ existsb is_two_byte [104; 20013; 128512; 33] = false.
Proof. split; vm_compute; reflexivity. Qed.
