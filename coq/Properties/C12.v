(* C12 - definition, references, highlight and hover agree with each other (DESIGN 5, binder family).
   The four clauses of the property over the request models of Proofs/ResolveRun.v (file bytes -> answer).
   Clauses 3 (highlight) and 4 (hover's local flag) hold for EVERY workspace; clauses 1 and 2 are refuted for the
   unchanged code (the position resolver and the traversal resolver disagree in the classes below). *)
From Coq Require Import List NArith ZArith Bool.
From LH Require Import Base.Bytes Model.Lexer Model.Ast Model.Scope Model.Globals Model.Resolve Spec.LuaScope
  Proofs.ResolveRun Proofs.ResolveBasics Proofs.ResolveWitness Proofs.ResolveFull Proofs.ResolveFixes Properties.C05.
Import ListNotations.
Local Open Scope N_scope.

Definition C12_full : Prop := c12_full_stmt.

(* ---- clause 3: document-highlight(p) = the references of p that lie in the same file - for every workspace with
   distinct file names, every position *)
Theorem C12_highlight_is_refs_in_file : forall files f line col,
  NoDup (map fst files) -> c12_clause3 files f line col.
Proof. exact c12_clause3_holds. Qed.
Print Assumptions C12_highlight_is_refs_in_file.

(* ---- clause 4: hover presents the identifier as a local exactly when go-to-definition answers with the declaration
   of a local variable (same file) - for every workspace, every position where hover answers *)
Theorem C12_hover_local_iff_definition_local : forall files f line col, c12_clause4 files f line col.
Proof. exact c12_clause4_holds. Qed.
Print Assumptions C12_hover_local_iff_definition_local.

(* model level: hover's flag is the kind of the resolved target, and a local target is what definition returns *)
Theorem C12_hover_flag : forall w f fi n line col,
  hover_at w f fi n line col = HLocal <-> exists v, resolve_at w f fi n line col = TLocal v.
Proof. exact hover_local_iff. Qed.
Print Assumptions C12_hover_flag.

Theorem C12_define_of_local : forall w f fi n line col v,
  resolve_at w f fi n line col = TLocal v -> define_at w f fi n line col = Some [(f, v_loc v)].
Proof. exact define_of_local. Qed.
Print Assumptions C12_define_of_local.

(* ---- clauses 1 and 2: one deviating position refutes the full statement *)
Theorem C12_refuted_by_one_position : forall files f line col,
  c12_deviates files f line col = true -> ~ C12_full.
Proof. exact c12_full_refuted_by. Qed.
Print Assumptions C12_refuted_by_one_position.

(* a.lua: local x = 1\nlocal x = x + 1\n *)
Definition w_B1_own_initialiser : list (list N * list N) :=
  [([97; 46; 108; 117; 97], [108; 111; 99; 97; 108; 32; 120; 32; 61; 32; 49; 10; 108; 111; 99; 97; 108; 32; 120; 32; 61; 32; 120; 32; 43; 32; 49; 10])].
(* B1, FIXED (fixes/C05-own-initialiser.diff): a use of n inside the initialiser list of `local ... n ... = ...` resolved to the
   NEW local when the initialiser node was not a plain name / call / function expression (`local x = 1; local x = x + 1`:
   the x in `x + 1` jumped to line 2); IsCorrectPosition only protected NameExp/FuncCallExp/FuncDefExp initialisers.  The
   declaration now carries the region of its statement's initialiser list (VarInfo.InitLoc) and is invisible from inside it.
   The witness deviates for the code before the repair (`no_fixes`) and no longer for the code in /repo. *)
Theorem C12_B1_own_initialiser_refuted_before_fix : c12_deviates_fx no_fixes w_B1_own_initialiser [97; 46; 108; 117; 97] 1 10 = true.
Proof. vm_compute. reflexivity. Qed.
Print Assumptions C12_B1_own_initialiser_refuted_before_fix.
Theorem C12_B1_own_initialiser_fixed : c12_deviates w_B1_own_initialiser [97; 46; 108; 117; 97] 1 10 = false.
Proof. vm_compute. reflexivity. Qed.
Print Assumptions C12_B1_own_initialiser_fixed.

(* a.lua: local i = 9 for i = i, 10 do end\n *)
Definition w_B2_for_bounds : list (list N * list N) :=
  [([97; 46; 108; 117; 97], [108; 111; 99; 97; 108; 32; 105; 32; 61; 32; 57; 32; 102; 111; 114; 32; 105; 32; 61; 32; 105; 44; 32; 49; 48; 32; 100; 111; 32; 101; 110; 100; 10])].
(* a use of the loop variable's name in the bounds of `for n = ...` / the iterator list of `for n in ...` resolves to the loop variable (`local i = 9 for i = i, 10 do end`) *)
Theorem C12_B2_for_bounds_refuted : c12_deviates w_B2_for_bounds [97; 46; 108; 117; 97] 0 20 = true.
Proof. vm_compute. reflexivity. Qed.
Print Assumptions C12_B2_for_bounds_refuted.

(* a.lua: local f\nf = function() return f() end\n *)
Definition w_B4_forward_decl : list (list N * list N) :=
  [([97; 46; 108; 117; 97], [108; 111; 99; 97; 108; 32; 102; 10; 102; 32; 61; 32; 102; 117; 110; 99; 116; 105; 111; 110; 40; 41; 32; 114; 101; 116; 117; 114; 110; 32; 102; 40; 41; 32; 101; 110; 100; 10])].
(* a local declared without value (`local f`, `= nil`) is re-pointed by its first assignment `f = <name|call|function>` (cgAssignStat/IsExpEmpty); afterwards every occurrence of f inside that right-hand side (and the name in `function f()`) fails IsCorrectPosition: definition/hover find nothing, references attribute `function f`'s name to an OUTER variable of the same name (rename then rewrites it) *)
Theorem C12_B4_forward_decl_refuted : c12_deviates w_B4_forward_decl [97; 46; 108; 117; 97] 0 6 = true.
Proof. vm_compute. reflexivity. Qed.
Print Assumptions C12_B4_forward_decl_refuted.

(* a.lua: for i = 1, f(function(yy)\nreturn yy end), g(function() end) do end\n *)
Definition w_B5_for_step_order : list (list N * list N) :=
  [([97; 46; 108; 117; 97], [102; 111; 114; 32; 105; 32; 61; 32; 49; 44; 32; 102; 40; 102; 117; 110; 99; 116; 105; 111; 110; 40; 121; 121; 41; 10; 114; 101; 116; 117; 114; 110; 32; 121; 121; 32; 101; 110; 100; 41; 44; 32; 103; 40; 102; 117; 110; 99; 116; 105; 111; 110; 40; 41; 32; 101; 110; 100; 41; 32; 100; 111; 32; 101; 110; 100; 10])].
(* B5, FIXED (fixes/C05-for-step-order.diff): numeric for visited init, STEP, limit: a function scope of the step was stored
   before the function scopes of the limit, FindMinScope's early exit (`subScope.StartLine > line => break`) then never
   reached a function in the limit that starts on an earlier line: its parameters/locals resolved to nothing and were not
   completed.  The witness deviates for the code before the repair (`no_fixes`) and no longer for the code in /repo. *)
Theorem C12_B5_for_step_order_refuted_before_fix : c12_deviates_fx no_fixes w_B5_for_step_order [97; 46; 108; 117; 97] 1 7 = true.
Proof. vm_compute. reflexivity. Qed.
Print Assumptions C12_B5_for_step_order_refuted_before_fix.
Theorem C12_B5_for_step_order_fixed : c12_deviates w_B5_for_step_order [97; 46; 108; 117; 97] 1 7 = false.
Proof. vm_compute. reflexivity. Qed.
Print Assumptions C12_B5_for_step_order_fixed.

(* a.lua: local c = 5\nlocal d = 1, 2, c\nuse(d)\n *)
Definition w_local_surplus : list (list N * list N) :=
  [([97; 46; 108; 117; 97], [108; 111; 99; 97; 108; 32; 99; 32; 61; 32; 53; 10; 108; 111; 99; 97; 108; 32; 100; 32; 61; 32; 49; 44; 32; 50; 44; 32; 99; 10; 117; 115; 101; 40; 100; 41; 10])].
(* unvisited_local_surplus, FIXED (fixes/C20-local-surplus.diff): cgLocalVarDeclStat left its expression loop (`break`)
   after the FIRST initialiser beyond the names of `local a = 1, 2, <here>, <and here>`: the later ones were never
   analysed by any pass - their closures got no scope, the names read there no reference.  `before_surplus` = the code
   of /repo before that repair; the witness deviates there and no longer for the code now in /repo. *)
(* cursor on the read of c in the third value (line 1, column 16): definition found the declaration, but the references
   from there did not contain the cursor's own occurrence *)
Theorem C12_local_surplus_refuted_before_fix : c12_deviates_fx before_surplus w_local_surplus [97; 46; 108; 117; 97] 1 16 = true.
Proof. vm_compute. reflexivity. Qed.
Print Assumptions C12_local_surplus_refuted_before_fix.
Theorem C12_local_surplus_fixed : all_in_fragment w_local_surplus = true /\ c12_deviates w_local_surplus [97; 46; 108; 117; 97] 1 16 = false.
Proof. vm_compute. split; reflexivity. Qed.
Print Assumptions C12_local_surplus_fixed.

(* a.lua: do g = 1 end\ng = 2\nuse(g)\n *)
Definition w_global_mixed_levels : list (list N * list N) :=
  [([97; 46; 108; 117; 97], [100; 111; 32; 103; 32; 61; 32; 49; 32; 101; 110; 100; 10; 103; 32; 61; 32; 50; 10; 117; 115; 101; 40; 103; 41; 10])].
(* a global assigned at different nesting levels gets several defining entries (`do g = 1 end g = 2`: FindGlobalLimitVar ignores the deeper one); references/rename list only the newest entry's assignment, the other defining assignments are missing *)
Theorem C12_global_mixed_levels_refuted : c12_deviates w_global_mixed_levels [97; 46; 108; 117; 97] 0 3 = true.
Proof. vm_compute. reflexivity. Qed.
Print Assumptions C12_global_mixed_levels_refuted.

(* a.lua: g = 1\n ## b.lua: g()\n *)
Definition w_same_pos_other_file : list (list N * list N) :=
  [([97; 46; 108; 117; 97], [103; 32; 61; 32; 49; 10]);
   ([98; 46; 108; 117; 97], [103; 40; 41; 10])].
(* FIXED (fixes/C06-same-pos-other-file.diff): references dropped an occurrence in ANOTHER file that sits at the same
   line/column as the definition (ignoreDefineLoc was compared without the file name).  The witness deviates for the
   code before the repair (`no_fixes`) and no longer for the code now in /repo. *)
Theorem C12_same_pos_other_file_refuted_before_fix : c12_deviates_fx no_fixes w_same_pos_other_file [98; 46; 108; 117; 97] 0 0 = true.
Proof. vm_compute. reflexivity. Qed.
Print Assumptions C12_same_pos_other_file_refuted_before_fix.
Theorem C12_same_pos_other_file_fixed : c12_deviates w_same_pos_other_file [98; 46; 108; 117; 97] 0 0 = false.
Proof. vm_compute. reflexivity. Qed.
Print Assumptions C12_same_pos_other_file_fixed.


Theorem C12_full_refuted : ~ C12_full.
Proof. exact (c12_full_refuted_by _ _ _ _ C12_B2_for_bounds_refuted). Qed.
Print Assumptions C12_full_refuted.

(* non-vacuity: all four clauses hold at every occurrence of C05's example program *)
Definition C12_consistent_at (files : list (list N * list N)) (f : list N) (o : socc) : bool :=
  c12_clause1 files f (line0_of (s_loc o)) (col_of (s_loc o)) && c12_clause2 files f (line0_of (s_loc o)) (col_of (s_loc o)) (s_loc o).
Example C12_agreeing_example :
  all_in_fragment [(a_lua, src_ok)] = true /\
  forallb (C12_consistent_at [(a_lua, src_ok)] a_lua) (bind_file (chunk_of src_ok)) = true.
Proof. vm_compute. repeat split; reflexivity. Qed.

(* ================================================================== composition (agent c12-compose)
   Proofs/ComposeBind*.v: the position resolver (C05_define_local_partial) and the traversal resolver
   (C06_refs_local_laid_partial) composed.  Guards (all boolean) as in Properties/C06.v:
     bind_guard W P = in_fragment P && laid2_b W P && no_repoint P (= core_guards_b W P, the guard of C05 alone;
                      tb_shape and laid_b W follow from it, see Properties/C06.v);
     var_guard P d  = every occurrence the binder gives the declaration d carries no class tag (classB_ok) and no
                      occurrence of its name carries CB3 / CB4 (classA_ok);
     occ_request_guard W files f o = file f parses, bind_guard, occ_guard on the occurrence o under the cursor, and o
                      stands in the text (ident_at);
     var_request_guard W files f d = the same for every occurrence the binder gives the declaration d (the clauses
                      re-ask at those occurrences); request_guard W files f = the same for every occurrence of the file.
   Missing for C12_full: globals and the refuted classes; ident_at is a checked guard, not derived from the lexer. *)
From LH Require Import Proofs.PositionBindWitness Proofs.ComposeBind Proofs.ComposeBindText Proofs.ComposeBindRun.

(* clause 1, model level: every reference of the cursor's occurrence resolves via definition - at every cursor column
   of the reference - to the declaration the cursor's occurrence resolves to *)
Theorem C12_clause1_model_partial : forall W P w f o d col,
  bind_guard W P = true -> In o (bind_file P) -> s_bind o = BLocal d -> var_guard P d = true ->
  (sc (s_loc o) <= col <= ec (s_loc o))%Z ->
  exists l, references_at MRefs w f (analyse P) (s_name o) (sl (s_loc o)) col = Some l /\
            define_at w f (analyse P) (s_name o) (sl (s_loc o)) col = Some [(f, d)] /\
            forall r, In r l ->
              exists o', In o' (bind_file P) /\ r = (f, s_loc o') /\ s_bind o' = BLocal d /\ s_name o' = s_name o /\
                         forall col', (sc (s_loc o') <= col' <= ec (s_loc o'))%Z ->
                           define_at w f (analyse P) (s_name o') (sl (s_loc o')) col' = Some [(f, d)].
Proof. exact c12_clause1_model. Qed.
Print Assumptions C12_clause1_model_partial.

(* clause 2, model level: the occurrence is among the references asked at any cursor column of its declaration *)
Theorem C12_clause2_model_partial : forall W P w f o d,
  bind_guard W P = true -> In o (bind_file P) -> s_bind o = BLocal d -> var_guard P d = true ->
  exists sd, In sd (bind_file P) /\ is_decl (s_role sd) = true /\ s_loc sd = d /\ s_name sd = s_name o /\
             s_bind sd = BLocal d /\
    forall col', (sc d <= col' <= ec d)%Z ->
      exists l', references_at MRefs w f (analyse P) (s_name o) (sl d) col' = Some l' /\ In (f, s_loc o) l'.
Proof. exact c12_clause2_model. Qed.
Print Assumptions C12_clause2_model_partial.

(* request level: definition on a local answers exactly Lua's declaration (C05 lifted to run_define) *)
Theorem C12_define_local_request : forall W files f line col o d,
  occ_request_guard W files f o = true -> spec_occ files f line col = Some o -> s_bind o = BLocal d ->
  run_define files f line col = ALocs [(f, d)].
Proof. exact define_request_closed_occ. Qed.
Print Assumptions C12_define_local_request.

(* request level = clauses 1 and 2 of C12_full restricted to local variables and the guard: any workspace, any file f
   of it, any cursor (every column, both ends) on an occurrence o that Lua binds to a local declaration d *)
Theorem C12_clauses_1_2_partial : forall W files f line col o d,
  var_request_guard W files f d = true -> spec_occ files f line col = Some o -> s_bind o = BLocal d ->
  c12_clause1 files f line col = true /\ c12_clause2 files f line col (s_loc o) = true.
Proof. exact c12_clauses_request_var. Qed.
Print Assumptions C12_clauses_1_2_partial.

(* the other two features at the same cursor: highlight answers the same set (a local lives in one file), hover says
   `local` *)
Theorem C12_highlight_local_request : forall W files f line col o d l,
  occ_request_guard W files f o = true -> spec_occ files f line col = Some o -> s_bind o = BLocal d ->
  run_refs files MHighlight f line col = ALocs l -> same_locs l (spec_refs (spec_ws files) f o) = true.
Proof. exact (refs_request_closed_occ MHighlight). Qed.
Print Assumptions C12_highlight_local_request.

Theorem C12_hover_local_request : forall W files f line col o d,
  occ_request_guard W files f o = true -> spec_occ files f line col = Some o -> s_bind o = BLocal d ->
  run_hover files f line col = HLocal.
Proof. exact hover_request_local_occ. Qed.
Print Assumptions C12_hover_local_request.

(* all four clauses = the conclusion of C12_full, under the guard *)
Theorem C12_all_clauses_partial : forall W files f line col o d,
  NoDup (map fst files) ->
  var_request_guard W files f d = true -> spec_occ files f line col = Some o -> s_bind o = BLocal d ->
  c12_clause1 files f line col = true /\ c12_clause2 files f line col (s_loc o) = true /\
  c12_clause3 files f line col /\ c12_clause4 files f line col.
Proof. exact c12_all_clauses_request. Qed.
Print Assumptions C12_all_clauses_partial.

(* whole-file guard *)
Theorem C12_clauses_1_2_partial_file : forall W files f line col o d,
  request_guard W files f = true -> spec_occ files f line col = Some o -> s_bind o = BLocal d ->
  c12_clause1 files f line col = true /\ c12_clause2 files f line col (s_loc o) = true.
Proof. exact c12_clauses_request. Qed.
Print Assumptions C12_clauses_1_2_partial_file.

(* non-vacuity: C05's example programs satisfy the whole-file guard, alone and as a two-file workspace (25 of 33 and
   36 of 43 occurrences bound to locals); the witness programs of B2, B4 are rejected, the ones of the
   repaired classes doc_end and B1 are accepted; the per-variable
   guard separates the two i of the B2 witness *)
Example C12_closed_guard_nonvacuous :
  request_guard 1000 [(a_lua, src_ok)] a_lua = true /\ request_guard 1000 [(a_lua, src_core)] a_lua = true /\
  request_guard 1000 [(a_lua, src_ok); (b_lua, src_core)] b_lua = true /\
  length (filter (fun s => match s_bind s with BLocal _ => true | BGlobal _ => false end) (bind_file (chunk_of src_core))) = 36%nat /\
  request_guard 1000 w_B2_for_bounds a_lua = false /\ request_guard 1000 w_B4_forward_decl a_lua = false /\
  request_guard 1000 [(a_lua, src_doc_end)] a_lua = true /\ request_guard 1000 w_B1_own_initialiser a_lua = true /\
  var_request_guard 1000 w_B2_for_bounds a_lua (mk_loc 1 16 1 17) = true /\
  var_request_guard 1000 w_B2_for_bounds a_lua (mk_loc 1 6 1 7) = false.
Proof. vm_compute. repeat split; reflexivity. Qed.

(* ================================================================== wide fragment (agent wide-fragment)
   see Properties/C05.v: in the wide request models hover's `local` flag is still the kind of the resolved target and a
   local target is what definition returns (clause 4 at model level, now also for identifiers written `_G.name`, for
   which neither feature can answer with a local); decided on wide programs by the leg c12.wide. *)
From LH Require Import Model.ResolveWide Spec.LuaScopeWide Proofs.WideNarrow Proofs.WideRun.

Theorem C12_wide_hover_flag : forall g w f fi n line col,
  hover_at_wide g w f fi n line col = HLocal <-> exists v, resolve_at_wide g w f fi n line col = TLocal v.
Proof. exact hover_local_iff_wide. Qed.
Print Assumptions C12_wide_hover_flag.

Theorem C12_wide_define_of_local : forall g w f fi n line col v,
  resolve_at_wide g w f fi n line col = TLocal v -> define_at_wide g w f fi n line col = Some [(f, v_loc v)].
Proof. exact define_of_local_wide. Qed.
Print Assumptions C12_wide_define_of_local.

Theorem C12_G_hover_never_local : forall w f fi n line col, hover_at_wide true w f fi n line col <> HLocal.
Proof. exact hover_G_never_local. Qed.
Print Assumptions C12_G_hover_never_local.

Theorem C12_wide_hover_narrow : forall files f line0 col,
  all_in_fragment files = true -> all_text_ok files = true ->
  hovers_agree (run_hover_wide files f line0 col) (run_hover files f line0 col).
Proof. exact run_hover_wide_narrow. Qed.
Print Assumptions C12_wide_hover_narrow.

Example C12_wide_witness :
  run_hover_wide w_wide a_lua 2 7 = HGlobal /\ run_define_wide w_wide a_lua 2 7 = ALocs [g_def] /\
  run_hover_wide w_wide a_lua 2 10 = HLocal /\ run_define_wide w_wide a_lua 2 10 = ALocs [l_def].
Proof. vm_compute. repeat split; reflexivity. Qed.
