(* C18 - module paths resolve as documented, consistently across features.
   Only statements closed by `exact` + Print Assumptions live here. *)
From Coq Require Import List NArith Bool.
From LH Require Import Base.Bytes Model.FileIndex Model.ModulePath Spec.ModuleSpec Proofs.FileIndexProofs
  Proofs.ModulePathDet.
Import ListNotations.
Local Open Scope N_scope.

(* ---- the file index as a state machine over create/delete events ---- *)

(* full statement: after every history the index answers like the index of the files now present *)
Definition C18_index_refines_full : Prop :=
  forall ops, index_is (idx_run ops) (files_after ops).

(* holds for the repaired RemoveOneFile (work/fixes/C18-remove-key.diff), for every history and every path *)
Theorem C18_index_refines_fixed : forall ops, index_is (idx_run_fixed ops) (files_after ops).
Proof. exact fixed_refines. Qed.
Print Assumptions C18_index_refines_fixed.

(* the code as written: RemoveOneFile changes nothing (absolute paths), the index is that of every file EVER created *)
Theorem C18_index_unfixed_exact : forall ops, abs_ops ops = true -> index_is (idx_run ops) (ever_inserted ops).
Proof. exact unfixed_exact. Qed.
Print Assumptions C18_index_unfixed_exact.

(* hence it refines the file set exactly as long as no created file is missing now *)
Theorem C18_index_refines : forall ops, abs_ops ops = true -> stale_remove ops = false ->
  index_is (idx_run ops) (files_after ops).
Proof. exact unfixed_refines_guarded. Qed.
Print Assumptions C18_index_refines.

Theorem C18_index_refines_insert_only : forall ops, no_removes ops = true -> index_is (idx_run ops) (files_after ops).
Proof. exact unfixed_refines_insert_only. Qed.
Print Assumptions C18_index_refines_insert_only.

(* "/d/m.lua" created then deleted: still indexed under "m.lua" and under "m" *)
Definition p_d_m_lua : list N := [47; 100; 47; 109; 46; 108; 117; 97].
Theorem C18_remove_refuted :
  let ops := [Ins p_d_m_lua; Rem p_d_m_lua] in
  abs_ops ops = true /\ stale_remove ops = true /\
  aget p_d_m_lua (get_name_map (idx_run ops) [109; 46; 108; 117; 97]) = Some [47; 100; 47; 109] /\
  aget p_d_m_lua (get_pre_map (idx_run ops) [109]) = Some [47; 100; 47; 109] /\
  spec_name (files_after ops) [109; 46; 108; 117; 97] p_d_m_lua = None /\
  ~ C18_index_refines_full.
Proof.
  cbv zeta. repeat split; try (vm_compute; reflexivity).
  intros H. specialize (H [Ins p_d_m_lua; Rem p_d_m_lua] [109; 46; 108; 117; 97] p_d_m_lua).
  destruct H as [H _]. vm_compute in H. discriminate.
Qed.
Print Assumptions C18_remove_refuted.

(* non-vacuity of the guard: a history with a deletion that is undone by a re-creation *)
Example C18_index_guard_inhabited :
  let ops := [Ins p_d_m_lua; Ins [47; 109; 46; 108; 117; 97]; Rem p_d_m_lua; Ins p_d_m_lua] in
  abs_ops ops = true /\ stale_remove ops = false /\ no_removes ops = false.
Proof. cbv zeta. repeat split; vm_compute; reflexivity. Qed.

(* ---- resolution: CheckReferFile against the documented mapping ---- *)
From LH Require Import Proofs.ModulePathStr Proofs.ModulePathProofs.

(* full statement: whatever the workspace, the outcome of CheckReferFile (valid / possible loaded files / type-6
   diagnostic) conforms to what the documented mapping demands *)
Definition C18_resolve_full : Prop :=
  forall disk cfg st files cur k refer, index_ok st files ->
    conforms (check_refer disk cfg st cur k refer) (spec_refer disk cfg files k refer) = true.

(* proved: for require / suffix-less imports when every workspace path has its only '.' in a final ".lua";
   for dofile / loadfile / suffix-style imports when the referenced text contains a '.' *)
Theorem C18_resolve_conforms : forall disk cfg st files cur k refer,
  index_ok st files ->
  (k <> KSuffix -> all_simple files) ->
  (k = KSuffix -> has_dot (remove_pre_str refer) = true) ->
  conforms (check_refer disk cfg st cur k refer) (spec_refer disk cfg files k refer) = true.
Proof. exact resolve_conforms. Qed.
Print Assumptions C18_resolve_conforms.

Theorem C18_type6_iff : forall disk cfg st files cur m,
  index_ok st files -> all_simple files ->
  exact_mode cfg = false ->
  mem_bytes (remove_pre_str m) (ignore_refer cfg) = false ->
  mem_bytes (remove_pre_str m) (ignore_modules cfg) = false ->
  (r_err6 (check_refer disk cfg st cur KRequire m) = true <->
   disk (complete_path (main_dir cfg) (doc_so (remove_pre_str m))) = false /\
   ~ exists g, In g files /\ matches_doc (remove_pre_str m) g = true).
Proof. exact type6_iff. Qed.
Print Assumptions C18_type6_iff.

(* definition (file) and hover (candidate text) on the module string vs. the file the analysis loaded;
   unique_best is taken as "at most one workspace file matches each documented candidate" *)
Definition C18_features_agree_full : Prop :=
  forall disk cfg st files cur m, index_ok st files ->
    let out := check_refer disk cfg st cur KRequire m in
    let oo := open_outcomes cfg st (fun f => fmem f files) cur (open_list true false m) in
    (forall f, In f (r_resolved out) <-> exists it, In (Some (it, f)) oo) /\
    (r_resolved out = [] <-> In None oo).

Theorem C18_features_agree : forall disk cfg st files cur m,
  index_ok st files -> all_simple files ->
  exact_mode cfg = false ->
  remove_pre_str m = m -> m <> [] ->
  mem_bytes m (ignore_refer cfg) = false -> mem_bytes m (ignore_modules cfg) = false ->
  disk (complete_path (main_dir cfg) (doc_so m)) = false ->
  unique_match (doc_lua m) files -> unique_match (doc_init m) files ->
  let out := check_refer disk cfg st cur KRequire m in
  let oo := open_outcomes cfg st (fun f => fmem f files) cur (open_list true false m) in
  (r_resolved out = [] /\ oo = [None]) \/
  (exists it c, r_resolved out = [c] /\ oo = [Some (it, c)] /\ path_suffix it c = true /\
                (it = doc_lua m \/ it = doc_init m)).
Proof. exact features_agree. Qed.
Print Assumptions C18_features_agree.

(* ---- the answers follow create/delete events ---- *)
Theorem C18_reacts_to_events_fixed : forall disk cfg ops cur k refer,
  (k <> KSuffix -> all_simple (files_after ops)) ->
  (k = KSuffix -> has_dot (remove_pre_str refer) = true) ->
  conforms (check_refer disk cfg (idx_run_fixed ops) cur k refer) (spec_refer disk cfg (files_after ops) k refer) = true.
Proof. exact reacts_fixed. Qed.
Print Assumptions C18_reacts_to_events_fixed.

Theorem C18_reacts_to_events : forall disk cfg ops cur k refer,
  abs_ops ops = true -> stale_remove ops = false ->
  (k <> KSuffix -> all_simple (files_after ops)) ->
  (k = KSuffix -> has_dot (remove_pre_str refer) = true) ->
  conforms (check_refer disk cfg (idx_run ops) cur k refer) (spec_refer disk cfg (files_after ops) k refer) = true.
Proof. exact reacts_unfixed. Qed.
Print Assumptions C18_reacts_to_events.

(* ---- witnesses ---- *)
Definition ws_cfg : rcfg := mk_rcfg false [] system_modules [47; 119; 115] true.   (* root "/ws", repaired best match *)
Definition f_ws_d_m : list N := [47;119;115;47;100;47;109;46;108;117;97].                    (* /ws/d/m.lua *)
Definition f_ws_cur : list N := [47;119;115;47;99;46;108;117;97].                            (* /ws/c.lua *)
Definition f_ws_m_test : list N := [47;119;115;47;109;46;116;101;115;116;46;108;117;97].     (* /ws/m.test.lua *)
Definition f_ws_v12_m : list N := [47;119;115;47;118;46;50;47;109;46;108;117;97].            (* /ws/v.2/m.lua *)

(* deleted file keeps resolving: no type 6 although the documented mapping finds nothing *)
Theorem C18_reacts_refuted :
  let ops := [Ins f_ws_cur; Ins f_ws_d_m; Rem f_ws_d_m] in
  let out := check_refer (fun _ => false) ws_cfg (idx_run ops) f_ws_cur KRequire [100; 46; 109] in   (* require "d.m" *)
  r_err6 out = false /\ r_resolved out = [f_ws_d_m] /\
  spec_refer (fun _ => false) ws_cfg (files_after ops) KRequire [100; 46; 109] = not_found /\
  r_err6 (check_refer (fun _ => false) ws_cfg (idx_run_fixed ops) f_ws_cur KRequire [100; 46; 109]) = true.
Proof. cbv zeta. repeat split; vm_compute; reflexivity. Qed.
Print Assumptions C18_reacts_refuted.

(* a name with a second '.': require "m" loads m.test.lua; a directory with a '.': m.lua is not found *)
Theorem C18_odd_name_refuted :
  (let files := [f_ws_cur; f_ws_m_test] in
   odd_name files = true /\
   r_resolved (check_refer (fun _ => false) ws_cfg (idx_run (map Ins files)) f_ws_cur KRequire [109]) = [f_ws_m_test] /\
   spec_refer (fun _ => false) ws_cfg files KRequire [109] = not_found) /\
  (let files := [f_ws_cur; f_ws_v12_m] in
   odd_name files = true /\
   check_refer (fun _ => false) ws_cfg (idx_run (map Ins files)) f_ws_cur KRequire [109] = not_found /\
   spec_refer (fun _ => false) ws_cfg files KRequire [109] = found [f_ws_v12_m]) /\
  ~ C18_resolve_full.
Proof.
  split; [cbv zeta; repeat split; vm_compute; reflexivity|].
  split; [cbv zeta; repeat split; vm_compute; reflexivity|].
  intros H.
  specialize (H (fun _ => false) ws_cfg (idx_run (map Ins [f_ws_cur; f_ws_m_test]))
                (files_after (map Ins [f_ws_cur; f_ws_m_test])) f_ws_cur KRequire [109]).
  assert (index_ok (idx_run (map Ins [f_ws_cur; f_ws_m_test])) (files_after (map Ins [f_ws_cur; f_ws_m_test]))) as Hok
    by (split; [apply wf_run|apply unfixed_refines_insert_only; reflexivity]).
  specialize (H Hok). vm_compute in H. discriminate.
Qed.
Print Assumptions C18_odd_name_refuted.

(* dofile "d/m" (no suffix) silently loads d/m.lua *)
Theorem C18_literal_no_dot_refuted :
  let files := [f_ws_cur; f_ws_d_m] in
  literal_no_dot KSuffix [100; 47; 109] = true /\
  check_refer (fun _ => false) ws_cfg (idx_run (map Ins files)) f_ws_cur KSuffix [100; 47; 109] = found [f_ws_d_m] /\
  spec_refer (fun _ => false) ws_cfg files KSuffix [100; 47; 109] = not_found.
Proof. cbv zeta. repeat split; vm_compute; reflexivity. Qed.
Print Assumptions C18_literal_no_dot_refuted.

(* non-vacuity of the guards of C18_resolve_conforms / C18_type6_iff / C18_features_agree:
   a workspace with duplicate base names, an init.lua module and a nested directory *)
Definition f_ws_a_init : list N := [47;119;115;47;97;47;105;110;105;116;46;108;117;97].     (* /ws/a/init.lua *)
Definition f_ws_b_m : list N := [47;119;115;47;98;47;109;46;108;117;97].                     (* /ws/b/m.lua *)
Example C18_guards_inhabited :
  let files := [f_ws_cur; f_ws_d_m; f_ws_b_m; f_ws_a_init] in
  odd_name files = false /\ all_simple files /\
  index_ok (idx_run (map Ins files)) (files_after (map Ins files)) /\
  unique_match (doc_lua [100; 46; 109]) files /\                                                    (* "d.m" *)
  r_resolved (check_refer (fun _ => false) ws_cfg (idx_run (map Ins files)) f_ws_cur KRequire [100; 46; 109]) = [f_ws_d_m] /\
  r_resolved (check_refer (fun _ => false) ws_cfg (idx_run (map Ins files)) f_ws_cur KRequire [97]) = [f_ws_a_init] /\
  r_err6 (check_refer (fun _ => false) ws_cfg (idx_run (map Ins files)) f_ws_cur KRequire [120]) = true.
Proof.
  cbv zeta. split; [vm_compute; reflexivity|]. split; [apply odd_name_false; vm_compute; reflexivity|].
  split; [split; [apply wf_run|apply unfixed_refines_insert_only; reflexivity]|].
  split.
  - intros c1 c2 H1 H2 P1 P2. simpl in H1, H2.
    repeat (destruct H1 as [<-|H1]; [|]); try contradiction; try (vm_compute in P1; discriminate);
    repeat (destruct H2 as [<-|H2]; [|]); try contradiction; try (vm_compute in P2; discriminate); reflexivity.
  - repeat split; vm_compute; reflexivity.
Qed.

(* ---- further witnesses found with the event model (Model/ModulePath.v: pinit / pstep) ---- *)
Definition f_ws_main : list N := [47;119;115;47;109;97;105;110;46;108;117;97].              (* /ws/main.lua *)
Definition f_ws_a_b_init : list N := [47;119;115;47;97;47;98;47;105;110;105;116;46;108;117;97].   (* /ws/a/b/init.lua *)
Definition f_ws_a_b : list N := [47;119;115;47;97;47;98;46;108;117;97].                      (* /ws/a/b.lua *)

(* main.lua: require("a.b") resolved to a/b/init.lua; then a/b.lua is created. The referencing file is not
   re-analysed (isReferFileContainFiles compares the created path with the raw text "a.b" / "a.b.lua"), so it keeps
   loading a/b/init.lua while a fresh start - and go-to-definition - answer a/b.lua. *)
Theorem C18_create_not_reanalysed_refuted :
  let refs := [(KRequire, [97; 46; 98])] in
  let s0 := pinit ws_cfg f_ws_main [f_ws_a_b_init; f_ws_main] [f_ws_a_b_init; f_ws_main] refs in
  let s1 := pstep ws_cfg f_ws_main false s0 (Ins f_ws_a_b) in
  let fresh := pinit ws_cfg f_ws_main [f_ws_a_b_init; f_ws_main; f_ws_a_b] [f_ws_a_b_init; f_ws_main; f_ws_a_b] refs in
  map rs_vstr (ps_refs s1) = [[f_ws_a_b_init]] /\ map rs_vstr (ps_refs fresh) = [[f_ws_a_b]] /\
  open_outcomes ws_cfg (ps_idx s1) (fun f => mem_bytes f (ps_loaded s1)) f_ws_main (open_list true false [97; 46; 98])
    = [Some ([97;47;98;46;108;117;97], f_ws_a_b)].
Proof. cbv zeta. repeat split; vm_compute; reflexivity. Qed.
Print Assumptions C18_create_not_reanalysed_refuted.

(* require("./d/m"): the analysis strips "./" and loads d/m.lua; definition/hover build their candidates from the raw
   text ("//d/m.lua") and find nothing *)
Theorem C18_dot_slash_refuted :
  let st := idx_run (map Ins [f_ws_cur; f_ws_d_m]) in
  let m := [46; 47; 100; 47; 109] in
  r_resolved (check_refer (fun _ => false) ws_cfg st f_ws_cur KRequire m) = [f_ws_d_m] /\
  open_outcomes ws_cfg st (fun _ => true) f_ws_cur (open_list true false m) = [None].
Proof. cbv zeta. split; vm_compute; reflexivity. Qed.
Print Assumptions C18_dot_slash_refuted.

(* ---- after fixes/C09-deterministic-order.diff (order_fixed cfg = true): resolution is a function ---- *)

(* every reference resolves to at most one file, whatever the index and the disk *)
Theorem C18_resolution_single_fixed : forall disk cfg st cur k refer, order_fixed cfg = true ->
  (length (r_resolved (check_refer disk cfg st cur k refer)) <= 1)%nat.
Proof. exact check_refer_single. Qed.
Print Assumptions C18_resolution_single_fixed.

(* no history of create/delete events reaches the state "an earlier random choice among tied candidates decided the
   control flow" (ps_ambig), and every reference keeps at most one resolved file *)
Theorem C18_no_ambiguity_fixed : forall cfg cur fixed disk lua refs events, order_fixed cfg = true ->
  let s := fold_left (pstep cfg cur fixed) events (pinit cfg cur disk lua refs) in
  ps_ambig s = false /\ forall r, In r (ps_refs s) -> (length (rs_vstr r) <= 1)%nat.
Proof. exact no_ambiguity_fixed. Qed.
Print Assumptions C18_no_ambiguity_fixed.

(* before the repair both failed: /ws/a/m.lua and /ws/b/m.lua for require("m") from /ws/c/x.lua are both possible
   answers; and with /ws/a/d/m.lua, /ws/b/d/m.lua for require("d.m"), deleting one of them leaves the model not
   knowing whether the referencing file is re-analysed (it is iff the deleted file happens to be the one chosen) *)
Definition f_ws_a_m : list N := [47;119;115;47;97;47;109;46;108;117;97].
Definition f_ws_c_x : list N := [47;119;115;47;99;47;120;46;108;117;97].
Definition f_ws_a_d_m : list N := [47;119;115;47;97;47;100;47;109;46;108;117;97].
Definition f_ws_b_d_m : list N := [47;119;115;47;98;47;100;47;109;46;108;117;97].
Definition ws_cfg_prefix : rcfg := mk_rcfg false [] system_modules [47; 119; 115] false.
Theorem C18_resolution_tie_prefix_refuted :
  (let st := idx_run (map Ins [f_ws_a_m; f_ws_b_m; f_ws_c_x]) in
   r_resolved (check_refer (fun _ => false) ws_cfg_prefix st f_ws_c_x KRequire [109]) = [f_ws_a_m; f_ws_b_m] /\
   r_resolved (check_refer (fun _ => false) ws_cfg st f_ws_c_x KRequire [109]) = [f_ws_a_m]) /\
  (let lua := [f_ws_a_d_m; f_ws_b_d_m; f_ws_c_x] in
   let refs := [(KRequire, [100; 46; 109])] in
   ps_ambig (pstep ws_cfg_prefix f_ws_c_x true (pinit ws_cfg_prefix f_ws_c_x lua lua refs) (Rem f_ws_b_d_m)) = true /\
   ps_ambig (pstep ws_cfg f_ws_c_x true (pinit ws_cfg f_ws_c_x lua lua refs) (Rem f_ws_b_d_m)) = false /\
   map rs_vstr (ps_refs (pstep ws_cfg f_ws_c_x true (pinit ws_cfg f_ws_c_x lua lua refs) (Rem f_ws_a_d_m)))
     = [[f_ws_b_d_m]]).
Proof. cbv zeta. repeat split; vm_compute; reflexivity. Qed.
Print Assumptions C18_resolution_tie_prefix_refuted.
