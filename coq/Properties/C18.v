(* C18 - module paths resolve as documented, consistently across features.
   Only statements closed by `exact` + Print Assumptions live here (tiny vm_compute proofs for witnesses).
   The model carries one boolean per repair (Model/FileIndex.v: sfx; Model/ModulePath.v: the last five fields of rcfg);
   `repaired cfg` = all of them on = the code in /repo (fix: commits of fixes/C09-deterministic-order.diff,
   fixes/C18-dotted-path.diff (1473636), fixes/C18-dofile-no-suffix.diff (526bcd1), fixes/C18-dot-slash-definition.diff (49c8cf0),
   fixes/C18-create-not-reanalysed.diff (f48e6f9), fixes/C18-string-cursor.diff (9e1e7b2); RemoveOneFile repaired by
   ec76861; calcMatchStrScore repaired by fixes/C18-score-position.diff (1f59be9) = the constant
   ModulePath.score_deployed). The theorems about the variants before a repair are kept, named *_before_fix /
   *_prefix_refuted. *)
From Coq Require Import List NArith Bool.
From LH Require Import Base.Bytes Model.FileIndex Model.ModulePath Spec.ModuleSpec Proofs.FileIndexProofs
  Proofs.ModulePathDet.
Import ListNotations.
Local Open Scope N_scope.

Definition repaired (cfg : rcfg) : bool :=
  order_fixed cfg && stem_fixed cfg && lit_fixed cfg && dotslash_fixed cfg && reanalyse_fixed cfg && cursor_fixed cfg.

(* ---- the file index as a state machine over create/delete events ---- *)

(* full statement: after every history the index answers like the index of the files now present
   (idx_run_fixed = the deployed InsertOneFile / RemoveOneFile, index_is true = names cut at the Lua suffix) *)
Definition C18_index_refines_full : Prop :=
  forall ops, index_is true (idx_run_fixed ops) (files_after ops).

Theorem C18_index_refines_full_proved : C18_index_refines_full.
Proof. exact (fixed_refines true). Qed.
Print Assumptions C18_index_refines_full_proved.

(* the same for either way of cutting names (sfx = false: at the first '.', the code before fixes/C18-dotted-path.diff) *)
Theorem C18_index_refines_fixed : forall sfx ops, index_is sfx (idx_run_fixed_g sfx ops) (files_after ops).
Proof. exact fixed_refines. Qed.
Print Assumptions C18_index_refines_fixed.

(* RemoveOneFile as first written (before ec76861): it changed nothing (absolute paths), the index was that of every
   file EVER created *)
Theorem C18_index_unfixed_exact : forall sfx ops, abs_ops ops = true ->
  index_is sfx (idx_run_g sfx ops) (ever_inserted ops).
Proof. exact unfixed_exact. Qed.
Print Assumptions C18_index_unfixed_exact.

(* hence it refined the file set exactly as long as no created file was missing *)
Theorem C18_index_refines : forall sfx ops, abs_ops ops = true -> stale_remove ops = false ->
  index_is sfx (idx_run_g sfx ops) (files_after ops).
Proof. exact unfixed_refines_guarded. Qed.
Print Assumptions C18_index_refines.

Theorem C18_index_refines_insert_only : forall sfx ops, no_removes ops = true ->
  index_is sfx (idx_run_g sfx ops) (files_after ops).
Proof. exact unfixed_refines_insert_only. Qed.
Print Assumptions C18_index_refines_insert_only.

(* "/d/m.lua" created then deleted: was still indexed under "m.lua" and under "m"; the deployed code forgets it *)
Definition p_d_m_lua : list N := [47; 100; 47; 109; 46; 108; 117; 97].
Theorem C18_remove_prefix_refuted :
  let ops := [Ins p_d_m_lua; Rem p_d_m_lua] in
  abs_ops ops = true /\ stale_remove ops = true /\
  aget p_d_m_lua (get_name_map (idx_run_g false ops) [109; 46; 108; 117; 97]) = Some [47; 100; 47; 109] /\
  aget p_d_m_lua (get_pre_map (idx_run_g false ops) [109]) = Some [47; 100; 47; 109] /\
  spec_name false (files_after ops) [109; 46; 108; 117; 97] p_d_m_lua = None /\
  ~ (forall ops, index_is false (idx_run_g false ops) (files_after ops)) /\
  aget p_d_m_lua (get_name_map (idx_run_fixed ops) [109; 46; 108; 117; 97]) = None /\
  aget p_d_m_lua (get_pre_map (idx_run_fixed ops) [109]) = None.
Proof.
  cbv zeta. repeat split; try (vm_compute; reflexivity).
  intros H. specialize (H [Ins p_d_m_lua; Rem p_d_m_lua] [109; 46; 108; 117; 97] p_d_m_lua).
  destruct H as [H _]. vm_compute in H. discriminate.
Qed.
Print Assumptions C18_remove_prefix_refuted.

(* non-vacuity of the guard: a history with a deletion that is undone by a re-creation *)
Example C18_index_guard_inhabited :
  let ops := [Ins p_d_m_lua; Ins [47; 109; 46; 108; 117; 97]; Rem p_d_m_lua; Ins p_d_m_lua] in
  abs_ops ops = true /\ stale_remove ops = false /\ no_removes ops = false.
Proof. cbv zeta. repeat split; vm_compute; reflexivity. Qed.

(* ---- resolution: CheckReferFile against the documented mapping ---- *)
From LH Require Import Proofs.ModulePathStr Proofs.ModulePathProofs Proofs.ModulePathEvents Proofs.ModulePathScore
  Proofs.ModulePathCursor.

(* full statement: whatever the workspace of ".lua" files (all_lua: the domain of the documented mapping - name.lua,
   name/init.lua; it only constrains require-style references), whatever the settings, the disk, the referencing file
   and the reference, the outcome of CheckReferFile (valid / loaded file / type-6 diagnostic) conforms to what the
   documented mapping demands *)
Definition C18_resolve_full : Prop :=
  forall disk cfg st files cur k refer, repaired cfg = true -> index_ok true st files ->
    (k <> KSuffix -> all_lua files = true) ->
    conforms (check_refer disk cfg st cur k refer) (spec_refer disk cfg files k refer) = true.

Theorem C18_resolve_conforms : forall disk cfg st files cur k refer,
  index_ok true st files -> lit_fixed cfg = true ->
  (k <> KSuffix -> all_lua files = true) ->
  conforms (check_refer disk cfg st cur k refer) (spec_refer disk cfg files k refer) = true.
Proof. exact resolve_conforms_fixed. Qed.
Print Assumptions C18_resolve_conforms.

Lemma repaired_flags cfg : repaired cfg = true ->
  order_fixed cfg = true /\ stem_fixed cfg = true /\ lit_fixed cfg = true /\ dotslash_fixed cfg = true /\
  reanalyse_fixed cfg = true /\ cursor_fixed cfg = true.
Proof.
  unfold repaired. intros H. repeat (apply andb_true_iff in H as [H ?]). repeat split; assumption.
Qed.

Theorem C18_resolve_full_proved : C18_resolve_full.
Proof.
  intros disk cfg st files cur k refer Hr Hok Hl. destruct (repaired_flags cfg Hr) as [_ [_ [Hlit _]]].
  exact (resolve_conforms_fixed disk cfg st files cur k refer Hok Hlit Hl).
Qed.
Print Assumptions C18_resolve_full_proved.

(* the code before fixes/C18-dotted-path.diff and fixes/C18-dofile-no-suffix.diff conformed only when every workspace
   path had its only '.' in a final ".lua", and for dofile / loadfile / suffix-style imports only when the text
   contained a '.' *)
Theorem C18_resolve_conforms_before_fix : forall disk cfg st files cur k refer,
  index_ok false st files ->
  (k <> KSuffix -> all_simple files) ->
  (k = KSuffix -> has_dot (remove_pre_str refer) = true) ->
  conforms (check_refer disk cfg st cur k refer) (spec_refer disk cfg files k refer) = true.
Proof. exact resolve_conforms. Qed.
Print Assumptions C18_resolve_conforms_before_fix.

Theorem C18_type6_iff : forall disk cfg st files cur m,
  index_ok true st files -> all_lua files = true ->
  exact_mode cfg = false ->
  mem_bytes (remove_pre_str m) (ignore_refer cfg) = false ->
  mem_bytes (remove_pre_str m) (ignore_modules cfg) = false ->
  (r_err6 (check_refer disk cfg st cur KRequire m) = true <->
   disk (complete_path (main_dir cfg) (doc_so (remove_pre_str m))) = false /\
   ~ exists g, In g files /\ matches_doc (remove_pre_str m) g = true).
Proof. exact type6_iff_fixed. Qed.
Print Assumptions C18_type6_iff.

(* definition (file) and hover (candidate text) on the module string vs. the file the analysis loaded.
   Full statement: for every require the analysis tries to resolve (fuzzy mode, not on an ignore list, no native
   module at the root), definition and hover answer exactly the file the analysis loaded, or nothing when it loaded
   nothing. Proved twice: C18_features_agree when at most one workspace file matches each documented candidate
   (unique_match, the `unique_best` of the plan), and C18_features_agree_ties for ANY number of equally named modules
   (the repaired deterministic choice picks the same file in both features because the score of a candidate does not
   depend on whether it is computed from "name" - analysis - or "name.lua" - definition). Since
   fixes/C18-score-position.diff the score is taken from the occurrence of "/" + name, so the six module names that occur
   inside the text "lua" (a, l, u, lu, ua, lua: strings.LastIndex found the name inside the suffix) are no exception any
   more: C18_features_agree_full_proved. The string is the one GetOpenFileStr finds under the cursor
   (C18_features_agree_cursor, C18_cursor_*: located by position since fixes/C18-string-cursor.diff). *)
Definition C18_features_agree_full : Prop :=
  forall disk cfg st files cur m, repaired cfg = true -> index_ok true st files -> all_lua files = true ->
    exact_mode cfg = false ->
    let m' := remove_pre_str m in
    m' <> [] -> mem_bytes m' (ignore_refer cfg) = false -> mem_bytes m' (ignore_modules cfg) = false ->
    disk (complete_path (main_dir cfg) (doc_so m')) = false ->
    let out := check_refer disk cfg st cur KRequire m in
    let oo := open_outcomes cfg st (fun f => fmem f files) cur (open_list cfg true false m) in
    (r_resolved out = [] /\ oo = [None]) \/
    (exists it c, r_resolved out = [c] /\ oo = [Some (it, c)] /\ path_suffix it c = true /\
                  (it = doc_lua m' \/ it = doc_init m')).

Theorem C18_features_agree : forall disk cfg st files cur m,
  index_ok true st files -> all_lua files = true ->
  exact_mode cfg = false -> dotslash_fixed cfg = true ->
  let m' := remove_pre_str m in
  m' <> [] ->
  mem_bytes m' (ignore_refer cfg) = false -> mem_bytes m' (ignore_modules cfg) = false ->
  disk (complete_path (main_dir cfg) (doc_so m')) = false ->
  unique_match (doc_lua m') files -> unique_match (doc_init m') files ->
  let out := check_refer disk cfg st cur KRequire m in
  let oo := open_outcomes cfg st (fun f => fmem f files) cur (open_list cfg true false m) in
  (r_resolved out = [] /\ oo = [None]) \/
  (exists it c, r_resolved out = [c] /\ oo = [Some (it, c)] /\ path_suffix it c = true /\
                (it = doc_lua m' \/ it = doc_init m')).
Proof. exact features_agree_fixed. Qed.
Print Assumptions C18_features_agree.

Theorem C18_features_agree_ties : forall disk cfg st files cur m,
  index_ok true st files -> all_lua files = true ->
  exact_mode cfg = false -> dotslash_fixed cfg = true -> order_fixed cfg = true ->
  let m' := remove_pre_str m in
  m' <> [] ->
  mem_bytes m' (ignore_refer cfg) = false -> mem_bytes m' (ignore_modules cfg) = false ->
  disk (complete_path (main_dir cfg) (doc_so m')) = false ->
  let out := check_refer disk cfg st cur KRequire m in
  let oo := open_outcomes cfg st (fun f => fmem f files) cur (open_list cfg true false m) in
  (r_resolved out = [] /\ oo = [None]) \/
  (exists it c, r_resolved out = [c] /\ oo = [Some (it, c)] /\ path_suffix it c = true /\ In c files /\
                (it = doc_lua m' \/ it = doc_init m')).
Proof. exact features_agree_scored. Qed.
Print Assumptions C18_features_agree_ties.

(* the full statement, no module name excepted *)
Theorem C18_features_agree_full_proved : C18_features_agree_full.
Proof.
  intros disk cfg st files cur m Hr Hok Hlua He. cbv zeta. intros Hm Hi1 Hi2 Hso.
  destruct (repaired_flags cfg Hr) as [Ho [_ [_ [Hds _]]]].
  destruct (features_agree_scored disk cfg st files cur m Hok Hlua He Hds Ho Hm Hi1 Hi2 Hso) as [H|[it [c [H1 [H2 [H3 [_ H4]]]]]]].
  - left. exact H.
  - right. exists it, c. repeat split; assumption.
Qed.
Print Assumptions C18_features_agree_full_proved.

(* the code before fixes/C18-dotted-path.diff and fixes/C18-dot-slash-definition.diff: simple names only, no "./" *)
Theorem C18_features_agree_before_fix : forall disk cfg st files cur m,
  index_ok false st files -> all_simple files ->
  exact_mode cfg = false ->
  remove_pre_str m = m -> m <> [] ->
  mem_bytes m (ignore_refer cfg) = false -> mem_bytes m (ignore_modules cfg) = false ->
  disk (complete_path (main_dir cfg) (doc_so m)) = false ->
  unique_match (doc_lua m) files -> unique_match (doc_init m) files ->
  let out := check_refer disk cfg st cur KRequire m in
  let oo := open_outcomes cfg st (fun f => fmem f files) cur (open_list cfg true false m) in
  (r_resolved out = [] /\ oo = [None]) \/
  (exists it c, r_resolved out = [c] /\ oo = [Some (it, c)] /\ path_suffix it c = true /\
                (it = doc_lua m \/ it = doc_init m)).
Proof. exact features_agree. Qed.
Print Assumptions C18_features_agree_before_fix.

(* ---- the answers follow create/delete events ---- *)

(* at the level of the index: after any history the deployed index makes CheckReferFile conform to the documented
   mapping over the files now present *)
Theorem C18_reacts_to_events : forall disk cfg ops cur k refer, lit_fixed cfg = true ->
  (k <> KSuffix -> all_lua (files_after ops) = true) ->
  conforms (check_refer disk cfg (idx_run_fixed ops) cur k refer) (spec_refer disk cfg (files_after ops) k refer) = true.
Proof. exact reacts_deployed. Qed.
Print Assumptions C18_reacts_to_events.

(* at the level of the project (Model/ModulePath.v pinit / pstep: HandleFileEventChanges + ReanalyseReferInfo on one
   referencing file): full statement - after ANY history of create / delete events, what an observer sees of every
   reference (valid, loaded file, type-6 diagnostic: ref_view) and what definition / hover answer on any candidate
   list is what a fresh start on the files and the disk of that moment shows. No guard. *)
Definition C18_events_full : Prop :=
  forall cfg cur refs disk lua events, repaired cfg = true ->
    let s := fold_left (pstep cfg cur true) events (pinit cfg cur disk lua refs) in
    let fresh := pinit cfg cur (ps_disk s) (ps_loaded s) refs in
    map ref_view (ps_refs s) = map ref_view (ps_refs fresh) /\
    (forall items, open_outcomes cfg (ps_idx s) (fun f => mem_bytes f (ps_loaded s)) cur items =
                   open_outcomes cfg (ps_idx fresh) (fun f => mem_bytes f (ps_loaded fresh)) cur items).

Theorem C18_events_fresh : forall cfg cur, order_fixed cfg = true -> reanalyse_fixed cfg = true ->
  forall refs disk lua events,
    let s := fold_left (pstep cfg cur true) events (pinit cfg cur disk lua refs) in
    map ref_view (ps_refs s) = map ref_view (ps_refs (fresh_of cfg cur refs s)) /\
    (forall items, open_outcomes cfg (ps_idx s) (fun f => mem_bytes f (ps_loaded s)) cur items =
                   open_outcomes cfg (ps_idx (fresh_of cfg cur refs s))
                     (fun f => mem_bytes f (ps_loaded (fresh_of cfg cur refs s))) cur items).
Proof. exact events_fresh. Qed.
Print Assumptions C18_events_fresh.

Theorem C18_events_full_proved : C18_events_full.
Proof.
  intros cfg cur refs disk lua events Hr. destruct (repaired_flags cfg Hr) as [Ho [_ [_ [_ [Hre _]]]]].
  exact (events_fresh cfg cur Ho Hre refs disk lua events).
Qed.
Print Assumptions C18_events_full_proved.

(* and therefore every reference of the referencing file follows the documented mapping over the files and the disk of
   that moment, after any history *)
Theorem C18_events_conform : forall cfg cur refs disk lua events,
  order_fixed cfg = true -> reanalyse_fixed cfg = true -> stem_fixed cfg = true -> lit_fixed cfg = true ->
  let s := fold_left (pstep cfg cur true) events (pinit cfg cur disk lua refs) in
  forall r, In r (ps_refs s) ->
    (rs_kind r <> KSuffix -> all_lua (ps_loaded s) = true) ->
    conforms (ref_outcome r) (spec_refer (disk_of (ps_disk s)) cfg (ps_loaded s) (rs_kind r) (rs_str r)) = true.
Proof. exact events_conform. Qed.
Print Assumptions C18_events_conform.

(* the variants before the repairs of this round (RemoveOneFile repaired / as first written) *)
Theorem C18_reacts_to_events_before_fix : forall disk cfg ops cur k refer,
  (k <> KSuffix -> all_simple (files_after ops)) ->
  (k = KSuffix -> has_dot (remove_pre_str refer) = true) ->
  conforms (check_refer disk cfg (idx_run_fixed_g false ops) cur k refer) (spec_refer disk cfg (files_after ops) k refer) = true.
Proof. exact reacts_fixed. Qed.
Print Assumptions C18_reacts_to_events_before_fix.

Theorem C18_reacts_to_events_unfixed : forall disk cfg ops cur k refer,
  abs_ops ops = true -> stale_remove ops = false ->
  (k <> KSuffix -> all_simple (files_after ops)) ->
  (k = KSuffix -> has_dot (remove_pre_str refer) = true) ->
  conforms (check_refer disk cfg (idx_run_g false ops) cur k refer) (spec_refer disk cfg (files_after ops) k refer) = true.
Proof. exact reacts_unfixed. Qed.
Print Assumptions C18_reacts_to_events_unfixed.

(* ---- witnesses: every former refutation as a before / after pair ---- *)
(* root "/ws"; ws_cfg = the deployed code; ws_cfg_r1 = before the four repairs of this round (deterministic choice
   already repaired); ws_cfg_prefix = before that one too *)
Definition ws_cfg : rcfg := mk_rcfg false [] system_modules [47; 119; 115] true true true true true true.
Definition ws_cfg_r1 : rcfg := mk_rcfg false [] system_modules [47; 119; 115] true false false false false false.
Definition ws_cfg_prefix : rcfg := mk_rcfg false [] system_modules [47; 119; 115] false false false false false false.
Definition f_ws_d_m : list N := [47;119;115;47;100;47;109;46;108;117;97].                    (* /ws/d/m.lua *)
Definition f_ws_cur : list N := [47;119;115;47;99;46;108;117;97].                            (* /ws/c.lua *)
Definition f_ws_m_test : list N := [47;119;115;47;109;46;116;101;115;116;46;108;117;97].     (* /ws/m.test.lua *)
Definition f_ws_v12_m : list N := [47;119;115;47;118;46;50;47;109;46;108;117;97].            (* /ws/v.2/m.lua *)

Example C18_deployed_is_repaired : repaired ws_cfg = true /\ stem_deployed = stem_fixed ws_cfg.
Proof. split; reflexivity. Qed.

(* C18-remove-key (ec76861): a deleted file kept resolving *)
Theorem C18_reacts_prefix_refuted :
  let ops := [Ins f_ws_cur; Ins f_ws_d_m; Rem f_ws_d_m] in
  let out := check_refer (fun _ => false) ws_cfg_r1 (idx_run_g false ops) f_ws_cur KRequire [100; 46; 109] in   (* require "d.m" *)
  r_err6 out = false /\ r_resolved out = [f_ws_d_m] /\
  spec_refer (fun _ => false) ws_cfg_r1 (files_after ops) KRequire [100; 46; 109] = not_found /\
  check_refer (fun _ => false) ws_cfg (idx_run_fixed ops) f_ws_cur KRequire [100; 46; 109] = not_found.
Proof. cbv zeta. repeat split; vm_compute; reflexivity. Qed.
Print Assumptions C18_reacts_prefix_refuted.

(* C18-dotted-path: a name with a second '.' (require "m" loaded m.test.lua) and a directory with a '.' (m.lua not found) *)
Example C18_dotted_path_repaired :
  (let files := [f_ws_cur; f_ws_m_test] in
   all_lua files = true /\
   check_refer (fun _ => false) ws_cfg (idx_run (map Ins files)) f_ws_cur KRequire [109] = not_found /\
   spec_refer (fun _ => false) ws_cfg files KRequire [109] = not_found) /\
  (let files := [f_ws_cur; f_ws_v12_m] in
   all_lua files = true /\
   check_refer (fun _ => false) ws_cfg (idx_run (map Ins files)) f_ws_cur KRequire [109] = found [f_ws_v12_m] /\
   spec_refer (fun _ => false) ws_cfg files KRequire [109] = found [f_ws_v12_m]).
Proof. split; cbv zeta; repeat split; vm_compute; reflexivity. Qed.

Example C18_dotted_path_before_fix :
  (let files := [f_ws_cur; f_ws_m_test] in
   odd_name files = true /\
   r_resolved (check_refer (fun _ => false) ws_cfg_r1 (idx_run_g false (map Ins files)) f_ws_cur KRequire [109]) = [f_ws_m_test] /\
   spec_refer (fun _ => false) ws_cfg_r1 files KRequire [109] = not_found) /\
  (let files := [f_ws_cur; f_ws_v12_m] in
   odd_name files = true /\
   check_refer (fun _ => false) ws_cfg_r1 (idx_run_g false (map Ins files)) f_ws_cur KRequire [109] = not_found /\
   spec_refer (fun _ => false) ws_cfg_r1 files KRequire [109] = found [f_ws_v12_m]).
Proof. split; cbv zeta; repeat split; vm_compute; reflexivity. Qed.

(* C18-dofile-no-suffix: dofile "d/m" (no suffix) silently loaded d/m.lua *)
Example C18_dofile_no_suffix_repaired :
  let files := [f_ws_cur; f_ws_d_m] in
  check_refer (fun _ => false) ws_cfg (idx_run (map Ins files)) f_ws_cur KSuffix [100; 47; 109] = not_found /\
  spec_refer (fun _ => false) ws_cfg files KSuffix [100; 47; 109] = not_found /\
  (* the literal name still resolves *)
  check_refer (fun _ => false) ws_cfg (idx_run (map Ins files)) f_ws_cur KSuffix [100; 47; 109; 46; 108; 117; 97] = found [f_ws_d_m].
Proof. cbv zeta. repeat split; vm_compute; reflexivity. Qed.

Example C18_dofile_no_suffix_before_fix :
  let files := [f_ws_cur; f_ws_d_m] in
  literal_no_dot KSuffix [100; 47; 109] = true /\
  check_refer (fun _ => false) ws_cfg_r1 (idx_run_g false (map Ins files)) f_ws_cur KSuffix [100; 47; 109] = found [f_ws_d_m] /\
  spec_refer (fun _ => false) ws_cfg_r1 files KSuffix [100; 47; 109] = not_found.
Proof. cbv zeta. repeat split; vm_compute; reflexivity. Qed.

(* non-vacuity of the premises of C18_resolve_conforms / C18_type6_iff / C18_features_agree:
   a workspace with duplicate base names, an init.lua module, a nested directory, a name with a second '.' and a
   directory with a '.' *)
Definition f_ws_a_init : list N := [47;119;115;47;97;47;105;110;105;116;46;108;117;97].     (* /ws/a/init.lua *)
Definition f_ws_b_m : list N := [47;119;115;47;98;47;109;46;108;117;97].                     (* /ws/b/m.lua *)
Example C18_guards_inhabited :
  let files := [f_ws_cur; f_ws_d_m; f_ws_b_m; f_ws_a_init; f_ws_m_test; f_ws_v12_m] in
  all_lua files = true /\ odd_name files = true /\
  index_ok true (idx_run (map Ins files)) (files_after (map Ins files)) /\
  unique_match (doc_lua [100; 46; 109]) files /\                                                    (* "d.m" *)
  r_resolved (check_refer (fun _ => false) ws_cfg (idx_run (map Ins files)) f_ws_cur KRequire [100; 46; 109]) = [f_ws_d_m] /\
  r_resolved (check_refer (fun _ => false) ws_cfg (idx_run (map Ins files)) f_ws_cur KRequire [97]) = [f_ws_a_init] /\
  r_resolved (check_refer (fun _ => false) ws_cfg (idx_run (map Ins files)) f_ws_cur KRequire [118; 46; 50; 47; 109]) = [] /\
  r_err6 (check_refer (fun _ => false) ws_cfg (idx_run (map Ins files)) f_ws_cur KRequire [120]) = true.
Proof.
  cbv zeta. split; [vm_compute; reflexivity|]. split; [vm_compute; reflexivity|].
  split; [split; [apply wf_run|apply (unfixed_refines_insert_only true); reflexivity]|].
  split.
  - intros c1 c2 H1 H2 P1 P2. simpl in H1, H2.
    repeat (destruct H1 as [<-|H1]; [|]); try contradiction; try (vm_compute in P1; discriminate);
    repeat (destruct H2 as [<-|H2]; [|]); try contradiction; try (vm_compute in P2; discriminate); reflexivity.
  - repeat split; vm_compute; reflexivity.
Qed.

(* why C18_resolve_full speaks of ".lua" workspaces: a file of an associated type (m.lua.txt, as with the setting
   files.associations "*.lua.txt") is the module "m" for the code - the name is cut at the first '.' of the file name -
   while the documented mapping (name.lua, name/init.lua) does not mention it *)
Definition f_ws_m_lua_txt : list N := [47;119;115;47;109;46;108;117;97;46;116;120;116].     (* /ws/m.lua.txt *)
Example C18_associated_type_outside_domain :
  let files := [f_ws_cur; f_ws_m_lua_txt] in
  all_lua files = false /\
  check_refer (fun _ => false) ws_cfg (idx_run (map Ins files)) f_ws_cur KRequire [109] = found [f_ws_m_lua_txt] /\
  spec_refer (fun _ => false) ws_cfg files KRequire [109] = not_found.
Proof. cbv zeta. repeat split; vm_compute; reflexivity. Qed.

(* ---- C18-create-not-reanalysed / C18-dot-slash-definition, with the event model (pinit / pstep) ---- *)
Definition f_ws_main : list N := [47;119;115;47;109;97;105;110;46;108;117;97].              (* /ws/main.lua *)
Definition f_ws_a_b_init : list N := [47;119;115;47;97;47;98;47;105;110;105;116;46;108;117;97].   (* /ws/a/b/init.lua *)
Definition f_ws_a_b : list N := [47;119;115;47;97;47;98;46;108;117;97].                      (* /ws/a/b.lua *)

(* main.lua: require("a.b") resolved to a/b/init.lua; then a/b.lua is created. Before the repair the referencing file
   was not re-analysed (isReferFileContainFiles compared the created path with the raw text "a.b" / "a.b.lua"), so it
   kept loading a/b/init.lua while a fresh start - and go-to-definition - answered a/b.lua. *)
Example C18_create_not_reanalysed_before_fix :
  let refs := [(KRequire, [97; 46; 98])] in
  let s0 := pinit ws_cfg_r1 f_ws_main [f_ws_a_b_init; f_ws_main] [f_ws_a_b_init; f_ws_main] refs in
  let s1 := pstep ws_cfg_r1 f_ws_main true s0 (Ins f_ws_a_b) in
  let fresh := pinit ws_cfg_r1 f_ws_main [f_ws_a_b_init; f_ws_main; f_ws_a_b] [f_ws_a_b_init; f_ws_main; f_ws_a_b] refs in
  map rs_vstr (ps_refs s1) = [[f_ws_a_b_init]] /\ map rs_vstr (ps_refs fresh) = [[f_ws_a_b]] /\
  open_outcomes ws_cfg_r1 (ps_idx s1) (fun f => mem_bytes f (ps_loaded s1)) f_ws_main (open_list ws_cfg_r1 true false [97; 46; 98])
    = [Some ([97;47;98;46;108;117;97], f_ws_a_b)].
Proof. cbv zeta. repeat split; vm_compute; reflexivity. Qed.

Example C18_create_not_reanalysed_repaired :
  let refs := [(KRequire, [97; 46; 98])] in
  let s0 := pinit ws_cfg f_ws_main [f_ws_a_b_init; f_ws_main] [f_ws_a_b_init; f_ws_main] refs in
  let s1 := pstep ws_cfg f_ws_main true s0 (Ins f_ws_a_b) in
  map rs_vstr (ps_refs s0) = [[f_ws_a_b_init]] /\ map rs_vstr (ps_refs s1) = [[f_ws_a_b]] /\
  map ref_view (ps_refs s1) = map ref_view (ps_refs (fresh_of ws_cfg f_ws_main refs s1)) /\
  open_outcomes ws_cfg (ps_idx s1) (fun f => mem_bytes f (ps_loaded s1)) f_ws_main (open_list ws_cfg true false [97; 46; 98])
    = [Some ([97;47;98;46;108;117;97], f_ws_a_b)].
Proof. cbv zeta. repeat split; vm_compute; reflexivity. Qed.

(* require("./d/m"): the analysis strips "./" and loads d/m.lua; definition/hover built their candidates from the raw
   text ("//d/m.lua") and found nothing; now they drop the "./" too *)
Example C18_dot_slash_before_fix :
  let st := idx_run_g false (map Ins [f_ws_cur; f_ws_d_m]) in
  let m := [46; 47; 100; 47; 109] in
  r_resolved (check_refer (fun _ => false) ws_cfg_r1 st f_ws_cur KRequire m) = [f_ws_d_m] /\
  open_outcomes ws_cfg_r1 st (fun _ => true) f_ws_cur (open_list ws_cfg_r1 true false m) = [None].
Proof. cbv zeta. split; vm_compute; reflexivity. Qed.

Example C18_dot_slash_repaired :
  let st := idx_run (map Ins [f_ws_cur; f_ws_d_m]) in
  let m := [46; 47; 100; 47; 109] in
  r_resolved (check_refer (fun _ => false) ws_cfg st f_ws_cur KRequire m) = [f_ws_d_m] /\
  open_outcomes ws_cfg st (fun _ => true) f_ws_cur (open_list ws_cfg true false m)
    = [Some ([100; 47; 109; 46; 108; 117; 97], f_ws_d_m)].
Proof. cbv zeta. split; vm_compute; reflexivity. Qed.

(* non-vacuity of C18_features_agree_ties: two equally placed modules "m" (unique_match fails), both features answer
   the one with the least path *)
Definition f_ws_a_m : list N := [47;119;115;47;97;47;109;46;108;117;97].
Definition f_ws_c_x : list N := [47;119;115;47;99;47;120;46;108;117;97].
Example C18_ties_inhabited :
  let files := [f_ws_b_m; f_ws_a_m; f_ws_c_x] in
  let st := idx_run (map Ins files) in
  all_lua files = true /\ lua_overlap (mod_path [109]) = false /\ ~ unique_match (doc_lua [109]) files /\
  r_resolved (check_refer (fun _ => false) ws_cfg st f_ws_c_x KRequire [109]) = [f_ws_a_m] /\
  open_outcomes ws_cfg st (fun f => fmem f files) f_ws_c_x (open_list ws_cfg true false [109])
    = [Some ([109; 46; 108; 117; 97], f_ws_a_m)].
Proof.
  cbv zeta. split; [reflexivity|]. split; [reflexivity|]. split.
  - intros H. specialize (H f_ws_b_m f_ws_a_m). assert (f_ws_b_m = f_ws_a_m) as E; [|discriminate].
    apply H; [left; reflexivity|right; left; reflexivity|vm_compute; reflexivity|vm_compute; reflexivity].
  - split; vm_compute; reflexivity.
Qed.

(* ---- after fixes/C09-deterministic-order.diff (order_fixed cfg = true): resolution is a function ---- *)

(* every reference resolves to at most one file, whatever the index and the disk *)
Theorem C18_resolution_single_fixed : forall disk cfg st cur k refer, order_fixed cfg = true ->
  (length (r_resolved (check_refer disk cfg st cur k refer)) <= 1)%nat.
Proof. exact check_refer_single. Qed.
Print Assumptions C18_resolution_single_fixed.

(* no history of create/delete events reaches the state "an earlier random choice among tied candidates decided the
   control flow" (ps_ambig), and every reference keeps at most one resolved file *)
Theorem C18_no_ambiguity_fixed : forall cfg cur fixed disk lua refs events, order_fixed cfg = true ->
  let s := fold_left (pstep cfg cur fixed) events (pinit cfg cur disk lua refs) in
  ps_ambig s = false /\ forall r, In r (ps_refs s) -> (length (rs_vstr r) <= 1)%nat.
Proof. exact no_ambiguity_fixed. Qed.
Print Assumptions C18_no_ambiguity_fixed.

(* before the repair both failed: /ws/a/m.lua and /ws/b/m.lua for require("m") from /ws/c/x.lua are both possible
   answers; and with /ws/a/d/m.lua, /ws/b/d/m.lua for require("d.m"), deleting one of them leaves the model not
   knowing whether the referencing file is re-analysed (it is iff the deleted file happens to be the one chosen) *)
Definition f_ws_a_d_m : list N := [47;119;115;47;97;47;100;47;109;46;108;117;97].
Definition f_ws_b_d_m : list N := [47;119;115;47;98;47;100;47;109;46;108;117;97].
Theorem C18_resolution_tie_prefix_refuted :
  (let st := idx_run_g false (map Ins [f_ws_a_m; f_ws_b_m; f_ws_c_x]) in
   r_resolved (check_refer (fun _ => false) ws_cfg_prefix st f_ws_c_x KRequire [109]) = [f_ws_a_m; f_ws_b_m] /\
   r_resolved (check_refer (fun _ => false) ws_cfg_r1 st f_ws_c_x KRequire [109]) = [f_ws_a_m]) /\
  (let lua := [f_ws_a_d_m; f_ws_b_d_m; f_ws_c_x] in
   let refs := [(KRequire, [100; 46; 109])] in
   ps_ambig (pstep ws_cfg_prefix f_ws_c_x true (pinit ws_cfg_prefix f_ws_c_x lua lua refs) (Rem f_ws_b_d_m)) = true /\
   ps_ambig (pstep ws_cfg_r1 f_ws_c_x true (pinit ws_cfg_r1 f_ws_c_x lua lua refs) (Rem f_ws_b_d_m)) = false /\
   map rs_vstr (ps_refs (pstep ws_cfg_r1 f_ws_c_x true (pinit ws_cfg_r1 f_ws_c_x lua lua refs) (Rem f_ws_a_d_m)))
     = [[f_ws_b_d_m]]).
Proof. cbv zeta. repeat split; vm_compute; reflexivity. Qed.
Print Assumptions C18_resolution_tie_prefix_refuted.

(* ---- the string under the cursor (head of stringutil.GetOpenFileStr; fixes/C18-string-cursor.diff) ----
   The regular expressions are an oracle: `groups` = per pattern (dofile, require, configured import with / without a
   ".lua" text), in the order the code tries them, the places where the expression matches on the line and where the
   quoted literal is inside each match. *)

(* full statement: wherever the cursor is inside the literal of a matched import expression - any column from the first
   character to the closing quote, whatever else is on the line, whatever pos.Character says - the deployed code
   answers that literal; and it answers nothing only when no literal holds the cursor *)
Definition C18_string_cursor_full : Prop :=
  forall cfg line col ch groups, repaired cfg = true ->
    (forall o, one_span col groups = true -> In o (all_occs groups) -> hit_pos col o = true ->
       exists p, cursor_pick (cursor_fixed cfg) line col ch groups = Some (p, occ_lit line o)) /\
    (cursor_pick (cursor_fixed cfg) line col ch groups = None <->
       forall o, In o (all_occs groups) -> hit_pos col o = false).

Theorem C18_cursor_exact : forall line col ch groups o,
  one_span col groups = true -> In o (all_occs groups) -> hit_pos col o = true ->
  exists p, cursor_pick true line col ch groups = Some (p, occ_lit line o).
Proof. exact cursor_pick_fixed_exact. Qed.
Print Assumptions C18_cursor_exact.

Theorem C18_cursor_sound : forall line col ch groups p s,
  cursor_pick true line col ch groups = Some (p, s) ->
  exists os o, In (p, os) groups /\ In o os /\ hit_pos col o = true /\ s = occ_lit line o.
Proof. exact cursor_pick_fixed_sound. Qed.
Print Assumptions C18_cursor_sound.

Theorem C18_cursor_none_iff : forall line col ch groups,
  cursor_pick true line col ch groups = None <-> forall o, In o (all_occs groups) -> hit_pos col o = false.
Proof. exact cursor_pick_fixed_none. Qed.
Print Assumptions C18_cursor_none_iff.

Theorem C18_string_cursor_full_proved : C18_string_cursor_full.
Proof.
  intros cfg line col ch groups Hr. destruct (repaired_flags cfg Hr) as [_ [_ [_ [_ [_ Hc]]]]]. rewrite Hc. split.
  - intros o H1 Hin Hh. exact (cursor_pick_fixed_exact line col ch groups o H1 Hin Hh).
  - exact (cursor_pick_fixed_none line col ch groups).
Qed.
Print Assumptions C18_string_cursor_full_proved.

(* from the cursor to the file: when the string under the cursor is the argument m of a require, definition and hover
   (run on the candidate list of the WHOLE GetOpenFileStr, cursor_list) answer the file the analysis loaded for m *)
Theorem C18_features_agree_cursor : forall disk cfg st files cur line col ch groups m,
  index_ok true st files -> all_lua files = true ->
  exact_mode cfg = false -> dotslash_fixed cfg = true -> order_fixed cfg = true -> cursor_fixed cfg = true ->
  cursor_pick true line col ch groups = Some (PRequire, m) ->
  let m' := remove_pre_str m in
  m' <> [] ->
  mem_bytes m' (ignore_refer cfg) = false -> mem_bytes m' (ignore_modules cfg) = false ->
  disk (complete_path (main_dir cfg) (doc_so m')) = false ->
  let out := check_refer disk cfg st cur KRequire m in
  let oo := open_outcomes cfg st (fun f => fmem f files) cur (cursor_list cfg line col ch groups) in
  (r_resolved out = [] /\ oo = [None]) \/
  (exists it c, r_resolved out = [c] /\ oo = [Some (it, c)] /\ path_suffix it c = true /\ In c files /\
                (it = doc_lua m' \/ it = doc_init m')).
Proof. exact features_agree_cursor. Qed.
Print Assumptions C18_features_agree_cursor.

(* witnesses: the code before the repair (ws_cfg_r1: cursor_fixed = false) against the deployed one (ws_cfg) *)
Definition ln_require_re : list N := [108; 111; 99; 97; 108; 32; 97; 32; 61; 32; 114; 101; 113; 117; 105; 114; 101; 40; 34; 114; 101; 34; 41].  (* local a = require("re") *)
Definition ln_dofile_sq : list N := [100; 111; 102; 105; 108; 101; 40; 39; 99; 111; 110; 102; 46; 108; 117; 97; 39; 41].  (* dofile('conf.lua') *)
Definition ln_twice : list N := [108; 111; 99; 97; 108; 32; 97; 44; 32; 98; 32; 61; 32; 114; 101; 113; 117; 105; 114; 101; 40; 34; 109; 109; 34; 41; 44; 32; 114; 101; 113; 117; 105; 114; 101; 40; 34; 109; 109; 34; 41].  (* local a, b = require("mm"), require("mm") *)
Definition ln_utf : list N := [108; 111; 99; 97; 108; 32; 115; 32; 61; 32; 34; 195; 169; 195; 169; 34; 59; 32; 108; 111; 99; 97; 108; 32; 97; 32; 61; 32; 114; 101; 113; 117; 105; 114; 101; 40; 34; 109; 109; 34; 41].  (* local s = "éé"; local a = require("mm") : é = 2 bytes, 1 UTF-16 unit *)
Definition ln_import : list N := [108; 111; 99; 97; 108; 32; 97; 32; 61; 32; 105; 109; 112; 111; 114; 116; 40; 34; 109; 109; 34; 41].  (* local a = import("mm") *)

(* (a) a module name that occurs inside the word `require`: strings.Index(matched text, "re") = 0 *)
Theorem C18_cursor_prefix_refuted :
  (* require("re"), cursor on the string (column 20): nothing before the repair - and the cursor on the WORD
     require (column 11) was taken for the string *)
  (let g := [(PDofile, []); (PRequire, [mk_occ 10 23 8 12]); (PImportLua, []); (PImport, [])] in
   hit_pos 20 (mk_occ 10 23 8 12) = true /\
   cursor_pick false ln_require_re 20 20 g = None /\
   cursor_pick false ln_require_re 11 11 g = Some (PRequire, [114; 101]) /\
   cursor_pick true ln_require_re 20 20 g = Some (PRequire, [114; 101]) /\
   cursor_pick true ln_require_re 11 11 g = None) /\
  (* (b) dofile('conf.lua'): the dofile pattern accepted double quotes only - no match at all before the repair *)
  (let g_old := [(PDofile, []); (PRequire, []); (PImportLua, []); (PImport, [])] in
   let g := [(PDofile, [mk_occ 0 18 7 17]); (PRequire, []); (PImportLua, []); (PImport, [])] in
   cursor_list ws_cfg_r1 ln_dofile_sq 10 10 g_old = [] /\
   cursor_list ws_cfg ln_dofile_sq 10 10 g = [[99; 111; 110; 102; 46; 108; 117; 97]; [99; 111; 110; 102; 46; 115; 111]]) /\
  (* (c) the same require twice on a line, cursor on the second string (column 38): strings.Index(line, text) finds the first *)
  (let g := [(PDofile, []); (PRequire, [mk_occ 13 26 8 12; mk_occ 28 41 8 12]); (PImportLua, []); (PImport, [])] in
   cursor_pick false ln_twice 38 38 g = None /\
   cursor_pick true ln_twice 38 38 g = Some (PRequire, [109; 109]) /\ one_span 38 g = true) /\
  (* (e) non-ASCII text before the require: byte column 37 is character 35 *)
  (let g := [(PDofile, []); (PRequire, [mk_occ 28 41 8 12]); (PImportLua, []); (PImport, [])] in
   cursor_pick false ln_utf 37 35 g = None /\
   cursor_pick true ln_utf 37 35 g = Some (PRequire, [109; 109])) /\
  (* (d) a suffix-less configured import whose module is a package directory: the analysis loads mm/init.lua,
         the candidate list had no init.lua item *)
  (let g := [(PDofile, []); (PRequire, []); (PImportLua, []); (PImport, [mk_occ 10 22 7 11])] in
   let files := [f_ws_main; [47; 119; 115; 47; 109; 109; 47; 105; 110; 105; 116; 46; 108; 117; 97]] in
   let st := idx_run (map Ins files) in
   r_resolved (check_refer (fun _ => false) ws_cfg st f_ws_main KFrameNoSuffix [109; 109]) = [[47; 119; 115; 47; 109; 109; 47; 105; 110; 105; 116; 46; 108; 117; 97]] /\
   open_outcomes ws_cfg_r1 st (fun _ => true) f_ws_main (cursor_list ws_cfg_r1 ln_import 18 18 g) = [None] /\
   open_outcomes ws_cfg st (fun _ => true) f_ws_main (cursor_list ws_cfg ln_import 18 18 g)
     = [Some ([109; 109; 47; 105; 110; 105; 116; 46; 108; 117; 97], [47; 119; 115; 47; 109; 109; 47; 105; 110; 105; 116; 46; 108; 117; 97])]).
Proof. cbv zeta. repeat split; vm_compute; reflexivity. Qed.
Print Assumptions C18_cursor_prefix_refuted.

(* non-vacuity of C18_features_agree_cursor / C18_cursor_exact: the cursor at every column of "re" in require("re") *)
Example C18_cursor_inhabited :
  let g := [(PDofile, []); (PRequire, [mk_occ 10 23 8 12]); (PImportLua, []); (PImport, [])] in
  let files := [f_ws_main; [47; 119; 115; 47; 114; 101; 46; 108; 117; 97]] in
  let st := idx_run (map Ins files) in
  forallb (fun col => one_span col g) [19; 20; 21]%nat = true /\
  map (fun col => cursor_pick true ln_require_re col 0 g) [18; 19; 20; 21; 22]%nat
    = [None; Some (PRequire, [114; 101]); Some (PRequire, [114; 101]); Some (PRequire, [114; 101]); None] /\
  r_resolved (check_refer (fun _ => false) ws_cfg st f_ws_main KRequire [114; 101]) = [[47; 119; 115; 47; 114; 101; 46; 108; 117; 97]] /\
  open_outcomes ws_cfg st (fun f => fmem f files) f_ws_main (cursor_list ws_cfg ln_require_re 20 0 g)
    = [Some ([114; 101; 46; 108; 117; 97], [47; 119; 115; 47; 114; 101; 46; 108; 117; 97])].
Proof. cbv zeta. repeat split; vm_compute; reflexivity. Qed.

(* ---- calcMatchStrScore located the name by strings.LastIndex(candidate, name) (fixes/C18-score-position.diff) ----
   The module "a" (one of a, l, u, lu, ua, lua) is found inside ".lua": the part before it is ".../a.lu" for the
   analysis (name "a") and ".../" for definition / hover (name "a.lua"). The two features then chose different files
   only in an extreme tree: the referencing file in a directory NAMED a.lu next to a.lua, 100 directories deep, and a
   second a.lua one level higher with a lesser path - but C18 is about every tree. Before: the analysis loads
   /ws/d/../d/a.lua (score -101970 against -101980), definition sees a tie (-101980) and takes the lesser path
   /ws/c/../c/a.lua. Deployed: the same scores for both names, both features answer /ws/c/../c/a.lua. *)
Definition deep (seg : list N) (k : nat) (tail : list N) : list N :=
  [47; 119; 115] ++ concat (repeat seg k) ++ tail.
Definition sc_cur : list N := deep [47; 100] 100 [47; 97; 46; 108; 117; 47; 109; 97; 105; 110; 46; 108; 117; 97].  (* /ws(/d)^100/a.lu/main.lua *)
Definition sc_c1 : list N := deep [47; 100] 100 [47; 97; 46; 108; 117; 97].                                         (* /ws(/d)^100/a.lua *)
Definition sc_c2 : list N := deep [47; 99] 99 [47; 97; 46; 108; 117; 97].                                           (* /ws(/c)^99/a.lua *)
Theorem C18_score_prefix_refuted :
  lua_overlap (mod_path [97]) = true /\
  BinInt.Z.ltb (calc_score_g false sc_cur [97] sc_c2) (calc_score_g false sc_cur [97] sc_c1) = true /\
  calc_score_g false sc_cur [97; 46; 108; 117; 97] sc_c1 = calc_score_g false sc_cur [97; 46; 108; 117; 97] sc_c2 /\
  bytes_ltb sc_c2 sc_c1 = true /\
  (let files := [sc_cur; sc_c1; sc_c2] in
   let st := idx_run (map Ins files) in
   all_lua files = true /\
   r_resolved (check_refer (fun _ => false) ws_cfg st sc_cur KRequire [97]) = [sc_c2] /\
   open_outcomes ws_cfg st (fun f => fmem f files) sc_cur (open_list ws_cfg true false [97]) = [Some ([97; 46; 108; 117; 97], sc_c2)]).
Proof. cbv zeta. repeat split; vm_compute; reflexivity. Qed.
Print Assumptions C18_score_prefix_refuted.

(* ties between equally placed modules named "a": both features answer the same file (the name was excluded before) *)
Example C18_ties_overlap_inhabited :
  let fa := [47;119;115;47;98;47;97;46;108;117;97] in        (* /ws/b/a.lua *)
  let fb := [47;119;115;47;100;47;97;46;108;117;97] in       (* /ws/d/a.lua *)
  let files := [fb; fa; f_ws_c_x] in
  let st := idx_run (map Ins files) in
  all_lua files = true /\ lua_overlap (mod_path [97]) = true /\
  r_resolved (check_refer (fun _ => false) ws_cfg st f_ws_c_x KRequire [97]) = [fa] /\
  open_outcomes ws_cfg st (fun f => fmem f files) f_ws_c_x (open_list ws_cfg true false [97]) = [Some ([97; 46; 108; 117; 97], fa)].
Proof. cbv zeta. repeat split; vm_compute; reflexivity. Qed.
