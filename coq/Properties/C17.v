(* C17 - each configuration switch silences exactly the diagnostics it names.
   Only statements closed by `exact` (and vm_compute witnesses of the *_refuted theorems) + Print Assumptions.

   Vocabulary (Model/Config.v, Spec/ConfigSpec.v):
     session fixed re_ok j c cs   the server's configuration state after initialize (luahelper.json j if present, client
                                  options c) and the settings changes cs; Fault Regexp = the process dies in
                                  regexp.MustCompile; fixed = false is the code as it is
     shown g root files           what the client sees: filter (visible g root) (raw (analysed files))
     spec_shown i root files      the documented law for the intent i of the session
     re_ok / re_match / raw       the Go regexp engine and the everything-enabled analysis: arbitrary (universally
                                  quantified) in every theorem *)
From Coq Require Import List NArith Bool String.
From LH Require Import Base.Bytes Base.Res Model.Config Spec.ConfigSpec Proofs.ConfigProofs Tie.TieConfig.
From LH Require Generated.GenFlags.
Import ListNotations.
Local Open Scope N_scope.

(* The full statement: for every configuration, by every route, the server survives and shows exactly what the
   intent allows.  It is FALSE on the code as it is (six refutations below); the guarded theorems say exactly where
   it holds. *)
Definition C17_full : Prop :=
  forall (re_ok : path -> bool) (re_match : path -> path -> bool) (raw : list path -> list diag)
         root files j c local_run cs,
    client_wf c = true -> forallb client_wf cs = true ->
    forallb type_ok (raw files) = true ->
    exists s, session false re_ok j c local_run cs = Ok s
      /\ shown re_ok re_match raw (s_g s) root files = spec_shown re_ok re_match raw (session_intent j c cs) root files.

(* ---- 1. the positional flag lists (over the GENERATED lists: re-checked against the code on every run) ---- *)

Theorem C17_flag_type_bijection :
  (forall i, (i < 26)%nat -> type_of_flag (nth i GenFlags.init_flags EmptyString) = N.of_nat i
                          /\ type_of_flag (nth i GenFlags.change_flags EmptyString) = N.of_nat i)
  /\ List.length GenFlags.init_flags = 26%nat
  /\ GenFlags.init_flags = GenFlags.change_flags.
Proof. exact flag_type_bijection. Qed.
Print Assumptions C17_flag_type_bijection.

(* ---- 2. the filter law ---- *)

(* for every session (any route, any history), any regexp engine, any analysis: if every diagnostic of the
   everything-enabled run passes the guard (it is excluded anyway, or neither the five-flag gate nor a coupled type
   nor the white list stands in its way), the client sees exactly the filtered everything-enabled run *)
Theorem C17_filter_law :
  forall fixed re_ok re_match raw root files j c local_run cs s,
    json_wf j = true -> client_wf c = true -> forallb client_wf cs = true ->
    session fixed re_ok j c local_run cs = Ok s ->
    forallb (diag_guard re_ok re_match (s_g s) (session_intent j c cs) root)
            (raw (filter (is_handled re_ok re_match (s_g s)) files)) = true ->
    shown re_ok re_match raw (s_g s) root files
      = spec_shown re_ok re_match raw (session_intent j c cs) root files.
Proof. exact filter_law. Qed.
Print Assumptions C17_filter_law.

(* the form of DESIGN.md: special_gate_ok cfg -> shown cfg = filter (not excluded) (all-on run), for workspaces whose
   diagnostics are of the plain types (not 17/24, not white-listed 22..28, no import reference) *)
Theorem C17_filter_law_plain :
  forall fixed re_ok re_match raw root files j c local_run cs s,
    json_wf j = true -> client_wf c = true -> forallb client_wf cs = true ->
    session fixed re_ok j c local_run cs = Ok s ->
    special_gate_ok (s_g s) = true ->
    forallb plain_diag (raw (filter (is_handled re_ok re_match (s_g s)) files)) = true ->
    shown re_ok re_match raw (s_g s) root files
      = spec_shown re_ok re_match raw (session_intent j c cs) root files.
Proof. exact filter_law_plain. Qed.
Print Assumptions C17_filter_law_plain.

(* one diagnostic at a time, with the exact residue: visible = allowed by the intent /\ gate /\ prerequisites /\ white list *)
Theorem C17_visible_exact :
  forall fixed re_ok re_match j c local_run cs s,
    json_wf j = true -> client_wf c = true -> forallb client_wf cs = true ->
    session fixed re_ok j c local_run cs = Ok s ->
    realises re_ok re_match (s_g s) (session_intent j c cs).
Proof. exact session_realises. Qed.
Print Assumptions C17_visible_exact.

(* without any guard: the code never SHOWS a diagnostic the configuration excludes (it only hides too much) *)
Theorem C17_never_shows_excluded :
  forall fixed re_ok re_match root j c local_run cs s d,
    json_wf j = true -> client_wf c = true -> forallb client_wf cs = true ->
    session fixed re_ok j c local_run cs = Ok s -> type_ok d = true ->
    visible re_ok re_match (s_g s) root d = true ->
    spec_excluded re_ok re_match (session_intent j c cs) root d = false.
Proof. exact never_shows_excluded. Qed.
Print Assumptions C17_never_shows_excluded.

(* ---- 3. the three routes ---- *)

Theorem C17_same_by_all_routes :
  forall fixed re_ok re_match c c0 csync cmid cany cs_any l1 l2 l3 s1 s2 s3,
    client_wf c = true -> client_wf c0 = true -> client_wf csync = true -> forallb client_wf cmid = true ->
    session fixed re_ok None c l1 [] = Ok s1 ->                           (* initializationOptions *)
    session fixed re_ok None c0 l2 (csync :: cmid ++ [c]) = Ok s2 ->      (* later settings change, any history *)
    session fixed re_ok (Some (to_json c)) cany l3 cs_any = Ok s3 ->      (* luahelper.json *)
    obs_eq re_ok re_match (s_g s1) (s_g s2) /\ obs_eq re_ok re_match (s_g s1) (s_g s3).
Proof. exact same_by_all_routes. Qed.
Print Assumptions C17_same_by_all_routes.

Theorem C17_same_routes_same_diagnostics :
  forall re_ok re_match raw g1 g2 root files,
    obs_eq re_ok re_match g1 g2 -> shown re_ok re_match raw g1 root files = shown re_ok re_match raw g2 root files.
Proof. exact obs_eq_shown. Qed.
Print Assumptions C17_same_routes_same_diagnostics.

Theorem C17_json_ignores_client :
  forall fixed re_ok jc c c' l l' cs cs' s s',
    session fixed re_ok (Some jc) c l cs = Ok s -> session fixed re_ok (Some jc) c' l' cs' = Ok s' -> s_g s = s_g s'.
Proof. exact json_ignores_client. Qed.
Print Assumptions C17_json_ignores_client.

(* ---- 4. malformed patterns ---- *)

(* the code before the repair died iff some IgnoreFileOrDirError pattern did not compile *)
Theorem C17_init_faults_iff :
  forall re_ok c local_run,
    init false re_ok None c local_run = Fault Regexp <-> forallb re_ok (c_ignore_err c) = false.
Proof. exact init_faults_iff. Qed.
Print Assumptions C17_init_faults_iff.

Theorem C17_no_fault_if_patterns_ok :
  forall re_ok fixed j c local_run cs,
    session_patterns_ok re_ok fixed j c cs = true -> fixed || local_ok j c local_run = true ->
    exists s, session fixed re_ok j c local_run cs = Ok s.
Proof. exact session_no_fault. Qed.
Print Assumptions C17_no_fault_if_patterns_ok.

(* the repaired code now in /repo (fix: commits 0afb56d regexp.Compile - a malformed pattern counts as literal text only -
   and c65defa IgnoreVarMap allocated at start-up) never faults, whatever the settings, by any route *)
Theorem C17_fixed_never_faults :
  forall re_ok j c local_run cs, exists s, session true re_ok j c local_run cs = Ok s.
Proof. exact fixed_never_faults. Qed.
Print Assumptions C17_fixed_never_faults.

(* ... and the repaired variant IS the code in /repo: derived by the translator from global_conf.go on every run *)
Theorem C17_code_is_repaired_variant : fixed_regexp_now = true.
Proof. exact tie_repaired_now. Qed.
Print Assumptions C17_code_is_repaired_variant.

(* before the repair: initializationOptions {LocalRun: true, AllEnable: false}: handleNotJSONCheckFlag returned before it
   allocated IgnoreVarMap, InsertIngoreSystemModule then wrote into the nil map: initialize died *)
Theorem C17_local_master_off_faulted :
  forall re_ok c fl,
    c_flags c = false :: fl -> compile_all false re_ok (c_ignore_err c) = true ->
    init false re_ok None c true = Fault NilDeref.
Proof. exact local_master_off_faults. Qed.
Print Assumptions C17_local_master_off_faulted.

(* ---- 5. refutations of C17_full on the faithful model (each replayed on the real server: known_findings/C17.json) ---- *)

(* client option IgnoreFileOrDirError ["("]: initialize died before the repair; the repaired code survives *)
Theorem C17_bad_regex_repaired :
  client_wf w_bad_regex = true
  /\ session false re_no_paren None w_bad_regex false [] = Fault Regexp
  /\ is_ok (session true re_no_paren None w_bad_regex false []) = true.
Proof. vm_compute. repeat split. Qed.
Print Assumptions C17_bad_regex_repaired.

(* switches 2, 3, 10, 11, 12 off and 9 on: a type-9 diagnostic, not excluded by the intent, is not shown *)
Theorem C17_special_gate_refuted :
  match session false re_all None w_gate false [] with
  | Ok s =>
      client_wf w_gate = true /\ nth 9 (c_flags w_gate) false = true
      /\ spec_excluded re_all re_none (session_intent None w_gate []) [] (mk_diag a_lua 9) = false
      /\ visible re_all re_none (s_g s) [] (mk_diag a_lua 9) = false
      /\ cls_special_gate re_all re_none (s_g s) (session_intent None w_gate []) [] (mk_diag a_lua 9) = true
  | _ => False
  end.
Proof. vm_compute. repeat split. Qed.
Print Assumptions C17_special_gate_refuted.

(* only switch 4 off: the type-17 diagnostic disappears as well *)
Theorem C17_coupled_type_refuted :
  match session false re_all None w_coupled false [] with
  | Ok s =>
      nth 17 (c_flags w_coupled) false = true
      /\ spec_excluded re_all re_none (session_intent None w_coupled []) [] (mk_diag a_lua 17) = false
      /\ visible re_all re_none (s_g s) [] (mk_diag a_lua 17) = false
      /\ cls_coupled re_all re_none (s_g s) (session_intent None w_coupled []) [] (mk_diag a_lua 17) = true
  | _ => False
  end.
Proof. vm_compute. repeat split. Qed.
Print Assumptions C17_coupled_type_refuted.

(* every client switch on: a type-22 diagnostic is still not shown (white list only fed by luahelper.json) *)
Theorem C17_dead_flag_refuted :
  match session false re_all None w_all_on false [] with
  | Ok s =>
      nth 22 (c_flags w_all_on) false = true
      /\ spec_excluded re_all re_none (session_intent None w_all_on []) [] (mk_diag a_lua 22) = false
      /\ visible re_all re_none (s_g s) [] (mk_diag a_lua 22) = false
      /\ cls_dead_flag re_all re_none (s_g s) (session_intent None w_all_on []) [] (mk_diag a_lua 22) = true
  | _ => False
  end.
Proof. vm_compute. repeat split. Qed.
Print Assumptions C17_dead_flag_refuted.

(* two IgnoreFileErrTypes entries for the same file: the first one is lost, its type is shown *)
Theorem C17_dup_file_rule_refuted :
  match session false re_all (Some w_dup_rule) w_all_on false [] with
  | Ok s =>
      json_wf (Some w_dup_rule) = false
      /\ spec_excluded re_all re_none (session_intent (Some w_dup_rule) w_all_on []) [] (mk_diag a_lua 4) = true
      /\ visible re_all re_none (s_g s) [] (mk_diag a_lua 4) = true
  | _ => False
  end.
Proof. vm_compute. repeat split. Qed.
Print Assumptions C17_dup_file_rule_refuted.

(* the master switch "removes all" - with LocalRun it used to remove the server; repaired *)
Theorem C17_master_off_local_repaired :
  client_wf w_master_off = true
  /\ session false re_all None w_master_off true [] = Fault NilDeref
  /\ is_ok (session true re_all None w_master_off true []) = true
  /\ is_ok (session false re_all None w_master_off false []) = true.
Proof. vm_compute. repeat split. Qed.
Print Assumptions C17_master_off_local_repaired.

(* ---- non-vacuity: a configuration with switches off, a silenced folder and an ignored file meets the guard of
   C17_filter_law on diagnostics of six kinds, and the law then hides three of them and shows three ---- *)
Example C17_guard_inhabited :
  match session false re_all None w_example false [] with
  | Ok s =>
      client_wf w_example = true
      /\ forallb (diag_guard re_all re_none (s_g s) (session_intent None w_example []) []) w_example_diags = true
      /\ map (visible re_all re_none (s_g s) []) w_example_diags = [true; true; false; false; false; true]
      /\ is_handled re_all re_none (s_g s) x_lua = false /\ is_handled re_all re_none (s_g s) a_lua = true
      /\ special_gate_ok (s_g s) = true
  | _ => False
  end.
Proof. vm_compute. repeat split. Qed.
