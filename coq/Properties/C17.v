(* C17 - each configuration switch silences exactly the diagnostics it names.
   Only statements closed by `exact` (and vm_compute witnesses / regression examples) + Print Assumptions.

   Vocabulary (Model/Config.v, Spec/ConfigSpec.v):
     fx : fixes                   which fix: commits are in the code; `deployed` = all of them = the code now in /repo
                                  (C17_code_is_deployed_variant), `code_round1` = the code before the four repairs of
                                  round 2, `code_original` = the code before any repair
     session fx re_ok j c lr cs   the server's configuration state after initialize (luahelper.json j if present, client
                                  options c, LocalRun lr) and the settings changes cs; Fault Regexp = the process dies in
                                  regexp.MustCompile
     shown fx .. g root files     what the client sees: filter (visible g root) (raw (analysed files))
     is_handled fx .. g rel       site 1 of the ignore-for-analysis rules: does the directory walk (start-up, and again
                                  after a settings change) scan the file rel of the workspace?  (analysed files = these)
     need_handle fx .. g rel      site 2: does the per-file predicate IsNeedHandle accept the file (didOpen, didChange,
                                  watched-file events, hover, definition, ...)?
     spec_handled i rel           the documented law: no ignore rule of the intent matches the file's name or a folder
                                  on its way
     spec_shown i root files      the documented law for the intent i of the session
     run_live fx .. j c lr evs    the server's state (configuration, saved diagnostics, remembered unsaved buffers, and
                                  l_view: the list the client holds for each file) after initialize and the history evs
                                  of edits of unsaved buffers (EEdit f errs: didOpen + didChange of file f to a text
                                  whose syntax errors are errs) and settings notifications (ESettings c)
     spec_view .. j c root files evs   the demanded list for each file after that history (Spec/ConfigSpec.v)
     re_ok / re_match / raw       the Go regexp engine and the everything-enabled analysis: arbitrary (universally
                                  quantified) in every theorem *)
From Coq Require Import List NArith Bool String.
From LH Require Import Base.Bytes Base.Res Model.Config Spec.ConfigSpec Proofs.ConfigProofs Proofs.ConfigLive Tie.TieConfig.
From LH Require Generated.GenFlags.
Import ListNotations.
Local Open Scope N_scope.

(* The full statement, for one variant of the code: for every configuration, by every route, the server survives,
   shows exactly what the intent allows (the only premise about the analysis: its diagnostics have one of the existing
   types 1..29) - in particular it analyses exactly the files no ignore rule matches - and every later per-file
   request is accepted for exactly those files.  Proved for the deployed code (section 0); FALSE for the code before
   the repairs (sections 5 and 6). *)
Definition C17_full_for (fx : fixes) : Prop :=
  forall (re_ok : path -> bool) (re_match : path -> path -> bool) (raw : list path -> list diag)
         root files j c local_run cs,
    client_wf c = true -> forallb client_wf cs = true ->
    forallb type_ok (raw (filter (spec_handled re_ok re_match (session_intent j c cs)) files)) = true ->
    exists s, session fx re_ok j c local_run cs = Ok s
      /\ shown fx re_ok re_match raw (s_g s) root files = spec_shown re_ok re_match raw (session_intent j c cs) root files
      /\ (forall rel, need_handle fx re_ok re_match (s_g s) rel = spec_handled re_ok re_match (session_intent j c cs) rel).

(* ---- 0. the deployed code ---- *)

Theorem C17_full : C17_full_for deployed.
Proof. exact full_deployed. Qed.
Print Assumptions C17_full.

(* ... and `deployed` IS the code in /repo: every component of fixes_now is derived by the translator from the Go
   sources on every run (Tie/TieConfig.v: no regexp.MustCompile on user text + IgnoreVarMap allocated at start-up; the
   errTypeList of IsSpecialCheck, as a list; the table of IsGlobalIgnoreErrType / IsIgnoreErrorFile uses inside
   check/analysis has the repaired shape; handleNotJSONCheckFlag writes OpenErrorTypeMap; ReadConfig reads
   IgnoreFileErrTypesMap before assigning; getAllFile and IsIgnoreCompleteFile both end in isIgnoreRelFile;
   clearLspServer clears the files of fileErrorMap and of fileChangeErrorMap before it empties the maps).
   Reverting any of the eight fix: commits breaks this proof (Tie/TieConfig.v
   itself compiles for any state of the code, so that the correspondence legs still run - with the variant of the model
   that describes the changed code - and look for a failing input). *)
Theorem C17_code_is_deployed_variant : fixes_now = deployed.
Proof. vm_compute. reflexivity. Qed.
Print Assumptions C17_code_is_deployed_variant.

Theorem C17_code_is_repaired_variant : fx_regexp fixes_now = true /\ gate_covers fixes_now = true.
Proof. vm_compute. split; reflexivity. Qed.
Print Assumptions C17_code_is_repaired_variant.

(* ---- 1. the positional flag lists (over the GENERATED lists: re-checked against the code on every run) ---- *)

Theorem C17_flag_type_bijection :
  (forall i, (i < 26)%nat -> type_of_flag (nth i GenFlags.init_flags EmptyString) = N.of_nat i
                          /\ type_of_flag (nth i GenFlags.change_flags EmptyString) = N.of_nat i)
  /\ List.length GenFlags.init_flags = 26%nat
  /\ GenFlags.init_flags = GenFlags.change_flags.
Proof. exact flag_type_bijection. Qed.
Print Assumptions C17_flag_type_bijection.

(* ---- 2. the filter law ---- *)

(* the repaired code (the four repairs of round 2; with or without the regexp repair; gate_covers fx = the gate list of
   IsSpecialCheck contains every type the cross-file passes emit): for every session that does not fault (any route,
   any history), any regexp engine, any analysis, the client sees exactly the filtered everything-enabled run.
   No guard on the configuration is left (before: special_gate_ok / diag_guard / json_wf / walk_ok). *)
Theorem C17_filter_law :
  forall fx re_ok re_match raw root files j c local_run cs s,
    gate_covers fx = true -> fx_coupled fx = true -> fx_dead fx = true -> fx_dup fx = true -> fx_sites fx = true ->
    client_wf c = true -> forallb client_wf cs = true ->
    session fx re_ok j c local_run cs = Ok s ->
    forallb type_ok (raw (filter (spec_handled re_ok re_match (session_intent j c cs)) files)) = true ->
    shown fx re_ok re_match raw (s_g s) root files
      = spec_shown re_ok re_match raw (session_intent j c cs) root files.
Proof. exact filter_law. Qed.
Print Assumptions C17_filter_law.

(* one diagnostic at a time: visible = not excluded by the intent, nothing else *)
Theorem C17_visible_iff_not_excluded :
  forall fx re_ok re_match root j c local_run cs s d,
    gate_covers fx = true -> fx_coupled fx = true -> fx_dead fx = true -> fx_dup fx = true ->
    client_wf c = true -> forallb client_wf cs = true ->
    session fx re_ok j c local_run cs = Ok s -> type_ok d = true ->
    visible fx re_ok re_match (s_g s) root d = negb (spec_excluded re_ok re_match (session_intent j c cs) root d).
Proof. exact session_visible_exact. Qed.
Print Assumptions C17_visible_iff_not_excluded.

(* the classes of the four repaired defects are empty on the repaired code (the correspondence leg computes them with
   the same extracted predicates: an instance on the deployed code is an unlisted violation) *)
Theorem C17_classes_empty :
  forall fx re_ok re_match root j c local_run cs s d,
    gate_covers fx = true -> fx_coupled fx = true -> fx_dead fx = true -> fx_dup fx = true ->
    client_wf c = true -> forallb client_wf cs = true ->
    session fx re_ok j c local_run cs = Ok s -> type_ok d = true ->
    cls_special_gate fx re_ok re_match (s_g s) (session_intent j c cs) root d = false
    /\ cls_coupled fx re_ok re_match (s_g s) (session_intent j c cs) root d = false
    /\ cls_dead_flag re_ok re_match (s_g s) (session_intent j c cs) root d = false
    /\ json_wf fx j = true.
Proof. exact classes_empty. Qed.
Print Assumptions C17_classes_empty.

(* EVERY variant of the code (fx arbitrary: also the code before the repairs): if every diagnostic of the
   everything-enabled run passes the guard (it is excluded anyway, or neither the five-flag gate nor a coupled type nor
   the white list stands in its way) and the directory walk scans the files of the workspace the intent wants analysed
   (walk_ok; always true once the two ignore sites are one: C17_ignore_sites_class_empty), the client sees exactly the
   filtered everything-enabled run *)
Theorem C17_filter_law_guarded :
  forall fx re_ok re_match raw root files j c local_run cs s,
    json_wf fx j = true -> client_wf c = true -> forallb client_wf cs = true ->
    session fx re_ok j c local_run cs = Ok s ->
    walk_ok fx re_ok re_match (s_g s) (session_intent j c cs) files = true ->
    forallb (diag_guard fx re_ok re_match (s_g s) (session_intent j c cs) root)
            (raw (filter (is_handled fx re_ok re_match (s_g s)) files)) = true ->
    shown fx re_ok re_match raw (s_g s) root files
      = spec_shown re_ok re_match raw (session_intent j c cs) root files.
Proof. exact filter_law_guarded. Qed.
Print Assumptions C17_filter_law_guarded.

(* the form of DESIGN.md for the unrepaired code: special_gate_ok cfg -> shown cfg = filter (not excluded) (all-on run),
   for workspaces whose diagnostics are of the plain types (not 17/24, not white-listed 22..28, no import reference) *)
Theorem C17_filter_law_plain :
  forall fx re_ok re_match raw root files j c local_run cs s,
    json_wf fx j = true -> client_wf c = true -> forallb client_wf cs = true ->
    session fx re_ok j c local_run cs = Ok s ->
    special_gate_ok fx (s_g s) = true ->
    walk_ok fx re_ok re_match (s_g s) (session_intent j c cs) files = true ->
    forallb plain_diag (raw (filter (is_handled fx re_ok re_match (s_g s)) files)) = true ->
    shown fx re_ok re_match raw (s_g s) root files
      = spec_shown re_ok re_match raw (session_intent j c cs) root files.
Proof. exact filter_law_plain. Qed.
Print Assumptions C17_filter_law_plain.

(* every variant, one diagnostic at a time, with the exact residue:
   visible = allowed by the intent /\ gate /\ prerequisites /\ white list *)
Theorem C17_visible_exact :
  forall fx re_ok re_match j c local_run cs s,
    json_wf fx j = true -> client_wf c = true -> forallb client_wf cs = true ->
    session fx re_ok j c local_run cs = Ok s ->
    realises fx re_ok re_match (s_g s) (session_intent j c cs).
Proof. exact session_realises. Qed.
Print Assumptions C17_visible_exact.

(* every variant: the code never SHOWS a diagnostic the configuration excludes (it only hid too much) *)
Theorem C17_never_shows_excluded :
  forall fx re_ok re_match root j c local_run cs s d,
    json_wf fx j = true -> client_wf c = true -> forallb client_wf cs = true ->
    session fx re_ok j c local_run cs = Ok s -> type_ok d = true ->
    visible fx re_ok re_match (s_g s) root d = true ->
    spec_excluded re_ok re_match (session_intent j c cs) root d = false.
Proof. exact never_shows_excluded. Qed.
Print Assumptions C17_never_shows_excluded.

(* ---- 3. the three routes (every variant; to_json lists the switched-on types as OpenErrorTypes once the client
   switches reach the white list) ---- *)

Theorem C17_same_by_all_routes :
  forall fx re_ok re_match c c0 csync cmid cany cs_any l1 l2 l3 s1 s2 s3,
    client_wf c = true -> client_wf c0 = true -> client_wf csync = true -> forallb client_wf cmid = true ->
    session fx re_ok None c l1 [] = Ok s1 ->                           (* initializationOptions *)
    session fx re_ok None c0 l2 (csync :: cmid ++ [c]) = Ok s2 ->      (* later settings change, any history *)
    session fx re_ok (Some (to_json fx c)) cany l3 cs_any = Ok s3 ->   (* luahelper.json *)
    obs_eq fx re_ok re_match (s_g s1) (s_g s2) /\ obs_eq fx re_ok re_match (s_g s1) (s_g s3).
Proof. exact same_by_all_routes. Qed.
Print Assumptions C17_same_by_all_routes.

Theorem C17_same_routes_same_diagnostics :
  forall fx re_ok re_match raw g1 g2 root files,
    obs_eq fx re_ok re_match g1 g2 -> shown fx re_ok re_match raw g1 root files = shown fx re_ok re_match raw g2 root files.
Proof. exact obs_eq_shown. Qed.
Print Assumptions C17_same_routes_same_diagnostics.

Theorem C17_json_ignores_client :
  forall fx re_ok jc c c' l l' cs cs' s s',
    session fx re_ok (Some jc) c l cs = Ok s -> session fx re_ok (Some jc) c' l' cs' = Ok s' -> s_g s = s_g s'.
Proof. exact json_ignores_client. Qed.
Print Assumptions C17_json_ignores_client.

(* ---- 4. malformed patterns ---- *)

(* the code before the regexp repair died iff some IgnoreFileOrDirError pattern did not compile *)
Theorem C17_init_faults_iff :
  forall re_ok fx c local_run,
    fx_regexp fx = false ->
    (init fx re_ok None c local_run = Fault Regexp <-> forallb re_ok (c_ignore_err c) = false).
Proof. exact init_faults_iff. Qed.
Print Assumptions C17_init_faults_iff.

Theorem C17_no_fault_if_patterns_ok :
  forall re_ok fx j c local_run cs,
    session_patterns_ok re_ok fx j c cs = true -> fx_regexp fx || local_ok j c local_run = true ->
    exists s, session fx re_ok j c local_run cs = Ok s.
Proof. exact session_no_fault. Qed.
Print Assumptions C17_no_fault_if_patterns_ok.

(* the repaired code (fix: commits 0afb56d regexp.Compile - a malformed pattern counts as literal text only -
   and c65defa IgnoreVarMap allocated at start-up) never faults, whatever the settings, by any route *)
Theorem C17_fixed_never_faults :
  forall re_ok fx j c local_run cs, fx_regexp fx = true -> exists s, session fx re_ok j c local_run cs = Ok s.
Proof. exact fixed_never_faults. Qed.
Print Assumptions C17_fixed_never_faults.

(* before the repair: initializationOptions {LocalRun: true, AllEnable: false}: handleNotJSONCheckFlag returned before it
   allocated IgnoreVarMap, InsertIngoreSystemModule then wrote into the nil map: initialize died *)
Theorem C17_local_master_off_faulted :
  forall re_ok fx c fl,
    fx_regexp fx = false ->
    c_flags c = false :: fl -> compile_all fx re_ok (c_ignore_err c) = true ->
    init fx re_ok None c true = Fault NilDeref.
Proof. exact local_master_off_faults. Qed.
Print Assumptions C17_local_master_off_faulted.

(* ---- 5. the six repaired defects: the old witness (each was replayed on the real server, known_findings/C17.json,
   and stays in corpus/c17.filter.txt), refuted on the code before its repair and positive on the deployed code ---- *)

(* client option IgnoreFileOrDirError ["("]: initialize died before the repair; the repaired code survives *)
Theorem C17_bad_regex_repaired :
  client_wf w_bad_regex = true
  /\ session code_original re_no_paren None w_bad_regex false [] = Fault Regexp
  /\ is_ok (session deployed re_no_paren None w_bad_regex false []) = true.
Proof. vm_compute. repeat split. Qed.
Print Assumptions C17_bad_regex_repaired.

(* the master switch "removes all" - with LocalRun it used to remove the server; repaired *)
Theorem C17_master_off_local_repaired :
  client_wf w_master_off = true
  /\ session code_original re_all None w_master_off true [] = Fault NilDeref
  /\ is_ok (session deployed re_all None w_master_off true []) = true
  /\ is_ok (session code_original re_all None w_master_off false []) = true.
Proof. vm_compute. repeat split. Qed.
Print Assumptions C17_master_off_local_repaired.

(* switches 2, 3, 10, 11, 12 off and 9 on: a type-9 diagnostic, not excluded by the intent, was not shown (the
   cross-file passes did not run); now it is *)
Theorem C17_special_gate_repaired :
  match session code_round1 re_all None w_gate false [], session deployed re_all None w_gate false [] with
  | Ok s, Ok s' =>
      client_wf w_gate = true /\ nth 9 (c_flags w_gate) false = true
      /\ spec_excluded re_all re_none (session_intent None w_gate []) [] (mk_diag a_lua 9) = false
      /\ visible code_round1 re_all re_none (s_g s) [] (mk_diag a_lua 9) = false
      /\ cls_special_gate code_round1 re_all re_none (s_g s) (session_intent None w_gate []) [] (mk_diag a_lua 9) = true
      /\ visible deployed re_all re_none (s_g s') [] (mk_diag a_lua 9) = true
  | _, _ => False
  end.
Proof. vm_compute. repeat split. Qed.
Print Assumptions C17_special_gate_repaired.

(* only switch 4 off: the type-17 diagnostic disappeared as well; only switch 2 off, or the IMPORTED file b.lua under an
   ignore-errors rule: the type-11 diagnostic of a.lua disappeared; all three are shown now *)
Theorem C17_coupled_type_repaired :
  match session code_round1 re_all None w_coupled false [], session deployed re_all None w_coupled false [],
        session code_round1 re_all None w_coupled_ref false [], session deployed re_all None w_coupled_ref false [],
        session code_round1 re_all None w_coupled_ref_file false [], session deployed re_all None w_coupled_ref_file false []
  with
  | Ok s, Ok s', Ok r, Ok r', Ok f, Ok f' =>
      nth 17 (c_flags w_coupled) false = true
      /\ spec_excluded re_all re_none (session_intent None w_coupled []) [] (mk_diag a_lua 17) = false
      /\ visible code_round1 re_all re_none (s_g s) [] (mk_diag a_lua 17) = false
      /\ cls_coupled code_round1 re_all re_none (s_g s) (session_intent None w_coupled []) [] (mk_diag a_lua 17) = true
      /\ visible deployed re_all re_none (s_g s') [] (mk_diag a_lua 17) = true
      /\ spec_excluded re_all re_none (session_intent None w_coupled_ref []) [] mk_ref_diag = false
      /\ visible code_round1 re_all re_none (s_g r) [] mk_ref_diag = false
      /\ visible deployed re_all re_none (s_g r') [] mk_ref_diag = true
      /\ spec_excluded re_all re_none (session_intent None w_coupled_ref_file []) [] mk_ref_diag = false
      /\ visible code_round1 re_all re_none (s_g f) [] mk_ref_diag = false
      /\ visible deployed re_all re_none (s_g f') [] mk_ref_diag = true
  | _, _, _, _, _, _ => False
  end.
Proof. vm_compute. repeat split. Qed.
Print Assumptions C17_coupled_type_repaired.

(* every client switch on: a type-22 diagnostic was still not shown (white list only fed by luahelper.json); now the
   switch opens its type - and switching it off hides the type again *)
Theorem C17_dead_flag_repaired :
  match session code_round1 re_all None w_all_on false [], session deployed re_all None w_all_on false [],
        session deployed re_all None (mk_client [22] [] []) false [] with
  | Ok s, Ok s', Ok t =>
      nth 22 (c_flags w_all_on) false = true
      /\ spec_excluded re_all re_none (session_intent None w_all_on []) [] (mk_diag a_lua 22) = false
      /\ visible code_round1 re_all re_none (s_g s) [] (mk_diag a_lua 22) = false
      /\ cls_dead_flag re_all re_none (s_g s) (session_intent None w_all_on []) [] (mk_diag a_lua 22) = true
      /\ visible deployed re_all re_none (s_g s') [] (mk_diag a_lua 22) = true
      /\ visible deployed re_all re_none (s_g t) [] (mk_diag a_lua 22) = false
      /\ visible deployed re_all re_none (s_g t) [] (mk_diag a_lua 23) = true
  | _, _, _ => False
  end.
Proof. vm_compute. repeat split. Qed.
Print Assumptions C17_dead_flag_repaired.

(* two IgnoreFileErrTypes entries for the same file: the first one was lost, its type was shown; now both hold *)
Theorem C17_dup_file_rule_repaired :
  match session code_round1 re_all (Some w_dup_rule) w_all_on false [],
        session deployed re_all (Some w_dup_rule) w_all_on false [] with
  | Ok s, Ok s' =>
      json_wf code_round1 (Some w_dup_rule) = false
      /\ spec_excluded re_all re_none (session_intent (Some w_dup_rule) w_all_on []) [] (mk_diag a_lua 4) = true
      /\ visible code_round1 re_all re_none (s_g s) [] (mk_diag a_lua 4) = true
      /\ visible deployed re_all re_none (s_g s') [] (mk_diag a_lua 4) = false
      /\ visible deployed re_all re_none (s_g s') [] (mk_diag a_lua 5) = false
      /\ visible deployed re_all re_none (s_g s') [] (mk_diag a_lua 6) = true
  | _, _ => False
  end.
Proof. vm_compute. repeat split. Qed.
Print Assumptions C17_dup_file_rule_repaired.

(* hence the full statement was false for the code before the four repairs (witness: the five-flag gate) *)
Theorem C17_full_refuted_before : ~ C17_full_for code_round1.
Proof. exact full_round1_refuted. Qed.
Print Assumptions C17_full_refuted_before.

(* ---- 6. the two places where the ignore-for-analysis rules decide (IgnoreFileOrDir / IgnoreFileOrFloder) ---- *)

(* For EVERY configuration state (whatever route and history produced it - indeed any contents of the two rule lists),
   every regexp engine and every file name: the directory walk scans the file iff the per-file predicate accepts it
   (repaired code: both ask isIgnoreRelFile; the walk's extra pruning of ignored folders changes nothing) *)
Theorem C17_ignore_sites_agree :
  forall fx re_ok re_match g rel,
    fx_sites fx = true -> is_handled fx re_ok re_match g rel = need_handle fx re_ok re_match g rel.
Proof. exact sites_agree. Qed.
Print Assumptions C17_ignore_sites_agree.

(* the same for a whole workspace: the set of files the walk hands to the analysis = the set of files for which later
   requests are accepted *)
Corollary C17_ignore_sites_agree_workspace :
  forall fx re_ok re_match g files,
    fx_sites fx = true ->
    filter (is_handled fx re_ok re_match g) files = filter (need_handle fx re_ok re_match g) files.
Proof. intros fx re_ok re_match g files H. apply filter_ext. intros rel. exact (sites_agree fx re_ok re_match g rel H). Qed.
Print Assumptions C17_ignore_sites_agree_workspace.

(* ... and both are what the rules say, by every route and after any history: the file is taken out of the analysis
   iff some rule matches its name or a folder on its way - however the rule is spelt (the classification of the
   entries by a literal ".lua" suffix no longer decides anything) *)
Theorem C17_ignore_sites_follow_intent :
  forall fx re_ok re_match j c local_run cs s rel,
    fx_dup fx = true -> fx_sites fx = true -> client_wf c = true -> forallb client_wf cs = true ->
    session fx re_ok j c local_run cs = Ok s ->
    is_handled fx re_ok re_match (s_g s) rel = spec_handled re_ok re_match (session_intent j c cs) rel
    /\ need_handle fx re_ok re_match (s_g s) rel = spec_handled re_ok re_match (session_intent j c cs) rel.
Proof. exact session_sites_exact. Qed.
Print Assumptions C17_ignore_sites_follow_intent.

(* the class of the defect (computed by the correspondence legs with the same extracted predicate) is empty on the
   repaired code, and the guard walk_ok of the every-variant filter law holds *)
Theorem C17_ignore_sites_class_empty :
  forall fx re_ok re_match j c local_run cs s files,
    fx_dup fx = true -> fx_sites fx = true -> client_wf c = true -> forallb client_wf cs = true ->
    session fx re_ok j c local_run cs = Ok s ->
    cls_ignore_sites fx re_ok re_match (s_g s) (session_intent j c cs) files = false
    /\ walk_ok fx re_ok re_match (s_g s) (session_intent j c cs) files = true.
Proof. exact sites_class_empty. Qed.
Print Assumptions C17_ignore_sites_class_empty.

(* the witness (replayed on the real server, known_findings/C17.json): client option IgnoreFileOrDir =
   ["port/on.*lua"; "tests/"; "one.lua"], verbatim the documented example of docs/manual/config.md.  "port/on.*lua"
   does not end in the literal ".lua", so it was filed as a FOLDER rule: the walk tried it on the folder "port/" only
   and scanned port/onxx.lua (its diagnostics were published), while the per-file predicate refused the same file
   (didOpen, didChange, hover ... ignored).  Now both refuse it; tests/t.lua and one.lua were and are refused by both,
   a.lua accepted by both *)
Theorem C17_ignore_sites_repaired :
  match session code_round2 re_all None w_sites false [], session deployed re_all None w_sites false [] with
  | Ok s, Ok s' =>
      client_wf w_sites = true
      /\ spec_handled re_all re_port_on (session_intent None w_sites []) port_onxx = false
      /\ is_handled code_round2 re_all re_port_on (s_g s) port_onxx = true
      /\ need_handle code_round2 re_all re_port_on (s_g s) port_onxx = false
      /\ cls_ignore_sites code_round2 re_all re_port_on (s_g s) (session_intent None w_sites []) w_sites_files = true
      /\ map (is_handled deployed re_all re_port_on (s_g s')) w_sites_files = [true; false; false; false]
      /\ map (need_handle deployed re_all re_port_on (s_g s')) w_sites_files = [true; false; false; false]
      /\ map (spec_handled re_all re_port_on (session_intent None w_sites [])) w_sites_files = [true; false; false; false]
  | _, _ => False
  end.
Proof. vm_compute. repeat split. Qed.
Print Assumptions C17_ignore_sites_repaired.

(* hence the full statement was still false after the six repairs of rounds 1 and 2 *)
Theorem C17_full_refuted_before_sites : ~ C17_full_for code_round2.
Proof. exact full_round2_refuted. Qed.
Print Assumptions C17_full_refuted_before_sites.

(* ---- 7. unsaved buffers: a settings change and the syntax errors on display for files with unsaved edits ---- *)

(* EVERY history of edits and settings notifications, any route (luahelper.json or client), any regexp engine, any
   analysis reporting the existing types: the configuration state is that of the session, and every file shows exactly
   the demanded list (Spec/ConfigSpec.v spec_view: the allowed syntax errors of its unsaved buffer, else its saved
   diagnostics without the syntax errors; a settings change that takes effect = a fresh start with the new intent) *)
Theorem C17_live_view_full :
  forall fx re_ok re_match raw,
    gate_covers fx = true -> fx_coupled fx = true -> fx_dead fx = true -> fx_dup fx = true -> fx_sites fx = true ->
    fx_live fx = true ->
    (forall fs, forallb type_ok (raw fs) = true) ->
    forall root files j c local_run, client_wf c = true ->
    forall evs st,
    forallb client_wf (settings_of evs) = true -> edits_wf evs = true ->
    run_live fx re_ok re_match raw root files j c local_run evs = Ok st ->
    session fx re_ok j c local_run (settings_of evs) = Ok (l_srv st)
    /\ forall f, l_view st f = spec_view re_ok re_match raw j c root files evs f.
Proof. exact live_refines. Qed.
Print Assumptions C17_live_view_full.

(* ... hence at no point of any history does a file show a diagnostic the configuration of the moment excludes *)
Theorem C17_live_view_never_excluded :
  forall fx re_ok re_match raw,
    gate_covers fx = true -> fx_coupled fx = true -> fx_dead fx = true -> fx_dup fx = true -> fx_sites fx = true ->
    fx_live fx = true ->
    (forall fs, forallb type_ok (raw fs) = true) ->
    forall root files j c local_run, client_wf c = true ->
    forall evs st f d,
    forallb client_wf (settings_of evs) = true -> edits_wf evs = true ->
    run_live fx re_ok re_match raw root files j c local_run evs = Ok st ->
    In d (l_view st f) ->
    spec_excluded re_ok re_match (session_intent j c (settings_of evs)) root d = false.
Proof. exact live_never_excluded. Qed.
Print Assumptions C17_live_view_never_excluded.

(* right after a settings change that takes effect (not the start-up synchronisation, no luahelper.json) - whatever was
   edited before, whichever buffers are unsaved, for every old and new configuration - every file shows exactly its
   share of what the new intent allows of the workspace as it is on disk; in particular nothing the new configuration
   excludes *)
Theorem C17_settings_change_clears_live :
  forall fx re_ok re_match raw,
    gate_covers fx = true -> fx_coupled fx = true -> fx_dead fx = true -> fx_dup fx = true -> fx_sites fx = true ->
    fx_live fx = true ->
    (forall fs, forallb type_ok (raw fs) = true) ->
    forall root files j c local_run, client_wf c = true ->
    forall evs c' st,
    forallb client_wf (settings_of evs) = true -> client_wf c' = true -> edits_wf evs = true ->
    spec_takes_effect j (settings_of evs) = true ->
    run_live fx re_ok re_match raw root files j c local_run (evs ++ [ESettings c']) = Ok st ->
    (forall f, l_view st f
               = of_file f (spec_shown re_ok re_match raw (session_intent j c (settings_of evs ++ [c'])) root files))
    /\ (forall f d, In d (l_view st f) ->
          spec_excluded re_ok re_match (session_intent j c (settings_of evs ++ [c'])) root d = false).
Proof. exact settings_change_clears_live. Qed.
Print Assumptions C17_settings_change_clears_live.

(* the step alone, for EVERY state of the server in which a file shows something only if the server knows it (it has
   saved diagnostics or is a remembered unsaved buffer: `supp`, an invariant of every history) - i.e. every set of
   unsaved buffers, whatever they show - and every new configuration state s': afterwards each file shows its share of
   the fresh analysis under s' *)
Theorem C17_settings_step_is_fresh_start :
  forall fx re_ok re_match raw,
    fx_live fx = true ->
    forall root files st s', supp st ->
    forall f, l_view (resettle fx re_ok re_match raw root files st s') f
              = of_file f (shown fx re_ok re_match raw (s_g s') root files).
Proof. exact resettle_fresh. Qed.
Print Assumptions C17_settings_step_is_fresh_start.

(* the demanded view itself never holds a diagnostic the intent of the moment excludes (so the spec is not satisfied by
   showing too much) *)
Theorem C17_spec_view_allowed :
  forall re_ok re_match raw j c root files evs f d,
    In d (spec_view re_ok re_match raw j c root files evs f) ->
    spec_excluded re_ok re_match (session_intent j c (settings_of evs)) root d = false.
Proof. exact spec_view_allowed. Qed.
Print Assumptions C17_spec_view_allowed.

(* the class of the defect (computed by the correspondence leg c17.live with the same extracted predicate, on the state
   before every settings notification) is empty on the repaired code *)
Theorem C17_live_class_empty : forall fx st, fx_live fx = true -> cls_live_stale fx st = false.
Proof. exact live_class_empty. Qed.
Print Assumptions C17_live_class_empty.

(* the statement of the defect for one variant of the code, the deployed code, and the code before the repair *)
Definition C17_live_for (fx : fixes) : Prop := live_for fx.

Theorem C17_live_deployed : C17_live_for deployed.
Proof. exact live_deployed. Qed.
Print Assumptions C17_live_deployed.

Theorem C17_live_refuted_before : ~ C17_live_for code_round3.
Proof. exact live_round3_refuted. Qed.
Print Assumptions C17_live_refuted_before.

(* the witness (replayed on the real server, known_findings/C17.json): a.lua has no diagnostic on disk; start-up
   synchronisation; its unsaved buffer gets a syntax error (published); then a settings change - CheckSyntax off, or the
   master switch off, or IgnoreFileOrDirError ["a.lua"], or IgnoreFileOrDir ["a.lua"] -; then another edit of the
   still-broken buffer.  Before the repair a.lua kept showing the syntax error in all four (clearLspServer cleared the
   files of fileErrorMap only); now it shows nothing, as demanded - and with a new configuration that does not touch
   type 1 (only CheckLocalNoUse off) the next edit shows the error again *)
Theorem C17_settings_change_clears_live_repaired :
  map (live_final_view code_round3) [w_syntax_off; w_master_off; w_silence_a; w_ignore_a]
    = [[live_err]; [live_err]; [live_err]; [live_err]]
  /\ map (fun c' => spec_view re_all re_none raw_clean None w_all_on [] [a_lua] (live_history c') a_lua)
         [w_syntax_off; w_master_off; w_silence_a; w_ignore_a] = [[]; []; []; []]
  /\ map (fun c' => spec_excluded re_all re_none (session_intent None w_all_on (settings_of (live_history c'))) [] live_err)
         [w_syntax_off; w_master_off; w_silence_a] = [true; true; true]
  /\ spec_handled re_all re_none (session_intent None w_all_on (settings_of (live_history w_ignore_a))) a_lua = false
  /\ map (live_final_view deployed) [w_syntax_off; w_master_off; w_silence_a; w_ignore_a] = [[]; []; []; []]
  /\ live_final_view deployed w_coupled = [live_err]
  /\ edits_wf (live_history w_syntax_off) = true.
Proof. vm_compute. repeat split. Qed.
Print Assumptions C17_settings_change_clears_live_repaired.

(* ---- non-vacuity ---- *)

(* the deployed code on a configuration with switches off, a silenced folder and an ignored file: the law hides three of
   six diagnostics and shows three; the guard of the every-variant theorem C17_filter_law_guarded is met as well *)
Example C17_law_inhabited :
  match session deployed re_all None w_example false [] with
  | Ok s =>
      client_wf w_example = true
      /\ forallb type_ok w_example_diags = true
      /\ map (visible deployed re_all re_none (s_g s) []) w_example_diags = [true; true; false; false; false; true]
      /\ map (fun d => negb (spec_excluded re_all re_none (session_intent None w_example []) [] d)) w_example_diags
         = [true; true; false; false; false; true]
      /\ is_handled deployed re_all re_none (s_g s) x_lua = false /\ is_handled deployed re_all re_none (s_g s) a_lua = true
      /\ need_handle deployed re_all re_none (s_g s) x_lua = false /\ need_handle deployed re_all re_none (s_g s) a_lua = true
  | _ => False
  end.
Proof. vm_compute. repeat split. Qed.

Example C17_guard_inhabited :
  match session code_round1 re_all None w_example false [] with
  | Ok s =>
      client_wf w_example = true
      /\ forallb (diag_guard code_round1 re_all re_none (s_g s) (session_intent None w_example []) []) w_example_diags = true
      /\ map (visible code_round1 re_all re_none (s_g s) []) w_example_diags = [true; true; false; false; false; true]
      /\ is_handled code_round1 re_all re_none (s_g s) x_lua = false /\ is_handled code_round1 re_all re_none (s_g s) a_lua = true
      /\ walk_ok code_round1 re_all re_none (s_g s) (session_intent None w_example []) [a_lua; x_lua; sub_dir ++ a_lua] = true
      /\ special_gate_ok code_round1 (s_g s) = true
  | _ => False
  end.
Proof. vm_compute. repeat split. Qed.
