(* C06 - find-references returns exactly the occurrences of the same variable (DESIGN 5, binder family).
   Model: Model/Scope.v (traversal resolver: fi_occs with the declaration each occurrence was resolved to),
   Model/Resolve.v (references_at = FindReferences/MatchVarInfo), run from file BYTES by Proofs/ResolveRun.v.
   Reference: Spec/LuaScope.v (bind_file, same_var).  Only statements closed by `exact` + Print Assumptions live
   here, plus vm_compute witnesses.  The unchanged code violates the full statement (classes below). *)
From Coq Require Import List NArith ZArith Bool.
From LH Require Import Base.Bytes Model.Lexer Model.Ast Model.Scope Model.Globals Model.Resolve Spec.LuaScope
  Proofs.ResolveRun Proofs.ResolveBasics Proofs.ResolveWitness Proofs.ResolveFull Proofs.ResolveFixes Properties.C05.
Import ListNotations.
Local Open Scope N_scope.

(* ---- the full statement: for every fragment workspace and every identifier position the answer (as a set) is the
   occurrences Lua binds to the same variable, in every file for a global *)
Definition C06_refs_full : Prop := refs_full_stmt MRefs.

(* ---- what holds for every workspace: every returned location is the target's declaration or the Loc of an
   occurrence spelled with the queried name that the fourth traversal visited (nothing foreign by NAME; nothing
   outside the workspace) *)
Theorem C06_references_shape : forall mode w f fi n line col l,
  In (f, fi) w -> references_at mode w f fi n line col = Some l ->
  match resolve_at w f fi n line col with
  | TLocal v => forall x, In x l -> x = (f, v_loc v) \/ is_occurrence_of w n x
  | TGlobal F g => forall x, In x l -> x = (F, g_loc g) \/ is_occurrence_of w n x
  | _ => l = []
  end.
Proof. exact references_shape. Qed.
Print Assumptions C06_references_shape.

(* ---- one deviating query refutes the full statement *)
Theorem C06_refuted_by_one_query : forall files f line col,
  refs_deviates MRefs files f line col = true -> ~ C06_refs_full.
Proof. exact (refs_full_refuted_by MRefs). Qed.
Print Assumptions C06_refuted_by_one_query.

(* ---- the classes in which the unchanged code deviates, each with a witness computed from file bytes *)
(* a.lua: local x = 1\nlocal x = x + 1\n *)
Definition w_B1_own_initialiser : list (list N * list N) :=
  [([97; 46; 108; 117; 97], [108; 111; 99; 97; 108; 32; 120; 32; 61; 32; 49; 10; 108; 111; 99; 97; 108; 32; 120; 32; 61; 32; 120; 32; 43; 32; 49; 10])].
(* B1, FIXED (fixes/C05-own-initialiser.diff): a use of n inside the initialiser list of `local ... n ... = ...` resolved to the
   NEW local when the initialiser node was not a plain name / call / function expression (`local x = 1; local x = x + 1`:
   the x in `x + 1` jumped to line 2); IsCorrectPosition only protected NameExp/FuncCallExp/FuncDefExp initialisers.  The
   declaration now carries the region of its statement's initialiser list (VarInfo.InitLoc) and is invisible from inside it.
   The witness deviates for the code before the repair (`no_fixes`) and no longer for the code in /repo. *)
Theorem C06_B1_own_initialiser_refuted_before_fix : refs_deviates_fx no_fixes w_B1_own_initialiser MRefs [97; 46; 108; 117; 97] 1 10 = true.
Proof. vm_compute. reflexivity. Qed.
Print Assumptions C06_B1_own_initialiser_refuted_before_fix.
Theorem C06_B1_own_initialiser_fixed : refs_deviates MRefs w_B1_own_initialiser [97; 46; 108; 117; 97] 1 10 = false.
Proof. vm_compute. reflexivity. Qed.
Print Assumptions C06_B1_own_initialiser_fixed.

(* a.lua: local i = 9 for i = i, 10 do end\n *)
Definition w_B2_for_bounds : list (list N * list N) :=
  [([97; 46; 108; 117; 97], [108; 111; 99; 97; 108; 32; 105; 32; 61; 32; 57; 32; 102; 111; 114; 32; 105; 32; 61; 32; 105; 44; 32; 49; 48; 32; 100; 111; 32; 101; 110; 100; 10])].
(* a use of the loop variable's name in the bounds of `for n = ...` / the iterator list of `for n in ...` resolves to the loop variable (`local i = 9 for i = i, 10 do end`) *)
Theorem C06_B2_for_bounds_refuted : refs_deviates MRefs w_B2_for_bounds [97; 46; 108; 117; 97] 0 20 = true.
Proof. vm_compute. reflexivity. Qed.
Print Assumptions C06_B2_for_bounds_refuted.

(* a.lua: local a = 0\nlocal a, b = 1, a\nuse(a)\n *)
Definition w_B3_multi_local : list (list N * list N) :=
  [([97; 46; 108; 117; 97], [108; 111; 99; 97; 108; 32; 97; 32; 61; 32; 48; 10; 108; 111; 99; 97; 108; 32; 97; 44; 32; 98; 32; 61; 32; 49; 44; 32; 97; 10; 117; 115; 101; 40; 97; 41; 10])].
(* B3, FIXED (fixes/C07-multi-local-order.diff): `local a, b = e1, e2` added a BEFORE visiting e2: a use of a in e2 was bound
   to the new a by the traversal (references/rename/highlight of either a were wrong).  The witness deviates for the
   code before the repair (`no_fixes`) and no longer for the code now in /repo. *)
Theorem C06_B3_multi_local_refuted_before_fix : refs_deviates_fx no_fixes w_B3_multi_local MRefs [97; 46; 108; 117; 97] 0 6 = true.
Proof. vm_compute. reflexivity. Qed.
Print Assumptions C06_B3_multi_local_refuted_before_fix.
Theorem C06_B3_multi_local_fixed : refs_deviates MRefs w_B3_multi_local [97; 46; 108; 117; 97] 0 6 = false.
Proof. vm_compute. reflexivity. Qed.
Print Assumptions C06_B3_multi_local_fixed.

(* a.lua: local abc = 1\ndo local abc function abc() end end\nuse(abc)\n *)
Definition w_B4_forward_decl : list (list N * list N) :=
  [([97; 46; 108; 117; 97], [108; 111; 99; 97; 108; 32; 97; 98; 99; 32; 61; 32; 49; 10; 100; 111; 32; 108; 111; 99; 97; 108; 32; 97; 98; 99; 32; 102; 117; 110; 99; 116; 105; 111; 110; 32; 97; 98; 99; 40; 41; 32; 101; 110; 100; 32; 101; 110; 100; 10; 117; 115; 101; 40; 97; 98; 99; 41; 10])].
(* a local declared without value (`local f`, `= nil`) is re-pointed by its first assignment `f = <name|call|function>` (cgAssignStat/IsExpEmpty); afterwards every occurrence of f inside that right-hand side (and the name in `function f()`) fails IsCorrectPosition: definition/hover find nothing, references attribute `function f`'s name to an OUTER variable of the same name (rename then rewrites it) *)
Theorem C06_B4_forward_decl_refuted : refs_deviates MRefs w_B4_forward_decl [97; 46; 108; 117; 97] 0 6 = true.
Proof. vm_compute. reflexivity. Qed.
Print Assumptions C06_B4_forward_decl_refuted.

(* a.lua: for i = 1, f(function(yy)\nreturn yy end),\ng(function() end) do end\n *)
Definition w_B5_for_step_order : list (list N * list N) :=
  [([97; 46; 108; 117; 97], [102; 111; 114; 32; 105; 32; 61; 32; 49; 44; 32; 102; 40; 102; 117; 110; 99; 116; 105; 111; 110; 40; 121; 121; 41; 10; 114; 101; 116; 117; 114; 110; 32; 121; 121; 32; 101; 110; 100; 41; 44; 10; 103; 40; 102; 117; 110; 99; 116; 105; 111; 110; 40; 41; 32; 101; 110; 100; 41; 32; 100; 111; 32; 101; 110; 100; 10])].
(* B5, FIXED (fixes/C05-for-step-order.diff): numeric for visited init, STEP, limit: a function scope of the step was stored
   before the function scopes of the limit, FindMinScope's early exit (`subScope.StartLine > line => break`) then never
   reached a function in the limit that starts on an earlier line: its parameters/locals resolved to nothing and were not
   completed.  The witness deviates for the code before the repair (`no_fixes`) and no longer for the code in /repo. *)
Theorem C06_B5_for_step_order_refuted_before_fix : refs_deviates_fx no_fixes w_B5_for_step_order MRefs [97; 46; 108; 117; 97] 1 8 = true.
Proof. vm_compute. reflexivity. Qed.
Print Assumptions C06_B5_for_step_order_refuted_before_fix.
Theorem C06_B5_for_step_order_fixed : refs_deviates MRefs w_B5_for_step_order [97; 46; 108; 117; 97] 1 8 = false.
Proof. vm_compute. reflexivity. Qed.
Print Assumptions C06_B5_for_step_order_fixed.

(* a.lua: local c = 5\nlocal d = 1, 2, c\nuse(d)\n *)
Definition w_local_surplus : list (list N * list N) :=
  [([97; 46; 108; 117; 97], [108; 111; 99; 97; 108; 32; 99; 32; 61; 32; 53; 10; 108; 111; 99; 97; 108; 32; 100; 32; 61; 32; 49; 44; 32; 50; 44; 32; 99; 10; 117; 115; 101; 40; 100; 41; 10])].
(* unvisited_local_surplus, FIXED (fixes/C20-local-surplus.diff): cgLocalVarDeclStat left its expression loop (`break`)
   after the FIRST initialiser beyond the names of `local a = 1, 2, <here>, <and here>`: the later ones were never
   analysed by any pass - their closures got no scope, the names read there no reference.  `before_surplus` = the code
   of /repo before that repair; the witness deviates there and no longer for the code now in /repo. *)
(* find-references on the declaration of c (line 0, column 6) missed the read in the third value *)
Theorem C06_local_surplus_refuted_before_fix : refs_deviates_fx before_surplus w_local_surplus MRefs [97; 46; 108; 117; 97] 0 6 = true.
Proof. vm_compute. reflexivity. Qed.
Print Assumptions C06_local_surplus_refuted_before_fix.
Theorem C06_local_surplus_fixed : all_in_fragment w_local_surplus = true /\ refs_deviates MRefs w_local_surplus [97; 46; 108; 117; 97] 0 6 = false.
Proof. vm_compute. split; reflexivity. Qed.
Print Assumptions C06_local_surplus_fixed.

(* a.lua: local x = 1\nreturn x *)
Definition w_doc_end : list (list N * list N) :=
  [([97; 46; 108; 117; 97], [108; 111; 99; 97; 108; 32; 120; 32; 61; 32; 49; 10; 114; 101; 116; 117; 114; 110; 32; 120])].
(* FIXED (fixes/C05-doc-end.diff): cursor at offset == len(contents) (end of the last identifier of a file without trailing
   newline): definition/references/highlight/rename returned nothing (`offset >= len(contents)`) while hover answered.
   The witness deviates for the code before the repair (`no_fixes`) and no longer for the code now in /repo. *)
Theorem C06_doc_end_refuted_before_fix : refs_deviates_fx no_fixes w_doc_end MRefs [97; 46; 108; 117; 97] 1 8 = true.
Proof. vm_compute. reflexivity. Qed.
Print Assumptions C06_doc_end_refuted_before_fix.
Theorem C06_doc_end_fixed : refs_deviates MRefs w_doc_end [97; 46; 108; 117; 97] 1 8 = false.
Proof. vm_compute. reflexivity. Qed.
Print Assumptions C06_doc_end_fixed.

(* a.lua: use(zq)\nuse(zq)\n *)
Definition w_undefined_global : list (list N * list N) :=
  [([97; 46; 108; 117; 97], [117; 115; 101; 40; 122; 113; 41; 10; 117; 115; 101; 40; 122; 113; 41; 10])].
(* find-references / rename on a global that is never assigned in the workspace return nothing instead of its occurrences (FindReferences gives up when there is no defining VarInfo) *)
Theorem C06_undefined_global_refuted : refs_deviates MRefs w_undefined_global [97; 46; 108; 117; 97] 0 4 = true.
Proof. vm_compute. reflexivity. Qed.
Print Assumptions C06_undefined_global_refuted.

(* a.lua: do g = 1 end\ng = 2\nuse(g)\n *)
Definition w_global_mixed_levels : list (list N * list N) :=
  [([97; 46; 108; 117; 97], [100; 111; 32; 103; 32; 61; 32; 49; 32; 101; 110; 100; 10; 103; 32; 61; 32; 50; 10; 117; 115; 101; 40; 103; 41; 10])].
(* a global assigned at different nesting levels gets several defining entries (`do g = 1 end g = 2`: FindGlobalLimitVar ignores the deeper one); references/rename list only the newest entry's assignment, the other defining assignments are missing *)
Theorem C06_global_mixed_levels_refuted : refs_deviates MRefs w_global_mixed_levels [97; 46; 108; 117; 97] 2 4 = true.
Proof. vm_compute. reflexivity. Qed.
Print Assumptions C06_global_mixed_levels_refuted.

(* a.lua: g = 1\nuse(g)\n ## b.lua: use(g)\ng = 2\nuse(g)\n *)
Definition w_split_global : list (list N * list N) :=
  [([97; 46; 108; 117; 97], [103; 32; 61; 32; 49; 10; 117; 115; 101; 40; 103; 41; 10]);
   ([98; 46; 108; 117; 97], [117; 115; 101; 40; 103; 41; 10; 103; 32; 61; 32; 50; 10; 117; 115; 101; 40; 103; 41; 10])].
(* a global assigned in more than one file: references/rename cover only the occurrences of the file whose assignment the query resolves to (symbol identity = file + first defining assignment) - DESIGN 6 row 18b *)
Theorem C06_split_global_refuted : refs_deviates MRefs w_split_global [97; 46; 108; 117; 97] 1 4 = true.
Proof. vm_compute. reflexivity. Qed.
Print Assumptions C06_split_global_refuted.

(* a.lua: g = 1\n ## b.lua: g()\n *)
Definition w_same_pos_other_file : list (list N * list N) :=
  [([97; 46; 108; 117; 97], [103; 32; 61; 32; 49; 10]);
   ([98; 46; 108; 117; 97], [103; 40; 41; 10])].
(* FIXED (fixes/C06-same-pos-other-file.diff): references dropped an occurrence in ANOTHER file that sits at the same
   line/column as the definition (ignoreDefineLoc was compared without the file name).  The witness deviates for the
   code before the repair (`no_fixes`) and no longer for the code now in /repo. *)
Theorem C06_same_pos_other_file_refuted_before_fix : refs_deviates_fx no_fixes w_same_pos_other_file MRefs [97; 46; 108; 117; 97] 0 0 = true.
Proof. vm_compute. reflexivity. Qed.
Print Assumptions C06_same_pos_other_file_refuted_before_fix.
Theorem C06_same_pos_other_file_fixed : refs_deviates MRefs w_same_pos_other_file [97; 46; 108; 117; 97] 0 0 = false.
Proof. vm_compute. reflexivity. Qed.
Print Assumptions C06_same_pos_other_file_fixed.


Theorem C06_refs_full_refuted : ~ C06_refs_full.
Proof. exact (refs_full_refuted_by MRefs _ _ _ _ C06_B2_for_bounds_refuted). Qed.
Print Assumptions C06_refs_full_refuted.

(* ---- repaired: for a GLOBAL target (F, g) and EVERY workspace the answer is the definition (where the mode reports
   it) plus, per searched file X, exactly the occurrences the fourth pass matched - except those inside the definition's
   range in the definition's own file F; an occurrence in another file is never dropped for its position *)
Theorem C06_references_global_exact : forall mode w f fi n F g l,
  references_of_target mode w f fi n (TGlobal F g) = Some l ->
  forall x, In x l <->
    (In x (reported_head mode f F (g_loc g)) \/
     exists X fX o, In (X, fX) (searched mode w f fi) /\ In o (fi_occs fX) /\
                    occ_matches_global w n F g X fX o = true /\
                    ~ (X = F /\ inside (g_loc g) (o_loc o) = true) /\ x = (X, o_loc o)).
Proof. exact references_global_exact. Qed.
Print Assumptions C06_references_global_exact.

Theorem C06_other_file_occurrence_kept : forall mode w f fi n line col F g l X fX o,
  resolve_at w f fi n line col = TGlobal F g ->
  references_at mode w f fi n line col = Some l ->
  In (X, fX) (searched mode w f fi) -> X <> F -> In o (fi_occs fX) ->
  occ_matches_global w n F g X fX o = true -> In (X, o_loc o) l.
Proof. exact references_other_file_kept. Qed.
Print Assumptions C06_other_file_occurrence_kept.

(* positive check used by the non-vacuity example: at the start cursor of occurrence o the answer is exactly the set of
   occurrences the reference binder gives the same variable *)
Definition C06_agrees_at (mode : refmode) (files : list (list N * list N)) (f : list N) (o : socc) : bool :=
  match spec_occ files f (line0_of (s_loc o)) (col_of (s_loc o)), run_refs files mode f (line0_of (s_loc o)) (col_of (s_loc o)) with
  | Some o', ALocs l => same_locs l (spec_refs (spec_ws files) f o')
  | _, _ => false
  end.

(* non-vacuity: on the 27 occurrences of C05's example program that are locals or assigned globals (the 6 reads of never-assigned
   globals are class undefined_global) (recursion, shadowing in do / for / repeat, upvalue,
   globals) references agree with the reference binder at every occurrence *)
Example C06_agreeing_example :
  all_in_fragment [(a_lua, src_ok)] = true /\
  length (bind_file (chunk_of src_ok)) = 33%nat /\
  forallb (C06_agrees_at MRefs [(a_lua, src_ok)] a_lua)
          (filter (fun o => match s_bind o with BLocal _ => true | BGlobal n => negb (Nat.eqb (length (global_writes (spec_ws [(a_lua, src_ok)]) n)) 0) end)
                  (bind_file (chunk_of src_ok))) = true /\
  length (filter (fun o => match s_bind o with BLocal _ => true | BGlobal n => negb (Nat.eqb (length (global_writes (spec_ws [(a_lua, src_ok)]) n)) 0) end)
                  (bind_file (chunk_of src_ok))) = 27%nat.
Proof. vm_compute. repeat split; reflexivity. Qed.

(* ================================================================== positive theorems (agent traverse-bind)
   The traversal resolver IS Lua's binder outside the refuted classes.  Guards (all boolean, computed from the chunk):
     tb_shape P        : list lengths of parser output (SIf one block per condition; SLocal one Loc per name; ANY number
                         of initialisers since fixes/C20-local-surplus.diff: the former "no more initialisers than
                         names" is gone) - NO fragment restriction: tables, indexing, methods, goto are covered;
     tr_clean P n      : replaying the traversal, IsCorrectPosition accepts the newest same-named variable at every
                         look-up of n (the Loc test agrees with program order for n; fails exactly on class B4 and on
                         the C04 column-restart layouts);
     classA_ok os n    : no occurrence of n is tagged CB3 / CB4 (Spec/LuaScope.v);
     decl_layout_ok    : every occurrence bound to the declaration is spelled with the queried name and no use lies inside
                         the declaration's own Loc;   decl_self_ok : the declaration occurrence of d sits at d. *)
From Coq Require Import Permutation.
From LH Require Import Proofs.TraverseBindDefs Proofs.TraverseBind Proofs.TraverseBindRefs.

(* core: the logged occurrences of the traversal correspond one-to-one (same Loc, same name, read/write role) to the
   non-declaration occurrences of the reference binder, and every occurrence of a position-clean name that is not
   tagged CB3 is resolved to the declaration Lua binds it to (o_res = Some d <-> s_bind = BLocal d, else global) *)
Theorem C06_traversal_is_binder : forall P, tb_shape P = true ->
  exists os', Permutation (nd (bind_file P)) os' /\ Forall2 (occ_agrees P) (fi_occs (analyse P)) os'.
Proof. exact traverse_bind_core. Qed.
Print Assumptions C06_traversal_is_binder.

(* for a LOCAL target: the answer is the declaration followed by exactly (as a set) the uses the reference binder
   binds to that declaration *)
Theorem C06_refs_local_partial : forall P w f name line col v,
  tb_shape P = true -> tr_clean P name = true -> classA_ok (bind_file P) name = true ->
  decl_layout_ok (bind_file P) name (v_loc v) = true ->
  resolve_at w f (analyse P) name line col = TLocal v ->
  exists l', references_at MRefs w f (analyse P) name line col = Some ((f, v_loc v) :: l') /\
             forall x, In x l' <-> In x (spec_uses P f (v_loc v)).
Proof. exact (refs_local_classA MRefs). Qed.
Print Assumptions C06_refs_local_partial.

(* ... hence set equality with spec_refs / same_var at any reference occurrence o bound to that declaration *)
Theorem C06_refs_local_same_var_partial : forall P w f name line col v o,
  tb_shape P = true -> tr_clean P name = true -> classA_ok (bind_file P) name = true ->
  decl_layout_ok (bind_file P) name (v_loc v) = true -> decl_self_ok (bind_file P) (v_loc v) = true ->
  resolve_at w f (analyse P) name line col = TLocal v ->
  s_bind o = BLocal (v_loc v) ->
  exists l, references_at MRefs w f (analyse P) name line col = Some l /\
            forall x, In x l <-> In x (spec_refs [(f, bind_file P)] f o).
Proof. exact (refs_local_same_var MRefs). Qed.
Print Assumptions C06_refs_local_same_var_partial.

(* the statement aimed at.  Proved below (C06_refs_local_laid_partial): the same with tb_shape and with the C05 facts
   as hypotheses - o is an occurrence of the chunk spelled with the queried name (the occurrence under the cursor) and
   the position resolver answers the declaration Lua binds o to.  All layout guards (tr_clean, decl_layout_ok,
   decl_self_ok) are discharged from Laid / classA_ok. *)
Definition C06_refs_local_full : Prop := forall P w f name line col v o,
  in_fragment P = true -> Laid P -> classA_ok (bind_file P) name = true ->
  resolve_at w f (analyse P) name line col = TLocal v -> s_bind o = BLocal (v_loc v) ->
  exists l, references_at MRefs w f (analyse P) name line col = Some l /\
            forall x, In x l <-> In x (spec_refs [(f, bind_file P)] f o).

(* non-vacuity: C05's example program satisfies every guard at each of its 25 occurrences bound to a local *)
Example C06_local_guards_nonvacuous :
  let P := chunk_of src_ok in
  tb_shape P = true /\
  forallb (fun s => tr_clean P (s_name s) && classA_ok (bind_file P) (s_name s)
                    && match s_bind s with
                       | BLocal d => decl_layout_ok (bind_file P) (s_name s) d && decl_self_ok (bind_file P) d
                       | BGlobal _ => true
                       end) (bind_file P) = true /\
  length (filter (fun s => match s_bind s with BLocal _ => true | BGlobal _ => false end) (bind_file P)) = 25%nat.
Proof. vm_compute. repeat split; reflexivity. Qed.

(* ---- the replayed guard tr_clean discharged from the layout hypothesis of DESIGN 5 (Laid) ----
   Laid alone gives the FIRST look-up of every name (tr_clean1, no further guard); the look-up after cgAssignStat's
   re-pointing is clean for every name none of whose occurrences carries the tags CB3 / CB4 (classA_ok). *)
From LH Require Import Proofs.TraverseBindLaidLoops Proofs.TraverseBindLaidMain Proofs.TraverseBindClean1
  Proofs.TraverseBindLaid1Main Proofs.TraverseBindB4 Proofs.TraverseBindLaid Proofs.TraverseBindSpecLaid
  Proofs.TraverseBindFinal.

(* IsCorrectPosition's Loc test agrees with program order on every Laid chunk of the fragment (first look-ups) *)
Theorem C06_laid_first_lookups_clean : forall W P n,
  in_fragment P = true -> tb_shape P = true -> laid_b W P = true -> tr_clean1 P n = true.
Proof. exact laid_tr_clean1. Qed.
Print Assumptions C06_laid_first_lookups_clean.

(* ... and all look-ups of a name outside the classes B3 / B4 *)
Theorem C06_laid_position_clean : forall W P n,
  in_fragment P = true -> tb_shape P = true -> laid_b W P = true -> classA_ok (bind_file P) n = true ->
  tr_clean P n = true.
Proof. exact laid_classA_clean. Qed.
Print Assumptions C06_laid_position_clean.

(* the same with the syntactic guard "no statement `function n(...)`" instead of the tags *)
Theorem C06_laid_position_clean_syntactic : forall W P n,
  in_fragment P = true -> tb_shape P = true -> laid_b W P = true -> no_funcstat P n = true ->
  tr_clean P n = true.
Proof. exact laid_tr_clean. Qed.
Print Assumptions C06_laid_position_clean_syntactic.

(* the core lemma: on every Laid chunk of the fragment the traversal resolver agrees with the reference binder at every
   occurrence whose name is outside the classes B3 / B4 (one-to-one correspondence of the occurrences; o_res = Some d
   <-> s_bind = BLocal d, global otherwise) *)
Theorem C06_traversal_is_binder_laid : forall P W,
  in_fragment P = true -> tb_shape P = true -> laid_b W P = true ->
  exists os', Permutation (nd (bind_file P)) os' /\ Forall2 (occ_agrees_classA P) (fi_occs (analyse P)) os'.
Proof. exact traverse_bind_core_classA. Qed.
Print Assumptions C06_traversal_is_binder_laid.

(* the layout guard on the declaration follows from Laid too: a binding Loc determines the name, no use lies inside it *)
Theorem C06_laid_decl_layout : forall W P o d,
  tb_shape P = true -> laid_b W P = true -> In o (bind_file P) -> s_bind o = BLocal d ->
  decl_layout_ok (bind_file P) (s_name o) d = true.
Proof. exact laid_decl_layout. Qed.
Print Assumptions C06_laid_decl_layout.

Theorem C06_refs_local_laid_partial : forall P W w f name line col v o,
  in_fragment P = true -> tb_shape P = true -> laid_b W P = true ->
  classA_ok (bind_file P) name = true ->
  resolve_at w f (analyse P) name line col = TLocal v ->
  In o (bind_file P) -> s_name o = name -> s_bind o = BLocal (v_loc v) ->
  exists l, references_at MRefs w f (analyse P) name line col = Some l /\
            forall x, In x l <-> In x (spec_refs [(f, bind_file P)] f o).
Proof. exact (refs_local_final MRefs). Qed.
Print Assumptions C06_refs_local_laid_partial.

Example C06_laid_guards_nonvacuous :
  let P := chunk_of src_ok in
  in_fragment P = true /\ tb_shape P = true /\ laid_b 1000%Z P = true /\
  forallb (fun s => classA_ok (bind_file P) (s_name s)) (bind_file P) = true.
Proof. vm_compute. repeat split; reflexivity. Qed.

(* ================================================================== composition (agent c12-compose)
   Proofs/ComposeBind.v, ComposeBindText.v, ComposeBindRun.v: the C05 hypotheses of C06_refs_local_laid_partial are
   discharged with C05_define_local_partial, and the result is lifted to whole requests over file bytes.  Guards (all
   boolean):
     bind_guard W P            = in_fragment P && laid2_b W P && no_repoint P: the guard of C05 alone (tb_shape
                                 and laid_b W follow: C06_laid2_implies_laid, C06_fragment_shape_is_tb_shape);
     occ_guard P o             = classB_ok o && classA_ok (bind_file P) (s_name o);
     occ_request_guard W files f o : file f of the workspace parses, its chunk satisfies bind_guard, the occurrence o
                                 under the cursor satisfies occ_guard and stands in the TEXT at its Loc (ident_at: the
                                 bytes at the Loc spell the name, a non-identifier byte follows, and GetBeforeIndex
                                 stops in front of it: start of text, a byte outside [A-Za-z0-9_.:)] or `..`);
     request_guard W files f   : the same for every occurrence of the file (implies occ_request_guard for each).
   Missing for the full statement C06_refs_full: globals, the refuted classes, and ident_at as a consequence of the
   lexer (it is a checked guard here, not derived from C04). *)
From LH Require Import Proofs.PositionBindWitness Proofs.PositionBindBase Proofs.ComposeBindLaid Proofs.ComposeBind Proofs.ComposeBindText Proofs.ComposeBindRun.

(* the guards of the two resolver theorems compared: Laid2 (marks with the empty if-branches) implies Laid, and the
   fragment with C05's parser shape has C06's parser shape *)
Theorem C06_laid2_implies_laid : forall W P, laid2_b W P = true -> laid_b W P = true.
Proof. exact laid2_laid. Qed.
Print Assumptions C06_laid2_implies_laid.

Theorem C06_fragment_shape_is_tb_shape : forall P, in_fragment P = true -> shape_ok P = true -> tb_shape P = true.
Proof. exact frag_shape_tb_shape. Qed.
Print Assumptions C06_fragment_shape_is_tb_shape.

(* model level: at every cursor column of an occurrence that Lua binds to a local declaration, references_at answers
   exactly (as a set, without repetition) the binder's occurrences of that variable; no hypothesis about resolve_at left *)
Theorem C06_refs_local_closed_model : forall W P w f o d col,
  bind_guard W P = true -> In o (bind_file P) -> occ_guard P o = true -> s_bind o = BLocal d ->
  (sc (s_loc o) <= col <= ec (s_loc o))%Z ->
  exists l, references_at MRefs w f (analyse P) (s_name o) (sl (s_loc o)) col = Some l /\
            (forall x, In x l <-> In x (spec_refs [(f, bind_file P)] f o)) /\
            NoDup l /\ NoDup (spec_refs [(f, bind_file P)] f o).
Proof. exact (refs_local_closed MRefs). Qed.
Print Assumptions C06_refs_local_closed_model.

(* the text side, for ALL texts: at every cursor column of an identifier that stands in the text (ident_at), the
   request is about that identifier (OffsetForPosition + GetVarStruct) *)
Theorem C06_request_name_on_identifier : forall bs l name (col : N),
  ident_at bs l name = true -> (sc l <= Z.of_N col <= ec l)%Z ->
  request_name bs (line0_of l) col false = Some (Some name).
Proof. exact request_name_at. Qed.
Print Assumptions C06_request_name_on_identifier.

(* request level = the statement of C06_refs_full restricted to local variables and the guard: any workspace, any file
   f of it, any cursor on an occurrence o that Lua binds to a local declaration d; the guard constrains the chunk and
   the occurrence under the cursor only *)
Theorem C06_refs_local_partial_closed : forall W files f line col o d l,
  occ_request_guard W files f o = true -> spec_occ files f line col = Some o -> s_bind o = BLocal d ->
  run_refs files MRefs f line col = ALocs l -> same_locs l (spec_refs (spec_ws files) f o) = true.
Proof. exact (refs_request_closed_occ MRefs). Qed.
Print Assumptions C06_refs_local_partial_closed.

(* ... and the request is answered (never ASkip) *)
Theorem C06_refs_local_answers : forall W files f line col o d,
  occ_request_guard W files f o = true -> spec_occ files f line col = Some o -> s_bind o = BLocal d ->
  exists l, run_refs files MRefs f line col = ALocs l /\ forall x, In x l <-> In x (spec_refs (spec_ws files) f o).
Proof. exact (refs_request_answers_occ MRefs). Qed.
Print Assumptions C06_refs_local_answers.

(* whole-file guard *)
Theorem C06_refs_local_partial_closed_file : forall W files f line col o d l,
  request_guard W files f = true -> spec_occ files f line col = Some o -> s_bind o = BLocal d ->
  run_refs files MRefs f line col = ALocs l -> same_locs l (spec_refs (spec_ws files) f o) = true.
Proof. exact (refs_request_closed MRefs). Qed.
Print Assumptions C06_refs_local_partial_closed_file.

(* non-vacuity: C05's two example programs satisfy the whole-file guard (alone and in a two-file workspace): 25 of 33
   and 36 of 43 occurrences are bound to locals; the guard rejects the witness programs of classes B2, B4 and accepts the
   ones of the repaired classes doc_end (the identifier at the very end of the text: ident_at no longer asks for a byte after
   it) and B1 (`local x = 1 / local x = x + 1`); in the B2 program `local i = 9 for i = i, 10 do end` the per-cursor guard
   holds on the first declaration and fails on the tagged use in the bound *)
Definition C06_cursor_guard (W : Z) (files : list (list N * list N)) (f : list N) (line col : N) : bool :=
  match spec_occ files f line col with Some o => occ_request_guard W files f o | None => false end.
Example C06_closed_guard_nonvacuous :
  request_guard 1000 [(a_lua, src_ok)] a_lua = true /\ request_guard 1000 [(a_lua, src_core)] a_lua = true /\
  request_guard 1000 [(a_lua, src_ok); (b_lua, src_core)] b_lua = true /\
  length (filter (fun s => match s_bind s with BLocal _ => true | BGlobal _ => false end) (bind_file (chunk_of src_core))) = 36%nat /\
  request_guard 1000 [(a_lua, src_for_bound)] a_lua = false /\ request_guard 1000 [(a_lua, src_forward_decl)] a_lua = false /\
  request_guard 1000 [(a_lua, src_doc_end)] a_lua = true /\ request_guard 1000 [(a_lua, src_init_shadow)] a_lua = true /\
  C06_cursor_guard 1000 [(a_lua, src_for_bound)] a_lua 0 6 = true /\
  C06_cursor_guard 1000 [(a_lua, src_for_bound)] a_lua 0 20 = false.
Proof. vm_compute. repeat split; reflexivity. Qed.

(* ================================================================== wide fragment (agent wide-fragment)
   see the block of the same name in Properties/C05.v.  References of `_G.name` and of plain names inside tables /
   index / method expressions: new request model references_at_wide (ResolveWide.v), = references_at when the
   identifier is not written `_G.name`; decided on wide programs by the leg c06.wide. *)
From LH Require Import Model.ResolveWide Spec.LuaScopeWide Proofs.WideNarrow Proofs.WideRun.

Theorem C06_wide_refs_narrow : forall mode w f fi n line col,
  references_at_wide mode false w f fi n line col = references_at mode w f fi n line col.
Proof. exact references_at_wide_narrow. Qed.
Print Assumptions C06_wide_refs_narrow.

Theorem C06_wide_run_refs_narrow : forall files mode f line0 col,
  all_in_fragment files = true -> all_text_ok files = true ->
  answers_agree (run_refs_wide files mode f line0 col) (run_refs files mode f line0 col).
Proof. exact run_refs_wide_narrow. Qed.
Print Assumptions C06_wide_run_refs_narrow.

(* a `_G.x` occurrence (read: use_g, write: assign_g) is logged without a local resolution, and such an occurrence is
   never counted among the references of a local variable - whatever local x is in scope there *)
Theorem C06_G_read_logged_global : forall x xl st,
  t_frames (use_g x xl st) = t_frames st /\ t_globals (use_g x xl st) = t_globals st /\
  exists o, t_occs (use_g x xl st) = o :: t_occs st /\ o_name o = x /\ o_loc o = xl /\ o_res o = None /\ o_kind o = OUse.
Proof. exact use_g_global. Qed.
Print Assumptions C06_G_read_logged_global.

Theorem C06_G_occ_not_local_reference : forall n d o, o_res o = None -> occ_matches_local n d o = false.
Proof. exact g_occ_not_local_ref. Qed.
Print Assumptions C06_G_occ_not_local_reference.

(* witness (program of C05_wide_witness): the references of the global asked on `_G.x` are the three `_G.x`, those of
   the local asked on a plain x inside the call are its declaration and the five plain uses *)
Example C06_wide_witness :
  ans_is (run_refs_wide w_wide MRefs a_lua 2 7)
         [g_def; (a_lua, mk_loc 3 7 3 8); (a_lua, mk_loc 5 30 5 31)] = true /\
  ans_is (run_refs_wide w_wide MRefs a_lua 2 10)
         [l_def; (a_lua, mk_loc 3 10 3 11); (a_lua, mk_loc 3 15 3 16); (a_lua, mk_loc 3 22 3 23);
          (a_lua, mk_loc 3 36 3 37); (a_lua, mk_loc 4 27 4 28)] = true.
Proof. vm_compute. split; reflexivity. Qed.
