(* C03 - syntax diagnostics <=> text is not valid Lua.
   Only statements closed by `exact` + Print Assumptions live here (and vm_compute witnesses). *)
From Coq Require Import List NArith ZArith Bool.
From LH Require Import Base.Bytes Base.Res Model.Lexer Model.Parser Model.Number Spec.LuaNumeral
  Proofs.NumberSpecProofs Proofs.NumberGo Proofs.NumberProofs.
Import ListNotations.
Local Open Scope N_scope.

Theorem C03_keywords_distinct : NoDup (map fst keywords).
Proof. repeat constructor; simpl; intuition discriminate. Qed.
Print Assumptions C03_keywords_distinct.

(* BEGIN numerals *)
(* Numerals ("all numeral forms ... plus LuaJIT LL/ULL integer suffixes"): Model/Number.v is parser_number.go +
   parseNumberExp as of fix 8dd49c7; Spec/LuaNumeral.v is the grammar.
   num_clean s = no white space, no underscore, no leading sign; num_lexer_token s = what scanNumber can cut out. *)

(* the executable spec used by the correspondence leg is the declarative grammar *)
Theorem C03_number_spec_exec : forall s v, spec_value s = Some v <-> Denotes s v.
Proof. exact spec_value_iff. Qed.
Print Assumptions C03_number_spec_exec.

(* exact classification (node kind and integer value, or "not a number"), hence no Go panic *)
Theorem C03_number_exact :
  forall s, num_clean s = true -> classify_number s = Ok (class_of (spec_value s)).
Proof. exact number_classify_exact. Qed.
Print Assumptions C03_number_exact.

Theorem C03_number_ok_iff : forall s, num_clean s = true -> (number_accepted s = true <-> Numeral s).
Proof. exact number_ok_iff. Qed.
Print Assumptions C03_number_ok_iff.

(* on every text the lexer can cut out as a number token, the parser raises "not a number" exactly when
   the text is not a numeral of the grammar *)
Theorem C03_number_ok_token :
  forall s, num_lexer_token s = true -> (classify_number s <> Ok NumBad <-> Numeral s).
Proof. exact number_ok_token. Qed.
Print Assumptions C03_number_ok_token.

Theorem C03_number_token_exact :
  forall s, num_lexer_token s = true -> classify_number s = Ok (class_of (spec_value s)).
Proof. exact number_token_exact. Qed.
Print Assumptions C03_number_token_exact.

(* valid code is never flagged: every numeral gets the right node *)
Theorem C03_number_complete :
  forall s v, num_clean s = true -> Denotes s v -> classify_number s = Ok (class_of (Some v)).
Proof. exact number_numeral_complete. Qed.
Print Assumptions C03_number_complete.

(* FloatExp exactly for float numerals, IntegerExp v exactly for integer numerals of value v (needed by C20) *)
Theorem C03_number_float_iff :
  forall s, num_clean s = true -> (classify_number s = Ok NumFloat <-> FloatNumeral s).
Proof. exact number_float_iff. Qed.
Print Assumptions C03_number_float_iff.

Theorem C03_number_int_iff :
  forall s v, num_clean s = true -> (classify_number s = Ok (NumInt v) <-> IntegerNumeral s v).
Proof. exact number_int_iff. Qed.
Print Assumptions C03_number_int_iff.

(* no Go panic (feeds C01) *)
Theorem C03_number_no_fault : forall s, num_clean s = true -> exists c, classify_number s = Ok c.
Proof. exact number_no_fault. Qed.
Print Assumptions C03_number_no_fault.

Theorem C03_number_no_fault_token : forall s, num_lexer_token s = true -> exists c, classify_number s = Ok c.
Proof. exact number_no_fault_token. Qed.
Print Assumptions C03_number_no_fault_token.

(* parseHexFloat accepts exactly what its regular expression matches, and never panics: its own checks
   after the regexp are dead code (leg c03.hexfloat compares both with the real regexp engine) *)
Theorem C03_number_hexfloat_regexp : forall str, parse_hex_float str = Ok (re_hex_float str).
Proof. exact parse_hex_float_char. Qed.
Print Assumptions C03_number_hexfloat_regexp.

(* the witnesses of the three findings repaired by 8dd49c7 (known_findings/C03.json, status fixed):
   "x" / "+ll" panicked, "0x." was IntegerExp 0, ".0x0000000000000001ll" / "0x.0000000000000001ll" were IntegerExp 1 *)
Example C03_number_short_junk_repaired :
  dev_short_junk w_x = true /\ classify_number w_x = Ok NumBad /\ classify_number w_plus_ll = Ok NumBad.
Proof. exact number_short_junk_repaired. Qed.
Example C03_number_hex_one_junk_repaired :
  num_lexer_token w_0x_dot = true /\ dev_hex_one_junk w_0x_dot = true /\ classify_number w_0x_dot = Ok NumBad.
Proof. exact number_hex_one_junk_repaired. Qed.
Example C03_number_hex_cut_repaired :
  (num_lexer_token w_dot_0x_cut = true /\ dev_hex_cut w_dot_0x_cut = true /\ classify_number w_dot_0x_cut = Ok NumBad) /\
  (num_lexer_token w_0x_dot_cut = true /\ dev_hex_cut w_0x_dot_cut = true /\ classify_number w_0x_dot_cut = Ok NumBad).
Proof. exact number_hex_cut_repaired. Qed.

(* non-vacuity: real numerals of every form are lexer tokens and clean *)
Example C03_number_guard_inhabited :
  forallb (fun s => num_lexer_token s && num_clean s) w_ok = true /\
  map classify_number w_ok = [Ok NumFloat; Ok (NumInt (-1)); Ok NumFloat; Ok NumFloat; Ok (NumInt 10); Ok NumFloat].
Proof. exact number_guard_inhabited. Qed.

(* END numerals *)
