(* C03 - syntax diagnostics <=> text is not valid Lua.
   Only statements closed by `exact` + Print Assumptions live here (and vm_compute witnesses). *)
From Coq Require Import List NArith ZArith Bool.
From LH Require Import Base.Bytes Base.Res Model.Lexer Model.Parser Model.Number Spec.LuaNumeral
  Proofs.NumberSpecProofs Proofs.NumberGo Proofs.NumberProofs.
Import ListNotations.
Local Open Scope N_scope.

Theorem C03_keywords_distinct : NoDup (map fst keywords).
Proof. repeat constructor; simpl; intuition discriminate. Qed.
Print Assumptions C03_keywords_distinct.

(* BEGIN numerals *)
(* Numerals ("all numeral forms ... plus LuaJIT LL/ULL integer suffixes"): Model/Number.v is parser_number.go +
   parseNumberExp as of fix 8dd49c7; Spec/LuaNumeral.v is the grammar.
   num_clean s = no white space, no underscore, no leading sign; num_lexer_token s = what scanNumber can cut out. *)

(* the executable spec used by the correspondence leg is the declarative grammar *)
Theorem C03_number_spec_exec : forall s v, spec_value s = Some v <-> Denotes s v.
Proof. exact spec_value_iff. Qed.
Print Assumptions C03_number_spec_exec.

(* exact classification (node kind and integer value, or "not a number"), hence no Go panic *)
Theorem C03_number_exact :
  forall s, num_clean s = true -> classify_number s = Ok (class_of (spec_value s)).
Proof. exact number_classify_exact. Qed.
Print Assumptions C03_number_exact.

Theorem C03_number_ok_iff : forall s, num_clean s = true -> (number_accepted s = true <-> Numeral s).
Proof. exact number_ok_iff. Qed.
Print Assumptions C03_number_ok_iff.

(* on every text the lexer can cut out as a number token, the parser raises "not a number" exactly when
   the text is not a numeral of the grammar *)
Theorem C03_number_ok_token :
  forall s, num_lexer_token s = true -> (classify_number s <> Ok NumBad <-> Numeral s).
Proof. exact number_ok_token. Qed.
Print Assumptions C03_number_ok_token.

Theorem C03_number_token_exact :
  forall s, num_lexer_token s = true -> classify_number s = Ok (class_of (spec_value s)).
Proof. exact number_token_exact. Qed.
Print Assumptions C03_number_token_exact.

(* valid code is never flagged: every numeral gets the right node *)
Theorem C03_number_complete :
  forall s v, num_clean s = true -> Denotes s v -> classify_number s = Ok (class_of (Some v)).
Proof. exact number_numeral_complete. Qed.
Print Assumptions C03_number_complete.

(* FloatExp exactly for float numerals, IntegerExp v exactly for integer numerals of value v (needed by C20) *)
Theorem C03_number_float_iff :
  forall s, num_clean s = true -> (classify_number s = Ok NumFloat <-> FloatNumeral s).
Proof. exact number_float_iff. Qed.
Print Assumptions C03_number_float_iff.

Theorem C03_number_int_iff :
  forall s v, num_clean s = true -> (classify_number s = Ok (NumInt v) <-> IntegerNumeral s v).
Proof. exact number_int_iff. Qed.
Print Assumptions C03_number_int_iff.

(* no Go panic (feeds C01) *)
Theorem C03_number_no_fault : forall s, num_clean s = true -> exists c, classify_number s = Ok c.
Proof. exact number_no_fault. Qed.
Print Assumptions C03_number_no_fault.

Theorem C03_number_no_fault_token : forall s, num_lexer_token s = true -> exists c, classify_number s = Ok c.
Proof. exact number_no_fault_token. Qed.
Print Assumptions C03_number_no_fault_token.

(* parseHexFloat accepts exactly what its regular expression matches, and never panics: its own checks
   after the regexp are dead code (leg c03.hexfloat compares both with the real regexp engine) *)
Theorem C03_number_hexfloat_regexp : forall str, parse_hex_float str = Ok (re_hex_float str).
Proof. exact parse_hex_float_char. Qed.
Print Assumptions C03_number_hexfloat_regexp.

(* the witnesses of the three findings repaired by 8dd49c7 (known_findings/C03.json, status fixed):
   "x" / "+ll" panicked, "0x." was IntegerExp 0, ".0x0000000000000001ll" / "0x.0000000000000001ll" were IntegerExp 1 *)
Example C03_number_short_junk_repaired :
  dev_short_junk w_x = true /\ classify_number w_x = Ok NumBad /\ classify_number w_plus_ll = Ok NumBad.
Proof. exact number_short_junk_repaired. Qed.
Example C03_number_hex_one_junk_repaired :
  num_lexer_token w_0x_dot = true /\ dev_hex_one_junk w_0x_dot = true /\ classify_number w_0x_dot = Ok NumBad.
Proof. exact number_hex_one_junk_repaired. Qed.
Example C03_number_hex_cut_repaired :
  (num_lexer_token w_dot_0x_cut = true /\ dev_hex_cut w_dot_0x_cut = true /\ classify_number w_dot_0x_cut = Ok NumBad) /\
  (num_lexer_token w_0x_dot_cut = true /\ dev_hex_cut w_0x_dot_cut = true /\ classify_number w_0x_dot_cut = Ok NumBad).
Proof. exact number_hex_cut_repaired. Qed.

(* non-vacuity: real numerals of every form are lexer tokens and clean *)
Example C03_number_guard_inhabited :
  forallb (fun s => num_lexer_token s && num_clean s) w_ok = true /\
  map classify_number w_ok = [Ok NumFloat; Ok (NumInt (-1)); Ok NumFloat; Ok NumFloat; Ok (NumInt 10); Ok NumFloat].
Proof. exact number_guard_inhabited. Qed.

(* END numerals *)

(* BEGIN token-level grammar *)
(* Token level: the model parser (Model/Parser.v = parser/*.go as of the fix that reports non-assignable targets)
   accepts exactly the manual's grammar (Spec/LuaGrammar.v, longest-match relations over token kinds).
   "Accepts" = BeginAnalyze returns no parse error; lexical errors travel with the tokens (lerrs) and are returned
   unchanged; 31 errors in total abort the analysis (PRTooMany) - with zero parse errors only a chunk whose tokens
   carry >= 31 lexical errors gets there.  tokens_ok ts = ts ends with its only EOF token (what lex_all produces:
   lex_all_wf, kept by parser_view) and has no token of kind "illegal" (such a token is skipped at statement level
   without a PARSE error - its lexical error has been reported).  Proved for every numeral classifier `classify`
   and every fuel; fuel_of_tokens is what parse_bytes uses. *)
From LH Require Import Model.Ast Model.LuaFront Spec.LuaGrammar.
From LH Require Import Proofs.ParserGrammarCompleteTop Proofs.ParserGrammarSoundMain Proofs.ParserGrammarIff
  Proofs.ParserGrammarFlagged.

(* valid code is never flagged by the parser: all 20 non-terminals, by the combined induction over the grammar
   (ParserGrammarCompleteMain.complete_all) + termination with this fuel (ParserTotalMain) *)
Theorem C03_parse_complete : forall classify ts, Chunk classify ts ->
  exists r, parse_tokens classify (fuel_of_tokens ts) ts = Ok r /\
            (if Nat.leb 31 (length (flat_map lerrs ts)) then r = PRTooMany
             else exists b, r = PR b (flat_map lerrs ts) []).
Proof. exact parse_tokens_complete. Qed.
Print Assumptions C03_parse_complete.

(* ... as the correspondence leg c03.parse runs it: bytes -> lex_all -> parser_view -> parse_tokens *)
Theorem C03_parse_complete_bytes : forall classify gbk_runes bs ts,
  lex_all gbk_runes bs = Ok ts -> Chunk classify (parser_view ts) ->
  exists r, parse_bytes gbk_runes classify bs = Ok r /\
            (if Nat.leb 31 (length (flat_map lerrs (parser_view ts))) then r = PRTooMany
             else exists b, r = PR b (flat_map lerrs (parser_view ts)) []).
Proof. exact parse_bytes_complete. Qed.
Print Assumptions C03_parse_complete_bytes.

(* no parse error => the tokens are a Chunk of the grammar (plain Chunk, not ChunkLoose: `(a) = 1` is rejected now).
   Any fuel: a run that returns at all. *)
Theorem C03_parse_sound : forall classify fuel ts b le,
  tokens_ok ts = true -> parse_tokens classify fuel ts = Ok (PR b le []) -> Chunk classify ts.
Proof. exact parse_tokens_sound. Qed.
Print Assumptions C03_parse_sound.

Theorem C03_parse_sound_bytes : forall classify gbk_runes bs ts b le,
  lex_all gbk_runes bs = Ok ts -> no_illegal_b (parser_view ts) = true ->
  parse_bytes gbk_runes classify bs = Ok (PR b le []) -> Chunk classify (parser_view ts).
Proof. exact parse_bytes_sound. Qed.
Print Assumptions C03_parse_sound_bytes.

(* the guard is necessary: every Chunk satisfies it *)
Theorem C03_chunk_tokens_ok : forall classify ts, Chunk classify ts -> tokens_ok ts = true.
Proof. exact chunk_tokens_ok. Qed.
Print Assumptions C03_chunk_tokens_ok.

(* both directions, guard on the right-hand side *)
Theorem C03_parse_iff : forall classify ts,
  (length (flat_map lerrs ts) < 31)%nat ->
  (Chunk classify ts <->
   tokens_ok ts = true /\
   exists b, parse_tokens classify (fuel_of_tokens ts) ts = Ok (PR b (flat_map lerrs ts) [])).
Proof. exact parse_tokens_iff_full. Qed.
Print Assumptions C03_parse_iff.

(* Diagnostics level, whole pipeline (bytes -> lex_all -> parser_view -> parse_tokens), no guard left:
   a file gets NO syntax diagnostic (no lexical error, no parse error, no 31-error abort) exactly when its token
   stream is a Chunk and no token carries a lexical error.  Uses ParserGrammarLexIllegal.lex_all_illegal (a token of
   kind "illegal" always carries LeIllegal) to discharge no_illegal_b, and "no parse error => every token was
   consumed" to identify the returned lexical errors with those of the tokens. *)
Theorem C03_flagged_iff : forall classify gbk_runes bs ts r,
  lex_all gbk_runes bs = Ok ts -> parse_bytes gbk_runes classify bs = Ok r ->
  (flagged r = false <-> Chunk classify (parser_view ts) /\ flat_map lerrs (parser_view ts) = []).
Proof. exact flagged_iff. Qed.
Print Assumptions C03_flagged_iff.

(* non-vacuity: a 133-token program using every statement form, attributes, goto/label, method and vararg
   syntax, table fields of all three kinds, unary/binary/right-associative operators is a Chunk; its tokens satisfy
   the guard *)
Definition c03_demo_src : list N := [108; 111; 99; 97; 108; 32; 116; 32; 61; 32; 123; 49; 44; 32; 120; 32; 61; 32; 50; 59; 32; 91; 51; 93; 32; 61; 32; 102; 40; 97; 46; 98; 58; 99; 40; 46; 46; 46; 41; 44; 32; 45; 35; 121; 32; 94; 32; 50; 41; 125; 10; 102; 111; 114; 32; 105; 32; 61; 32; 49; 44; 32; 49; 48; 32; 100; 111; 32; 105; 102; 32; 105; 32; 37; 32; 50; 32; 61; 61; 32; 48; 32; 116; 104; 101; 110; 32; 103; 111; 116; 111; 32; 101; 32; 101; 108; 115; 101; 105; 102; 32; 116; 32; 116; 104; 101; 110; 32; 98; 114; 101; 97; 107; 32; 101; 108; 115; 101; 32; 116; 91; 105; 93; 32; 61; 32; 110; 111; 116; 32; 116; 32; 101; 110; 100; 32; 58; 58; 101; 58; 58; 32; 101; 110; 100; 10; 102; 111; 114; 32; 107; 44; 32; 118; 32; 105; 110; 32; 112; 97; 105; 114; 115; 40; 116; 41; 32; 100; 111; 32; 114; 101; 112; 101; 97; 116; 32; 107; 32; 61; 32; 107; 32; 47; 47; 32; 49; 32; 117; 110; 116; 105; 108; 32; 40; 107; 41; 32; 119; 104; 105; 108; 101; 32; 118; 32; 100; 111; 32; 118; 32; 61; 32; 118; 32; 62; 62; 32; 49; 32; 101; 110; 100; 32; 101; 110; 100; 10; 102; 117; 110; 99; 116; 105; 111; 110; 32; 116; 46; 109; 58; 110; 40; 97; 44; 32; 46; 46; 46; 41; 32; 108; 111; 99; 97; 108; 32; 99; 32; 60; 99; 108; 111; 115; 101; 62; 44; 32; 100; 32; 60; 99; 111; 110; 115; 116; 62; 32; 61; 32; 110; 105; 108; 32; 114; 101; 116; 117; 114; 110; 32; 97; 32; 46; 46; 32; 39; 120; 39; 44; 32; 46; 46; 46; 32; 101; 110; 100; 10; 114; 101; 116; 117; 114; 110; 32; 102; 117; 110; 99; 116; 105; 111; 110; 40; 41; 32; 114; 101; 116; 117; 114; 110; 32; 101; 110; 100; 59].
Definition c03_demo_tokens : list ltok :=
  match lex_all (fun _ => 0%Z) c03_demo_src with Ok ts => parser_view ts | _ => [] end.
Example C03_chunk_inhabited :
  Chunk classify_tok c03_demo_tokens /\ length c03_demo_tokens = 133%nat /\ tokens_ok c03_demo_tokens = true.
Proof.
  split; [|split; vm_compute; reflexivity].
  eapply (parse_tokens_sound classify_tok (fuel_of_tokens c03_demo_tokens)); vm_compute; reflexivity.
Qed.

(* the former finding (`(a) = 1`, `a, (b) = 1, 2` accepted) is repaired in the modelled code: both are flagged *)
Definition c03_paren_src1 : list N := [40; 97; 41; 32; 61; 32; 49].
Definition c03_paren_src2 : list N := [97; 44; 32; 40; 98; 41; 32; 61; 32; 49; 44; 32; 50].
Example C03_paren_target_rejected :
  (exists b, parse_bytes (fun _ => 0%Z) classify_tok c03_paren_src1 = Ok (PR b [] [PeCannotAssign])) /\
  (exists b, parse_bytes (fun _ => 0%Z) classify_tok c03_paren_src2 = Ok (PR b [] [PeCannotAssign])).
Proof. split; eexists; vm_compute; reflexivity. Qed.
(* END token-level grammar *)

(* BEGIN lexical level *)
(* Lexical level (agents lex-grammar, lex-escape): the model lexer (Model/Lexer.v = lexer/lexer.go) recognises exactly the
   lexical grammar of Spec/LuaLex.v - white space, line breaks, short and long comments, long brackets of every level,
   names versus the 22 keywords, operators / punctuation by longest match, numerals as the reference lexer cuts them,
   short strings with the MANUAL's escape sequences - from the file BYTES (byte order mark and `#` first line
   included), for every GBK oracle.
   `LexesTo bs sts`: the bytes split into the tokens sts (kind + lexeme) with the manual's escape sequences (EscLua).
   `tok_ok t s`: the model token t has the kind of s, and its text unless it is a string (the model keeps the
   decoded value of a string).  "No lexical error" = no token of lex_all carries an error (flat_map lerrs ts = []).
   Numerals: the CUT is specified here (read_numeral of Lua 5.3 + the LuaJIT suffix letters); whether the text that
   was cut is a numeral is decided on the token (C03_number_ok_token / num_ok in Chunk), as in the reference lexer.

   Two variants of the code are modelled under the flag fx_escape (Model/Lexer.v, class FxEscape, an implicit argument):
   `lex_all gbk_runes bs` = `lex_all (fx := fx_deployed)` = the code in /repo, with readEscapeSequence REPAIRED
   (fx_escape = true: `\x` without two hex digits, a decimal escape above 255, a malformed / too large `\u{...}` and any
   other character after a backslash raise "invalid escape sequence"); `lex_all (fx := false)` = the code before that
   repair, which accepted them silently (the former finding bad_escape, DESIGN 6 row 7). *)
From LH Require Import Spec.LuaLex.
From LH Require Import Proofs.LexerGrammarStr Proofs.LexerGrammarMain Proofs.LexerGrammarEsc Proofs.LexerGrammarWitness
  Proofs.LexerGrammarChunk.

(* the drivers and every other property use the repaired variant *)
Example C03_deployed_is_repaired : fx_deployed = true.
Proof. reflexivity. Qed.

(* valid text is never flagged at the lexical level, and is lexed to its own tokens *)
Theorem C03_lex_complete : forall gbk_runes bs sts,
  LexesTo bs sts ->
  exists body eof, lex_all gbk_runes bs = Ok (body ++ [eof]) /\ Forall2 tok_ok body sts /\
                   tk (lt eof) = TkEOF /\ flat_map lerrs (body ++ [eof]) = [].
Proof. exact (@lex_all_complete fx_deployed). Qed.
Print Assumptions C03_lex_complete.

(* ... in the shape of the plan: kinds only *)
Corollary C03_lex_complete_kinds : forall gbk_runes bs sts,
  LexesTo bs sts ->
  exists ts, lex_all gbk_runes bs = Ok ts /\ map (fun t => tk (lt t)) ts = map sk sts ++ [TkEOF] /\
             flat_map lerrs ts = [].
Proof. exact (@lex_all_complete_kinds fx_deployed). Qed.
Print Assumptions C03_lex_complete_kinds.

(* NO GUARD (the repaired lexer): no lexical error => the bytes are lexically valid Lua, the tokens are the ones of
   the grammar; for all bytes, every oracle *)
Theorem C03_lex_sound : forall gbk_runes bs ts,
  lex_all gbk_runes bs = Ok ts -> flat_map lerrs ts = [] ->
  exists body eof sts, ts = body ++ [eof] /\ tk (lt eof) = TkEOF /\ LexesTo bs sts /\ Forall2 tok_ok body sts.
Proof. exact lex_all_sound_fixed. Qed.
Print Assumptions C03_lex_sound.

(* both directions in one statement: the lexer raises no error exactly on the lexically valid texts *)
Theorem C03_lex_iff : forall gbk_runes bs,
  (exists ts, lex_all gbk_runes bs = Ok ts /\ flat_map lerrs ts = []) <-> (exists sts, LexesTo bs sts).
Proof. exact lex_all_iff_fixed. Qed.
Print Assumptions C03_lex_iff.

(* the exact language of BOTH variants of the code: no lexical error <-> the bytes are lexically valid with the escape
   sequences that variant accepts silently (EscFx fx, Proofs/LexerGrammarStr.v: the sequences lexer.go scans - EscCode -
   restricted, when fx_escape = true, to those that start a legal escape of the manual) *)
Theorem C03_lex_sound_variant : forall (fx : FxEscape) gbk_runes bs ts,
  lex_all (fx := fx) gbk_runes bs = Ok ts -> flat_map lerrs ts = [] ->
  exists body eof sts, ts = body ++ [eof] /\ tk (lt eof) = TkEOF /\ LexesToWith (EscFx fx) bs sts /\
                       Forall2 tok_ok body sts.
Proof. exact @lex_all_sound_fx. Qed.
Print Assumptions C03_lex_sound_variant.

Theorem C03_lex_complete_variant : forall (fx : FxEscape) gbk_runes bs sts,
  LexesToWith (EscFx fx) bs sts ->
  exists body eof, lex_all (fx := fx) gbk_runes bs = Ok (body ++ [eof]) /\ Forall2 tok_ok body sts /\
                   tk (lt eof) = TkEOF /\ flat_map lerrs (body ++ [eof]) = [].
Proof. exact @lex_all_complete_fx. Qed.
Print Assumptions C03_lex_complete_variant.

(* the code BEFORE the repair (fx_escape = false): its language was the grammar with the escapes EscCode, a strict
   superset of the manual's *)
Theorem C03_lex_sound_code : forall (fx : FxEscape) gbk_runes bs ts,
  lex_all (fx := fx) gbk_runes bs = Ok ts -> flat_map lerrs ts = [] ->
  exists body eof sts, ts = body ++ [eof] /\ tk (lt eof) = TkEOF /\ LexesToWith EscCode bs sts /\
                       Forall2 tok_ok body sts.
Proof. exact @lex_all_sound_code. Qed.
Print Assumptions C03_lex_sound_code.

Theorem C03_lex_complete_code : forall gbk_runes bs sts,
  LexesToWith EscCode bs sts ->
  exists body eof, lex_all (fx := false) gbk_runes bs = Ok (body ++ [eof]) /\ Forall2 tok_ok body sts /\
                   tk (lt eof) = TkEOF /\ flat_map lerrs (body ++ [eof]) = [].
Proof. exact lex_all_complete_code. Qed.
Print Assumptions C03_lex_complete_code.

(* the manual's escapes are among the code's old ones (layer "strings", spec level) *)
Theorem C03_lex_manual_sub_code : forall bs sts, LexesTo bs sts -> LexesToWith EscCode bs sts.
Proof. exact lexes_lua_code. Qed.
Print Assumptions C03_lex_manual_sub_code.

(* what could be said BEFORE the repair (holds for both variants): no lexical error + every unescaped backslash of the
   text starts a legal escape => lexically valid Lua.  no_bad_escape is context free (it also constrains backslashes in
   comments and long strings): a sufficient guard *)
Theorem C03_lex_sound_guarded : forall (fx : FxEscape) gbk_runes bs ts,
  lex_all (fx := fx) gbk_runes bs = Ok ts -> flat_map lerrs ts = [] -> no_bad_escape bs = true ->
  exists body eof sts, ts = body ++ [eof] /\ tk (lt eof) = TkEOF /\ LexesTo bs sts /\ Forall2 tok_ok body sts.
Proof. exact @lex_all_sound_guarded. Qed.
Print Assumptions C03_lex_sound_guarded.

(* ... and that guard was necessary: "\q" "\xZZ" "\256" "\u{}" "\300" "\u{zz}" "\u{7FFFFFFFF}" were accepted by the code
   before the repair without a lexical error, violate the guard, and are NOT lexically valid (spec): DESIGN 6 row 7
   (readEscapeSequence: the `x` and `default` branches never reported, `\u` was not handled).
   Which escapes the SPEC accepts: exactly the manual's (EscLua: \a \b \f \n \r \t \v \\ \dquote \quote, backslash + line
   break, \z, \xXX, \d{1,3} <= 255, \u{X+} < 2^31); nothing of the implementation's leniency is absorbed there. *)
Theorem C03_escape_refuted : forall gbk_runes,
  Forall (fun bs => accepted_by_code (fx := false) gbk_runes bs /\ no_bad_escape bs = false /\ ~ exists sts, LexesTo bs sts)
         [w_esc_q; w_esc_x; w_esc_256; w_esc_u; w_esc_300; w_esc_uzz; w_esc_ubig].
Proof. exact escape_witnesses. Qed.
Print Assumptions C03_escape_refuted.

(* regression: the repaired code reports each of the seven (one "invalid escape sequence" on the string token) *)
Example C03_escape_rejected : forall gbk_runes,
  Forall (fun bs => exists ts, lex_all gbk_runes bs = Ok ts /\ flat_map lerrs ts = [LeBadEscape])
         [w_esc_q; w_esc_x; w_esc_256; w_esc_u; w_esc_300; w_esc_uzz; w_esc_ubig].
Proof. exact escape_witnesses_rejected. Qed.

(* every escape sequence of the manual passes the test the guard / the repaired code applies *)
Theorem C03_guard_admits_manual_escapes : forall e r, EscLua e r -> legal_escape (e ++ r) = true.
Proof. exact esc_lua_legal. Qed.
Print Assumptions C03_guard_admits_manual_escapes.

(* non-vacuity: a text with a `#` line, every token class, every escape form of the manual, long brackets of levels
   0 - 2, both comment forms, all numeral forms satisfies the guard and is lexically valid (50 tokens) *)
Example C03_lex_guard_inhabited :
  no_bad_escape w_lex_demo = true /\ exists sts, LexesTo w_lex_demo sts /\ length sts = 50%nat.
Proof. exact lex_demo_valid. Qed.

(* Recorded leniency of the SPEC (deliberate, the one place where it follows the implementation rather than Lua 5.4):
   a numeral ends where the run of numeral characters ends and a letter may follow directly - read_numeral of Lua
   5.2 / 5.3; Lua 5.4 rejects a "numeral touching a letter"; the repository's own TestParseJitNumber pins `0then`.
   So `a = 1x = 2` IS lexically valid here (tokens a = 1 x = 2) and is not flagged; `a = 3y()` likewise. If the lead
   wants the 5.4 reading, Tk_number needs the side condition  hd_is lx_alpha r = false  and this becomes a finding. *)
Example C03_numeral_touching_letter_valid :
  exists sts, LexesTo w_num_letter sts /\
              map sk sts = [TkIdentifier; TkOpAssign; TkNumber; TkIdentifier; TkOpAssign; TkNumber].
Proof. exact numeral_touching_letter. Qed.

(* both levels, NO GUARD (the repaired lexer): for every file, NO syntax diagnostic <-> the bytes are a lexically valid
   token sequence and the token list (which agrees with that sequence, tok_ok) is a Chunk *)
Theorem C03_bytes_iff : forall classify gbk_runes bs ts r,
  lex_all gbk_runes bs = Ok ts -> parse_bytes gbk_runes classify bs = Ok r ->
  (flagged r = false <-> ValidBytes classify bs ts).
Proof. exact bytes_iff. Qed.
Print Assumptions C03_bytes_iff.

(* the statement available before the repair, kept *)
Theorem C03_bytes_iff_guarded : forall classify gbk_runes bs ts r,
  lex_all gbk_runes bs = Ok ts -> parse_bytes gbk_runes classify bs = Ok r -> no_bad_escape bs = true ->
  (flagged r = false <-> ValidBytes classify bs ts).
Proof. exact bytes_iff_guarded. Qed.
Print Assumptions C03_bytes_iff_guarded.

Theorem C03_bytes_complete : forall classify gbk_runes bs ts r,
  lex_all gbk_runes bs = Ok ts -> parse_bytes gbk_runes classify bs = Ok r ->
  ValidBytes classify bs ts -> flagged r = false.
Proof. exact bytes_complete. Qed.
Print Assumptions C03_bytes_complete.
(* numerals: every numeral token of a lexically valid text is a text scanNumber can cut (num_lexer_token), so the
   parser's "not a number" check on it is exactly the grammar of numerals (with C03_number_ok_token) *)
From LH Require Import Proofs.LexerGrammarNum.
Theorem C03_lex_numbers_checked : forall bs sts, LexesTo bs sts ->
  Forall (fun t => sk t = TkNumber -> (classify_number (stxt t) <> Ok NumBad <-> Numeral (stxt t))) sts.
Proof. exact lexes_numbers_checked. Qed.
Print Assumptions C03_lex_numbers_checked.
(* END lexical level *)
