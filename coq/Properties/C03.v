(* C03 - syntax diagnostics <=> text is not valid Lua (placeholder until the grammar proofs land) *)
From Coq Require Import List NArith Bool.
From LH Require Import Base.Bytes Base.Res Model.Lexer Model.Parser.
Import ListNotations.

Theorem C03_keywords_distinct : NoDup (map fst keywords).
Proof. repeat constructor; simpl; intuition discriminate. Qed.
Print Assumptions C03_keywords_distinct.
