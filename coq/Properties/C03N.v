(* TEMPORARY stand-alone property file for the numeral part of C03 (the lead folds it into Properties/C03.v). *)
From Coq Require Import List NArith ZArith Bool.
From LH Require Import Base.Bytes Base.Res Model.Number Spec.LuaNumeral.
Import ListNotations.
