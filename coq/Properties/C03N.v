(* TEMPORARY stand-alone property file for the numeral part of C03 ("all numeral forms ... plus LuaJIT LL/ULL
   integer suffixes"); the lead folds these statements into Properties/C03.v and deletes this file.
   Only statements closed by `exact` + Print Assumptions live here. *)
From Coq Require Import List NArith ZArith Bool.
From LH Require Import Base.Bytes Base.Res Model.Number Spec.LuaNumeral Proofs.NumberSpecProofs Proofs.NumberGo
  Proofs.NumberProofs.
Import ListNotations.
Local Open Scope N_scope.

(* Full statement: on every text the lexer can cut out as a number token, the parser raises "not a number"
   exactly when the text is not a numeral of the grammar (and it never panics). *)
Definition C03_number_full : Prop :=
  forall s, num_lexer_token s = true -> (number_accepted s = true <-> Numeral s).

(* the executable spec used by the correspondence leg is the declarative grammar *)
Theorem C03_number_spec_exec : forall s v, spec_value s = Some v <-> Denotes s v.
Proof. exact spec_value_iff. Qed.
Print Assumptions C03_number_spec_exec.

(* proved part of the full statement: exact classification (node kind and integer value) on every clean text
   (no white space, no underscore, no leading sign) outside the deviation classes *)
Theorem C03_number_exact_partial :
  forall s, num_clean s = true -> num_deviates s = false -> classify_number s = Ok (class_of (spec_value s)).
Proof. exact number_classify_exact. Qed.
Print Assumptions C03_number_exact_partial.

Theorem C03_number_ok_iff_partial :
  forall s, num_clean s = true -> num_deviates s = false -> (number_accepted s = true <-> Numeral s).
Proof. exact number_ok_iff. Qed.
Print Assumptions C03_number_ok_iff_partial.

(* valid code is never flagged: every numeral gets the right node, no guard beyond `clean` *)
Theorem C03_number_complete :
  forall s v, num_clean s = true -> Denotes s v -> classify_number s = Ok (class_of (Some v)).
Proof. exact number_numeral_complete. Qed.
Print Assumptions C03_number_complete.

(* acceptance characterised without guard: the numerals plus the two accepting deviation classes *)
Theorem C03_number_accepted_exact :
  forall s, num_clean s = true ->
    (number_accepted s = true <->
     Numeral s \/ dev_hex_one_junk (to_lower s) = true \/ dev_hex_cut (to_lower s) = true).
Proof. exact number_accepted_exact. Qed.
Print Assumptions C03_number_accepted_exact.

(* parseHexFloat accepts exactly what its regular expression matches, and never panics: its own checks
   after the regexp are dead code (leg c03.hexfloat compares both with the real regexp engine) *)
Theorem C03_number_hexfloat_regexp : forall str, parse_hex_float str = Ok (re_hex_float str).
Proof. exact parse_hex_float_char. Qed.
Print Assumptions C03_number_hexfloat_regexp.

(* FloatExp exactly for float numerals (needed by C20: Float vs Integer node) *)
Theorem C03_number_float_iff :
  forall s, num_clean s = true -> (classify_number s = Ok NumFloat <-> FloatNumeral s).
Proof. exact number_float_iff. Qed.
Print Assumptions C03_number_float_iff.

Theorem C03_number_int_iff_partial :
  forall s v, num_clean s = true -> num_deviates s = false ->
    (classify_number s = Ok (NumInt v) <-> IntegerNumeral s v).
Proof. exact number_int_iff. Qed.
Print Assumptions C03_number_int_iff_partial.

(* no Go panic on lexer tokens (feeds C01) *)
Theorem C03_number_no_fault_token : forall s, num_lexer_token s = true -> exists c, classify_number s = Ok c.
Proof. exact number_no_fault_token. Qed.
Print Assumptions C03_number_no_fault_token.

Theorem C03_number_token_exact_partial :
  forall s, num_lexer_token s = true -> num_deviates s = false -> classify_number s = Ok (class_of (spec_value s)).
Proof. exact number_token_exact. Qed.
Print Assumptions C03_number_token_exact_partial.

(* what the code does on the deviation classes *)
Theorem C03_number_hex_one_junk_class :
  forall s, num_clean s = true -> dev_hex_one_junk (to_lower s) = true ->
    classify_number s = Ok (NumInt 0) /\ spec_value s = None.
Proof. exact number_hex_one_junk_int0. Qed.
Print Assumptions C03_number_hex_one_junk_class.

Theorem C03_number_hex_cut_class :
  forall s, num_clean s = true -> dev_hex_cut (to_lower s) = true -> spec_value s = None ->
    classify_number s = Ok (NumInt (hex_cut_value (to_lower s))).
Proof. exact number_hex_cut_int. Qed.
Print Assumptions C03_number_hex_cut_class.

Theorem C03_number_short_junk_class :
  forall s, num_clean s = true -> dev_short_junk (to_lower s) = true ->
    classify_number s = Fault IndexRange /\ spec_value s = None.
Proof. exact number_short_junk_fault. Qed.
Print Assumptions C03_number_short_junk_class.

(* refutations of the full statement on the faithful model (witnesses in known_findings) *)
Theorem C03_number_hex_one_junk_refuted :
  num_lexer_token w_0x_dot = true /\ classify_number w_0x_dot = Ok (NumInt 0) /\ ~ Numeral w_0x_dot.
Proof. exact number_hex_one_junk_refuted. Qed.
Print Assumptions C03_number_hex_one_junk_refuted.

Theorem C03_number_hex_cut_refuted :
  (num_lexer_token w_dot_0x_cut = true /\ classify_number w_dot_0x_cut = Ok (NumInt 1) /\ ~ Numeral w_dot_0x_cut) /\
  (num_lexer_token w_0x_dot_cut = true /\ classify_number w_0x_dot_cut = Ok (NumInt 1) /\ ~ Numeral w_0x_dot_cut).
Proof. exact number_hex_cut_refuted. Qed.
Print Assumptions C03_number_hex_cut_refuted.

Theorem C03_number_full_refuted : ~ C03_number_full.
Proof.
  intros H. destruct number_hex_one_junk_refuted as (Ht & Hc & Hn). apply Hn. apply (H _ Ht).
  unfold number_accepted. rewrite Hc. reflexivity.
Qed.
Print Assumptions C03_number_full_refuted.

(* latent panic (not reachable from lexer tokens, see C03_number_no_fault_token) *)
Theorem C03_number_no_fault_refuted :
  (w_x <> [] /\ num_clean w_x = true /\ classify_number w_x = Fault IndexRange) /\
  (w_plus_ll <> [] /\ classify_number w_plus_ll = Fault IndexRange).
Proof. exact number_no_fault_refuted. Qed.
Print Assumptions C03_number_no_fault_refuted.

(* non-vacuity: real numerals of every form satisfy all guards *)
Example C03_number_guard_inhabited :
  forallb (fun s => num_lexer_token s && num_clean s && negb (num_deviates s)) w_ok = true /\
  map classify_number w_ok = [Ok NumFloat; Ok (NumInt (-1)); Ok NumFloat; Ok NumFloat; Ok (NumInt 10); Ok NumFloat].
Proof. exact number_guard_inhabited. Qed.
