(* C10 - Requests that the transport runs concurrently are safe and serialisable.

   Part A: theorems about the dispatcher model for ANY handler table, ANY message list, ANY schedule.
   Part B: the same theorems instantiated with the table the translator regenerated from the Go sources on this run
           (coq/Generated/GenHandlers.v), the list of handlers that break the discipline today (re-checked by
           vm_compute on every run: a Lock() removed anywhere else breaks C10_only_known_unlocked), and a machine-checked
           witness run (reachable state with a data race) for every one of them.
   Only statements closed by `exact` (or a vm_compute) + Print Assumptions live here. *)
From Coq Require Import String.
From Coq Require Import List Bool Arith PeanoNat Permutation.
From LH Require Import Model.Dispatch Proofs.DispatchProofs Proofs.DispatchSerial Generated.GenHandlers Tie.TieHandlers.
Import ListNotations.
Local Open Scope string_scope.

(* ======================================================================= Part A: any table *)

(* If every handler (and every goroutine started by a handler) takes requestMutex before touching shared state,
   no reachable state of the dispatcher has a data race: never are two goroutines both about to access the same
   resource with at least one of them writing. *)
Theorem C10_discipline_sound :
  forall (hs bgs : list handler) (conc : nat) (msgs : list msg) (s : state),
    forallb locked (hs ++ bgs) = true ->
    reachable hs bgs conc msgs s -> ~ race s.
Proof.
  intros hs bgs conc msgs s H. apply discipline_sound. apply discipline_of_forallb. exact H.
Qed.
Print Assumptions C10_discipline_sound.

(* the invariant behind it: the critical sections exclude each other (tables need only be well bracketed) *)
Theorem C10_mutual_exclusion :
  forall hs bgs conc msgs s i j ti tj,
    forallb (fun h => bracketed (hbody h)) (hs ++ bgs) = true ->
    reachable hs bgs conc msgs s ->
    nth_error (s_pool s) i = Some ti -> nth_error (s_pool s) j = Some tj ->
    t_holds ti = true -> t_holds tj = true -> i = j.
Proof.
  intros hs bgs conc msgs s i j ti tj H. apply mutual_exclusion. apply tables_bracketed_of_forallb. exact H.
Qed.
Print Assumptions C10_mutual_exclusion.

(* pairwise form (what the correspondence leg relies on): a race between two goroutines is possible only if
   may_race says so for their bodies, i.e. one of them makes a conflicting access outside the lock *)
Theorem C10_race_needs_unlocked_access :
  forall hs bgs conc msgs s i j ti tj,
    forallb (fun h => bracketed (hbody h)) (hs ++ bgs) = true ->
    reachable hs bgs conc msgs s -> race_pair s i j ->
    nth_error (s_pool s) i = Some ti -> nth_error (s_pool s) j = Some tj ->
    may_race (t_body ti) (t_body tj) = true /\
    (unlocked_accs (t_body ti) <> [] \/ unlocked_accs (t_body tj) <> []).
Proof.
  intros hs bgs conc msgs s i j ti tj H Hr Hrace Hi Hj.
  assert (Hm : may_race (t_body ti) (t_body tj) = true).
  { eapply race_pair_may_race; eauto. apply tables_bracketed_of_forallb. exact H. }
  split; [exact Hm|apply may_race_blames; exact Hm].
Qed.
Print Assumptions C10_race_needs_unlocked_access.

(* jrpc2's barrier: a message dispatched after a notification never runs concurrently with it - so a query sent
   after didChange/didSave cannot race with it, whatever the locks (goroutines are numbered in creation order) *)
Theorem C10_notification_barrier :
  forall hs bgs conc msgs s i j ti tj,
    reachable hs bgs conc msgs s -> i < j ->
    nth_error (s_pool s) i = Some ti -> nth_error (s_pool s) j = Some tj ->
    t_notif ti = true -> t_bg tj = false -> ~ race_pair s i j.
Proof. intros hs bgs conc msgs s i j ti tj Hr Hlt Hi Hj Hn Hb Hrace. eapply notification_barrier; eauto. Qed.
Print Assumptions C10_notification_barrier.

(* no deadlock: one mutex, well-bracketed bodies, at least one semaphore slot => some step is always possible
   until every message is handled and every goroutine has returned *)
Theorem C10_no_deadlock :
  forall hs bgs conc msgs s,
    forallb (fun h => bracketed (hbody h)) (hs ++ bgs) = true -> 0 < conc ->
    reachable hs bgs conc msgs s -> complete s = false ->
    exists l s', step hs bgs conc l s = Some s'.
Proof.
  intros hs bgs conc msgs s H Hc Hr Hn. eapply progress; eauto. apply tables_bracketed_of_forallb. exact H.
Qed.
Print Assumptions C10_no_deadlock.

(* Serialisability. Handler effects are arbitrary functions exec on (local state, abstract shared state); the local
   state starts as the request parameters (loc0 k) and ends as the answer. If every message uses a handler of the
   simple shape (no shared access at all, or ONE critical section containing every access), then every complete run -
   whatever the interleaving - ends in the shared state, and gives every message the answer, of the SERIAL run of the
   same messages in the order in which they acquired the mutex. *)
Definition C10_serialisable_statement : Prop :=
  forall (hs bgs : list handler) (conc : nat) (St Loc : Type)
         (exec : nat -> nat -> Loc -> St -> Loc * St) (loc0 : nat -> Loc)
         (msgs : list msg) (sh0 : St),
    forallb (fun h => bracketed (hbody h)) (hs ++ bgs) = true ->
    (forall m, In m msgs -> simple_body (body_of hs bgs false (m_h m)) = true) ->
    forall ls s sh locs,
      drun hs bgs conc St Loc exec loc0 ls (dinit St Loc msgs sh0) = Some (s, sh, locs) ->
      complete s = true ->
      exists res,
        serialL St Loc exec loc0 (bodies_of (s_pool s)) (s_log s) sh0 = (sh, res) /\
        (forall k lc, In (k, lc) res -> nth_error locs k = Some lc) /\
        (forall k, k < length msgs -> ~ In k (s_log s) ->
                   nth_error locs k = Some (loc0 k) /\ bodies_of (s_pool s) k = []) /\
        NoDup (s_log s) /\ (forall k, In k (s_log s) -> k < length msgs) /\
        length (s_pool s) = length msgs /\
        (forall k m, nth_error msgs k = Some m -> bodies_of (s_pool s) k = body_of hs bgs false (m_h m)).

Theorem C10_serialisable : C10_serialisable_statement.
Proof.
  intros hs bgs conc St Loc exec loc0 msgs sh0 Hbr Hs ls s sh locs Hrun Hc.
  eapply serialisable; eauto. apply tables_bracketed_of_forallb. exact Hbr.
Qed.
Print Assumptions C10_serialisable.

(* The plan's hypothesis was the discipline alone. That is NOT enough: a handler with TWO critical sections keeps the
   discipline but is not atomic (another message can run between the sections). The full statement below is therefore
   false - refuted by C10_discipline_alone_not_serialisable with a lost-update run; the proved theorem restricts it
   to the simple shape, and C10_only_known_split (Part B) pins the one handler of the real table with two sections. *)
Definition C10_serialisable_full : Prop :=
  forall (hs bgs : list handler) (conc : nat) (St Loc : Type)
         (exec : nat -> nat -> Loc -> St -> Loc * St) (loc0 : nat -> Loc)
         (msgs : list msg) (sh0 : St),
    forallb locked (hs ++ bgs) = true ->
    forall ls s sh locs,
      drun hs bgs conc St Loc exec loc0 ls (dinit St Loc msgs sh0) = Some (s, sh, locs) ->
      complete s = true ->
      exists order res,
        Permutation order (seq 0 (length msgs)) /\
        serialL St Loc exec loc0 (bodies_of (s_pool s)) order sh0 = (sh, res) /\
        (forall k lc, In (k, lc) res -> nth_error locs k = Some lc).

Theorem C10_discipline_alone_not_serialisable : ~ C10_serialisable_full.
Proof.
  intros H. destruct cx_refutes as (s & sh & locs & Hrun & Hc & Hno).
  destruct (H cx_hs [] 4 nat nat cx_exec (fun _ => 0) cx_msgs 0 cx_locked cx_labels s sh locs Hrun Hc)
    as (order & res & Hp & Hs & _).
  apply (Hno order Hp). rewrite Hs. reflexivity.
Qed.
Print Assumptions C10_discipline_alone_not_serialisable.

(* ======================================================================= Part B: the table of this source tree *)

Theorem C10_table_bracketed : forallb (fun h => bracketed (hbody h)) (handlers ++ background) = true.
Proof. exact tie_bracketed. Qed.
Print Assumptions C10_table_bracketed.

(* ---- the three tree-dependent constants (the ONLY lines to edit when the source tree is repaired) ---- *)
(* handlers that touch shared state without holding requestMutex, in handler-map order *)
Definition known_unlocked : list name := map nm [].
(* handlers whose work is split over several critical sections (not atomic as a whole) *)
Definition known_split : list name := map nm [].
(* goroutines started by handlers that touch shared state without the mutex (telemetry) *)
Definition known_bg_unlocked : list name := map nm [].
(* Both fix: commits are applied in /repo (1b70b29: every handler takes the request mutex; 4ebf311: the telemetry
   goroutines synchronise): all three lists are empty, C10_handlers_locked reads `forallb locked handlers = true`, the
   refutation theorems below are vacuous (their index lists are empty), and C10_real_race_free holds. *)

(* THE PROPERTY THEOREM OF THE CHECK (re-proved against the regenerated table on every run):
   exactly these handlers touch shared state without holding requestMutex.  Removing a Lock() from any other
   handler, or adding an unlocked handler to the map, makes this vm_compute fail. *)
Theorem C10_only_known_unlocked : unlocked_names handlers = known_unlocked.
Proof. vm_compute. reflexivity. Qed.
Print Assumptions C10_only_known_unlocked.

(* the plan's C10_handlers_locked, stated so that it follows the constant: today `... = false` (refuted),
   after the repair `forallb locked handlers = true` *)
Theorem C10_handlers_locked : forallb locked handlers = is_nil known_unlocked.
Proof. vm_compute. reflexivity. Qed.
Print Assumptions C10_handlers_locked.

Theorem C10_background_unlocked : unlocked_names background = known_bg_unlocked.
Proof. vm_compute. reflexivity. Qed.
Print Assumptions C10_background_unlocked.

Theorem C10_only_known_split : split_names handlers = known_split.
Proof. vm_compute. reflexivity. Qed.
Print Assumptions C10_only_known_split.

(* every race of the real server involves a goroutine whose body breaks the discipline: handlers outside
   known_unlocked never race with each other *)
Theorem C10_races_blame_unlocked :
  forall msgs s i j ti tj,
    reachable handlers background concurrency msgs s -> race_pair s i j ->
    nth_error (s_pool s) i = Some ti -> nth_error (s_pool s) j = Some tj ->
    unlocked_accs (t_body ti) <> [] \/ unlocked_accs (t_body tj) <> [].
Proof.
  intros msgs s i j ti tj Hr Hrace Hi Hj.
  exact (proj2 (C10_race_needs_unlocked_access handlers background concurrency msgs s i j ti tj
                  tie_bracketed Hr Hrace Hi Hj)).
Qed.
Print Assumptions C10_races_blame_unlocked.

(* THE REAL SERVER, as the translator reads it NOW: no reachable state of the dispatcher has a data race on the
   modelled shared state (every handler and every background goroutine keeps the lock discipline) *)
Theorem C10_real_race_free :
  forall msgs s, reachable handlers background concurrency msgs s -> ~ race s.
Proof. intros msgs s. apply C10_discipline_sound. vm_compute. reflexivity. Qed.
Print Assumptions C10_real_race_free.

Theorem C10_real_no_deadlock :
  forall msgs s, reachable handlers background concurrency msgs s -> complete s = false ->
                 exists l s', step handlers background concurrency l s = Some s'.
Proof.
  intros msgs s Hr Hn. apply (C10_no_deadlock handlers background concurrency msgs s tie_bracketed); auto.
  vm_compute. auto.
Qed.
Print Assumptions C10_real_no_deadlock.

(* every handler that keeps the discipline with at most one critical section and starts no goroutine has the
   simple shape (so C10_serialisable applies to every message list drawn from them) *)
Theorem C10_locked_unsplit_simple :
  forallb (fun h => implb (locked h && Nat.leb (count_locks (hbody h)) 1 && is_nil (spawns_of (hbody h)))
                          (simple_body (hbody h))) handlers = true.
Proof. vm_compute. reflexivity. Qed.
Print Assumptions C10_locked_unsplit_simple.

Theorem C10_real_serialisable :
  forall (St Loc : Type) (exec : nat -> nat -> Loc -> St -> Loc * St) (loc0 : nat -> Loc) (msgs : list msg) (sh0 : St),
    (forall m, In m msgs -> simple_body (body_of handlers background false (m_h m)) = true) ->
    forall ls s sh locs,
      drun handlers background concurrency St Loc exec loc0 ls (dinit St Loc msgs sh0) = Some (s, sh, locs) ->
      complete s = true ->
      exists res,
        serialL St Loc exec loc0 (bodies_of (s_pool s)) (s_log s) sh0 = (sh, res) /\
        (forall k lc, In (k, lc) res -> nth_error locs k = Some lc) /\
        (forall k, k < length msgs -> ~ In k (s_log s) -> nth_error locs k = Some (loc0 k)).
Proof.
  intros St Loc exec loc0 msgs sh0 Hs ls s sh locs Hrun Hc.
  destruct (C10_serialisable handlers background concurrency St Loc exec loc0 msgs sh0 tie_bracketed Hs
              ls s sh locs Hrun Hc) as (res & H1 & H2 & H3 & _).
  exists res. split; [exact H1|]. split; [exact H2|]. intros k Hk Hn. exact (proj1 (H3 k Hk Hn)).
Qed.
Print Assumptions C10_real_serialisable.

(* ----------------------------------------------------------------------- refutations (today's tree) *)
(* indices of the handlers that break the discipline *)
Definition unlocked_idx : list nat :=
  filter (fun h => negb (body_locked handlers background h)) (seq 0 (length handlers)).

(* For EVERY handler that breaks the discipline there is a run of the dispatcher - messages sent the way an LSP client
   sends them (requests with an id, notifications without) - reaching a state with a data race one side of which is
   a goroutine of that handler.  The witness is searched by Dispatch.refute and checked on the final state. *)
Theorem C10_unlocked_refuted :
  forall h, In h unlocked_idx ->
    exists msgs s i j ti,
      reachable handlers background concurrency msgs s /\ race_pair s i j /\
      nth_error (s_pool s) i = Some ti /\ t_h ti = h /\ t_bg ti = false.
Proof.
  intros h Hin. apply refuted_b_sound. revert h Hin. apply forallb_forall. vm_compute. reflexivity.
Qed.
Print Assumptions C10_unlocked_refuted.

(* the telemetry goroutines race with the handlers that write what they read (DESIGN 6 row 14b) *)
Definition bg_unlocked_idx : list nat :=
  filter (fun b => negb (locked_body (body_of handlers background true b))) (seq 0 (length background)).

Theorem C10_background_refuted :
  forall b, In b bg_unlocked_idx ->
    exists msgs s i j ti,
      reachable handlers background concurrency msgs s /\ race_pair s i j /\
      nth_error (s_pool s) i = Some ti /\ t_h ti = b /\ t_bg ti = true.
Proof.
  intros b Hin. apply bg_refuted_b_sound. revert b Hin. apply forallb_forall. vm_compute. reflexivity.
Qed.
Print Assumptions C10_background_refuted.

(* ----------------------------------------------------------------------- non-vacuity of the guards *)
(* the discipline is satisfiable by a non-trivial table: the 9 handlers of the real table that lock and access *)
Example C10_discipline_inhabited :
  let hs := filter (fun h => locked h && takes_lock (hbody h)) handlers in
  forallb locked (hs ++ []) = true /\ 9 <= length hs /\
  existsb (fun h => existsb (fun a => is_wr (snd a)) (all_accs (hbody h))) hs = true.
Proof. vm_compute. repeat split; try reflexivity; repeat constructor. Qed.

(* the hypothesis of C10_serialisable is met by a realistic overlapping history:
   definition, completion, didChange, didSave, signatureHelp, watched files *)
Example C10_serialisable_inhabited :
  forall m, In m (map (msg_of handlers) [6; 16; 2; 3; 12; 20]) ->
            simple_body (body_of handlers background false (m_h m)) = true.
Proof.
  intros m Hin. revert m Hin. apply forallb_forall. vm_compute. reflexivity.
Qed.

(* and that history does have complete runs with real interleaving (two critical sections requested at once) *)
Example C10_overlap_run_exists :
  exists ls s, run handlers background concurrency ls (init (map (msg_of handlers) [6; 2])) = Some s /\
               complete s = true /\ s_log s = [1; 0].
Proof.
  exists ([LDispatch; LStart 0; LDispatch; LStart 1] ++
          repeat (LStep 1) (length (body_of handlers background false 2)) ++ [LFinish 1] ++
          repeat (LStep 0) (length (body_of handlers background false 6)) ++ [LFinish 0])%list.
  eexists. split; [vm_compute; reflexivity|]. split; reflexivity.
Qed.
