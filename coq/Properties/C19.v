(* C19 - symbol outlines list every declaration at its real place, findable by name. *)
From Coq Require Import List NArith ZArith Bool.
From LH Require Import Base.Bytes Base.Res Model.Lexer Model.Ast Model.Symbols Spec.SymbolSpec Proofs.SymbolsWitness.
Import ListNotations.

(* REPAIRED defect (DESIGN 6 row 18, fix: commit 5912ee6): the start column of an entry with children used to be overwritten
   by the largest end column of its children (`local u = { k = 1, g = function() end }`: start after end;
   `t = {}` / `t.v = 1`: range starting after the declaring `t`).  The pre-fix code is kept in the model under
   fx = false; the deployed model is the repaired one. *)
Theorem C19_deployed_is_repaired : deployed_fixed = true.
Proof. reflexivity. Qed.
Print Assumptions C19_deployed_is_repaired.

Theorem C19_range_rewrite_prefix_refuted :
  (exists s, outline_of_bytes false w_local = Some [s] /\
             s_key s = [117%N] /\ s_decl s = mkLoc 1 6 1 7 /\ s_loc s = mkLoc 1 37 1 7 /\
             well_formed (s_loc s) = false /\ contains (s_loc s) (s_decl s) = false) /\
  (exists s, outline_of_bytes false w_global = Some [s] /\
             s_key s = [116%N] /\ s_decl s = mkLoc 1 0 1 1 /\ s_loc s = mkLoc 1 3 2 1 /\
             contains (s_loc s) (s_decl s) = false).
Proof. exact (conj rewrite_local_witness rewrite_global_witness). Qed.
Print Assumptions C19_range_rewrite_prefix_refuted.

(* the two witnesses on the deployed (repaired) code: well-formed ranges that contain the declaring identifier *)
Theorem C19_range_rewrite_repaired :
  (exists s, outline_of_bytes deployed_fixed w_local = Some [s] /\ s_loc s = mkLoc 1 6 1 37 /\
             well_formed (s_loc s) = true /\ contains (s_loc s) (s_decl s) = true) /\
  (exists s, outline_of_bytes deployed_fixed w_global = Some [s] /\ s_loc s = mkLoc 1 0 2 3 /\
             well_formed (s_loc s) = true /\ contains (s_loc s) (s_decl s) = true).
Proof. exact rewrite_witnesses_fixed. Qed.
Print Assumptions C19_range_rewrite_repaired.

(* ====================================================================== round 2: theorems for ALL files
   (proofs: Proofs/SymbolsRange.v, SymbolsLocs.v, SymbolsMerge.v, SymbolsOutline.v; examples: SymbolsExamples.v).
   `outline_of_bytes fx bs` = parse the bytes, run the first-pass analysis model, merge (one-file workspace),
   FindAllSymbol with range rule fx; deployed_fixed = true (the repaired rule). *)
From LH Require Import Model.Parser Model.LuaFront Proofs.SymbolsLocs Proofs.SymbolsOutline Proofs.SymbolsExamples.

(* Layout hypothesis (boolean, on the AST): every Loc of an expression / declared name of the tree is a token span with
   start <= end.  Parser output satisfies it on the witness files and on a file using every declaration form. *)
Example C19_layout_wf_examples :
  map (parsed_ok layout_wf) [w_local; w_global; w_assigned; w_shadow; w_rich; w_before] = [true; true; true; true; true; true].
Proof. exact layout_wf_examples. Qed.

(* every entry (and every child entry) of the outline has start <= end - now also entries WITH children *)
Theorem C19_range_well_formed :
  forall bs b ss s,
    parse_bytes no_gbk classify_tok bs = Ok (PR b [] []) -> layout_wf b = true ->
    outline_of_bytes deployed_fixed bs = Some ss -> In s ss ->
    well_formed (s_loc s) = true /\ forall c, In c (s_children s) -> well_formed (c_loc c) = true.
Proof. exact outline_of_bytes_wf. Qed.
Print Assumptions C19_range_well_formed.

(* the range contains the declaring identifier: full statement (refuted by function-valued assignments, class
   assigned_function_range) and the proved part: every entry / child entry that is not function-valued, for EVERY
   file, no layout hypothesis, with or without children.  What is missing: function-valued entries (for top-level
   `local function` / `function f()` statements see C19_outline_complete_partial below). *)
Definition C19_range_contains_decl_full : Prop :=
  forall bs ss s, outline_of_bytes deployed_fixed bs = Some ss -> In s ss ->
                  contains (s_loc s) (s_decl s) = true /\
                  forall c, In c (s_children s) -> contains (c_loc c) (c_decl c) = true.

Theorem C19_range_contains_decl_partial :
  forall bs ss s,
    outline_of_bytes deployed_fixed bs = Some ss -> In s ss ->
    (s_fn s = false ->
     contains (s_loc s) (s_decl s) = true /\ sl (s_loc s) = sl (s_decl s) /\ sc (s_loc s) = sc (s_decl s)) /\
    (forall c, In c (s_children s) -> c_fn c = false -> contains (c_loc c) (c_decl c) = true).
Proof. exact outline_contains_decl_partial. Qed.
Print Assumptions C19_range_contains_decl_partial.

Theorem C19_range_contains_decl_full_refuted : ~ C19_range_contains_decl_full.
Proof. exact contains_decl_full_refuted. Qed.
Print Assumptions C19_range_contains_decl_full_refuted.

(* children inside the parent's range: full statement, refuted on the model AND on the real server by a member that
   is assigned textually BEFORE the global is defined (`function foo() t.x = 1 end  t = {}`: entry t = 3:0-3:1, child
   t.x = 1:4-1:5); proved part, for EVERY file: only non-function entries have children, the parent starts at its
   declaring identifier, every child ENDS inside the parent, and the parent's end is its own identifier's end or the
   end of one of its children (the range is the smallest one with these properties). Missing: child start >= parent
   start (false in general, see the witness). *)
Definition C19_children_inside_full : Prop :=
  forall bs ss s c, outline_of_bytes deployed_fixed bs = Some ss -> In s ss -> In c (s_children s) ->
                    contains (s_loc s) (c_loc c) = true.

Theorem C19_children_inside_partial :
  forall bs ss s c,
    outline_of_bytes deployed_fixed bs = Some ss -> In s ss -> In c (s_children s) ->
    s_fn s = false /\
    sl (s_loc s) = sl (s_decl s) /\ sc (s_loc s) = sc (s_decl s) /\
    pos_le (el (c_loc c)) (ec (c_loc c)) (el (s_loc s)) (ec (s_loc s)) = true /\
    ((el (s_loc s), ec (s_loc s)) = (el (s_decl s), ec (s_decl s)) \/
     exists c', In c' (s_children s) /\ (el (s_loc s), ec (s_loc s)) = (el (c_loc c'), ec (c_loc c'))).
Proof. exact outline_children_inside_partial. Qed.
Print Assumptions C19_children_inside_partial.

Theorem C19_children_inside_full_refuted : ~ C19_children_inside_full.
Proof. exact children_inside_full_refuted. Qed.
Print Assumptions C19_children_inside_full_refuted.

(* ---------------------------------------------------------------------- completeness of the outline
   (proofs: Proofs/SymbolsSig.v, SymbolsGlobals.v, SymbolsComplete.v).
   Full statement: every declaration of the reference list (Spec/SymbolSpec.v: top-level locals, globals, function
   members) is covered by an entry of the right kind with a well-formed range inside the file that contains one of
   its declaring identifiers.  It fails on the witness files of the open finding classes (assigned_function_range,
   shadowed_top_local; member_* are function members). *)
From LH Require Import Proofs.SymbolsJudge Proofs.SymbolsSig Proofs.SymbolsGlobals Proofs.SymbolsLexical Proofs.SymbolsComplete.

Definition C19_outline_complete_full : Prop :=
  forall bs b st,
    parse_bytes no_gbk classify_tok bs = Ok (PR b [] []) -> analyse (fuel_of_bytes bs) b = Ok st ->
    covers (line_lens bs) (entries_of (find_all_symbol deployed_fixed (finalize st))) (decls_spec (fuel_of_bytes bs) b) = true.

Theorem C19_outline_complete_full_witnesses :
  map full_cover [w_global; w_rich; w_local; w_assigned; w_shadow] = [Some true; Some false; Some false; Some false; Some false].
Proof. exact full_cover_witnesses. Qed.
Print Assumptions C19_outline_complete_full_witnesses.

(* Proved part, for EVERY syntactically valid file (no layout hypothesis).
   * `top_local_last b nm = Some (l, false, ofl)`: the LAST top-level `local` / `local function` declaration of nm in
     the main block declares it at identifier Loc l; ofl = the Loc of the function literal if its value is one
     (`local function f` or `local f = function`).  The outline has a "local" entry nm whose s_decl is l, which is
     function-valued iff the declaration is, and then its range is the function literal's Loc (for a `local function`
     statement that Loc starts at `local`, so it contains the identifier).
   * `asg_block nm b = true`: nm occurs as an assignment target `nm = ...` / `function nm() end` at a place the
     analysis visits (anywhere, any depth; not inside the surplus values of `local a = v1, v2, v3`, which LuaHelper
     never analyses); `chk_block (not_named nm) any_target b = true`: no local, parameter or loop variable of the file
     is named nm, table constructors / if statements have as many values as keys / blocks as conditions (parser
     invariant).  Then the outline has a non-local entry nm.
   * For any boolean predicate pt that holds of (name, identifier Loc, Loc of the function literal if the value at the
     same index is one) for EVERY assignment target `name = value` of the file, pt holds of (s_key, s_decl, range if
     function-valued) of every non-local entry: the entry is located at one of the file's assignment targets of that
     name (for a `function f() end` statement the range is the statement's function Loc, which contains f).
   Missing w.r.t. the full statement: earlier declarations of a re-declared top-level local (class shadowed_top_local),
   globals whose name is also bound as a local / parameter somewhere in the file, function members t.f / t:m (classes
   member_lost, member_of_undeclared, foreign_member), and "inside the file" of the ranges. *)
Theorem C19_outline_complete_partial :
  forall bs b ss,
    parse_bytes no_gbk classify_tok bs = Ok (PR b [] []) -> outline_of_bytes deployed_fixed bs = Some ss ->
    (forall nm l ofl, top_local_last b nm = Some (l, false, ofl) ->
       exists s, In s ss /\ s_local s = true /\ s_key s = nm /\ s_decl s = l /\ s_fn s = is_some ofl /\
                 (forall fl, ofl = Some fl -> s_loc s = fl)) /\
    (forall nm, chk_block (not_named nm) any_target b = true -> asg_block nm b = true ->
       exists s, In s ss /\ s_local s = false /\ s_key s = nm) /\
    (forall pt s, chk_block any_name pt b = true -> In s ss -> s_local s = false -> pt (entry_triple s) = true).
Proof. exact outline_complete_bytes. Qed.
Print Assumptions C19_outline_complete_partial.

(* the guards are satisfiable: w_rich (locals, globals assigned at depth, function statements, methods); p is a
   parameter that is also assigned - the guard excludes it *)
Example C19_outline_complete_guards :
  map (fun nm => parsed_ok (chk_block (not_named nm) any_target) w_rich && parsed_ok (asg_block nm) w_rich)
      [n_q; n_cfg; n_h; n_t; n_p] = [true; true; true; true; false] /\
  parsed_ok (chk_block any_name rich_targets) w_rich = true /\
  top_local_last_of w_rich n_helper = Some (mkLoc 5 15 5 21, false, Some (mkLoc 5 0 11 3)) /\
  top_local_last_of w_rich n_M = Some (mkLoc 1 6 1 7, false, None) /\
  top_local_last_of w_shadow [120%N] = Some (mkLoc 2 6 2 7, false, None).
Proof. exact complete_guard_examples. Qed.

(* ---------------------------------------------------------------------- globals, lexical version
   (proof: Proofs/SymbolsLexical.v, one more induction over the analysis; it uses that nested constructs restore the
   scope frames - SymbolsSig - and that the global table only grows - SymbolsGlobals).
   `asgU_block nm b = true`: nm occurs as an assignment target at a visited place where NO enclosing `local`,
   `local function`, parameter or loop variable named nm is in scope (Lua scoping: a `local` is in scope in the
   statements after it, `local function` also in its own body, `repeat` conditions see the body's locals; one
   pessimistic corner: in `local a, b = e0, e1, ..` the values after the first count as inside the scope of a and b).
   `shp_block b = true`: parser shape (as many table values as keys, as many `if` blocks as conditions).
   This strengthens the second clause of C19_outline_complete_partial from "bound nowhere in the file" to
   "not bound at the place of the assignment" - the reference binder's notion of a global variable. *)
From LH Require Import Proofs.SymbolsLexical.

Theorem C19_outline_globals_lexical :
  forall bs b ss nm,
    parse_bytes no_gbk classify_tok bs = Ok (PR b [] []) -> outline_of_bytes deployed_fixed bs = Some ss ->
    shp_block b = true -> asgU_block nm b = true ->
    exists s, In s ss /\ s_local s = false /\ s_key s = nm.
Proof. exact outline_globals_lexical_bytes. Qed.
Print Assumptions C19_outline_globals_lexical.

(* w_lex: x is a local of f and a global assigned in g - outside the "bound nowhere" guard, inside the lexical one;
   w_rich: p (a parameter that is assigned) and M (a top-level local) are not counted *)
Example C19_outline_globals_lexical_guards :
  parsed_ok shp_block w_lex = true /\ parsed_ok (asgU_block n_x) w_lex = true /\
  parsed_ok (chk_block (not_named n_x) any_target) w_lex = false /\
  parsed_ok shp_block w_rich = true /\
  map (fun nm => parsed_ok (asgU_block nm) w_rich) [n_q; n_cfg; n_h; n_t; n_p; n_M] = [true; true; true; true; false; false] /\
  (exists ss, outline_of_bytes true w_lex = Some ss /\ map s_key ss = [[102%N]; n_x; [103%N]]).
Proof. exact lexical_guard_examples. Qed.

(* ---------------------------------------------------------------------- function statements contain their name
   Complements C19_range_contains_decl_partial on function-valued entries: the entry of the last top-level
   `local function g` (function Loc containing the identifier: a function STATEMENT, not `local g = function`) contains
   its declaring identifier; and in a file whose function-valued `name = value` targets are all function statements
   (boolean guard fn_target_contains: the function's Loc contains the identifier - false exactly for the class
   assigned_function_range) EVERY non-local entry's range contains its declaring identifier. *)
Theorem C19_range_contains_decl_function_statements :
  forall bs b ss,
    parse_bytes no_gbk classify_tok bs = Ok (PR b [] []) -> outline_of_bytes deployed_fixed bs = Some ss ->
    (forall nm l fl, top_local_last b nm = Some (l, false, Some fl) -> contains fl l = true ->
       exists s, In s ss /\ s_local s = true /\ s_key s = nm /\ s_decl s = l /\ s_fn s = true /\
                 contains (s_loc s) (s_decl s) = true) /\
    (forall s, chk_block any_name fn_target_contains b = true -> In s ss -> s_local s = false ->
               contains (s_loc s) (s_decl s) = true).
Proof. exact outline_function_statements. Qed.
Print Assumptions C19_range_contains_decl_function_statements.

Example C19_function_statement_guards :
  parsed_ok (chk_block any_name fn_target_contains) w_fstat = true /\
  parsed_ok (chk_block any_name fn_target_contains) w_assigned = false /\
  top_local_last_of w_fstat [103%N] = Some (mkLoc 2 15 2 16, false, Some (mkLoc 2 0 2 22)).
Proof. exact fn_statement_guard_examples. Qed.

(* ---------------------------------------------------------------------- workspace/symbol, candidate list (partial)
   DESIGN `C19_workspace_exact` (score-assumption -> #perfect <= maxSymbols -> the exact-name query returns an entry at
   the declaration) needs a model of the matcher / sorter / truncation of check_lsp_symbol.go, which Model/Symbols.v
   does not contain (only the per-file candidate collection `file_wsyms`; the answer is compared by correspondence in
   legs c19.wssym / c19.wsbig / c19.score).  Proved part: every lexically global assigned name nm of a file is among the
   candidates of that file, with the exact name nm, located at the identifier of an assignment target `nm = ...` of the
   file (third component as in C19_outline_complete_partial: for any predicate true of all such targets).  Missing: the
   selection step (score nm nm = 1 is maximal, at most maxSymbols perfect matches) and function members t.f / t:m. *)
Theorem C19_workspace_candidate_partial :
  forall bs b st nm,
    parse_bytes no_gbk classify_tok bs = Ok (PR b [] []) -> analyse (fuel_of_bytes bs) b = Ok st ->
    shp_block b = true -> asgU_block nm b = true ->
    exists w, In w (file_wsyms (finalize st)) /\ w_name w = nm /\
              forall pt, chk_block any_name pt b = true -> exists ofl, pt (nm, w_loc w, ofl) = true.
Proof. exact ws_candidate_bytes. Qed.
Print Assumptions C19_workspace_candidate_partial.
