(* C19 - symbol outlines list every declaration at its real place, findable by name. *)
From Coq Require Import List NArith ZArith Bool.
From LH Require Import Base.Bytes Base.Res Model.Lexer Model.Ast Model.Symbols Spec.SymbolSpec Proofs.SymbolsWitness.
Import ListNotations.

(* The outline code is modelled with one flag per repaired defect (Model/Symbols.v, Record fixes; fx_none = the code
   before any repair, fx_round1 = after fix: commit 5912ee6, fx_all = every repair).  The deployed model is fx_all:
     fx_range   DESIGN 6 row 18 (5912ee6): the start column of an entry with children was overwritten by a child's end column
     fx_fnspan  5674eed: an entry whose value is a function literal was reported with the range
                of the literal, which does not contain the declaring identifier
     fx_hull    c9a2516: a member defined before its table lay outside the parent's range
     fx_alldecl 036f9b8: one entry per local NAME (the last declaration) instead of per declaration
     fx_undecl  b639f4b: `function M.f() end` in a file that never defines M had no entry
     fx_ownfile d582d9c: members defined in another file were listed with that file's coordinates
     fx_wsdecl  f53e54d: workspace/symbol looked at the LAST declaration of a local name only
     fx_wsnested 6cf65e9: ... and skipped the bodies of global functions
     fx_wsgmem  ec5aedd: ... and the members of globals defined through `_G.`
   and, in the first-pass analysis (one-line switch Symbols.deep_global_fix, 8e7bd1d): a member
   defined at an outer level than the definition of its global was recorded nowhere.
   fx_round2 = the code after d582d9c, before the last three. *)
Theorem C19_deployed_is_repaired : deployed = fx_all.
Proof. reflexivity. Qed.
Print Assumptions C19_deployed_is_repaired.

(* ---------------------------------------------------------------------- regression witnesses of the repaired defects:
   the old witness under the pre-fix variant of the code, and the same file under the deployed variant *)
Theorem C19_range_rewrite_prefix_refuted :
  (exists s, outline_of_bytes fx_none w_local = Some [s] /\
             s_key s = [117%N] /\ s_decl s = mkLoc 1 6 1 7 /\ s_loc s = mkLoc 1 37 1 7 /\
             well_formed (s_loc s) = false /\ contains (s_loc s) (s_decl s) = false) /\
  (exists s, outline_of_bytes fx_none w_global = Some [s] /\
             s_key s = [116%N] /\ s_decl s = mkLoc 1 0 1 1 /\ s_loc s = mkLoc 1 3 2 1 /\
             contains (s_loc s) (s_decl s) = false).
Proof. exact (conj rewrite_local_witness rewrite_global_witness). Qed.
Print Assumptions C19_range_rewrite_prefix_refuted.

Example C19_range_rewrite_repaired :
  (exists s, outline_of_bytes deployed w_local = Some [s] /\ s_loc s = mkLoc 1 6 1 37 /\
             well_formed (s_loc s) = true /\ contains (s_loc s) (s_decl s) = true) /\
  (exists s, outline_of_bytes deployed w_global = Some [s] /\ s_loc s = mkLoc 1 0 2 3 /\
             well_formed (s_loc s) = true /\ contains (s_loc s) (s_decl s) = true).
Proof. exact rewrite_witnesses_fixed. Qed.

(* `h = function() end`: range of the literal 1:4-1:18 before, Union with the identifier 1:0-1:18 now *)
Theorem C19_assigned_function_prefix_refuted :
  exists s, outline_of_bytes fx_round1 w_assigned = Some [s] /\
            s_key s = [104%N] /\ s_children s = [] /\ s_fn s = true /\
            s_decl s = mkLoc 1 0 1 1 /\ s_loc s = mkLoc 1 4 1 18 /\ contains (s_loc s) (s_decl s) = false.
Proof. exact assigned_function_witness. Qed.
Print Assumptions C19_assigned_function_prefix_refuted.

Example C19_assigned_function_repaired :
  exists s, outline_of_bytes deployed w_assigned = Some [s] /\
            s_key s = [104%N] /\ s_fn s = true /\
            s_decl s = mkLoc 1 0 1 1 /\ s_loc s = mkLoc 1 0 1 18 /\ contains (s_loc s) (s_decl s) = true.
Proof. exact assigned_function_repaired. Qed.

(* `local x = 1` / `local x = 2`: one entry (the second declaration) before, one entry per declaration now *)
Theorem C19_shadowed_prefix_refuted :
  exists s, outline_of_bytes fx_round1 w_shadow = Some [s] /\ s_key s = [120%N] /\ s_decl s = mkLoc 2 6 2 7.
Proof. exact shadowed_witness. Qed.
Print Assumptions C19_shadowed_prefix_refuted.

Example C19_shadowed_repaired :
  exists s1 s2, outline_of_bytes deployed w_shadow = Some [s1; s2] /\
                s_key s1 = [120%N] /\ s_decl s1 = mkLoc 1 6 1 7 /\ s_loc s1 = mkLoc 1 6 1 7 /\
                s_key s2 = [120%N] /\ s_decl s2 = mkLoc 2 6 2 7 /\ s_loc s2 = mkLoc 2 6 2 7.
Proof. exact shadowed_repaired. Qed.

(* ====================================================================== theorems for ALL files
   (proofs: Proofs/SymbolsRange.v, SymbolsLocs.v, SymbolsMerge.v, SymbolsOutline.v; examples: SymbolsExamples.v).
   `outline_of_bytes fx bs` = parse the bytes, run the first-pass analysis model, merge (one-file workspace),
   FindAllSymbol of variant fx; deployed = fx_all. *)
From LH Require Import Model.Parser Model.LuaFront Proofs.SymbolsLocs Proofs.SymbolsRange Proofs.SymbolsOutline Proofs.SymbolsExamples.

(* Layout hypothesis (boolean, on the AST): every Loc of an expression / declared name of the tree is a token span with
   start <= end.  Parser output satisfies it on the witness files and on a file using every declaration form. *)
Example C19_layout_wf_examples :
  map (parsed_ok layout_wf) [w_local; w_global; w_assigned; w_shadow; w_rich; w_before] = [true; true; true; true; true; true].
Proof. exact layout_wf_examples. Qed.

(* every entry (and every child entry) of the outline has start <= end *)
Theorem C19_range_well_formed :
  forall bs b ss s,
    parse_bytes no_gbk classify_tok bs = Ok (PR b [] []) -> layout_wf b = true ->
    outline_of_bytes deployed bs = Some ss -> In s ss ->
    well_formed (s_loc s) = true /\ forall c, In c (s_children s) -> well_formed (c_loc c) = true.
Proof. exact outline_of_bytes_wf. Qed.
Print Assumptions C19_range_well_formed.

(* the range contains the declaring identifier: the FULL statement, for EVERY file, every entry and every child entry,
   function-valued or not, no layout hypothesis.  (It was refuted by function-valued assignments, class
   assigned_function_range, before 5674eed: C19_range_contains_decl_prefix_refuted.) *)
Definition C19_range_contains_decl_full : Prop :=
  forall bs ss s, outline_of_bytes deployed bs = Some ss -> In s ss ->
                  contains (s_loc s) (s_decl s) = true /\
                  forall c, In c (s_children s) -> contains (c_loc c) (c_decl c) = true.

Theorem C19_range_contains_decl : C19_range_contains_decl_full.
Proof. exact outline_contains_decl. Qed.
Print Assumptions C19_range_contains_decl.

Theorem C19_range_contains_decl_prefix_refuted :
  ~ (forall bs ss s, outline_of_bytes fx_round1 bs = Some ss -> In s ss ->
                     contains (s_loc s) (s_decl s) = true /\
                     forall c, In c (s_children s) -> contains (c_loc c) (c_decl c) = true).
Proof. exact contains_decl_prefix_refuted. Qed.
Print Assumptions C19_range_contains_decl_prefix_refuted.

(* children inside the parent's range: the FULL statement, for EVERY file.  (It was refuted on the model AND on the real
   server by a member assigned textually BEFORE the global is defined - `function foo() t.x = 1 end  t = {}`: entry
   t = 3:0-3:1, child t.x = 1:4-1:5 - before c9a2516: C19_children_inside_prefix_refuted.) *)
Definition C19_children_inside_full : Prop :=
  forall bs ss s c, outline_of_bytes deployed bs = Some ss -> In s ss -> In c (s_children s) ->
                    contains (s_loc s) (c_loc c) = true.

Theorem C19_children_inside : C19_children_inside_full.
Proof. exact outline_children_inside. Qed.
Print Assumptions C19_children_inside.

Theorem C19_children_inside_prefix_refuted :
  ~ (forall bs ss s c, outline_of_bytes fx_round1 bs = Some ss -> In s ss -> In c (s_children s) ->
                       contains (s_loc s) (c_loc c) = true).
Proof. exact children_inside_prefix_refuted. Qed.
Print Assumptions C19_children_inside_prefix_refuted.

Example C19_children_inside_repaired :
  exists ss s c, outline_of_bytes deployed w_before = Some ss /\ nth_error ss 1 = Some s /\
                 nth_error (s_children s) 0 = Some c /\
                 s_key s = [116%N] /\ s_decl s = mkLoc 4 0 4 1 /\ s_loc s = mkLoc 2 4 4 1 /\ c_loc c = mkLoc 2 4 2 5 /\
                 contains (s_loc s) (c_loc c) = true /\ contains (s_loc s) (s_decl s) = true.
Proof. exact child_before_parent_repaired. Qed.

(* the ranges are the SMALLEST ones with these two properties, for EVERY file: only entries that are not function-valued
   have children; such an entry starts at the start of its identifier or of one of its children and ends at the end of
   its identifier or of one of its children (without children: it IS the identifier); a child that is not
   function-valued is its identifier; a function-valued entry / child is the Union of the function's Loc and the
   identifier (third clause of C19_outline_complete_partial and `fn_range`). *)
Theorem C19_range_tight :
  forall bs ss s,
    outline_of_bytes deployed bs = Some ss -> In s ss ->
    (forall c, In c (s_children s) -> s_fn s = false /\ (c_fn c = false -> c_loc c = c_decl c)) /\
    (s_fn s = false ->
     ((sl (s_loc s), sc (s_loc s)) = (sl (s_decl s), sc (s_decl s)) \/
      exists c, In c (s_children s) /\ (sl (s_loc s), sc (s_loc s)) = (sl (c_loc c), sc (c_loc c))) /\
     ((el (s_loc s), ec (s_loc s)) = (el (s_decl s), ec (s_decl s)) \/
      exists c, In c (s_children s) /\ (el (s_loc s), ec (s_loc s)) = (el (c_loc c), ec (c_loc c)))).
Proof. exact outline_tight. Qed.
Print Assumptions C19_range_tight.

(* ---------------------------------------------------------------------- completeness of the outline
   (proofs: Proofs/SymbolsSig.v, SymbolsGlobals.v, SymbolsComplete.v).
   Full statement: every declaration of the reference list (Spec/SymbolSpec.v: top-level locals, globals, function
   members) is covered by an entry of the right kind with a well-formed range inside the file that contains one of
   its declaring identifiers.  It now holds on every witness file of the repaired classes and still fails on the
   witness of the open class member_lost (a function-valued member of a function-valued local). *)
From LH Require Import Proofs.SymbolsJudge Proofs.SymbolsSig Proofs.SymbolsGlobals Proofs.SymbolsLexical Proofs.SymbolsComplete.

Definition C19_outline_complete_full : Prop :=
  forall bs b st,
    parse_bytes no_gbk classify_tok bs = Ok (PR b [] []) -> analyse (fuel_of_bytes bs) b = Ok st ->
    covers (line_lens bs) (entries_of (find_all_symbol deployed (finalize st))) (decls_spec (fuel_of_bytes bs) b) = true.

Theorem C19_outline_complete_full_witnesses :
  map (full_cover fx_round1) [w_global; w_rich; w_local; w_assigned; w_shadow; w_before; w_undeclared; w_member_lost] =
    [Some true; Some false; Some false; Some false; Some false; Some true; Some false; Some false] /\
  map (full_cover deployed) [w_global; w_rich; w_local; w_assigned; w_shadow; w_before; w_undeclared; w_member_lost;
                             w_deep_global; w_G_member; w_depth2] =
    [Some true; Some false; Some true; Some true; Some true; Some true; Some true; Some false; Some true; Some true; Some false].
Proof. exact full_cover_witnesses. Qed.
Print Assumptions C19_outline_complete_full_witnesses.

Theorem C19_outline_complete_full_refuted : ~ C19_outline_complete_full.
Proof. exact outline_complete_full_refuted. Qed.
Print Assumptions C19_outline_complete_full_refuted.

(* Proved part, for EVERY syntactically valid file (no layout hypothesis).
   * `In (l, false, ofl) (top_local_decls b nm)`: a top-level `local` / `local function` statement of the main block
     declares nm at identifier Loc l; ofl = the Loc of the function literal if its value is one (`local function f` or
     `local f = function`).  EVERY such declaration (not only the last one of each name - class shadowed_top_local,
     repaired) has its own "local" entry nm whose s_decl is l, function-valued iff the declaration is, and then its
     range is the Union of the function's Loc and the identifier; by C19_range_contains_decl the range contains l.
   * `asg_block nm b = true`: nm occurs as an assignment target `nm = ...` / `function nm() end` / `_G.nm = ...` at a place the
     analysis visits (anywhere, any depth; since fixes/C20-local-surplus.diff also inside the surplus values of
     `local a = v1, v2, v3`, which LuaHelper used not to analyse); `chk_block (not_named nm) any_target b = true`: no local, parameter or loop variable of the file
     is named nm, table constructors / if statements have as many values as keys / blocks as conditions (parser
     invariant).  Then the outline has a non-local entry nm (see C19_outline_globals_lexical for the lexical guard).
   * For any boolean predicate pt that holds of (name, identifier Loc, Loc of the function literal if the value at the
     same index is one) for EVERY assignment target `name = value` / `_G.name = value` (SymbolsGlobals.tgt_sig) of the file, every non-local entry of a defined
     name satisfies `from_target`: pt holds of (s_key, s_decl, ofl) for some ofl, the entry is function-valued iff
     ofl is a literal, and its range is then the Union of that literal and the identifier - the entry is located at
     one of the file's assignment targets of that name (s_undecl marks the container entries of names the file never
     defines, fix b639f4b).
   Missing w.r.t. the full statement: globals whose name is also bound as a local / parameter at the place of every
   assignment (lexical guard), function members t.f / t:m (open class member_lost; for the rest correspondence only),
   and "inside the file" / start <= end of the ranges without the layout hypothesis. *)
Theorem C19_outline_complete_partial :
  forall bs b ss,
    parse_bytes no_gbk classify_tok bs = Ok (PR b [] []) -> outline_of_bytes deployed bs = Some ss ->
    (forall nm l ofl, In (l, false, ofl) (top_local_decls b nm) ->
       exists s, In s ss /\ s_local s = true /\ s_undecl s = false /\ s_key s = nm /\ s_decl s = l /\ s_fn s = is_some ofl /\
                 (forall fl, ofl = Some fl -> s_loc s = loc_union fl l)) /\
    (forall nm, chk_block (not_named nm) any_target b = true -> asg_block nm b = true ->
       exists s, In s ss /\ s_local s = false /\ s_undecl s = false /\ s_key s = nm) /\
    (forall pt s, chk_block any_name pt b = true -> In s ss -> s_local s = false -> s_undecl s = false ->
                  from_target deployed pt s).
Proof. exact outline_complete_bytes. Qed.
Print Assumptions C19_outline_complete_partial.

(* the guards are satisfiable: w_rich (locals, globals assigned at depth, function statements, methods); p is a
   parameter that is also assigned - the guard excludes it; w_shadow: both declarations of x are in the list *)
Example C19_outline_complete_guards :
  map (fun nm => parsed_ok (chk_block (not_named nm) any_target) w_rich && parsed_ok (asg_block nm) w_rich)
      [n_q; n_cfg; n_h; n_t; n_p] = [true; true; true; true; false] /\
  parsed_ok (chk_block any_name rich_targets) w_rich = true /\
  top_local_decls_of w_rich n_helper = [(mkLoc 5 15 5 21, false, Some (mkLoc 5 0 11 3))] /\
  top_local_decls_of w_rich n_M = [(mkLoc 1 6 1 7, false, None)] /\
  top_local_decls_of w_shadow [120%N] = [(mkLoc 1 6 1 7, false, None); (mkLoc 2 6 2 7, false, None)].
Proof. exact complete_guard_examples. Qed.

(* ---------------------------------------------------------------------- the reference list, top-level locals
   (proof: Proofs/SymbolsSpecLink.v).  The first clause of C19_outline_complete_partial stated on the reference
   declaration list of the property itself (Spec/SymbolSpec.v: decls_spec, the list that `covers` / the judge of the
   correspondence legs range over): for EVERY file, every DLocal declaration of the list has an entry of the right
   kind (entry_for: a top-level "local" entry of that name) whose range contains the declaring identifier.  Missing
   for `judge_decl = Covered`: the range is inside the file; start <= end (C19_range_well_formed, layout hypothesis). *)
From LH Require Import Proofs.SymbolsSpecLink.

Theorem C19_outline_covers_locals :
  forall bs b ss d,
    parse_bytes no_gbk classify_tok bs = Ok (PR b [] []) -> outline_of_bytes deployed bs = Some ss ->
    In d (decls_spec (fuel_of_bytes bs) b) -> d_kind d = DLocal ->
    exists e l, In e (entries_of ss) /\ entry_for d e = true /\ d_locs d = [l] /\ contains (e_range e) l = true.
Proof. exact outline_covers_locals. Qed.
Print Assumptions C19_outline_covers_locals.

(* ---------------------------------------------------------------------- globals, lexical version
   (proof: Proofs/SymbolsLexical.v, one more induction over the analysis; it uses that nested constructs restore the
   scope frames - SymbolsSig - and that the global table only grows - SymbolsGlobals).
   `asgU_block nm b = true`: nm occurs as an assignment target at a visited place where NO enclosing `local`,
   `local function`, parameter or loop variable named nm is in scope (Lua scoping: a `local` is in scope in the
   statements after it - NOT in its own values, whatever their number (fixes/C07-multi-local-order.diff,
   C20-local-surplus.diff) -, `local function` also in its own body, `repeat` conditions see the body's locals).
   `shp_block b = true`: parser shape (as many table values as keys, as many `if` blocks as conditions).
   This strengthens the second clause of C19_outline_complete_partial from "bound nowhere in the file" to
   "not bound at the place of the assignment" - the reference binder's notion of a global variable. *)
Theorem C19_outline_globals_lexical :
  forall bs b ss nm,
    parse_bytes no_gbk classify_tok bs = Ok (PR b [] []) -> outline_of_bytes deployed bs = Some ss ->
    shp_block b = true -> asgU_block nm b = true ->
    exists s, In s ss /\ s_local s = false /\ s_undecl s = false /\ s_key s = nm.
Proof. exact outline_globals_lexical_bytes. Qed.
Print Assumptions C19_outline_globals_lexical.

(* w_lex: x is a local of f and a global assigned in g - outside the "bound nowhere" guard, inside the lexical one;
   w_rich: p (a parameter that is assigned) and M (a top-level local) are not counted *)
Example C19_outline_globals_lexical_guards :
  parsed_ok shp_block w_lex = true /\ parsed_ok (asgU_block n_x) w_lex = true /\
  parsed_ok (chk_block (not_named n_x) any_target) w_lex = false /\
  parsed_ok shp_block w_rich = true /\
  map (fun nm => parsed_ok (asgU_block nm) w_rich) [n_q; n_cfg; n_h; n_t; n_p; n_M] = [true; true; true; true; false; false] /\
  (exists ss, outline_of_bytes fx_all w_lex = Some ss /\ map s_key ss = [[102%N]; n_x; [103%N]]).
Proof. exact lexical_guard_examples. Qed.

(* ---------------------------------------------------------------------- files of a workspace
   The state that FindAllSymbol of file i reads in a workspace (Symbols.outline_state: `orig` = the first-pass tables of
   the files, `merged` = after the workspace merge of the "nodefine" members) is, for the deployed code, the merge of
   file i alone: members contributed by other files are skipped (foreign-member repair).  So every theorem above, stated
   for `outline_of_bytes` / `finalize st`, holds for each file of ANY workspace (the driver of leg c19.docsym computes
   the model's answer through outline_state). *)
Theorem C19_outline_own_file :
  forall orig merged i st,
    nth_error orig i = Some st -> outline_state deployed orig merged i = Some (finalize st).
Proof. exact outline_state_own_file. Qed.
Print Assumptions C19_outline_own_file.

(* ---------------------------------------------------------------------- workspace/symbol, candidate list (partial)
   DESIGN `C19_workspace_exact` (score-assumption -> #perfect <= maxSymbols -> the exact-name query returns an entry at
   the declaration) needs a model of the matcher / sorter / truncation of check_lsp_symbol.go, which Model/Symbols.v
   does not contain (only the per-file candidate collection `file_wsyms`; the answer is compared by correspondence in
   legs c19.wssym / c19.wsbig / c19.score).  Proved part: every lexically global assigned name nm of a file is among the
   candidates of that file, with the exact name nm, located at the identifier of an assignment target `nm = ...` of the
   file (third component as in C19_outline_complete_partial: for any predicate true of all such targets).  Missing: the
   selection step (score nm nm = 1 is maximal, at most maxSymbols perfect matches) and function members t.f / t:m. *)
Theorem C19_workspace_candidate_partial :
  forall bs b st nm,
    parse_bytes no_gbk classify_tok bs = Ok (PR b [] []) -> analyse (fuel_of_bytes bs) b = Ok st ->
    shp_block b = true -> asgU_block nm b = true ->
    exists w, In w (file_wsyms deployed (finalize st)) /\ w_name w = nm /\
              forall pt, chk_block any_name pt b = true -> exists ofl, pt (nm, w_loc w, ofl) = true.
Proof. exact (ws_candidate_bytes deployed). Qed.
Print Assumptions C19_workspace_candidate_partial.

(* ====================================================================== round 3: five reported completeness gaps
   (proofs: Proofs/SymbolsWs.v; witnesses by vm_compute on the parsed bytes).
   Reading of the property fixed in Spec/SymbolSpec.v, widened in this round: "every function (including table members
   such as t.f and t:m)" = members at ANY depth (DFunc "N.sub.h"), `_G.n = v` / `function _G.b.k` are declarations of the
   global n / the member b.k; "any global or function declared anywhere in the workspace" = also every function-valued
   `local` declaration at any nesting depth, each declaration separately (DLocalFn). *)
From LH Require Import Proofs.SymbolsWs.

(* the symbol tables' side of the two workspace/symbol repairs, for EVERY state: every function-valued local variable of
   every scope of the file's scope tree (main block, bodies of local AND global functions, of member functions, nested
   blocks; every declaration of a name separately) is a candidate under its own name located at its identifier.
   Missing for the property's clause: that the first pass files each `local function` declaration of the AST under a
   scope of this tree (correspondence on the real server: legs c19.wssym / c19.docsym, cases of kind N), and the
   selection step (matcher, cut at 200). *)
Theorem C19_workspace_local_functions_partial :
  forall s sc nm vs v,
    reach (main_scope s) sc -> In (nm, vs) (s_vars sc) -> In v vs -> is_some (v_func v) = true ->
    In (mkW nm true (v_loc v) false) (file_wsyms deployed s).
Proof. exact ws_local_functions. Qed.
Print Assumptions C19_workspace_local_functions_partial.

(* ... and every member of every global of the file - defined through `_G.` or not - is a candidate <global>.<key>
   located at the member's identifier *)
Theorem C19_workspace_global_members_partial :
  forall s k g mk mv,
    In (k, g) (globs s) -> In (mk, mv) (v_sub g) ->
    In (mkW (k ++ [c_dot] ++ mk) (is_some (v_func mv)) (v_loc mv) false) (file_wsyms deployed s).
Proof. exact ws_global_members. Qed.
Print Assumptions C19_workspace_global_members_partial.

(* both fail for the code before the repairs (fx_round2), on the reported witnesses; the deployed code answers them:
   `local function dup() end  local dup = 5` (only the second declaration before),
   `function gouter() local function inner() end end` (inner never returned),
   `_G.GT = {}  function _G.GT.f() end` (GT.f never returned) *)
Theorem C19_workspace_prefix_refuted :
  (ws_of_bytes fx_round2 w_dup = Some [(n_dup, false, mkLoc 2 6 2 9, false)] /\
   ws_of_bytes deployed w_dup = Some [(n_dup, true, mkLoc 1 15 1 18, false); (n_dup, false, mkLoc 2 6 2 9, false)]) /\
  (ws_of_bytes fx_round2 w_nested = Some [(n_gouter, true, mkLoc 1 9 1 15, false)] /\
   ws_of_bytes deployed w_nested = Some [(n_gouter, true, mkLoc 1 9 1 15, false); (n_inner, true, mkLoc 2 17 2 22, false)]) /\
  (ws_of_bytes fx_round2 w_G_member = Some [(n_GT, false, mkLoc 1 3 1 5, true)] /\
   ws_of_bytes deployed w_G_member = Some [(n_GT, false, mkLoc 1 3 1 5, true); (n_GT_f, true, mkLoc 2 15 2 16, false)]).
Proof. exact (conj ws_redeclared_witness (conj ws_nested_witness ws_G_member_witness)). Qed.
Print Assumptions C19_workspace_prefix_refuted.

(* `function init() Cfg = {} end  init()  function Cfg.load() end`: the member of a global defined at a deeper level
   (former shape (b) of member_lost) is a child entry at its definition and a workspace candidate *)
Example C19_deep_global_repaired :
  (exists ss s c, outline_of_bytes deployed w_deep_global = Some ss /\ nth_error ss 0 = Some s /\ s_children s = [c] /\
                  s_key s = n_Cfg /\ s_decl s = mkLoc 1 16 1 19 /\ s_loc s = mkLoc 1 16 3 23 /\
                  c_key c = n_Cfg_load /\ c_fn c = true /\ c_decl c = mkLoc 3 13 3 17 /\ c_loc c = mkLoc 3 0 3 23) /\
  ws_of_bytes deployed w_deep_global =
    Some [(n_Cfg, false, mkLoc 1 16 1 19, false); (n_Cfg_load, true, mkLoc 3 13 3 17, false); (n_init, true, mkLoc 1 9 1 13, false)].
Proof. exact deep_global_witness. Qed.

(* the two OPEN classes are exact boolean predicates (Proofs/SymbolsJudge.v), extracted into the driver: every deviation of
   the correspondence legs outside them is reported as a VIOLATION (class "unexplained").
     cls_depth2        a DFunc declaration whose key has >= 2 dots (members below the first level: in neither answer)
     cls_member_lost   a first-level DFunc whose table b (a) has a function-valued entry, or (c) already has a child of that
                       key located elsewhere, or (d) is bound as a whole more than once in the file, or (e) is reached
                       through `_G.b.k` while b is also bound as a local / parameter / loop variable
   They are satisfiable and separate the witnesses: *)
Example C19_open_classes_examples :
  map (fun d => (cls_depth2 d, shape_fn_base (hd [] (split_dot (d_key d))) [])) 
      [mkD DFunc [78;46;115;117;98;46;104]%N []; mkD DFunc [104;46;103;101;116]%N []; mkD DGlobal [78]%N []] =
    [(true, false); (false, false); (false, false)] /\
  full_cover deployed w_depth2 = Some false /\ full_cover deployed w_member_lost = Some false /\
  full_cover deployed w_deep_global = Some true /\ full_cover deployed w_G_member = Some true.
Proof. vm_compute. repeat split. Qed.

(* the completeness theorems above (C19_outline_complete_partial second clause, C19_outline_globals_lexical,
   C19_workspace_candidate_partial) now count `_G.nm = v` / `function _G.nm() end` / `_G["nm"] = v` as an assignment to
   the global nm (SymbolsGlobals.g_is): the guards hold on the `_G.` witness, for the global GT defined only through `_G.` *)
Example C19_G_target_guards :
  parsed_ok shp_block w_G_member = true /\ parsed_ok (asgU_block n_GT) w_G_member = true /\
  parsed_ok (chk_block (not_named n_GT) any_target) w_G_member = true /\ parsed_ok (asg_block n_GT) w_G_member = true /\
  (exists ss, outline_of_bytes deployed w_G_member = Some ss /\ map s_key ss = [n_GT] /\
              map s_name ss = [[95;71;46;71;84]%N] /\ map (fun s => map c_key (s_children s)) ss = [[n_GT_f]]).
Proof. vm_compute. repeat split. eexists. repeat split. Qed.
