(* C19 - symbol outlines list every declaration at its real place, findable by name. *)
From Coq Require Import List NArith ZArith Bool.
From LH Require Import Base.Bytes Base.Res Model.Lexer Model.Ast Model.Symbols Spec.SymbolSpec Proofs.SymbolsWitness.
Import ListNotations.

(* CONFIRMED defect (DESIGN 6 row 18): the start column of an entry with children is overwritten by the largest end
   column of its children. `local u = { k = 1, g = function() end }`: start after end; `t = {}` / `t.v = 1`: the range
   starts after the declaring `t`. *)
Theorem C19_range_rewrite_refuted :
  (exists s, outline_of_bytes false w_local = Some [s] /\
             s_key s = [117%N] /\ s_decl s = mkLoc 1 6 1 7 /\ s_loc s = mkLoc 1 37 1 7 /\
             well_formed (s_loc s) = false /\ contains (s_loc s) (s_decl s) = false) /\
  (exists s, outline_of_bytes false w_global = Some [s] /\
             s_key s = [116%N] /\ s_decl s = mkLoc 1 0 1 1 /\ s_loc s = mkLoc 1 3 2 1 /\
             contains (s_loc s) (s_decl s) = false).
Proof. exact (conj rewrite_local_witness rewrite_global_witness). Qed.
Print Assumptions C19_range_rewrite_refuted.
