(* C19 - symbol outlines list every declaration at its real place, findable by name. *)
From Coq Require Import List NArith ZArith Bool.
From LH Require Import Base.Bytes Base.Res Model.Lexer Model.Ast Model.Symbols Spec.SymbolSpec Proofs.SymbolsWitness.
Import ListNotations.

(* REPAIRED defect (DESIGN 6 row 18, fix: commit 5912ee6): the start column of an entry with children used to be overwritten
   by the largest end column of its children (`local u = { k = 1, g = function() end }`: start after end;
   `t = {}` / `t.v = 1`: range starting after the declaring `t`).  The pre-fix code is kept in the model under
   fx = false; the deployed model is the repaired one. *)
Theorem C19_deployed_is_repaired : deployed_fixed = true.
Proof. reflexivity. Qed.
Print Assumptions C19_deployed_is_repaired.

Theorem C19_range_rewrite_prefix_refuted :
  (exists s, outline_of_bytes false w_local = Some [s] /\
             s_key s = [117%N] /\ s_decl s = mkLoc 1 6 1 7 /\ s_loc s = mkLoc 1 37 1 7 /\
             well_formed (s_loc s) = false /\ contains (s_loc s) (s_decl s) = false) /\
  (exists s, outline_of_bytes false w_global = Some [s] /\
             s_key s = [116%N] /\ s_decl s = mkLoc 1 0 1 1 /\ s_loc s = mkLoc 1 3 2 1 /\
             contains (s_loc s) (s_decl s) = false).
Proof. exact (conj rewrite_local_witness rewrite_global_witness). Qed.
Print Assumptions C19_range_rewrite_prefix_refuted.

(* the two witnesses on the deployed (repaired) code: well-formed ranges that contain the declaring identifier *)
Theorem C19_range_rewrite_repaired :
  (exists s, outline_of_bytes deployed_fixed w_local = Some [s] /\ s_loc s = mkLoc 1 6 1 37 /\
             well_formed (s_loc s) = true /\ contains (s_loc s) (s_decl s) = true) /\
  (exists s, outline_of_bytes deployed_fixed w_global = Some [s] /\ s_loc s = mkLoc 1 0 2 3 /\
             well_formed (s_loc s) = true /\ contains (s_loc s) (s_decl s) = true).
Proof. exact rewrite_witnesses_fixed. Qed.
Print Assumptions C19_range_rewrite_repaired.
