(* C11 - rename rewrites exactly the variable's occurrences (DESIGN 5, binder family).
   rename = find-references(mode rename) mapped to TextEdits (textdocument_rename.go:33-48); the edit ranges are the
   reference Locs, the new name is inserted verbatim.  Model / reference as in C06. *)
From Coq Require Import List NArith ZArith Bool.
From LH Require Import Base.Bytes Model.Lexer Model.Ast Model.Scope Model.Globals Model.Resolve Spec.LuaScope
  Proofs.ResolveRun Proofs.ResolveBasics Proofs.ResolveWitness Proofs.ResolveFull Proofs.ResolveFixes Properties.C05.
Import ListNotations.
Local Open Scope N_scope.

(* ---- the full statement: the edit set is exactly the occurrences of the renamed variable (hence disjoint, each
   covering one identifier spelled with the old name, by the layout theorem C04 for the identifier Locs) *)
Definition C11_rename_full : Prop := refs_full_stmt MRename.

(* ---- rename and references are the same computation: for every request the two answers are the same list ... *)
Theorem C11_rename_is_references : forall w f fi n line col,
  references_at MRename w f fi n line col = references_at MRefs w f fi n line col.
Proof. exact rename_is_references. Qed.
Print Assumptions C11_rename_is_references.

Theorem C11_run_rename_is_run_refs : forall files f line col,
  run_refs files MRename f line col = run_refs files MRefs f line col.
Proof. exact run_rename_is_run_refs. Qed.
Print Assumptions C11_run_rename_is_run_refs.

(* ... so the full statement of C11 is equivalent to the full statement of C06 *)
Theorem C11_full_iff_C06_full : C11_rename_full <-> refs_full_stmt MRefs.
Proof. exact rename_full_iff_refs_full. Qed.
Print Assumptions C11_full_iff_C06_full.

(* every edit covers the declaration or an occurrence spelled with the OLD name (never another identifier) *)
Theorem C11_edits_cover_old_name : forall w f fi n line col l,
  In (f, fi) w -> references_at MRename w f fi n line col = Some l ->
  match resolve_at w f fi n line col with
  | TLocal v => forall x, In x l -> x = (f, v_loc v) \/ is_occurrence_of w n x
  | TGlobal F g => forall x, In x l -> x = (F, g_loc g) \/ is_occurrence_of w n x
  | _ => l = []
  end.
Proof. exact (references_shape MRename). Qed.
Print Assumptions C11_edits_cover_old_name.

Theorem C11_refuted_by_one_query : forall files f line col,
  refs_deviates MRename files f line col = true -> ~ C11_rename_full.
Proof. exact (refs_full_refuted_by MRename). Qed.
Print Assumptions C11_refuted_by_one_query.

(* ---- the classes in which the unchanged code deviates *)
(* a.lua: local x = 1\nlocal x = x + 1\n *)
Definition w_B1_own_initialiser : list (list N * list N) :=
  [([97; 46; 108; 117; 97], [108; 111; 99; 97; 108; 32; 120; 32; 61; 32; 49; 10; 108; 111; 99; 97; 108; 32; 120; 32; 61; 32; 120; 32; 43; 32; 49; 10])].
(* B1, FIXED (fixes/C05-own-initialiser.diff): a use of n inside the initialiser list of `local ... n ... = ...` resolved to the
   NEW local when the initialiser node was not a plain name / call / function expression (`local x = 1; local x = x + 1`:
   the x in `x + 1` jumped to line 2); IsCorrectPosition only protected NameExp/FuncCallExp/FuncDefExp initialisers.  The
   declaration now carries the region of its statement's initialiser list (VarInfo.InitLoc) and is invisible from inside it.
   The witness deviates for the code before the repair (`no_fixes`) and no longer for the code in /repo. *)
Theorem C11_B1_own_initialiser_refuted_before_fix : refs_deviates_fx no_fixes w_B1_own_initialiser MRename [97; 46; 108; 117; 97] 1 10 = true.
Proof. vm_compute. reflexivity. Qed.
Print Assumptions C11_B1_own_initialiser_refuted_before_fix.
Theorem C11_B1_own_initialiser_fixed : refs_deviates MRename w_B1_own_initialiser [97; 46; 108; 117; 97] 1 10 = false.
Proof. vm_compute. reflexivity. Qed.
Print Assumptions C11_B1_own_initialiser_fixed.

(* a.lua: local i = 9 for i = i, 10 do end\n *)
Definition w_B2_for_bounds : list (list N * list N) :=
  [([97; 46; 108; 117; 97], [108; 111; 99; 97; 108; 32; 105; 32; 61; 32; 57; 32; 102; 111; 114; 32; 105; 32; 61; 32; 105; 44; 32; 49; 48; 32; 100; 111; 32; 101; 110; 100; 10])].
(* a use of the loop variable's name in the bounds of `for n = ...` / the iterator list of `for n in ...` resolves to the loop variable (`local i = 9 for i = i, 10 do end`) *)
Theorem C11_B2_for_bounds_refuted : refs_deviates MRename w_B2_for_bounds [97; 46; 108; 117; 97] 0 20 = true.
Proof. vm_compute. reflexivity. Qed.
Print Assumptions C11_B2_for_bounds_refuted.

(* a.lua: local a = 0\nlocal a, b = 1, a\nuse(a)\n *)
Definition w_B3_multi_local : list (list N * list N) :=
  [([97; 46; 108; 117; 97], [108; 111; 99; 97; 108; 32; 97; 32; 61; 32; 48; 10; 108; 111; 99; 97; 108; 32; 97; 44; 32; 98; 32; 61; 32; 49; 44; 32; 97; 10; 117; 115; 101; 40; 97; 41; 10])].
(* B3, FIXED (fixes/C07-multi-local-order.diff): `local a, b = e1, e2` added a BEFORE visiting e2: a use of a in e2 was bound
   to the new a by the traversal (references/rename/highlight of either a were wrong).  The witness deviates for the
   code before the repair (`no_fixes`) and no longer for the code now in /repo. *)
Theorem C11_B3_multi_local_refuted_before_fix : refs_deviates_fx no_fixes w_B3_multi_local MRename [97; 46; 108; 117; 97] 0 6 = true.
Proof. vm_compute. reflexivity. Qed.
Print Assumptions C11_B3_multi_local_refuted_before_fix.
Theorem C11_B3_multi_local_fixed : refs_deviates MRename w_B3_multi_local [97; 46; 108; 117; 97] 0 6 = false.
Proof. vm_compute. reflexivity. Qed.
Print Assumptions C11_B3_multi_local_fixed.

(* a.lua: local abc = 1\ndo local abc function abc() end end\nuse(abc)\n *)
Definition w_B4_forward_decl : list (list N * list N) :=
  [([97; 46; 108; 117; 97], [108; 111; 99; 97; 108; 32; 97; 98; 99; 32; 61; 32; 49; 10; 100; 111; 32; 108; 111; 99; 97; 108; 32; 97; 98; 99; 32; 102; 117; 110; 99; 116; 105; 111; 110; 32; 97; 98; 99; 40; 41; 32; 101; 110; 100; 32; 101; 110; 100; 10; 117; 115; 101; 40; 97; 98; 99; 41; 10])].
(* a local declared without value (`local f`, `= nil`) is re-pointed by its first assignment `f = <name|call|function>` (cgAssignStat/IsExpEmpty); afterwards every occurrence of f inside that right-hand side (and the name in `function f()`) fails IsCorrectPosition: definition/hover find nothing, references attribute `function f`'s name to an OUTER variable of the same name (rename then rewrites it) *)
Theorem C11_B4_forward_decl_refuted : refs_deviates MRename w_B4_forward_decl [97; 46; 108; 117; 97] 0 6 = true.
Proof. vm_compute. reflexivity. Qed.
Print Assumptions C11_B4_forward_decl_refuted.

(* a.lua: for i = 1, f(function(yy)\nreturn yy end),\ng(function() end) do end\n *)
Definition w_B5_for_step_order : list (list N * list N) :=
  [([97; 46; 108; 117; 97], [102; 111; 114; 32; 105; 32; 61; 32; 49; 44; 32; 102; 40; 102; 117; 110; 99; 116; 105; 111; 110; 40; 121; 121; 41; 10; 114; 101; 116; 117; 114; 110; 32; 121; 121; 32; 101; 110; 100; 41; 44; 10; 103; 40; 102; 117; 110; 99; 116; 105; 111; 110; 40; 41; 32; 101; 110; 100; 41; 32; 100; 111; 32; 101; 110; 100; 10])].
(* B5, FIXED (fixes/C05-for-step-order.diff): numeric for visited init, STEP, limit: a function scope of the step was stored
   before the function scopes of the limit, FindMinScope's early exit (`subScope.StartLine > line => break`) then never
   reached a function in the limit that starts on an earlier line: its parameters/locals resolved to nothing and were not
   completed.  The witness deviates for the code before the repair (`no_fixes`) and no longer for the code in /repo. *)
Theorem C11_B5_for_step_order_refuted_before_fix : refs_deviates_fx no_fixes w_B5_for_step_order MRename [97; 46; 108; 117; 97] 1 8 = true.
Proof. vm_compute. reflexivity. Qed.
Print Assumptions C11_B5_for_step_order_refuted_before_fix.
Theorem C11_B5_for_step_order_fixed : refs_deviates MRename w_B5_for_step_order [97; 46; 108; 117; 97] 1 8 = false.
Proof. vm_compute. reflexivity. Qed.
Print Assumptions C11_B5_for_step_order_fixed.

(* a.lua: local c = 5\nlocal d = 1, 2, c\nuse(d)\n *)
Definition w_local_surplus : list (list N * list N) :=
  [([97; 46; 108; 117; 97], [108; 111; 99; 97; 108; 32; 99; 32; 61; 32; 53; 10; 108; 111; 99; 97; 108; 32; 100; 32; 61; 32; 49; 44; 32; 50; 44; 32; 99; 10; 117; 115; 101; 40; 100; 41; 10])].
(* unvisited_local_surplus, FIXED (fixes/C20-local-surplus.diff): cgLocalVarDeclStat left its expression loop (`break`)
   after the FIRST initialiser beyond the names of `local a = 1, 2, <here>, <and here>`: the later ones were never
   analysed by any pass - their closures got no scope, the names read there no reference.  `before_surplus` = the code
   of /repo before that repair; the witness deviates there and no longer for the code now in /repo. *)
(* rename of c from its declaration (line 0, column 6) left the read in the third value untouched *)
Theorem C11_local_surplus_refuted_before_fix : refs_deviates_fx before_surplus w_local_surplus MRename [97; 46; 108; 117; 97] 0 6 = true.
Proof. vm_compute. reflexivity. Qed.
Print Assumptions C11_local_surplus_refuted_before_fix.
Theorem C11_local_surplus_fixed : all_in_fragment w_local_surplus = true /\ refs_deviates MRename w_local_surplus [97; 46; 108; 117; 97] 0 6 = false.
Proof. vm_compute. split; reflexivity. Qed.
Print Assumptions C11_local_surplus_fixed.

(* a.lua: local x = 1\nreturn x *)
Definition w_doc_end : list (list N * list N) :=
  [([97; 46; 108; 117; 97], [108; 111; 99; 97; 108; 32; 120; 32; 61; 32; 49; 10; 114; 101; 116; 117; 114; 110; 32; 120])].
(* FIXED (fixes/C05-doc-end.diff): cursor at offset == len(contents) (end of the last identifier of a file without trailing
   newline): definition/references/highlight/rename returned nothing (`offset >= len(contents)`) while hover answered.
   The witness deviates for the code before the repair (`no_fixes`) and no longer for the code now in /repo. *)
Theorem C11_doc_end_refuted_before_fix : refs_deviates_fx no_fixes w_doc_end MRename [97; 46; 108; 117; 97] 1 8 = true.
Proof. vm_compute. reflexivity. Qed.
Print Assumptions C11_doc_end_refuted_before_fix.
Theorem C11_doc_end_fixed : refs_deviates MRename w_doc_end [97; 46; 108; 117; 97] 1 8 = false.
Proof. vm_compute. reflexivity. Qed.
Print Assumptions C11_doc_end_fixed.

(* a.lua: use(zq)\nuse(zq)\n *)
Definition w_undefined_global : list (list N * list N) :=
  [([97; 46; 108; 117; 97], [117; 115; 101; 40; 122; 113; 41; 10; 117; 115; 101; 40; 122; 113; 41; 10])].
(* find-references / rename on a global that is never assigned in the workspace return nothing instead of its occurrences (FindReferences gives up when there is no defining VarInfo) *)
Theorem C11_undefined_global_refuted : refs_deviates MRename w_undefined_global [97; 46; 108; 117; 97] 0 4 = true.
Proof. vm_compute. reflexivity. Qed.
Print Assumptions C11_undefined_global_refuted.

(* a.lua: do g = 1 end\ng = 2\nuse(g)\n *)
Definition w_global_mixed_levels : list (list N * list N) :=
  [([97; 46; 108; 117; 97], [100; 111; 32; 103; 32; 61; 32; 49; 32; 101; 110; 100; 10; 103; 32; 61; 32; 50; 10; 117; 115; 101; 40; 103; 41; 10])].
(* a global assigned at different nesting levels gets several defining entries (`do g = 1 end g = 2`: FindGlobalLimitVar ignores the deeper one); references/rename list only the newest entry's assignment, the other defining assignments are missing *)
Theorem C11_global_mixed_levels_refuted : refs_deviates MRename w_global_mixed_levels [97; 46; 108; 117; 97] 2 4 = true.
Proof. vm_compute. reflexivity. Qed.
Print Assumptions C11_global_mixed_levels_refuted.

(* a.lua: g = 1\nuse(g)\n ## b.lua: use(g)\ng = 2\nuse(g)\n *)
Definition w_split_global : list (list N * list N) :=
  [([97; 46; 108; 117; 97], [103; 32; 61; 32; 49; 10; 117; 115; 101; 40; 103; 41; 10]);
   ([98; 46; 108; 117; 97], [117; 115; 101; 40; 103; 41; 10; 103; 32; 61; 32; 50; 10; 117; 115; 101; 40; 103; 41; 10])].
(* a global assigned in more than one file: references/rename cover only the occurrences of the file whose assignment the query resolves to (symbol identity = file + first defining assignment) - DESIGN 6 row 18b *)
Theorem C11_split_global_refuted : refs_deviates MRename w_split_global [97; 46; 108; 117; 97] 1 4 = true.
Proof. vm_compute. reflexivity. Qed.
Print Assumptions C11_split_global_refuted.

(* a.lua: g = 1\n ## b.lua: g()\n *)
Definition w_same_pos_other_file : list (list N * list N) :=
  [([97; 46; 108; 117; 97], [103; 32; 61; 32; 49; 10]);
   ([98; 46; 108; 117; 97], [103; 40; 41; 10])].
(* FIXED (fixes/C06-same-pos-other-file.diff): references dropped an occurrence in ANOTHER file that sits at the same
   line/column as the definition (ignoreDefineLoc was compared without the file name).  The witness deviates for the
   code before the repair (`no_fixes`) and no longer for the code now in /repo. *)
Theorem C11_same_pos_other_file_refuted_before_fix : refs_deviates_fx no_fixes w_same_pos_other_file MRename [97; 46; 108; 117; 97] 0 0 = true.
Proof. vm_compute. reflexivity. Qed.
Print Assumptions C11_same_pos_other_file_refuted_before_fix.
Theorem C11_same_pos_other_file_fixed : refs_deviates MRename w_same_pos_other_file [97; 46; 108; 117; 97] 0 0 = false.
Proof. vm_compute. reflexivity. Qed.
Print Assumptions C11_same_pos_other_file_fixed.


Theorem C11_rename_full_refuted : ~ C11_rename_full.
Proof. exact (refs_full_refuted_by MRename _ _ _ _ C11_B2_for_bounds_refuted). Qed.
Print Assumptions C11_rename_full_refuted.

(* positive check used by the non-vacuity example: at the start cursor of occurrence o the answer is exactly the set of
   occurrences the reference binder gives the same variable *)
Definition C11_agrees_at (mode : refmode) (files : list (list N * list N)) (f : list N) (o : socc) : bool :=
  match spec_occ files f (line0_of (s_loc o)) (col_of (s_loc o)), run_refs files mode f (line0_of (s_loc o)) (col_of (s_loc o)) with
  | Some o', ALocs l => same_locs l (spec_refs (spec_ws files) f o')
  | _, _ => false
  end.

Example C11_agreeing_example :
  all_in_fragment [(a_lua, src_ok)] = true /\
  forallb (C11_agrees_at MRename [(a_lua, src_ok)] a_lua)
          (filter (fun o => match s_bind o with BLocal _ => true | BGlobal n => negb (Nat.eqb (length (global_writes (spec_ws [(a_lua, src_ok)]) n)) 0) end)
                  (bind_file (chunk_of src_ok))) = true /\
  length (filter (fun o => match s_bind o with BLocal _ => true | BGlobal n => negb (Nat.eqb (length (global_writes (spec_ws [(a_lua, src_ok)]) n)) 0) end)
                  (bind_file (chunk_of src_ok))) = 27%nat.
Proof. vm_compute. repeat split; reflexivity. Qed.

(* ================================================================== positive theorems (agent traverse-bind)
   rename = references (C11_rename_is_references), so the positive theorems of C06 hold verbatim for the edit set.
   Guards as in Properties/C06.v (tb_shape, tr_clean, classA_ok, decl_layout_ok, decl_self_ok: all boolean). *)
From LH Require Import Proofs.TraverseBindDefs Proofs.TraverseBind Proofs.TraverseBindRefs.

(* renaming a LOCAL variable edits its declaration and exactly (as a set) the uses the reference binder binds to it *)
Theorem C11_rename_local_partial : forall P w f name line col v,
  tb_shape P = true -> tr_clean P name = true -> classA_ok (bind_file P) name = true ->
  decl_layout_ok (bind_file P) name (v_loc v) = true ->
  resolve_at w f (analyse P) name line col = TLocal v ->
  exists l', references_at MRename w f (analyse P) name line col = Some ((f, v_loc v) :: l') /\
             forall x, In x l' <-> In x (spec_uses P f (v_loc v)).
Proof. exact (refs_local_classA MRename). Qed.
Print Assumptions C11_rename_local_partial.

Theorem C11_rename_local_same_var_partial : forall P w f name line col v o,
  tb_shape P = true -> tr_clean P name = true -> classA_ok (bind_file P) name = true ->
  decl_layout_ok (bind_file P) name (v_loc v) = true -> decl_self_ok (bind_file P) (v_loc v) = true ->
  resolve_at w f (analyse P) name line col = TLocal v ->
  s_bind o = BLocal (v_loc v) ->
  exists l, references_at MRename w f (analyse P) name line col = Some l /\
            forall x, In x l <-> In x (spec_refs [(f, bind_file P)] f o).
Proof. exact (refs_local_same_var MRename). Qed.
Print Assumptions C11_rename_local_same_var_partial.

(* the statement aimed at (missing: the layout guards from Laid, and C05 for the target) *)
Definition C11_rename_local_full : Prop := forall P w f name line col v o,
  in_fragment P = true -> Laid P -> classA_ok (bind_file P) name = true ->
  resolve_at w f (analyse P) name line col = TLocal v -> s_bind o = BLocal (v_loc v) ->
  exists l, references_at MRename w f (analyse P) name line col = Some l /\
            forall x, In x l <-> In x (spec_refs [(f, bind_file P)] f o).

Example C11_local_guards_nonvacuous :
  let P := chunk_of src_ok in
  tb_shape P = true /\
  forallb (fun s => tr_clean P (s_name s) && classA_ok (bind_file P) (s_name s)
                    && match s_bind s with
                       | BLocal d => decl_layout_ok (bind_file P) (s_name s) d && decl_self_ok (bind_file P) d
                       | BGlobal _ => true
                       end) (bind_file P) = true /\
  length (filter (fun s => match s_bind s with BLocal _ => true | BGlobal _ => false end) (bind_file P)) = 25%nat.
Proof. vm_compute. repeat split; reflexivity. Qed.

(* ---- under the layout hypothesis Laid (see Properties/C06.v: C06_laid_position_clean) *)
From LH Require Import Proofs.TraverseBindLaid Proofs.TraverseBindSpecLaid Proofs.TraverseBindFinal.

Theorem C11_rename_local_laid_partial : forall P W w f name line col v o,
  in_fragment P = true -> tb_shape P = true -> laid_b W P = true ->
  classA_ok (bind_file P) name = true ->
  resolve_at w f (analyse P) name line col = TLocal v ->
  In o (bind_file P) -> s_name o = name -> s_bind o = BLocal (v_loc v) ->
  exists l, references_at MRename w f (analyse P) name line col = Some l /\
            forall x, In x l <-> In x (spec_refs [(f, bind_file P)] f o).
Proof. exact (refs_local_final MRename). Qed.
Print Assumptions C11_rename_local_laid_partial.

(* ================================================================== composition (agent c12-compose)
   Proofs/ComposeBind*.v; guards as in Properties/C06.v (bind_guard, occ_guard, occ_request_guard, request_guard):
   the C05 hypotheses of C11_rename_local_laid_partial discharged with C05_define_local_partial, then lifted to whole
   rename requests over file bytes.  Missing for C11_rename_full: globals, the refuted classes, ident_at from the lexer. *)
From LH Require Import Proofs.PositionBindWitness Proofs.ComposeBind Proofs.ComposeBindText Proofs.ComposeBindRun.

(* model level: at every cursor column of an occurrence that Lua binds to a local declaration, rename edits exactly
   (as a set, without repetition) the binder's occurrences of that variable *)
Theorem C11_rename_local_closed_model : forall W P w f o d col,
  bind_guard W P = true -> In o (bind_file P) -> occ_guard P o = true -> s_bind o = BLocal d ->
  (sc (s_loc o) <= col <= ec (s_loc o))%Z ->
  exists l, references_at MRename w f (analyse P) (s_name o) (sl (s_loc o)) col = Some l /\
            (forall x, In x l <-> In x (spec_refs [(f, bind_file P)] f o)) /\
            NoDup l /\ NoDup (spec_refs [(f, bind_file P)] f o).
Proof. exact (refs_local_closed MRename). Qed.
Print Assumptions C11_rename_local_closed_model.

(* request level = the statement of C11_rename_full restricted to local variables and the guard *)
Theorem C11_rename_local_partial_closed : forall W files f line col o d l,
  occ_request_guard W files f o = true -> spec_occ files f line col = Some o -> s_bind o = BLocal d ->
  run_refs files MRename f line col = ALocs l -> same_locs l (spec_refs (spec_ws files) f o) = true.
Proof. exact (refs_request_closed_occ MRename). Qed.
Print Assumptions C11_rename_local_partial_closed.

Theorem C11_rename_local_answers : forall W files f line col o d,
  occ_request_guard W files f o = true -> spec_occ files f line col = Some o -> s_bind o = BLocal d ->
  exists l, run_refs files MRename f line col = ALocs l /\ forall x, In x l <-> In x (spec_refs (spec_ws files) f o).
Proof. exact (refs_request_answers_occ MRename). Qed.
Print Assumptions C11_rename_local_answers.

Theorem C11_rename_local_partial_closed_file : forall W files f line col o d l,
  request_guard W files f = true -> spec_occ files f line col = Some o -> s_bind o = BLocal d ->
  run_refs files MRename f line col = ALocs l -> same_locs l (spec_refs (spec_ws files) f o) = true.
Proof. exact (refs_request_closed MRename). Qed.
Print Assumptions C11_rename_local_partial_closed_file.

Example C11_closed_guard_nonvacuous :
  request_guard 1000 [(a_lua, src_ok)] a_lua = true /\ request_guard 1000 [(a_lua, src_core)] a_lua = true /\
  request_guard 1000 [(a_lua, src_ok); (b_lua, src_core)] b_lua = true /\
  length (filter (fun s => match s_bind s with BLocal _ => true | BGlobal _ => false end) (bind_file (chunk_of src_core))) = 36%nat.
Proof. vm_compute. repeat split; reflexivity. Qed.

(* ================================================================== wide fragment (agent wide-fragment)
   see Properties/C05.v / C06.v: rename on `_G.name` and on names inside tables / index / method expressions stays the
   references computation; decided on wide programs by the leg c11.wide. *)
From LH Require Import Model.ResolveWide Spec.LuaScopeWide Proofs.WideNarrow Proofs.WideRun.

Theorem C11_wide_rename_is_references : forall g w f fi n line col,
  references_at_wide MRename g w f fi n line col = references_at_wide MRefs g w f fi n line col.
Proof. exact rename_is_references_wide. Qed.
Print Assumptions C11_wide_rename_is_references.

Theorem C11_wide_run_rename_narrow : forall files f line0 col,
  all_in_fragment files = true -> all_text_ok files = true ->
  answers_agree (run_refs_wide files MRename f line0 col) (run_refs files MRename f line0 col).
Proof. exact (fun files => run_refs_wide_narrow files MRename). Qed.
Print Assumptions C11_wide_run_rename_narrow.

Example C11_wide_witness :
  run_refs_wide w_wide MRename a_lua 2 7 = run_refs_wide w_wide MRefs a_lua 2 7 /\
  ans_is (run_refs_wide w_wide MRename a_lua 2 7) [g_def; (a_lua, mk_loc 3 7 3 8); (a_lua, mk_loc 5 30 5 31)] = true.
Proof. vm_compute. split; reflexivity. Qed.
