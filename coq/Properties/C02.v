(* C02 - the server's copy of an open document always equals the client's text.
   Only statements closed by `exact` + Print Assumptions live here (and vm_compute witnesses of the refutations).

   Model/TextSync.v is parameterised by fx: fx = false is the code in /repo, fx = true the code after the proposed
   repair work/fixes/C02-utf16-crlf.diff.  The main theorems are stated for both at once with the guard
   `text_ok fx d = fx || (no_astral d && no_lone_cr d)`, which is vacuous for fx = true. *)
From Coq Require Import List NArith Bool.
From LH Require Import Base.Bytes Base.Res Base.Utf8 Model.TextSync Spec.LspText
                       Proofs.TextSyncScan Proofs.TextSyncHistory
                       Model.TextSyncUri Spec.LspTextUri Proofs.TextSyncUriKey Proofs.TextSyncUriHistory.
Import ListNotations.
Local Open Scope N_scope.

(* ------------------------------------------------------------------ full statements (what the property demands) *)
(* every range of every valid UTF-8 document is resolved to the byte offsets the LSP reading gives *)
Definition C02_offset_full (fx : bool) : Prop :=
  forall d r i j, forallb scalar d = true -> range_index d r = Some (i, j) ->
    offset_gen fx (utf8_of d) r = OffOk (blen (firstn (N.to_nat i) d)) (blen (firstn (N.to_nat j) d)).

(* after every conformant history the cache holds, for every document, exactly the client's text *)
Definition C02_sync_full (fx : bool) : Prop :=
  forall ns, conformant ns = true ->
    exists s, run fx empty_cache (map enc_note ns) = Ok s /\ forall d, s d = enc_cache (client ns) d.

(* no conformant change is ever rejected (a rejected change is dropped with a log line: the cache stays stale) *)
Definition C02_never_silently_stale_full (fx : bool) : Prop :=
  forall ns, conformant ns = true -> stale fx ns = false.

(* ------------------------------------------------------------------ the specification is well formed *)
(* the table of positions of a document is strictly increasing both in line:character and in the index denoted:
   a position denotes at most one index, different positions denote different indexes, and start <= end as
   positions iff start <= end as indexes *)
Theorem C02_spec_positions_increasing : forall d, Sorted.StronglySorted entry_lt (positions d false 0 0 0).
Proof. exact (fun d => positions_increasing d false 0 0 0). Qed.
Print Assumptions C02_spec_positions_increasing.

(* ------------------------------------------------------------------ proved: both variants, under the class guard *)
Theorem C02_offset_agrees_gen : forall fx d r i j,
  forallb scalar d = true -> text_ok fx d = true -> range_index d r = Some (i, j) ->
  offset_gen fx (utf8_of d) r = OffOk (blen (firstn (N.to_nat i) d)) (blen (firstn (N.to_nat j) d)).
Proof. exact offset_agrees. Qed.
Print Assumptions C02_offset_agrees_gen.

(* the code in /repo: valid UTF-8, no astral code point, no lone CR, a range of the document *)
Theorem C02_offset_agrees : forall d r i j,
  forallb scalar d = true -> no_astral d = true -> no_lone_cr d = true -> range_index d r = Some (i, j) ->
  offset_for_start_end (utf8_of d) r = OffOk (blen (firstn (N.to_nat i) d)) (blen (firstn (N.to_nat j) d)).
Proof. exact offset_agrees_deployed. Qed.
Print Assumptions C02_offset_agrees.

Theorem C02_sync_history : forall fx ns,
  conformant ns = true -> class_ok fx ns = true ->
  exists s, run fx empty_cache (map enc_note ns) = Ok s /\ forall d, s d = enc_cache (client ns) d.
Proof. exact sync_history. Qed.
Print Assumptions C02_sync_history.

(* the code in /repo, guard phrased with the class predicates the correspondence driver reports *)
Theorem C02_sync_history_deployed : forall ns,
  conformant ns = true -> astral ns = false -> lone_cr ns = false ->
  exists s, run false empty_cache (map enc_note ns) = Ok s /\ forall d, s d = enc_cache (client ns) d.
Proof. exact sync_history_deployed. Qed.
Print Assumptions C02_sync_history_deployed.

Theorem C02_never_silently_stale_partial : forall fx ns,
  conformant ns = true -> class_ok fx ns = true -> stale fx ns = false.
Proof. exact never_rejected. Qed.
Print Assumptions C02_never_silently_stale_partial.

(* ------------------------------------------------------------------ proved: the repaired code meets the full statements *)
Theorem C02_offset_fixed : C02_offset_full true.
Proof. exact offset_agrees_fixed. Qed.
Print Assumptions C02_offset_fixed.

Theorem C02_sync_history_fixed : C02_sync_full true.
Proof. exact sync_history_fixed. Qed.
Print Assumptions C02_sync_history_fixed.

Theorem C02_never_silently_stale_fixed : C02_never_silently_stale_full true.
Proof. exact never_rejected_fixed. Qed.
Print Assumptions C02_never_silently_stale_fixed.

(* ------------------------------------------------------------------ refuted for the code in /repo (fx = false) *)
(* vocabulary (Spec/LspText.v): ins l c t = insertion of t at l:c; server_text fx ns d / client_text ns d = text of
   document d after history ns on the server (model) / on the client (spec), as UTF-8.
   astral_witness = open "a\U0001F600b", the client inserts X at 0:3 (between the emoji and b) *)
Theorem C02_astral_refuted :
  conformant astral_witness = true /\ astral astral_witness = true /\ lone_cr astral_witness = false /\
  stale false astral_witness = false /\
  server_text false astral_witness 0 = Some (utf8_of [97; 128512; 98; 88]) /\
  client_text astral_witness 0 = Some (utf8_of [97; 128512; 88; 98]).
Proof. repeat split; vm_compute; reflexivity. Qed.
Print Assumptions C02_astral_refuted.

(* "a\rb": position 1:0 is offset 2 for the client and an error for the server *)
Theorem C02_lone_cr_refuted :
  forallb scalar [97; 13; 98] = true /\ no_astral [97; 13; 98] = true /\ no_lone_cr [97; 13; 98] = false /\
  spec_offsets [97; 13; 98] (mkrange (mkpos 1 0) (mkpos 1 0)) = Some (2, 2) /\
  offset_for_start_end (utf8_of [97; 13; 98]) (mkrange (mkpos 1 0) (mkpos 1 0)) = OffErr (EFirst 0).
Proof. repeat split; vm_compute; reflexivity. Qed.
Print Assumptions C02_lone_cr_refuted.

(* the same document in a history: the conformant insertion at 1:0 is rejected and the cache keeps the old text *)
(* stale_witness = open "a\rb", insert X at 1:0 *)
Theorem C02_stale_refuted :
  conformant stale_witness = true /\ stale false stale_witness = true /\
  server_text false stale_witness 0 = Some (utf8_of [97; 13; 98]) /\
  client_text stale_witness 0 = Some (utf8_of [97; 13; 88; 98]).
Proof. repeat split; vm_compute; reflexivity. Qed.
Print Assumptions C02_stale_refuted.

Theorem C02_full_statements_refuted :
  ~ C02_offset_full false /\ ~ C02_sync_full false /\ ~ C02_never_silently_stale_full false.
Proof.
  split; [|split].
  - intros H. specialize (H [97; 13; 98] (mkrange (mkpos 1 0) (mkpos 1 0)) 2 2 eq_refl eq_refl).
    vm_compute in H. discriminate.
  - intros H. destruct (H astral_witness eq_refl) as (s & Hrun & Hs).
    specialize (Hs 0). vm_compute in Hrun. injection Hrun as <-. vm_compute in Hs. discriminate.
  - intros H. specialize (H stale_witness eq_refl). vm_compute in H. discriminate.
Qed.
Print Assumptions C02_full_statements_refuted.

(* the same three witnesses are handled as the LSP demands by the repaired code *)
Theorem C02_witnesses_repaired :
  server_text true astral_witness 0 = client_text astral_witness 0 /\
  server_text true stale_witness 0 = client_text stale_witness 0 /\
  offset_for_start_end_fixed (utf8_of [97; 13; 98]) (mkrange (mkpos 1 0) (mkpos 1 0)) = OffOk 2 2.
Proof. repeat split; vm_compute; reflexivity. Qed.
Print Assumptions C02_witnesses_repaired.

(* ------------------------------------------------------------------ the guards are satisfiable by non-trivial input *)
(* "local s = \"中é\"\r\nx\tÿ\r\n" (CRLF, CJK, 2-byte, TAB): a range from 0:12 to 1:3 *)
Example C02_offset_guard_inhabited :
  let d := [108; 111; 99; 97; 108; 32; 115; 32; 61; 32; 20013; 233; 13; 10; 120; 9; 255; 13; 10] in
  forallb scalar d = true /\ no_astral d = true /\ no_lone_cr d = true /\
  range_index d (mkrange (mkpos 0 12) (mkpos 1 3)) = Some (12, 17) /\
  offset_for_start_end (utf8_of d) (mkrange (mkpos 0 12) (mkpos 1 3)) = OffOk 15 21.
Proof. repeat split; vm_compute; reflexivity. Qed.

(* a three-edit history on a CRLF/CJK document, a second document, a multi-change batch, save and close *)
Example C02_history_guard_inhabited :
  let ns := [DidOpen 0 [120; 61; 20013; 13; 10; 121; 61; 233; 13; 10];
             DidChange 0 [ins 1 3 [25991]];
             DidOpen 1 [];
             DidChange 0 [mkchange (Some (mkrange (mkpos 0 2) (mkpos 1 0))) 3 [49; 10]; ins 2 0 [122; 13; 10]];
             DidChange 1 [ins 0 0 [97]; mkchange None 0 [8364; 9; 98]];
             DidSave 0 (Some [120; 61; 49; 10; 121; 61; 233; 25991; 13; 10; 122; 13; 10]);
             DidClose 1] in
  conformant ns = true /\ class_ok false ns = true /\ astral ns = false /\ lone_cr ns = false /\
  client_text ns 0 = Some (utf8_of [120; 61; 49; 10; 121; 61; 233; 25991; 13; 10; 122; 13; 10]) /\
  server_text false ns 0 = client_text ns 0 /\ server_text false ns 1 = None.
Proof. repeat split; vm_compute; reflexivity. Qed.

(* the position table of the specification on a document with all three line ends and an astral character *)
Example C02_spec_positions_example :
  positions [97; 128512; 13; 10; 98; 13; 99; 10] false 0 0 0 =
  [(0, 0, 0); (0, 1, 1); (0, 3, 2); (1, 0, 4); (1, 1, 5); (2, 0, 6); (2, 1, 7); (3, 0, 8)].
Proof. vm_compute; reflexivity. Qed.

(* ================================================================== documents are named by URIs
   Model/TextSyncUri.v: every handler first turns the URI into the cache key (pathpre.VscodeURIToString: prefix
   removed, percent-decoded, backslash -> slash); the cache is keyed by that key, so two URIs with one key share one
   entry.  Variants: ux = false decodes with url.QueryUnescape ('+' -> ' '), ux = true with url.PathUnescape (repair
   fixes/C02-uri-plus.diff); sx = false: didSave without text is a nil dereference, sx = true: it keeps the cached
   text (repair fixes/C02-didsave-nil-text.diff).  Spec/LspTextUri.v: the client keeps one text per URI;
   `canonical raw prefix u` = u is the prefix followed by a path in which the bytes of `raw` stand for themselves and
   every other byte is %XX in upper-case hex (what a percent-encoder with unreserved set `raw` produces).
   usync_statement fx ux sx prefix ns = the server runs the history without a fault, holds for every URI used in ns
   exactly the client's text for that URI, and holds nothing under any other key. *)

(* ------------------------------------------------------------------ full statement *)
Definition C02_uri_sync_full (fx ux sx : bool) : Prop :=
  forall raw prefix ns, forallb (canonical raw prefix) (uris ns) = true -> uconformant ux prefix ns = true ->
    usync_statement fx ux sx prefix ns /\ ustale fx ux sx prefix ns = false.

(* ------------------------------------------------------------------ the decode *)
(* the repaired decode is injective on canonical URIs, whatever the client's unreserved set is *)
Theorem C02_uri_key_injective : forall raw prefix u1 u2,
  canonical raw prefix u1 = true -> canonical raw prefix u2 = true ->
  uri_key true prefix u1 = uri_key true prefix u2 -> u1 = u2.
Proof. exact key_injective_canonical. Qed.
Print Assumptions C02_uri_key_injective.

(* `canonical` is what an encoder produces: for every path (bytes, no backslash) the encoded URI is canonical and
   the repaired decode gives the path back *)
Theorem C02_uri_encode_canonical : forall raw prefix k,
  raw_ok raw = true -> bytes_ok k = true -> no_bs k = true ->
  canonical raw prefix (prefix ++ encode_path raw k) = true /\
  uri_key true prefix (prefix ++ encode_path raw k) = k.
Proof. exact encode_canonical. Qed.
Print Assumptions C02_uri_encode_canonical.

(* which prefix the server removes is decided once, by InitialRootURIAndPath(rootURI, rootPath) (init_prefix ux cur
   rootURI rootPath = the prefix afterwards): for a root directory k (bytes, non-empty, no backslash) and the root URI
   file:// ++ encoding of k, the repaired code finds "file://" - the prefix under which the keys of the documents are
   their paths *)
Theorem C02_uri_root_prefix : forall raw cur k,
  raw_ok raw = true -> bytes_ok k = true -> no_bs k = true -> k <> [] ->
  init_prefix true cur (prefix2 ++ encode_path raw k) k = prefix2.
Proof. exact init_prefix_canonical. Qed.
Print Assumptions C02_uri_root_prefix.

(* before the repair a '+' in the root directory is enough to miss it (root /home/a+b, root URI as vscode-uri spells
   it: file:///home/a%2Bb): the prefix stays "file:///" and every key loses its leading slash *)
Theorem C02_uri_root_prefix_refuted :
  let k := [47; 104; 111; 109; 101; 47; 97; 43; 98] in
  prefix2 ++ encode_path raw_unreserved k = prefix2 ++ [47; 104; 111; 109; 101; 47; 97; 37; 50; 66; 98] /\
  init_prefix false prefix3 (prefix2 ++ encode_path raw_unreserved k) k = prefix3 /\
  init_prefix true prefix3 (prefix2 ++ encode_path raw_unreserved k) k = prefix2 /\
  uri_key false prefix3 (prefix2 ++ encode_path raw_unreserved (k ++ [47; 109; 46; 108; 117; 97])) =
    [104; 111; 109; 101; 47; 97; 43; 98; 47; 109; 46; 108; 117; 97] /\
  (* and a root directory /w/100% (root URI file:///w/100%25): the root PATH is not a URI *)
  init_prefix false prefix3 (prefix2 ++ encode_path raw_unreserved [47; 119; 47; 49; 48; 48; 37]) [47; 119; 47; 49; 48; 48; 37] = prefix3 /\
  init_prefix true prefix3 (prefix2 ++ encode_path raw_unreserved [47; 119; 47; 49; 48; 48; 37]) [47; 119; 47; 49; 48; 48; 37] = prefix2.
Proof. repeat split; vm_compute; reflexivity. Qed.
Print Assumptions C02_uri_root_prefix_refuted.

(* ------------------------------------------------------------------ histories: all variants, under the guards *)
Theorem C02_uri_sync_history : forall fx ux sx prefix ns,
  uconformant ux prefix ns = true -> uclass_ok fx ns = true -> save_ok sx ns = true ->
  inj_on ux prefix (uris ns) = true ->
  usync_statement fx ux sx prefix ns /\ ustale fx ux sx prefix ns = false.
Proof. exact usync_history. Qed.
Print Assumptions C02_uri_sync_history.

(* ------------------------------------------------------------------ the repaired code meets the full statement *)
Theorem C02_uri_sync_fixed : C02_uri_sync_full true true true.
Proof. exact usync_history_fixed. Qed.
Print Assumptions C02_uri_sync_fixed.

(* ------------------------------------------------------------------ refuted for the code before the two repairs *)
(* uri_plus = file:///dir/a+b.lua, uri_space = file:///dir/a%20b.lua: canonical (RFC 3986 pchar), different, one key
   under QueryUnescape; plus_witness = open uri_plus "x", open uri_space "y": the text held for uri_plus is "y" *)
Theorem C02_uri_plus_refuted :
  canonical raw_pchar prefix2 uri_plus = true /\ canonical raw_pchar prefix2 uri_space = true /\
  beq_bytes uri_plus uri_space = false /\
  uri_key false prefix2 uri_plus = uri_key false prefix2 uri_space /\
  uri_key true prefix2 uri_plus = [47; 100; 105; 114; 47; 97; 43; 98; 46; 108; 117; 97] /\
  uri_key false prefix2 uri_plus = [47; 100; 105; 114; 47; 97; 32; 98; 46; 108; 117; 97] /\
  uconformant false prefix2 plus_witness = true /\ inj_on false prefix2 (uris plus_witness) = false /\
  userver_text true false true prefix2 plus_witness uri_plus = Some [121] /\
  uclient_text plus_witness uri_plus = Some [120] /\
  userver_text true true true prefix2 plus_witness uri_plus = uclient_text plus_witness uri_plus.
Proof. repeat split; vm_compute; reflexivity. Qed.
Print Assumptions C02_uri_plus_refuted.

(* save_nil_witness = open uri_plus "x", didSave uri_plus without text *)
Theorem C02_didsave_nil_refuted :
  uconformant true prefix2 save_nil_witness = true /\ save_nil save_nil_witness = true /\
  urun true true false prefix2 kempty (map enc_unote save_nil_witness) = Fault NilDeref /\
  userver_text true true true prefix2 save_nil_witness uri_plus = uclient_text save_nil_witness uri_plus /\
  uclient_text save_nil_witness uri_plus = Some [120].
Proof. repeat split; vm_compute; reflexivity. Qed.
Print Assumptions C02_didsave_nil_refuted.

Theorem C02_uri_full_statements_refuted :
  ~ C02_uri_sync_full true false true /\ ~ C02_uri_sync_full true true false.
Proof.
  split.
  - intros H. destruct (H raw_pchar prefix2 plus_witness eq_refl eq_refl) as [(s & Hrun & Hs & _) _].
    specialize (Hs uri_plus (or_introl eq_refl)). vm_compute in Hrun. injection Hrun as <-.
    vm_compute in Hs. discriminate.
  - intros H. destruct (H raw_pchar prefix2 save_nil_witness eq_refl eq_refl) as [(s & Hrun & _) _].
    vm_compute in Hrun. discriminate.
Qed.
Print Assumptions C02_uri_full_statements_refuted.

(* ------------------------------------------------------------------ the number-keyed model is an instance *)
(* Model/TextSync.v (documents = numbers; the theorems above the line) is the URI-keyed model under any naming of
   the numbers by URIs that the decode keeps apart (before the didSave repair) *)
Theorem C02_number_model_refines : forall fx ux prefix name,
  (forall d1 d2, uri_key ux prefix (name d1) = uri_key ux prefix (name d2) -> d1 = d2) ->
  (forall d, is_lua d = is_lua_key (uri_key ux prefix (name d))) ->
  forall ns,
  match run fx empty_cache ns, urun fx ux false prefix kempty (map (lift_note name) ns) with
  | Ok s', Ok ks' => forall d, ks' (uri_key ux prefix (name d)) = s' d
  | Fault a, Fault b => a = b
  | OutOfFuel, OutOfFuel => True
  | _, _ => False
  end.
Proof. exact run_refines_empty. Qed.
Print Assumptions C02_number_model_refines.

(* ------------------------------------------------------------------ the guards are satisfiable by non-trivial input *)
(* file:///w/a+b.lua, file:///w/a%20b.lua, file:///w/%E4%B8%AD.lua; two documents open at once whose names differ
   only in '+' / %20, a range edit with a CJK character, didSave without text, a full replacement, close, didSave
   with text *)
Example C02_uri_guard_inhabited :
  let w := prefix2 ++ [47; 119; 47] in
  let u1 := w ++ [97; 43; 98; 46; 108; 117; 97] in
  let u2 := w ++ [97; 37; 50; 48; 98; 46; 108; 117; 97] in
  let u3 := w ++ [37; 69; 52; 37; 66; 56; 37; 65; 68; 46; 108; 117; 97] in
  let ns := [UOpen u1 [120; 61; 49]; UOpen u2 [121]; UChange u1 [ins 0 3 [20013]]; USave u1 None;
             UOpen u3 []; UChange u2 [mkchange None 0 [122; 13; 10]]; UClose u2; USave u3 (Some [])] in
  forallb (canonical raw_pchar prefix2) (uris ns) = true /\ uconformant true prefix2 ns = true /\
  inj_on true prefix2 (uris ns) = true /\ inj_on false prefix2 (uris ns) = false /\ save_nil ns = true /\
  uri_key true prefix2 u3 = [47; 119; 47; 228; 184; 173; 46; 108; 117; 97] /\
  uclient_text ns u1 = Some [120; 61; 49; 228; 184; 173] /\
  userver_text true true true prefix2 ns u1 = uclient_text ns u1 /\
  userver_text true true true prefix2 ns u2 = None /\ userver_text true true true prefix2 ns u3 = Some [].
Proof. repeat split; vm_compute; reflexivity. Qed.

(* the vscode-uri spelling of the same first name (only unreserved characters raw: '+' is %2B) is canonical for
   raw_unreserved; the two raw sets do not mix: a+b.lua is not canonical for raw_unreserved *)
Example C02_uri_canonical_vscode :
  let u := prefix2 ++ [47; 119; 47; 97; 37; 50; 66; 98; 46; 108; 117; 97] in
  canonical raw_unreserved prefix2 u = true /\ canonical raw_pchar prefix2 u = false /\
  canonical raw_unreserved prefix2 uri_plus = false /\
  uri_key true prefix2 u = [47; 119; 47; 97; 43; 98; 46; 108; 117; 97] /\
  prefix2 ++ encode_path raw_unreserved [47; 119; 47; 97; 43; 98; 46; 108; 117; 97] = u.
Proof. repeat split; vm_compute; reflexivity. Qed.
