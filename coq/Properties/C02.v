(* C02 - the server's copy of an open document always equals the client's text.
   Only statements closed by `exact` + Print Assumptions live here (and vm_compute witnesses of the refutations).

   Model/TextSync.v is parameterised by fx: fx = false is the code in /repo, fx = true the code after the proposed
   repair work/fixes/C02-utf16-crlf.diff.  The main theorems are stated for both at once with the guard
   `text_ok fx d = fx || (no_astral d && no_lone_cr d)`, which is vacuous for fx = true. *)
From Coq Require Import List NArith Bool.
From LH Require Import Base.Bytes Base.Res Base.Utf8 Model.TextSync Spec.LspText
                       Proofs.TextSyncScan Proofs.TextSyncHistory.
Import ListNotations.
Local Open Scope N_scope.

(* ------------------------------------------------------------------ full statements (what the property demands) *)
(* every range of every valid UTF-8 document is resolved to the byte offsets the LSP reading gives *)
Definition C02_offset_full (fx : bool) : Prop :=
  forall d r i j, forallb scalar d = true -> range_index d r = Some (i, j) ->
    offset_gen fx (utf8_of d) r = OffOk (blen (firstn (N.to_nat i) d)) (blen (firstn (N.to_nat j) d)).

(* after every conformant history the cache holds, for every document, exactly the client's text *)
Definition C02_sync_full (fx : bool) : Prop :=
  forall ns, conformant ns = true ->
    exists s, run fx empty_cache (map enc_note ns) = Ok s /\ forall d, s d = enc_cache (client ns) d.

(* no conformant change is ever rejected (a rejected change is dropped with a log line: the cache stays stale) *)
Definition C02_never_silently_stale_full (fx : bool) : Prop :=
  forall ns, conformant ns = true -> stale fx ns = false.

(* ------------------------------------------------------------------ the specification is well formed *)
(* the table of positions of a document is strictly increasing both in line:character and in the index denoted:
   a position denotes at most one index, different positions denote different indexes, and start <= end as
   positions iff start <= end as indexes *)
Theorem C02_spec_positions_increasing : forall d, Sorted.StronglySorted entry_lt (positions d false 0 0 0).
Proof. exact (fun d => positions_increasing d false 0 0 0). Qed.
Print Assumptions C02_spec_positions_increasing.

(* ------------------------------------------------------------------ proved: both variants, under the class guard *)
Theorem C02_offset_agrees_gen : forall fx d r i j,
  forallb scalar d = true -> text_ok fx d = true -> range_index d r = Some (i, j) ->
  offset_gen fx (utf8_of d) r = OffOk (blen (firstn (N.to_nat i) d)) (blen (firstn (N.to_nat j) d)).
Proof. exact offset_agrees. Qed.
Print Assumptions C02_offset_agrees_gen.

(* the code in /repo: valid UTF-8, no astral code point, no lone CR, a range of the document *)
Theorem C02_offset_agrees : forall d r i j,
  forallb scalar d = true -> no_astral d = true -> no_lone_cr d = true -> range_index d r = Some (i, j) ->
  offset_for_start_end (utf8_of d) r = OffOk (blen (firstn (N.to_nat i) d)) (blen (firstn (N.to_nat j) d)).
Proof. exact offset_agrees_deployed. Qed.
Print Assumptions C02_offset_agrees.

Theorem C02_sync_history : forall fx ns,
  conformant ns = true -> class_ok fx ns = true ->
  exists s, run fx empty_cache (map enc_note ns) = Ok s /\ forall d, s d = enc_cache (client ns) d.
Proof. exact sync_history. Qed.
Print Assumptions C02_sync_history.

(* the code in /repo, guard phrased with the class predicates the correspondence driver reports *)
Theorem C02_sync_history_deployed : forall ns,
  conformant ns = true -> astral ns = false -> lone_cr ns = false ->
  exists s, run false empty_cache (map enc_note ns) = Ok s /\ forall d, s d = enc_cache (client ns) d.
Proof. exact sync_history_deployed. Qed.
Print Assumptions C02_sync_history_deployed.

Theorem C02_never_silently_stale_partial : forall fx ns,
  conformant ns = true -> class_ok fx ns = true -> stale fx ns = false.
Proof. exact never_rejected. Qed.
Print Assumptions C02_never_silently_stale_partial.

(* ------------------------------------------------------------------ proved: the repaired code meets the full statements *)
Theorem C02_offset_fixed : C02_offset_full true.
Proof. exact offset_agrees_fixed. Qed.
Print Assumptions C02_offset_fixed.

Theorem C02_sync_history_fixed : C02_sync_full true.
Proof. exact sync_history_fixed. Qed.
Print Assumptions C02_sync_history_fixed.

Theorem C02_never_silently_stale_fixed : C02_never_silently_stale_full true.
Proof. exact never_rejected_fixed. Qed.
Print Assumptions C02_never_silently_stale_fixed.

(* ------------------------------------------------------------------ refuted for the code in /repo (fx = false) *)
(* vocabulary (Spec/LspText.v): ins l c t = insertion of t at l:c; server_text fx ns d / client_text ns d = text of
   document d after history ns on the server (model) / on the client (spec), as UTF-8.
   astral_witness = open "a\U0001F600b", the client inserts X at 0:3 (between the emoji and b) *)
Theorem C02_astral_refuted :
  conformant astral_witness = true /\ astral astral_witness = true /\ lone_cr astral_witness = false /\
  stale false astral_witness = false /\
  server_text false astral_witness 0 = Some (utf8_of [97; 128512; 98; 88]) /\
  client_text astral_witness 0 = Some (utf8_of [97; 128512; 88; 98]).
Proof. repeat split; vm_compute; reflexivity. Qed.
Print Assumptions C02_astral_refuted.

(* "a\rb": position 1:0 is offset 2 for the client and an error for the server *)
Theorem C02_lone_cr_refuted :
  forallb scalar [97; 13; 98] = true /\ no_astral [97; 13; 98] = true /\ no_lone_cr [97; 13; 98] = false /\
  spec_offsets [97; 13; 98] (mkrange (mkpos 1 0) (mkpos 1 0)) = Some (2, 2) /\
  offset_for_start_end (utf8_of [97; 13; 98]) (mkrange (mkpos 1 0) (mkpos 1 0)) = OffErr (EFirst 0).
Proof. repeat split; vm_compute; reflexivity. Qed.
Print Assumptions C02_lone_cr_refuted.

(* the same document in a history: the conformant insertion at 1:0 is rejected and the cache keeps the old text *)
(* stale_witness = open "a\rb", insert X at 1:0 *)
Theorem C02_stale_refuted :
  conformant stale_witness = true /\ stale false stale_witness = true /\
  server_text false stale_witness 0 = Some (utf8_of [97; 13; 98]) /\
  client_text stale_witness 0 = Some (utf8_of [97; 13; 88; 98]).
Proof. repeat split; vm_compute; reflexivity. Qed.
Print Assumptions C02_stale_refuted.

Theorem C02_full_statements_refuted :
  ~ C02_offset_full false /\ ~ C02_sync_full false /\ ~ C02_never_silently_stale_full false.
Proof.
  split; [|split].
  - intros H. specialize (H [97; 13; 98] (mkrange (mkpos 1 0) (mkpos 1 0)) 2 2 eq_refl eq_refl).
    vm_compute in H. discriminate.
  - intros H. destruct (H astral_witness eq_refl) as (s & Hrun & Hs).
    specialize (Hs 0). vm_compute in Hrun. injection Hrun as <-. vm_compute in Hs. discriminate.
  - intros H. specialize (H stale_witness eq_refl). vm_compute in H. discriminate.
Qed.
Print Assumptions C02_full_statements_refuted.

(* the same three witnesses are handled as the LSP demands by the repaired code *)
Theorem C02_witnesses_repaired :
  server_text true astral_witness 0 = client_text astral_witness 0 /\
  server_text true stale_witness 0 = client_text stale_witness 0 /\
  offset_for_start_end_fixed (utf8_of [97; 13; 98]) (mkrange (mkpos 1 0) (mkpos 1 0)) = OffOk 2 2.
Proof. repeat split; vm_compute; reflexivity. Qed.
Print Assumptions C02_witnesses_repaired.

(* ------------------------------------------------------------------ the guards are satisfiable by non-trivial input *)
(* "local s = \"中é\"\r\nx\tÿ\r\n" (CRLF, CJK, 2-byte, TAB): a range from 0:12 to 1:3 *)
Example C02_offset_guard_inhabited :
  let d := [108; 111; 99; 97; 108; 32; 115; 32; 61; 32; 20013; 233; 13; 10; 120; 9; 255; 13; 10] in
  forallb scalar d = true /\ no_astral d = true /\ no_lone_cr d = true /\
  range_index d (mkrange (mkpos 0 12) (mkpos 1 3)) = Some (12, 17) /\
  offset_for_start_end (utf8_of d) (mkrange (mkpos 0 12) (mkpos 1 3)) = OffOk 15 21.
Proof. repeat split; vm_compute; reflexivity. Qed.

(* a three-edit history on a CRLF/CJK document, a second document, a multi-change batch, save and close *)
Example C02_history_guard_inhabited :
  let ns := [DidOpen 0 [120; 61; 20013; 13; 10; 121; 61; 233; 13; 10];
             DidChange 0 [ins 1 3 [25991]];
             DidOpen 1 [];
             DidChange 0 [mkchange (Some (mkrange (mkpos 0 2) (mkpos 1 0))) 3 [49; 10]; ins 2 0 [122; 13; 10]];
             DidChange 1 [ins 0 0 [97]; mkchange None 0 [8364; 9; 98]];
             DidSave 0 (Some [120; 61; 49; 10; 121; 61; 233; 25991; 13; 10; 122; 13; 10]);
             DidClose 1] in
  conformant ns = true /\ class_ok false ns = true /\ astral ns = false /\ lone_cr ns = false /\
  client_text ns 0 = Some (utf8_of [120; 61; 49; 10; 121; 61; 233; 25991; 13; 10; 122; 13; 10]) /\
  server_text false ns 0 = client_text ns 0 /\ server_text false ns 1 = None.
Proof. repeat split; vm_compute; reflexivity. Qed.

(* the position table of the specification on a document with all three line ends and an astral character *)
Example C02_spec_positions_example :
  positions [97; 128512; 13; 10; 98; 13; 99; 10] false 0 0 0 =
  [(0, 0, 0); (0, 1, 1); (0, 3, 2); (1, 0, 4); (1, 1, 5); (2, 0, 6); (2, 1, 7); (3, 0, 8)].
Proof. vm_compute; reflexivity. Qed.
