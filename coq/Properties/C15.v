(* C15 - annotated types give a variable exactly its declared and inherited members
   (and the class-traversal part of C01: cyclic aliases / inheritance never hang or crash).
   Only statements closed by `exact` (+ vm_compute witnesses) and Print Assumptions live here.

   Model: Model/Classes.v (getAllNormalAnnotateClass with strMap + repeatTypeList, GetBestCreateTypeInfo,
   GetAllArrayType/GetAllTableType/GetAllTableKeyType, symbolHasSubKey).  Spec: Spec/ClassClosure.v.
   Both defects found in round 1 are repaired in /repo and the DEPLOYED model (class_list, model_members, complete_at,
   define_at, ...) is the repaired code: alias resolution with a visited set (fix 83efc56, c15_fixed_variant) and the
   class lookup that takes every declaration of a name (fix 53b8e25, c15_split_fixed).  The pre-fix behaviours stay
   available as `..._v false` and carry the refutations and the round-1 guarded theorems (`*_before`, `*_unfixed`). *)
From Coq Require Import List NArith Bool Permutation.
From LH Require Import Base.Res Model.Classes Spec.ClassClosure
     Proofs.ClassesTotal Proofs.ClassesClosure Proofs.ClassesElem Proofs.ClassesSpecExec Proofs.ClassesPaths.
Import ListNotations.
Local Open Scope N_scope.

(* ------------------------------------------------------------------ full statement *)
(* members = closure, for every workspace of distinct definitions, every type, from every file and line.
   `fx` selects the lookup of getClassTypeInfoList: false = the code before fix 53b8e25 (only the single
   "best" declaration of the referring file), true = the repaired code (best first, then all the others);
   the deployed model (model_members = model_members_v c15_split_fixed) is the repaired one. *)
Definition C15_members_full_for (fx : bool) : Prop :=
  forall tm t f l, wf_tm tm -> forall x, In x (model_members_v fx tm t f l) <-> members_spec tm t x.

Definition C15_members_full : Prop :=
  forall tm t f l, wf_tm tm -> forall x, In x (model_members tm t f l) <-> members_spec tm t x.

(* ------------------------------------------------------------------ T1: the closure theorem, FULL (no guard) *)
(* Cycles, diamonds, self-parents, alias-of-alias, alias as parent, undeclared names, classes split across files
   and referred to from a file that declares one part: all included. *)
Theorem C15_members_full_proved : C15_members_full.
Proof. exact members_full. Qed.
Print Assumptions C15_members_full_proved.

Theorem C15_members_eq_closure :
  forall tm t f l, wf_tm tm ->
    forall x, In x (model_members tm t f l) <-> members_spec tm t x.
Proof. exact members_full. Qed.
Print Assumptions C15_members_eq_closure.

(* the deployed model is the repaired variant *)
Theorem C15_deployed_is_repaired : C15_members_full <-> C15_members_full_for true.
Proof. split; intros H; exact H. Qed.
Print Assumptions C15_deployed_is_repaired.

(* the code before the fix satisfied the statement only under the guard shadow_free (no multiply-declared name is
   referred to from a file that declares it): the round-1 theorem, kept for the pre-fix variant *)
Theorem C15_members_eq_closure_before :
  forall tm t f l, wf_tm tm -> shadow_free tm t f = true ->
    forall x, In x (model_members_v false tm t f l) <-> members_spec tm t x.
Proof. exact members_eq_closure_before. Qed.
Print Assumptions C15_members_eq_closure_before.

(* without any guard the traversal never invents a member (either variant) *)
Theorem C15_members_sound :
  forall tm t f l x, In x (model_members tm t f l) -> members_spec tm t x.
Proof. exact members_sound. Qed.
Print Assumptions C15_members_sound.

Theorem C15_members_sound_before :
  forall tm t f l x, In x (model_members_v false tm t f l) -> members_spec tm t x.
Proof. exact (members_v_sound false). Qed.
Print Assumptions C15_members_sound_before.

(* every class the traversal returns is reachable / every reachable class is returned
   (the statement behind go-to-definition on a member: the first returned class having the field) *)
Theorem C15_classes_sound :
  forall tm fuel t f l o, class_list fuel tm t f l = Ok o -> forall d, In d o -> reachable_def tm t d.
Proof. exact class_list_sound. Qed.
Print Assumptions C15_classes_sound.

Theorem C15_classes_complete :
  forall tm, wf_tm tm ->
    forall fuel t f l o,
      class_list fuel tm t f l = Ok o ->
      forall d, reachable_def tm t d -> is_class d -> In d o.
Proof. exact class_list_complete. Qed.
Print Assumptions C15_classes_complete.

Theorem C15_classes_complete_before :
  forall tm, wf_tm tm ->
    (forall d n, In d tm -> In n (refs_of d) -> ref_ok tm (d_file d) n = true) ->
    forall fuel t f l o, (forall n, In n (normal_names t) -> ref_ok tm f n = true) ->
      class_list_v false fuel tm t f l = Ok o ->
      forall d, reachable_def tm t d -> is_class d -> In d o.
Proof. exact class_list_complete_before. Qed.
Print Assumptions C15_classes_complete_before.

(* consequences of the full statement: the member set depends neither on the place of the annotation (file, line)
   nor on the order in which the alternatives of a union type are written *)
Theorem C15_members_place_free :
  forall tm t f l f' l', wf_tm tm ->
    forall x, In x (model_members tm t f l) <-> In x (model_members tm t f' l').
Proof. exact members_place_free. Qed.
Print Assumptions C15_members_place_free.

Theorem C15_union_order_free :
  forall tm ts ts' f l, wf_tm tm -> Permutation ts ts' ->
    forall x, In x (model_members tm (TMulti ts) f l) <-> In x (model_members tm (TMulti ts') f l).
Proof. exact union_order_free. Qed.
Print Assumptions C15_union_order_free.

(* the two observables of the property's text, whole, for the deployed model:
   member completion after `v.` offers exactly the closure ... *)
Theorem C15_complete_full :
  forall tm t f l, wf_tm tm ->
    exists o, complete_at tm (t, f, l) [] = Ok o /\ forall x, In x o <-> members_spec tm t x.
Proof. exact complete_full. Qed.
Print Assumptions C15_complete_full.

(* ... and go-to-definition on `v.k` lands on a ---@field k line of a class declaration of the closure whenever
   the closure has a member k, and finds no field only when it has none *)
Theorem C15_define_full :
  forall tm t f l k, wf_tm tm ->
    (exists loc, define_at tm (t, f, l) [] k = Ok (Some loc) /\ define_spec tm t k loc) \/
    (define_at tm (t, f, l) [] k = Ok None /\ forall loc, ~ define_spec tm t k loc).
Proof. exact define_full. Qed.
Print Assumptions C15_define_full.

(* ------------------------------------------------------------------ termination (also cited by C01) *)
(* = C01_class_closure_terminates: no hypothesis on the workspace at all *)
Theorem C15_terminates :
  forall tm t f l, exists o, class_list (fuel_of tm) tm t f l = Ok o.
Proof. exact class_list_terminates. Qed.
Print Assumptions C15_terminates.

Theorem C15_terminates_before :
  forall tm t f l, exists o, class_list_v false (fuel_of tm) tm t f l = Ok o.
Proof. exact (fun tm => class_list_v_terminates tm false). Qed.
Print Assumptions C15_terminates_before.

(* ------------------------------------------------------------------ the repaired defect: split class seen from a declaring file *)
(* class T10 declared in file 0 (field 40) and in file 1 (field 41); a variable of type T10 declared in file 0
   did not get field 41: GetBestCreateTypeInfo's single "best" declaration of the own file was taken alone.
   Finding C15-split-class-shadowed, fix 53b8e25. *)
Definition shadow_tm : tmap :=
  [ mkDef 0 10 0 3 (DClass [] [mkField 40 3 (TMulti [TName 3])]);
    mkDef 1 10 1 7 (DClass [] [mkField 41 7 (TMulti [TName 3])]) ].

Theorem C15_shadow_repaired :
  wf_tm shadow_tm /\ shadow_free shadow_tm (TMulti [TName 10]) 0 = false /\
  members_spec shadow_tm (TMulti [TName 10]) 41 /\
  ~ In 41 (model_members_v false shadow_tm (TMulti [TName 10]) 0 5) /\      (* before the fix *)
  In 41 (model_members shadow_tm (TMulti [TName 10]) 0 5).                   (* deployed *)
Proof.
  split; [repeat constructor; simpl; intuition discriminate|].
  split; [vm_compute; reflexivity|]. split; [|split].
  - exists (mkDef 1 10 1 7 (DClass [] [mkField 41 7 (TMulti [TName 3])])). split.
    + exists 10, 10. split; [left; reflexivity|]. split; [apply Relation_Operators.rt_refl|].
      vm_compute. right. left. reflexivity.
    + left. reflexivity.
  - vm_compute. intuition discriminate.
  - vm_compute. tauto.
Qed.
Print Assumptions C15_shadow_repaired.

(* regression on the old witness: both halves, the declaration of the own file first *)
Example C15_shadow_regression :
  model_members shadow_tm (TMulti [TName 10]) 0 5 = [40; 41] /\
  model_members shadow_tm (TMulti [TName 10]) 1 9 = [41; 40] /\
  model_members shadow_tm (TMulti [TName 10]) 2 1 = [40; 41].
Proof. vm_compute. repeat split. Qed.

(* the full statement was false for the code before the fix *)
Theorem C15_members_full_refuted_before : ~ C15_members_full_for false.
Proof.
  intros H. destruct C15_shadow_repaired as [Hwf [_ [Hs [Hn _]]]].
  apply Hn. apply (H shadow_tm (TMulti [TName 10]) 0 5 Hwf 41). exact Hs.
Qed.
Print Assumptions C15_members_full_refuted_before.

(* the same mechanism together with the name-visited map made a union type order dependent:
   alias T11 = T10 lives in file 0 beside one half of class T10, alias T12 = T10 in file 2;
   `T11 | T12` offered field 40 only, `T12 | T11` offered 40 and 41.  Repaired by the same fix
   (in general: C15_union_order_free). *)
Definition union_tm : tmap :=
  [ mkDef 0 10 0 3 (DClass [] [mkField 40 3 (TMulti [TName 3])]);
    mkDef 1 11 0 5 (DAlias (TMulti [TName 10]));
    mkDef 2 10 1 9 (DClass [] [mkField 41 9 (TMulti [TName 3])]);
    mkDef 3 12 2 12 (DAlias (TMulti [TName 10])) ].

Theorem C15_union_order_repaired :
  wf_tm union_tm /\
  (In 41 (model_members_v false union_tm (TMulti [TName 12; TName 11]) 2 14) /\      (* before the fix *)
   ~ In 41 (model_members_v false union_tm (TMulti [TName 11; TName 12]) 2 14)) /\
  (In 41 (model_members union_tm (TMulti [TName 12; TName 11]) 2 14) /\              (* deployed *)
   In 41 (model_members union_tm (TMulti [TName 11; TName 12]) 2 14)).
Proof.
  split; [repeat constructor; simpl; intuition discriminate|].
  split; split; vm_compute; intuition discriminate.
Qed.
Print Assumptions C15_union_order_repaired.

Example C15_union_regression :
  model_members union_tm (TMulti [TName 11; TName 12]) 2 14 = [40; 41] /\
  model_members union_tm (TMulti [TName 12; TName 11]) 2 14 = [40; 41].
Proof. vm_compute. split; reflexivity. Qed.

(* ------------------------------------------------------------------ element / value / key type through aliases *)
(* = C01_alias_cycle_refuted: { T10 -> alias T11 ; T11 -> alias T10 }: none of GetAllArrayType, GetAllTableType,
   GetAllTableKeyType ever returns, whatever the stack size (fuel) *)
Theorem C15_elem_type_refuted :
  exists tm t f, wf_tm tm /\
    forall leaf fuel, resolve leaf tm fuel t f = OutOfFuel.
Proof.
  exists cyc_tm, (TMulti [TName 10]), 0. split; [repeat constructor; simpl; intuition discriminate|].
  intros leaf fuel. exact (proj1 (alias_cycle_never_returns leaf fuel)).
Qed.
Print Assumptions C15_elem_type_refuted.

(* the class predicate of the known finding is exact: it holds iff the unchanged code recurses for ever *)
Theorem C15_cyclic_alias_exact :
  forall leaf tm, wf_tm tm -> forall t f,
    cyclic_alias leaf tm t f = true <-> forall fuel, resolve leaf tm fuel t f = OutOfFuel.
Proof. exact cyclic_alias_exact. Qed.
Print Assumptions C15_cyclic_alias_exact.

(* outside that class the code terminates within fuel_of tm alias jumps and returns what the spec derives *)
Theorem C15_elem_type_noncyclic :
  forall leaf tm t f r, cyclic_alias leaf tm t f = false ->
    (resolve leaf tm (fuel_of tm) t f = Ok r <-> elem_rel leaf tm t f r).
Proof. exact acyclic_terminates. Qed.
Print Assumptions C15_elem_type_noncyclic.

(* T1: stratified alias declarations (a rank decreasing along "alias mentions name") are never in the class *)
Theorem C15_acyclic_never_cyclic :
  forall leaf tm, wf_tm tm -> forall t f, acyclic_alias tm -> cyclic_alias leaf tm t f = false.
Proof. exact acyclic_alias_no_cycle. Qed.
Print Assumptions C15_acyclic_never_cyclic.

Corollary C15_elem_type_acyclic :
  forall leaf tm, wf_tm tm -> acyclic_alias tm -> forall t f r,
    (resolve leaf tm (fuel_of tm) t f = Ok r <-> elem_rel leaf tm t f r).
Proof.
  intros leaf tm Hwf Ha t f r. apply acyclic_terminates.
  apply acyclic_alias_no_cycle; assumption.
Qed.
Print Assumptions C15_elem_type_acyclic.

(* what the model variant of the code before fix 83efc56 (resolve_model_v false) prints is tied to the faithful
   recursion: Ok r iff the code returns r, OutOfFuel (printed as `CRASH stack-overflow`) iff the code never returns *)
Theorem C15_model_decides_unfixed :
  forall leaf tm, wf_tm tm -> forall t f,
    (forall r, resolve_model_v false leaf tm t f = Ok r <-> resolve leaf tm (fuel_of tm) t f = Ok r) /\
    (resolve_model_v false leaf tm t f = OutOfFuel <-> forall fuel, resolve leaf tm fuel t f = OutOfFuel) /\
    (forall k, resolve_model_v false leaf tm t f <> Fault k).
Proof. exact resolve_model_unfixed. Qed.
Print Assumptions C15_model_decides_unfixed.

(* ------------------------------------------------------------------ one indexing step: `v[1].` / `v.k.` (k no member) *)
(* before fix 83efc56 (complete_at_v false), outside the cyclic class: after an index the members of the element type
   the specification derives (array element first, else table value), and nothing when there is none *)
Theorem C15_index_step_members :
  forall tm t f l,
    cyclic_alias leaf_arr tm t f = false -> cyclic_alias leaf_val tm t f = false ->
    exists r, index_rel tm t f r /\
      complete_at_v false tm (t, f, l) [None] = Ok (match r with Some e => model_members tm e f l | None => [] end).
Proof. exact index_step_members. Qed.
Print Assumptions C15_index_step_members.

Theorem C15_index_step_closure :
  forall tm t f l, wf_tm tm ->
    cyclic_alias leaf_arr tm t f = false -> cyclic_alias leaf_val tm t f = false ->
    exists r o, index_rel tm t f r /\ complete_at_v false tm (t, f, l) [None] = Ok o /\
      match r with
      | Some e => forall x, In x o <-> members_spec tm e x
      | None => o = []
      end.
Proof. exact index_step_closure. Qed.
Print Assumptions C15_index_step_closure.

(* ------------------------------------------------------------------ the prepared fix (visited-set variant) *)
(* unguarded termination: cyclic aliases included *)
Theorem C15_fixed_terminates :
  forall leaf tm t f, exists r, resolve_fx leaf tm (fuel_of tm) [] t f = Ok r.
Proof. exact resolve_fx_total. Qed.
Print Assumptions C15_fixed_terminates.

(* correctness: whatever the specification derives, the fixed variant returns *)
Theorem C15_fixed_correct :
  forall leaf tm, wf_tm tm -> forall t f r,
    elem_rel leaf tm t f r -> resolve_fx leaf tm (fuel_of tm) [] t f = Ok r.
Proof. exact resolve_fx_correct. Qed.
Print Assumptions C15_fixed_correct.

(* and it changes nothing where the unchanged code returns *)
Theorem C15_fixed_conservative :
  forall leaf tm t f, cyclic_alias leaf tm t f = false ->
    resolve_fx leaf tm (fuel_of tm) [] t f = resolve leaf tm (fuel_of tm) t f.
Proof. exact fixed_eq_unfixed. Qed.
Print Assumptions C15_fixed_conservative.

Theorem C15_model_decides_fixed :
  forall leaf tm t f, resolve_model leaf tm t f = resolve_fx leaf tm (fuel_of tm) [] t f.
Proof. exact resolve_model_deployed. Qed.
Print Assumptions C15_model_decides_fixed.

Theorem C15_index_step_members_fixed :
  forall tm t f l,
    complete_at tm (t, f, l) [None] =
      Ok (match index_exec tm t f with Some e => model_members tm e f l | None => [] end).
Proof. exact index_step_members_fixed. Qed.
Print Assumptions C15_index_step_members_fixed.

(* one indexing step of the deployed model, complete: after `v[1].` / `v.k.` (k no member) exactly the members of
   the element type the specification computes; no cyclicity guard and no shadowing guard any more *)
Theorem C15_index_step_closure_fixed :
  forall tm t f l, wf_tm tm ->
    exists o, complete_at tm (t, f, l) [None] = Ok o /\
      match index_exec tm t f with
      | Some e => forall x, In x o <-> members_spec tm e x
      | None => o = []
      end.
Proof. exact index_step_closure_fixed. Qed.
Print Assumptions C15_index_step_closure_fixed.

(* ------------------------------------------------------------------ member prefixes of ANY length (deployed model) *)
(* following `v<path>` (steps `.k` and `[i]`) never fails and follows the specification path_rel (Spec/ClassClosure.v) *)
Theorem C15_follow_path :
  forall tm, wf_tm tm ->
    forall path s, exists r, follow tm s path = Ok r /\ path_rel tm s path r.
Proof. exact follow_path. Qed.
Print Assumptions C15_follow_path.

(* completion after `v<path>.`: exactly the member closure of the type the prefix denotes, nothing if it denotes none *)
Theorem C15_complete_path_full :
  forall tm s path, wf_tm tm ->
    exists r o, path_rel tm s path r /\ complete_at tm s path = Ok o /\
      match r with
      | Some (t', _, _) => forall x, In x o <-> members_spec tm t' x
      | None => o = []
      end.
Proof. exact complete_path_full. Qed.
Print Assumptions C15_complete_path_full.

(* go-to-definition on `v<path>.k` *)
Theorem C15_define_path_full :
  forall tm s path k, wf_tm tm ->
    exists r, path_rel tm s path r /\
      match r with
      | Some (t', _, _) =>
          (exists loc, define_at tm s path k = Ok (Some loc) /\ define_spec tm t' k loc) \/
          (define_at tm s path k = Ok None /\ forall loc, ~ define_spec tm t' k loc)
      | None => define_at tm s path k = Ok None
      end.
Proof. exact define_path_full. Qed.
Print Assumptions C15_define_path_full.

(* loop variables: `for k, x in pairs(v)` / `ipairs(v)` get the element / key type the specification computes *)
Theorem C15_for_value_fixed :
  forall tm t f l,
    for_value tm (t, f, l) = Ok (match index_exec tm t f with Some e => Some (e, f, l) | None => None end).
Proof. exact for_value_fixed. Qed.
Print Assumptions C15_for_value_fixed.

Theorem C15_for_pairs_key_fixed :
  forall tm t f l,
    for_pairs_key tm (t, f, l) = Ok (match pairs_key_exec tm t f with Some e => Some (e, f, l) | None => None end).
Proof. exact for_pairs_key_fixed. Qed.
Print Assumptions C15_for_pairs_key_fixed.

(* the deployed model is the repaired variant in both respects *)
Theorem C15_deployed_variants : c15_fixed_variant = true /\ c15_split_fixed = true.
Proof. split; reflexivity. Qed.
Print Assumptions C15_deployed_variants.

(* a prefix of three steps through a split class: T10 (file 0: field 40 : T11[]; file 1: field 41), T11 with a
   table-valued field 42 : table<number, T10>, asked from file 0 where one half of T10 lives:
   v.f40[1].f42.zz.  offers both halves of T10 *)
Definition path_tm : tmap :=
  [ mkDef 0 10 0 3 (DClass [] [mkField 40 3 (TMulti [TArr (TName 11)])]);
    mkDef 1 11 0 6 (DClass [] [mkField 42 6 (TMulti [TTable (TMulti [TName 3]) (TMulti [TName 10])])]);
    mkDef 2 10 1 9 (DClass [] [mkField 41 9 (TMulti [TName 3])]) ].

Example C15_path_example :
  wf_tm path_tm /\
  complete_at path_tm (TMulti [TName 10], 0, 12) [Some 40; None; Some 42; Some 77] = Ok [40; 41] /\
  define_at path_tm (TMulti [TName 10], 0, 12) [Some 40; None; Some 42; Some 77] 41 = Ok (Some (1, 9)).
Proof.
  split; [repeat constructor; simpl; intuition discriminate|]. split; vm_compute; reflexivity.
Qed.

(* ------------------------------------------------------------------ the executable specification is the specification *)
Theorem C15_spec_exec_index :
  forall tm t f r, wf_tm tm -> index_rel tm t f r -> index_exec tm t f = r.
Proof. exact index_exec_correct. Qed.
Print Assumptions C15_spec_exec_index.

Theorem C15_spec_exec_members :
  forall tm t L, members_exec tm t = Some L -> forall x, In x L <-> members_spec tm t x.
Proof. exact members_exec_correct. Qed.
Print Assumptions C15_spec_exec_members.

Theorem C15_spec_exec_define :
  forall tm t k L, define_exec tm t k = Some L -> forall loc, In loc L <-> define_spec tm t k loc.
Proof. exact define_exec_correct. Qed.
Print Assumptions C15_spec_exec_define.

Theorem C15_spec_exec_member_step :
  forall tm t k L, member_step_exec tm t k = Some L -> forall s, In s L <-> member_step_spec tm t k s.
Proof. exact member_step_exec_correct. Qed.
Print Assumptions C15_spec_exec_member_step.

Theorem C15_spec_exec_total :
  forall tm t, exists L, members_exec tm t = Some L.
Proof. exact members_exec_total. Qed.
Print Assumptions C15_spec_exec_total.

(* ------------------------------------------------------------------ non-vacuity of the guards *)
(* diamond with a 2-cycle, an alias as parent and class T13 split across files 1 and 2, asked from file 3:
   satisfies wf_tm and (for the pre-fix theorems) shadow_free; both variants answer the closure *)
Definition guard_tm : tmap :=
  [ mkDef 0 10 0 2 (DClass [11; 12] [mkField 40 2 (TMulti [TName 3])]);
    mkDef 1 11 0 5 (DClass [13; 10] [mkField 41 5 (TMulti [TName 3])]);
    mkDef 2 12 0 7 (DAlias (TMulti [TName 13; TName 14]));
    mkDef 3 13 1 10 (DClass [] [mkField 42 10 (TMulti [TName 3])]);
    mkDef 4 13 2 13 (DClass [10] [mkField 43 13 (TMulti [TName 3])]) ].

Example C15_guard_inhabited :
  wf_tm guard_tm /\ shadow_free guard_tm (TMulti [TName 10]) 3 = true /\
  model_members guard_tm (TMulti [TName 10]) 3 20 = [40; 41; 42; 43] /\
  model_members_v false guard_tm (TMulti [TName 10]) 3 20 = [40; 41; 42; 43].
Proof.
  split; [repeat constructor; simpl; intuition discriminate|]. repeat split; vm_compute; reflexivity.
Qed.

(* alias chain T12 -> (T11 | T10[]) -> ... is stratified: rank = the name itself *)
Definition chain_tm : tmap :=
  [ mkDef 0 12 0 1 (DAlias (TMulti [TName 11; TArr (TName 10)]));
    mkDef 1 11 0 3 (DAlias (TMulti [TName 3]));
    mkDef 2 10 0 6 (DClass [] [mkField 40 6 (TMulti [TName 3])]) ].

Example C15_acyclic_inhabited :
  acyclic_alias chain_tm /\ resolve leaf_arr chain_tm (fuel_of chain_tm) (TMulti [TName 12]) 0 = Ok (Some (TName 10)).
Proof.
  split; [|vm_compute; reflexivity].
  exists N.to_nat. intros d t Hd Hk m Hm.
  destruct Hd as [<-|[<-|[<-|[]]]]; simpl in Hk; try discriminate; injection Hk as <-; simpl in Hm;
    repeat (destruct Hm as [<-|Hm]; [vm_compute; repeat constructor|]); destruct Hm.
Qed.
