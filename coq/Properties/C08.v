(* C08 - after any edit / file-event history, diagnostics equal those of a fresh start.
   Only statements closed by `exact` (+ vm_compute witnesses) and Print Assumptions live here.

   Model: Model/Diag.v (diagnostics_manager.go), Model/Events.v (handlers, HandleFileEventChanges, file index, error
   collection); the per-file analyses are the fields of `analysis` (any instance satisfying `analysis_ok`).
   Spec: Spec/FreshStart.v (`fresh_view`, `demanded`, `conformant`, the finding classes, `guard`).
   `fixes` switches the repairs on: `deployed` (Model/Events.v) = the code as it is now (nine repairs), `round4` = without
   the changed-unknown repair (fixes/C08-changed-unknown.diff), `round3` = also without
   the didOpen repair (fixes/C02-didopen-analysed.diff), `round2` = also without the outside-file repair, `round1` = the code
   after round 1 (four repairs), `no_fix` = the code before any fix: commit.
   General theorems are quantified over all flag values. *)
From Coq Require Import List NArith Bool Permutation.
From LH Require Import Model.Diag Model.Events Spec.FreshStart.
From LH Require Import Proofs.EventsTracks Proofs.EventsIndex Proofs.EventsInv Proofs.EventsToy Proofs.EventsToyOk.
From LH Require Import Proofs.EventsTagBlind.
Import ListNotations.
Local Open Scope N_scope.

(* ---- the full statement of the property on the model of the code as it is now (`deployed`): PROVED below
        (C08_full_proved; C08_full_every_file is the stronger form that also covers the files without unsaved edits while
        another buffer is unsaved). `demanded` compares with a server freshly started on the current disk and told about
        the documents outside the workspace that are open (Spec/FreshStart.v fresh_view_open; C08_fresh_reopen ties it to
        the model's own server start followed by didOpen; with no such document open it is the plain start,
        C08_incremental_eq_fresh_plain).
        `conformant` lets the client open a document with ANY text (action AOpenWith f t: an unsaved buffer restored by the
        editor, a file changed behind its back): when t is not the file's text the document has unsaved edits from that
        moment on (it is in `dirty`), so the statement says of it what it says of every unsaved edit - the client is shown
        exactly the syntax errors of t if t has any, else the non-syntax diagnostics of the fresh start
        (C08_open_text_view spells that instance out). The file must exist and the document must not be open already
        (otherwise the action is a no-op of the editor model, as for AOpen).
        Since the changed-unknown repair `conformant` also lets a watched-files notification say "changed" of a file that
        was NOT there before (a watcher that reports a new file as changed; item WM f t with f absent from the disk):
        HandleFileEventChanges handles it like "created"; and, for the same reason, lets the editor SAVE a buffer whose
        file has been deleted (ASave f with f absent from the disk: the didSave alone brings the file back into the
        project; before, the client's watcher had to report the creation as well). Before (`round4`) such notifications
        were outside the conformant histories, and the code deviated on them (C08_changed_unknown_before_fix,
        C08_save_of_deleted_file; C08_conformance_widened / C08_conformance_widened_strictly say how the hypothesis
        got weaker) ---- *)
Definition C08_full : Prop :=
  forall (A : analysis), analysis_ok A ->
  forall (dk : amap (text A)) (h : list (action A)),
    conformant A deployed dk h = true ->
    forall f, constrained A (fst (run A deployed dk h)) f = true ->
      Permutation (view (snd (run A deployed dk h)) f) (demanded A deployed (fst (run A deployed dk h)) f).

(* ---- T1, all histories (raw events included), all analyses, all repair flags: the client view is determined by
        the server's two maps ---- *)
Theorem C08_view_tracks_maps :
  forall (A : analysis) (fx : fixes) (dk : amap (text A)) (h : list (action A)) (f : file),
    let '(w, ps) := run A fx dk h in
    let d := ds (sv w) in
    view ps f = vget (live d) f \/ view ps f = vget (saved d) f \/ view ps f = nonsyn (vget (saved d) f).
Proof. exact view_tracks_maps. Qed.
Print Assumptions C08_view_tracks_maps.

(* ---- T1, all histories (raw events included), all analyses: with the repaired RemoveOneFile the file index holds
        exactly the project files (DESIGN: C08_index_refines) ---- *)
Theorem C08_index_refines :
  forall (A : analysis) (fx : fixes), fix_index fx = true ->
  forall (dk : amap (text A)) (h : list (action A)),
    p_index (pj (sv (fst (run A fx dk h)))) = p_files (pj (sv (fst (run A fx dk h)))).
Proof. exact index_refines. Qed.
Print Assumptions C08_index_refines.

(* ---- T1, the property for the code as it is now: EVERY conformant history (no class guard left: all eight finding
        classes are impossible under `deployed`), every file, with or without unsaved edits ---- *)
Theorem C08_full_every_file :
  forall (A : analysis), analysis_ok A ->
  forall (dk : amap (text A)) (h : list (action A)),
    conformant A deployed dk h = true ->
    forall f, Permutation (view (snd (run A deployed dk h)) f) (demanded A deployed (fst (run A deployed dk h)) f).
Proof. exact deployed_view. Qed.
Print Assumptions C08_full_every_file.

Theorem C08_full_proved : C08_full.
Proof. exact (fun A HA dk h Hc f _ => deployed_view A HA dk h Hc f). Qed.
Print Assumptions C08_full_proved.

(* the same for the histories that name workspace files only (the statement of round 2, kept: it does not need the
   outside-file repair, see C08_guarded_round2) *)
Theorem C08_full_workspace :
  forall (A : analysis), analysis_ok A ->
  forall (dk : amap (text A)) (h : list (action A)),
    conformant A deployed dk h = true -> inside_only A h = true ->
    forall f, Permutation (view (snd (run A deployed dk h)) f) (demanded A deployed (fst (run A deployed dk h)) f).
Proof. exact (fun A HA dk h Hc _ => deployed_view A HA dk h Hc). Qed.
Print Assumptions C08_full_workspace.

(* no document has unsaved edits  =>  the client holds what a fresh start on the current files (told about the open
   documents outside the workspace) publishes *)
Theorem C08_incremental_eq_fresh_deployed :
  forall (A : analysis), analysis_ok A ->
  forall (dk : amap (text A)) (h : list (action A)),
    conformant A deployed dk h = true -> dirty (fst (run A deployed dk h)) = [] ->
    forall f, Permutation (view (snd (run A deployed dk h)) f) (fresh_view_open A deployed (fst (run A deployed dk h)) f).
Proof. exact (fun A HA dk h Hc => incremental_eq_fresh A deployed HA dk h (deployed_guard A dk h Hc)). Qed.
Print Assumptions C08_incremental_eq_fresh_deployed.

(* ... and when every open document lies in the workspace that is the plain server start on the disk *)
Theorem C08_incremental_eq_fresh_plain :
  forall (A : analysis), analysis_ok A ->
  forall (dk : amap (text A)) (h : list (action A)),
    conformant A deployed dk h = true -> dirty (fst (run A deployed dk h)) = [] ->
    (forall g, member A deployed (fst (run A deployed dk h)) g = in_dir A g) ->
    forall f, Permutation (view (snd (run A deployed dk h)) f) (fresh_view A deployed (disk (fst (run A deployed dk h))) f).
Proof.
  exact (fun A HA dk h Hc Hd Hm f =>
           eq_ind _ (fun x => Permutation (view (snd (run A deployed dk h)) f) x)
                  (incremental_eq_fresh A deployed HA dk h (deployed_guard A dk h Hc) Hd f) _
                  (fresh_view_open_plain A deployed _ f Hm)).
Qed.
Print Assumptions C08_incremental_eq_fresh_plain.

(* fresh_view_open is what the (model of the) server shows after a start on the disk followed by didOpen of documents *)
Theorem C08_fresh_reopen :
  forall (A : analysis), analysis_ok A ->
  forall (dk : amap (text A)) (l : list file) (f : file),
    Permutation (view (snd (run A deployed dk (map (@AOpen A) l))) f)
                (fresh_view_open A deployed (fst (run A deployed dk (map (@AOpen A) l))) f).
Proof. exact fresh_reopen. Qed.
Print Assumptions C08_fresh_reopen.

(* a buffer with unsaved edits shows its own syntax errors if it has any, else the last saved non-syntax diagnostics *)
Theorem C08_unsaved_view_deployed :
  forall (A : analysis), analysis_ok A ->
  forall (dk : amap (text A)) (h : list (action A)) (f : file),
    conformant A deployed dk h = true -> In f (dirty (fst (run A deployed dk h))) ->
    exists b, aget (ebuf (fst (run A deployed dk h))) f = Some b /\
              Permutation (view (snd (run A deployed dk h)) f)
                          (if is_nil (syn A b) then nonsyn (fresh_view_open A deployed (fst (run A deployed dk h)) f) else syn A b).
Proof. exact (fun A HA dk h f Hc => unsaved_view A deployed HA dk h f (deployed_guard A dk h Hc)). Qed.
Print Assumptions C08_unsaved_view_deployed.

(* a document opened with a text t that is not the file's text d: it has unsaved edits, and the client is shown t's syntax
   errors if there are any, else the non-syntax diagnostics of the fresh start (before the didOpen repair: the FILE's
   diagnostics, syntax errors of the file included - C08_open_text_before_fix) *)
Theorem C08_open_text_view :
  forall (A : analysis), analysis_ok A ->
  forall (dk : amap (text A)) (h : list (action A)) (f : file) (t d : text A),
    conformant A deployed dk (h ++ [AOpenWith f t]) = true ->
    aget (disk (fst (run A deployed dk h))) f = Some d -> aget (ebuf (fst (run A deployed dk h))) f = None ->
    teqb A d t = false ->
    let r := run A deployed dk (h ++ [AOpenWith f t]) in
    In f (dirty (fst r)) /\
    Permutation (view (snd r) f) (if is_nil (syn A t) then nonsyn (fresh_view_open A deployed (fst r) f) else syn A t).
Proof. exact open_text_view. Qed.
Print Assumptions C08_open_text_view.

(* ---- T1, guarded, for every combination of repair flags: `guard` = editor discipline (`conformant`) and none of the
        eight finding classes, each class only while its repair flag is off. Watched-file notifications may name several
        files. ---- *)
(* every file, whether or not it has unsaved edits, shows what the property demands (up to order) *)
Theorem C08_guarded :
  forall (A : analysis) (fx : fixes), analysis_ok A ->
  forall (dk : amap (text A)) (h : list (action A)),
    guard A fx dk h = true ->
    forall f, Permutation (view (snd (run A fx dk h)) f) (demanded A fx (fst (run A fx dk h)) f).
Proof. exact guarded_view. Qed.
Print Assumptions C08_guarded.

(* the instance for the code without the outside-file and didOpen repairs: the guard excludes outside_file and open_text
   (documents are opened with the file's text) only; the other six classes are constantly false (C08_repaired_classes_gone) *)
Theorem C08_guarded_round2 :
  forall (A : analysis), analysis_ok A ->
  forall (dk : amap (text A)) (h : list (action A)),
    conformant A round2 dk h = true -> inside_only A h = true -> opens_disk_text A h = true ->
    forall f, Permutation (view (snd (run A round2 dk h)) f) (demanded A round2 (fst (run A round2 dk h)) f).
Proof.
  exact (fun A HA dk h Hc Hi Ho =>
           guarded_view A round2 HA dk h (repaired_guard A round2 dk h eq_refl (or_intror Hi) (or_intror Ho) Hc)).
Qed.
Print Assumptions C08_guarded_round2.

(* the instance for the code without the didOpen repair (the full statement of the round before): documents are opened
   with the file's text *)
Theorem C08_guarded_round3 :
  forall (A : analysis), analysis_ok A ->
  forall (dk : amap (text A)) (h : list (action A)),
    conformant A round3 dk h = true -> opens_disk_text A h = true ->
    forall f, Permutation (view (snd (run A round3 dk h)) f) (demanded A round3 (fst (run A round3 dk h)) f).
Proof.
  exact (fun A HA dk h Hc Ho =>
           guarded_view A round3 HA dk h (repaired_guard A round3 dk h eq_refl (or_introl eq_refl) (or_intror Ho) Hc)).
Qed.
Print Assumptions C08_guarded_round3.

(* the instance for the code without the changed-unknown repair (the full statement of the round before): the conformance
   predicate of that code is stricter - "changed" is only said of a file that was there before the notification, a buffer
   is only saved while its file exists *)
Theorem C08_guarded_round4 :
  forall (A : analysis), analysis_ok A ->
  forall (dk : amap (text A)) (h : list (action A)),
    conformant A round4 dk h = true ->
    forall f, Permutation (view (snd (run A round4 dk h)) f) (demanded A round4 (fst (run A round4 dk h)) f).
Proof.
  exact (fun A HA dk h Hc =>
           guarded_view A round4 HA dk h (repaired_guard A round4 dk h eq_refl (or_introl eq_refl) (or_introl eq_refl) Hc)).
Qed.
Print Assumptions C08_guarded_round4.

(* what the changed-unknown repair does to the hypothesis `conformant` of the full statement: in every world every action
   that was conformant stays conformant ... *)
Theorem C08_conformance_widened :
  forall (A : analysis) (w : world A) (a : action A),
    conf_action A round4 w a = true -> conf_action A deployed w a = true.
Proof. exact conformance_widened. Qed.
Print Assumptions C08_conformance_widened.

(* no document has unsaved edits  =>  the client holds what a fresh start on the current files publishes *)
Theorem C08_incremental_eq_fresh :
  forall (A : analysis) (fx : fixes), analysis_ok A ->
  forall (dk : amap (text A)) (h : list (action A)),
    guard A fx dk h = true -> dirty (fst (run A fx dk h)) = [] ->
    forall f, Permutation (view (snd (run A fx dk h)) f) (fresh_view_open A fx (fst (run A fx dk h)) f).
Proof. exact incremental_eq_fresh. Qed.
Print Assumptions C08_incremental_eq_fresh.

(* a buffer with unsaved edits shows its own syntax errors if it has any, else the last saved non-syntax diagnostics *)
Theorem C08_unsaved_view :
  forall (A : analysis) (fx : fixes), analysis_ok A ->
  forall (dk : amap (text A)) (h : list (action A)) (f : file),
    guard A fx dk h = true -> In f (dirty (fst (run A fx dk h))) ->
    exists b, aget (ebuf (fst (run A fx dk h))) f = Some b /\
              Permutation (view (snd (run A fx dk h)) f)
                          (if is_nil (syn A b) then nonsyn (fresh_view_open A fx (fst (run A fx dk h)) f) else syn A b).
Proof. exact unsaved_view. Qed.
Print Assumptions C08_unsaved_view.

(* the same in terms of the server's own maps, as an equality (DESIGN: view = live, else shown (saved)) *)
Theorem C08_guarded_exact :
  forall (A : analysis) (fx : fixes), analysis_ok A ->
  forall (dk : amap (text A)) (h : list (action A)),
    guard A fx dk h = true ->
    let w := fst (run A fx dk h) in
    forall f, view (snd (run A fx dk h)) f =
              match aget (live (ds (sv w))) f with
              | Some e => e
              | None => if fmem f (dirty w) then nonsyn (vget (saved (ds (sv w))) f) else vget (saved (ds (sv w))) f
              end.
Proof. exact guarded_exact. Qed.
Print Assumptions C08_guarded_exact.

(* the assumptions on the analyses are satisfiable: the toy analysis of the correspondence check meets them *)
Theorem C08_toy_analysis_ok : analysis_ok toyA.
Proof. exact toy_ok. Qed.
Print Assumptions C08_toy_analysis_ok.

(* ---- refutations on the faithful model of the code as it is now (toy analysis, `deployed`): conformant history,
        constrained file, wrong view; each witness is replayed on the real server through leg c08.history
        (known_findings/C08.json, status open) ---- *)
Definition refutes (fx : fixes) (k : N) (dk : amap (list stmt)) (h : list (action toyA)) (f : file) : Prop :=
  conformant toyA fx dk h = true /\ In k (classes toyA fx dk h) /\
  constrained toyA (fst (run toyA fx dk h)) f = true /\
  ~ Permutation (view (snd (run toyA fx dk h)) f) (demanded toyA fx (fst (run toyA fx dk h)) f).

Local Notation AChange := (@AChange toyA).
Local Notation AOpenWith := (@AOpenWith toyA).
Local Notation WC := (@WC toyA).
Local Notation WM := (@WM toyA).

Ltac refute :=
  split; [vm_compute; reflexivity|]; split; [vm_compute; tauto|]; split; [vm_compute; reflexivity|];
  let H := fresh in intros H; apply perm_eqb_of_perm in H; vm_compute in H; discriminate H.
Ltac repaired := apply toy_meets_of_guard; vm_compute; reflexivity.

(* 12 (repaired by the fix: commit "a deleted file is removed from the file index"): a requires b; b is created and
   deleted; a gets its type 6 again, as after a fresh start; and the index refines the file set on that witness *)
Definition w_deleted_require_dk : amap (list stmt) := [(0, [SR 1])].
Definition w_deleted_require : list (action toyA) := [AWatched [WC 1 [SC]]; AWatched [WD 1]].
Theorem C08_deleted_require_repaired : toy_meets deployed w_deleted_require_dk w_deleted_require.
Proof. repaired. Qed.
Print Assumptions C08_deleted_require_repaired.
Theorem C08_index_refines_repaired :
  let p := pj (sv (fst (run toyA deployed w_deleted_require_dk w_deleted_require))) in p_index p = p_files p.
Proof. vm_compute. reflexivity. Qed.
Print Assumptions C08_index_refines_repaired.

(* ---- repaired last (fixes/C08-changed-unknown.diff; class changed_unknown of round 6): a watched-file event says "changed"
        of a path that is not a file of the project when HandleFileEventChanges comes to it. b.lua requires a; a.lua does not
        exist; it is created and the watcher reports it as changed: the repaired code enters it into allFilesMap and the
        index like a created file, b.lua's `require file error` goes away as after a fresh start. Before the repair the file
        got a first pass only: b.lua kept its type 6 (and the notification was not a conformant one) ---- *)
Definition w_changed_unknown_dk : amap (list stmt) := [(1, [SR 0])].
Definition w_changed_unknown : list (action toyA) := [AWatched [WM 0 [SC]]].
Theorem C08_changed_unknown_repaired : toy_meets deployed w_changed_unknown_dk w_changed_unknown.
Proof. repaired. Qed.
Print Assumptions C08_changed_unknown_repaired.
(* ... and C08_conformance_widened is strict: this history is conformant for the repaired code only *)
Example C08_conformance_widened_strictly :
  conformant toyA deployed w_changed_unknown_dk w_changed_unknown = true /\
  conformant toyA round4 w_changed_unknown_dk w_changed_unknown = false.
Proof. vm_compute. split; reflexivity. Qed.
Example C08_changed_unknown_before_fix :
  view (snd (run toyA round4 w_changed_unknown_dk w_changed_unknown)) 1 = [(6, 0, 0)] /\
  demanded toyA round4 (fst (run toyA round4 w_changed_unknown_dk w_changed_unknown)) 1 = [] /\
  p_files (pj (sv (fst (run toyA round4 w_changed_unknown_dk w_changed_unknown)))) = [1] /\
  view (snd (run toyA deployed w_changed_unknown_dk w_changed_unknown)) 1 = [] /\
  p_files (pj (sv (fst (run toyA deployed w_changed_unknown_dk w_changed_unknown)))) = [0; 1].
Proof. vm_compute. repeat split; reflexivity. Qed.
(* the same repair through didSave: a.lua is open, deleted on disk (watched Deleted), edited and saved: the save re-creates the
   file, its Changed event (TextDocumentDidSave goes through HandleFileEventChanges) finds a path that is not a project file.
   Repaired code: a.lua is a project file again, b.lua's `require file error` is gone, as after a fresh start; before: a.lua
   analysed but not a member, b.lua kept its type 6 (and the history was not a conformant one) *)
Definition w_save_deleted_dk : amap (list stmt) := [(0, [SL]); (1, [SR 0])].
Definition w_save_deleted : list (action toyA) := [AOpen 0; AWatched [@WD toyA 0]; AChange 0 [SC]; ASave 0].
Theorem C08_save_of_deleted_file_repaired : toy_meets deployed w_save_deleted_dk w_save_deleted.
Proof. repaired. Qed.
Print Assumptions C08_save_of_deleted_file_repaired.
Example C08_save_of_deleted_file :
  conformant toyA deployed w_save_deleted_dk w_save_deleted = true /\
  conformant toyA round4 w_save_deleted_dk w_save_deleted = false /\
  view (snd (run toyA round4 w_save_deleted_dk w_save_deleted)) 1 = [(6, 0, 0)] /\
  demanded toyA round4 (fst (run toyA round4 w_save_deleted_dk w_save_deleted)) 1 = [] /\
  view (snd (run toyA deployed w_save_deleted_dk w_save_deleted)) 1 = [] /\
  p_files (pj (sv (fst (run toyA deployed w_save_deleted_dk w_save_deleted)))) = [0; 1].
Proof. vm_compute. repeat split; reflexivity. Qed.

(* the witness of round 6: ONE notification `[Deleted a, Changed a]` for a file that was removed and re-created (not a
   conformant notification - it names a path twice -, so no theorem speaks about it; the model takes it event by event as
   the code does, leg c08.samepath): the repaired code ends with both files in the project and the fresh start's view *)
Definition w_changed_unknown2_dk : amap (list stmt) := [(0, [SL]); (1, [SR 0])].
Definition w_changed_unknown2 : list (action toyA) := [AWatched [@WD toyA 0; WM 0 [SC]]].
Example C08_changed_unknown_same_path :
  view (snd (run toyA round4 w_changed_unknown2_dk w_changed_unknown2)) 1 = [(6, 0, 0)] /\
  demanded toyA round4 (fst (run toyA round4 w_changed_unknown2_dk w_changed_unknown2)) 1 = [] /\
  view (snd (run toyA deployed w_changed_unknown2_dk w_changed_unknown2)) 1 = [] /\
  p_files (pj (sv (fst (run toyA deployed w_changed_unknown2_dk w_changed_unknown2)))) = [0; 1].
Proof. vm_compute. repeat split; reflexivity. Qed.

(* ---- repaired before that (fixes/C02-didopen-analysed.diff; C02's finding open_text_not_disk seen from the diagnostics): the text
        carried by didOpen is analysed. a.lua on disk is `g1 = 1`; the editor restores an unsaved buffer `g2 = 1` `)` for it:
        the client is shown the buffer's syntax error at once (before the repair: nothing, until the first didChange);
        then the buffer is repaired, saved and closed ---- *)
Definition w_open_text_dk : amap (list stmt) := [(0, [SD 1]); (1, [SU 2])].
Definition w_open_text : list (action toyA) := [AOpenWith 0 [SD 2; SS]; AChange 0 [SD 2]; ASave 0; AClose 0].
Theorem C08_open_text_repaired : toy_meets deployed w_open_text_dk w_open_text.
Proof. repaired. Qed.
Print Assumptions C08_open_text_repaired.
Example C08_open_text_before_fix : refutes round3 8 w_open_text_dk (firstn 1 w_open_text) 0.
Proof. refute. Qed.
Example C08_open_text_views :
  view (snd (run toyA deployed w_open_text_dk (firstn 1 w_open_text))) 0 = [(1, 1, 0)] /\
  dirty (fst (run toyA deployed w_open_text_dk (firstn 1 w_open_text))) = [0] /\
  view (snd (run toyA round3 w_open_text_dk (firstn 1 w_open_text))) 0 = [] /\
  view (snd (run toyA deployed w_open_text_dk [])) 1 = [(2, 0, 2)] /\
  view (snd (run toyA deployed w_open_text_dk (firstn 2 w_open_text))) 1 = [(2, 0, 2)] /\
  view (snd (run toyA deployed w_open_text_dk w_open_text)) 1 = [] /\
  dirty (fst (run toyA deployed w_open_text_dk w_open_text)) = [].
Proof. vm_compute. auto 10. Qed.
(* opened with a CLEAN text over a broken file: the file's syntax error is hidden at once, its other diagnostics stay *)
Definition w_open_text2_dk : amap (list stmt) := [(0, [SL; SS])].
Definition w_open_text2 : list (action toyA) := [AOpenWith 0 [SL]].
Theorem C08_open_text_clean_repaired :
  toy_meets deployed w_open_text2_dk w_open_text2 /\
  view (snd (run toyA deployed w_open_text2_dk [])) 0 = [(1, 1, 0); (4, 0, 0)] /\
  view (snd (run toyA deployed w_open_text2_dk w_open_text2)) 0 = [(4, 0, 0)].
Proof. split; [repaired|vm_compute; auto]. Qed.
Print Assumptions C08_open_text_clean_repaired.
Example C08_open_text_clean_before_fix : refutes round3 8 w_open_text2_dk w_open_text2 0.
Proof. refute. Qed.
(* opened with the file's own text through the same action: nothing is analysed, no unsaved edit *)
Example C08_open_text_same :
  run toyA deployed w_open_text_dk [AOpenWith 0 [SD 1]] = run toyA deployed w_open_text_dk [AOpen 0].
Proof. vm_compute. reflexivity. Qed.

(* ---- repaired before (fixes/C08-outside-file.diff): a document outside the workspace joins and leaves the project like any
        other file ---- *)
(* a file outside the workspace (p) is opened and closed again: while it is open its global is seen (as after a fresh
   start followed by didOpen p), after didClose a's warning is back *)
Definition w_outside_dk : amap (list stmt) := [(0, [SU 1]); (4, [SD 1])].
Definition w_outside : list (action toyA) := [AOpen 4; AOpen 0; AChange 0 [SC; SU 1]; ASave 0; AClose 4].
Theorem C08_outside_file_repaired : toy_meets deployed w_outside_dk w_outside.
Proof. repaired. Qed.
Print Assumptions C08_outside_file_repaired.
Example C08_outside_file_before_fix : refutes round2 1 w_outside_dk w_outside 0.
Proof. refute. Qed.
Example C08_outside_file_views :
  view (snd (run toyA deployed w_outside_dk (firstn 1 w_outside))) 0 = [] /\
  view (snd (run toyA deployed w_outside_dk w_outside)) 0 = [(2, 1, 1)] /\
  view (snd (run toyA round2 w_outside_dk w_outside)) 0 = [].
Proof. vm_compute. auto. Qed.

(* ---- repaired in round 2 (fixes/C08-unhidden.diff, fixes/C08-watched-dirty.diff): the former witnesses meet the
        property at every file under `deployed`; on the model of the round-1 code they refute it ---- *)
(* a's saved version has a syntax error, its unsaved buffer is clean; saving b changes a's saved list; the syntax error
   of the saved version stays hidden *)
Definition w_unhidden_dk : amap (list stmt) := [(0, [SS; SU 1]); (1, [SC])].
Definition w_unhidden : list (action toyA) := [AOpen 0; AChange 0 [SU 1]; AOpen 1; AChange 1 [SD 1]; ASave 1].
Theorem C08_unhidden_repaired : toy_meets deployed w_unhidden_dk w_unhidden.
Proof. repaired. Qed.
Print Assumptions C08_unhidden_repaired.
Example C08_unhidden_before_fix : refutes round1 3 w_unhidden_dk w_unhidden 0.
Proof. refute. Qed.

(* an external change of a file whose unsaved buffer has a syntax error: the syntax error stays on display *)
Definition w_watched_dirty_dk : amap (list stmt) := [(0, [SL])].
Definition w_watched_dirty : list (action toyA) := [AOpen 0; AChange 0 [SL; SS]; AWatched [WM 0 [SL; SL]]].
Theorem C08_watched_dirty_repaired : toy_meets deployed w_watched_dirty_dk w_watched_dirty.
Proof. repaired. Qed.
Print Assumptions C08_watched_dirty_repaired.
Example C08_watched_dirty_before_fix : refutes round1 5 w_watched_dirty_dk w_watched_dirty 0.
Proof. refute. Qed.

(* ---- repaired in round 1 (fix: commits 0734f52, af1552a, 85b8991): the former witnesses are inside the guard of the deployed
        model and meet the property at every file; on the model of the old code (no_fix) they refute it ---- *)
(* 12a: a has an unsaved syntax error; saving b changes a's saved list; a's syntax error stays visible *)
Definition w_live_cleared_dk : amap (list stmt) := [(0, [SU 1]); (1, [SC]); (2, [SL])].
Definition w_live_cleared : list (action toyA) :=
  [AOpen 0; AChange 0 [SU 1; SS]; AOpen 1; AChange 1 [SD 1]; ASave 1].
Theorem C08_live_cleared_repaired : toy_meets deployed w_live_cleared_dk w_live_cleared.
Proof. repaired. Qed.
Print Assumptions C08_live_cleared_repaired.
Example C08_live_cleared_before_fix : refutes no_fix 2 w_live_cleared_dk w_live_cleared 0.
Proof. refute. Qed.

(* 12b: disk a has a syntax error; the buffer is fixed but closed unsaved; the syntax error is shown again *)
Definition w_close_revert_dk : amap (list stmt) := [(0, [SS])].
Definition w_close_revert : list (action toyA) := [AOpen 0; AChange 0 [SC]; AClose 0].
Theorem C08_close_revert_repaired : toy_meets deployed w_close_revert_dk w_close_revert.
Proof. repaired. Qed.
Print Assumptions C08_close_revert_repaired.
Example C08_close_revert_before_fix : refutes no_fix 4 w_close_revert_dk w_close_revert 0.
Proof. refute. Qed.

(* a file analysed at start-up is emptied and saved: it is analysed again *)
Definition w_empty_shortcut_dk : amap (list stmt) := [(0, [SS])].
Definition w_empty_shortcut : list (action toyA) := [AOpen 0; AChange 0 []; ASave 0].
Theorem C08_empty_shortcut_repaired : toy_meets deployed w_empty_shortcut_dk w_empty_shortcut.
Proof. repaired. Qed.
Print Assumptions C08_empty_shortcut_repaired.
Example C08_empty_shortcut_before_fix : refutes no_fix 7 w_empty_shortcut_dk w_empty_shortcut 0.
Proof. refute. Qed.

(* under `deployed` none of the eight classes occurs: their predicates are constantly false *)
Theorem C08_repaired_classes_gone :
  forall (A : analysis) (w w' : world A) (a : action A),
    k_live_cleared A deployed w w' = false /\ k_close_revert A deployed w a = false /\
    k_empty_shortcut A deployed w a = false /\ k_unhidden A deployed w w' = false /\
    k_watched_dirty A deployed w a = false /\ k_stale_ref A deployed w' = false.
Proof. exact (fun A w w' a => repaired_classes_gone A deployed w w' a eq_refl). Qed.
Theorem C08_outside_class_gone : forall (A : analysis) (a : action A), k_outside A deployed a = false.
Proof. reflexivity. Qed.
Theorem C08_open_text_class_gone : forall (A : analysis) (w : world A) (a : action A), k_open_text A deployed w a = false.
Proof. reflexivity. Qed.
Print Assumptions C08_repaired_classes_gone.

(* ---- non-vacuity: a non-trivial history is conformant and names workspace files only (the hypotheses of
        C08_full_workspace; hence it satisfies the guard of the deployed model): fix-then-break cycles with saves, an
        unsaved syntax error that stays visible while another file's save changes this file's saved list (12a), a buffer
        closed unsaved over a broken disk file (12b), a file emptied and saved (empty shortcut), creation and deletion
        of files in notifications naming several files, a require that resolves and then loses its target (index), an
        external change of a file whose unsaved buffer has a syntax error (watched_dirty), a clean unsaved buffer over a
        broken saved version whose saved list changes through another file's save (unhidden) ---- *)
Definition g_dk : amap (list stmt) := [(0, [SL; SS]); (1, [SU 1]); (2, [SR 0; SC])].
Definition g_h : list (action toyA) :=
  [AOpen 0; AChange 0 [SL]; ASave 0; AChange 0 [SL; SS]; AOpen 2; AChange 2 [SR 0; SL]; ASave 2; ASave 0;
   AChange 0 [SC]; AClose 0; AOpen 0; AChange 0 [SU 1; SS]; AOpen 1; AChange 1 [SD 1]; ASave 1; AChange 0 [];
   ASave 0; AChange 0 [SL; SD 1]; ASave 0; AClose 0; AClose 1;
   AWatched [WC 3 [SU 2; SL]]; AWatched [WM 3 [SD 2]; WM 1 [SU 2]]; AWatched [WD 3; WM 1 [SU 1]]; AClose 2;
   AOpen 0; AChange 0 [SL; SS]; AWatched [WM 0 [SS; SU 2]; WD 1]; AChange 0 [SU 2];
   AWatched [WC 3 [SD 2]]; AWatched [WD 3; WD 2]; ASave 0; AClose 0].
Example C08_guard_inhabited :
  conformant toyA deployed g_dk g_h = true /\ inside_only toyA g_h = true /\ guard toyA deployed g_dk g_h = true /\
  dirty (fst (run toyA deployed g_dk g_h)) = [] /\
  view (snd (run toyA deployed g_dk g_h)) 0 = [(2, 0, 2)] /\ view (snd (run toyA deployed g_dk g_h)) 2 = [].
Proof. vm_compute. auto 10. Qed.
(* inside that history: after the first external change the unsaved syntax error of a is still shown, and after the
   creation of d (which changes a's saved list) the stale syntax error of a's saved version stays hidden *)
Example C08_guard_inhabited_mid :
  let h1 := firstn 28 g_h in let h2 := firstn 30 g_h in
  view (snd (run toyA deployed g_dk h1)) 0 = [(1, 1, 0)] /\
  vget (saved (ds (sv (fst (run toyA deployed g_dk h1))))) 0 = [(1, 0, 0); (2, 1, 2)] /\
  view (snd (run toyA deployed g_dk h2)) 0 = [] /\
  vget (saved (ds (sv (fst (run toyA deployed g_dk h2))))) 0 = [(1, 0, 0)].
Proof. vm_compute. auto. Qed.

(* the same history continued with a document outside the workspace (p, file 4): it is opened (its global g2 silences a's
   warning at once, its own syntax error is shown), edited, saved and closed again (a's warning is back) *)
Definition g_dk2 : amap (list stmt) := g_dk ++ [(4, [SD 2; SS])].
Definition g_h2 : list (action toyA) :=
  g_h ++ [AOpen 0; AOpen 4; AChange 4 [SD 2]; AChange 0 [SU 2; SU 1]; ASave 4; ASave 0; AClose 4; AClose 0].
Example C08_guard_inhabited_outside :
  conformant toyA deployed g_dk2 g_h2 = true /\ guard toyA deployed g_dk2 g_h2 = true /\
  inside_only toyA g_h2 = false /\ dirty (fst (run toyA deployed g_dk2 g_h2)) = [] /\
  view (snd (run toyA deployed g_dk2 (firstn 34 g_h2))) 0 = [(2, 0, 2)] /\
  view (snd (run toyA deployed g_dk2 (firstn 35 g_h2))) 0 = [] /\
  view (snd (run toyA deployed g_dk2 (firstn 35 g_h2))) 4 = [(1, 1, 0)] /\
  view (snd (run toyA deployed g_dk2 (firstn 39 g_h2))) 0 = [(2, 1, 1)] /\
  view (snd (run toyA deployed g_dk2 g_h2)) 0 = [(2, 0, 2); (2, 1, 1)] /\ view (snd (run toyA deployed g_dk2 g_h2)) 4 = [].
Proof. vm_compute. auto 12. Qed.

(* ---- the message texts. An `err` is (type, start line, tag); the tag stands for everything else the client is shown
        (columns, message text), and every statement above is about lists of full triples: `Permutation` of `list err`.
        Spelled out for the full theorem: a diagnostic with a given type, line AND tag is on display exactly when the
        property demands that very diagnostic ---- *)
Theorem C08_full_texts :
  forall (A : analysis), analysis_ok A ->
  forall (dk : amap (text A)) (h : list (action A)),
    conformant A deployed dk h = true ->
    forall f ty ln tag, In (ty, ln, tag) (view (snd (run A deployed dk h)) f) <->
                        In (ty, ln, tag) (demanded A deployed (fst (run A deployed dk h)) f).
Proof.
  exact (fun A HA dk h Hc f ty ln tag =>
           conj (Permutation_in _ (deployed_view A HA dk h Hc f))
                (Permutation_in _ (Permutation_sym (deployed_view A HA dk h Hc f)))).
Qed.
Print Assumptions C08_full_texts.

(* regression on the seeded change C08-4 ("IsSameErrList compares ErrType and Loc only"): two analyses that differ in the
   tag only. a.lua `print(g1)` is rewritten on disk to `print(g2)` (watched Changed event): the model of the code as it is
   re-publishes a.lua, its view is the fresh start's *)
Theorem C08_tag_switch_regression :
  toy_meets deployed w_tag_dk w_tag /\ view (snd (run toyA deployed w_tag_dk w_tag)) 0 = [(2, 0, 2)].
Proof. exact tag_switch_meets. Qed.
Print Assumptions C08_tag_switch_regression.
Example C08_tag_switch_differs_in_tag_only :
  fresh_view toyA deployed w_tag_dk 0 = [(2, 0, 1)] /\
  fresh_view toyA deployed (disk (fst (run toyA deployed w_tag_dk w_tag))) 0 = [(2, 0, 2)] /\
  errs_eqb_notag [(2, 0, 1)] [(2, 0, 2)] = true /\ errs_eqb [(2, 0, 1)] [(2, 0, 2)] = false.
Proof. exact w_tag_differs_in_tag_only. Qed.
(* the text of c.lua's diagnostic depends on ANOTHER file: b.lua `function gf(a, b) end` is edited to `function gf(a) end`
   and saved while c.lua calls gf(1, 2, 3): "... func define param num(2)" becomes "(1)" on the client *)
Theorem C08_tag_switch_cross_file :
  toy_meets deployed w_tag2_dk w_tag2 /\
  view (snd (run toyA deployed w_tag2_dk [])) 2 = [(10, 1, 2)] /\
  view (snd (run toyA deployed w_tag2_dk w_tag2)) 2 = [(10, 1, 1)].
Proof. exact tag_switch2_meets. Qed.
Print Assumptions C08_tag_switch_cross_file.

(* the role of the tag: `run_w A fx same` (Proofs/EventsTagBlind.v) is the model with the list equality of
   pushAllDiagnosticsAgain as a parameter; with the model's own errs_eqb it IS the model, for all inputs ... *)
Theorem C08_tag_variant_is_model :
  forall (A : analysis) (fx : fixes) (dk : amap (text A)) (h : list (action A)),
    run_w A fx errs_eqb dk h = run A fx dk h.
Proof. exact run_w_errs_eqb. Qed.
Print Assumptions C08_tag_variant_is_model.
(* ... and with an equality that ignores the tag (errs_eqb_notag: type and line only) the property is refuted on both
   histories above: conformant, same disk, no unsaved edits, and the client is left with the OLD text *)
Theorem C08_tag_blind_refuted :
  tag_blind_refutes w_tag_dk w_tag 0 /\
  view (snd (run_w toyA deployed errs_eqb_notag w_tag_dk w_tag)) 0 = [(2, 0, 1)] /\
  demanded toyA deployed (fst (run_w toyA deployed errs_eqb_notag w_tag_dk w_tag)) 0 = [(2, 0, 2)].
Proof. exact tag_blind_refuted. Qed.
Print Assumptions C08_tag_blind_refuted.
Theorem C08_tag_blind_refuted_cross_file : tag_blind_refutes w_tag2_dk w_tag2 2.
Proof. exact tag_blind_refuted2. Qed.
Print Assumptions C08_tag_blind_refuted_cross_file.

(* ---- annotation types (check 18, "not define annotate type" / "duplicate annotate type"): the project-wide type table
        is part of the cross-file analysis `cross` of the model - C08_full_proved covers it like every other diagnostic.
        Regression on the seeded change C08-5 (HandleFileEventChanges no longer rebuilds createTypeMap at its end: after a
        notification that names DELETIONS ONLY the deleted file's classes stay in the table). a.lua `---@class T1`, b.lua
        `---@type T1`; the watcher reports the deletion of a.lua alone: the model of the code as it is publishes
        "not define annotate type: T1" for b.lua, the fresh start's view ---- *)
Theorem C08_ann_type_deleted_regression :
  toy_meets deployed w_ann_dk w_ann /\
  view (snd (run toyA deployed w_ann_dk [])) 1 = [] /\
  view (snd (run toyA deployed w_ann_dk w_ann)) 1 = [(18, 0, 11)].
Proof. exact ann_deleted_meets. Qed.
Print Assumptions C08_ann_type_deleted_regression.
(* b.lua declares the class too (and uses T1, T2): the duplicate warning of both files goes away with a.lua *)
Theorem C08_ann_type_duplicate_regression :
  toy_meets deployed w_dup_dk w_ann /\
  view (snd (run toyA deployed w_dup_dk [])) 0 = [(18, 0, 21)] /\
  view (snd (run toyA deployed w_dup_dk [])) 1 = [(18, 2, 12); (18, 0, 21)] /\
  view (snd (run toyA deployed w_dup_dk w_ann)) 0 = [] /\
  view (snd (run toyA deployed w_dup_dk w_ann)) 1 = [(18, 2, 12)].
Proof. exact ann_duplicate_meets. Qed.
Print Assumptions C08_ann_type_duplicate_regression.
(* the declaring document lies outside the workspace: its class is known exactly while the document is open *)
Theorem C08_ann_type_outside_regression :
  toy_meets deployed w_ann_out_dk w_ann_out /\
  view (snd (run toyA deployed w_ann_out_dk [])) 0 = [(18, 0, 11)] /\
  view (snd (run toyA deployed w_ann_out_dk [AOpen 4])) 0 = [] /\
  view (snd (run toyA deployed w_ann_out_dk w_ann_out)) 0 = [(18, 0, 11)].
Proof. exact ann_outside_meets. Qed.
Print Assumptions C08_ann_type_outside_regression.

(* ---- DirManager.IsInDir (findings indir_empty_plugin_path and indir_subdir_prefix of known_findings/C08.json, both
        repaired). The model takes IsInDir as the field `in_dir` of the analysis, and C08_full_proved holds for every
        analysis: what the two defects broke was the tie between that field and the real function. Before the repairs
        IsInDir answered TRUE FOR EVERY PATH when the client had not sent the PluginPath option (strings.HasPrefix(file, "")),
        and FALSE for the files of a second workspace folder (the prefix test had its arguments swapped), so no instance of
        the model described the server in those configurations. The deployed IsInDir is "below the root, the plugin directory
        if there is one, or a further workspace folder": the correspondence check runs the histories in three configurations
        (with / without PluginPath: instance toyA; two workspace folders: instance toyA_all) ---- *)
Theorem C08_toy_all_analysis_ok : analysis_ok toyA_all.
Proof. exact toy_all_ok. Qed.
Print Assumptions C08_toy_all_analysis_ok.
(* single root: a document outside the workspace is opened and closed - it leaves the project again, its diagnostics are
   cleared, a.lua's "var not define: g1" is back (what the client without PluginPath did not get) *)
Theorem C08_indir_single_root_regression :
  toy_meets deployed w_indir_dk w_indir /\
  view (snd (run toyA deployed w_indir_dk [AOpen 4])) 0 = [] /\
  view (snd (run toyA deployed w_indir_dk [AOpen 4])) 4 = [(1, 1, 0)] /\
  view (snd (run toyA deployed w_indir_dk w_indir)) 0 = [(2, 0, 1)] /\
  view (snd (run toyA deployed w_indir_dk w_indir)) 4 = [].
Proof. exact indir_single_root_meets. Qed.
Print Assumptions C08_indir_single_root_regression.
(* two workspace folders: the same document is a project file; opening and closing it changes nothing *)
Theorem C08_indir_multi_root_regression :
  toy_meets_of toy_all_in deployed w_indir_dk w_indir_all /\
  view (snd (run toyA_all deployed w_indir_dk [])) 4 = [(1, 1, 0)] /\
  view (snd (run toyA_all deployed w_indir_dk w_indir_all)) 0 = [] /\
  view (snd (run toyA_all deployed w_indir_dk w_indir_all)) 4 = [(1, 1, 0)].
Proof. exact indir_multi_root_meets. Qed.
Print Assumptions C08_indir_multi_root_regression.

(* ---- the toy analysis follows fix 1d8cbd1 (C07's class later_elsewhere): a top-level use of a global that the same file
        defines only further down is a load-order error (type 3) only when no OTHER file of the pass defines that global.
        a.lua `gf(1, 2, 3)` `function gf(a) end`, b.lua `function gf(a, b) end`: a.lua gets the type 10 of the call only;
        without b.lua it gets the type 3 as well (the case `A a=gf1,b=f2 -` of leg c08.history) ---- *)
Example C08_load_order_other_file :
  view (snd (run toyA deployed [(0, [SG; SF 1]); (1, [SF 2])] [])) 0 = [(10, 0, 2)] /\
  view (snd (run toyA deployed [(0, [SG; SF 1])] [])) 0 = [(3, 0, 100); (10, 0, 1)] /\
  view (snd (run toyA deployed [(0, [SU 1; SD 1]); (1, [SD 1])] [])) 0 = [] /\
  view (snd (run toyA deployed [(0, [SU 1; SD 1]); (1, [SD 2])] [])) 0 = [(3, 0, 1)].
Proof. vm_compute. repeat split; reflexivity. Qed.
