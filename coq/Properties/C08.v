(* C08 - after any edit / file-event history, diagnostics equal those of a fresh start.
   Only statements closed by `exact` (+ vm_compute witnesses) and Print Assumptions live here.

   Model: Model/Diag.v (diagnostics_manager.go), Model/Events.v (handlers, HandleFileEventChanges, file index, error
   collection); the per-file analyses are the fields of `analysis` (any instance satisfying `analysis_ok`).
   Spec: Spec/FreshStart.v (`fresh_view`, `demanded`, `conformant`, the finding classes, `guard`).
   `fixes` switches the proposed repairs on; `no_fix` is the code as it is. *)
From Coq Require Import List NArith Bool Permutation.
From LH Require Import Model.Diag Model.Events Spec.FreshStart.
From LH Require Import Proofs.EventsTracks Proofs.EventsInv Proofs.EventsToy Proofs.EventsToyOk.
Import ListNotations.
Local Open Scope N_scope.

(* ---- the full statement of the property on the model of the unchanged code (FALSE today: see the _refuted theorems) ---- *)
Definition C08_full : Prop :=
  forall (A : analysis), analysis_ok A ->
  forall (dk : amap (text A)) (h : list (action A)),
    conformant_full A no_fix dk h = true ->
    forall f, constrained A (fst (run A no_fix dk h)) f = true ->
      Permutation (view (snd (run A no_fix dk h)) f) (demanded A no_fix (fst (run A no_fix dk h)) f).

(* ---- T1, all histories (raw events included), all analyses, all repair flags: the client view is determined by
        the server's two maps ---- *)
Theorem C08_view_tracks_maps :
  forall (A : analysis) (fx : fixes) (dk : amap (text A)) (h : list (action A)) (f : file),
    let '(w, ps) := run A fx dk h in
    let d := ds (sv w) in
    view ps f = vget (live d) f \/ view ps f = vget (saved d) f \/ view ps f = nonsyn (vget (saved d) f).
Proof. exact view_tracks_maps. Qed.
Print Assumptions C08_view_tracks_maps.

(* ---- T1, guarded (partial: one file per watched notification - `conformant`; `guard` excludes exactly the seven
        finding classes, each only while its repair flag is off) ---- *)
(* every file, whether or not it has unsaved edits, shows what the property demands (up to order) *)
Theorem C08_guarded_partial :
  forall (A : analysis) (fx : fixes), analysis_ok A ->
  forall (dk : amap (text A)) (h : list (action A)),
    guard A fx dk h = true ->
    forall f, Permutation (view (snd (run A fx dk h)) f) (demanded A fx (fst (run A fx dk h)) f).
Proof. exact guarded_view. Qed.
Print Assumptions C08_guarded_partial.

(* no document has unsaved edits  =>  the client holds what a fresh start on the current files publishes *)
Theorem C08_incremental_eq_fresh :
  forall (A : analysis) (fx : fixes), analysis_ok A ->
  forall (dk : amap (text A)) (h : list (action A)),
    guard A fx dk h = true -> dirty (fst (run A fx dk h)) = [] ->
    forall f, Permutation (view (snd (run A fx dk h)) f) (fresh_view A fx (disk (fst (run A fx dk h))) f).
Proof. exact incremental_eq_fresh. Qed.
Print Assumptions C08_incremental_eq_fresh.

(* a buffer with unsaved edits shows its own syntax errors if it has any, else the last saved non-syntax diagnostics *)
Theorem C08_unsaved_view :
  forall (A : analysis) (fx : fixes), analysis_ok A ->
  forall (dk : amap (text A)) (h : list (action A)) (f : file),
    guard A fx dk h = true -> In f (dirty (fst (run A fx dk h))) ->
    exists b, aget (ebuf (fst (run A fx dk h))) f = Some b /\
              Permutation (view (snd (run A fx dk h)) f)
                          (if is_nil (syn A b) then nonsyn (fresh_view A fx (disk (fst (run A fx dk h))) f) else syn A b).
Proof. exact unsaved_view. Qed.
Print Assumptions C08_unsaved_view.

(* the same in terms of the server's own maps, as an equality (DESIGN: view = live, else shown (saved)) *)
Theorem C08_guarded_exact :
  forall (A : analysis) (fx : fixes), analysis_ok A ->
  forall (dk : amap (text A)) (h : list (action A)),
    guard A fx dk h = true ->
    let w := fst (run A fx dk h) in
    forall f, view (snd (run A fx dk h)) f =
              match aget (live (ds (sv w))) f with
              | Some e => e
              | None => if fmem f (dirty w) then nonsyn (vget (saved (ds (sv w))) f) else vget (saved (ds (sv w))) f
              end.
Proof. exact guarded_exact. Qed.
Print Assumptions C08_guarded_exact.

(* the assumptions on the analyses are satisfiable: the toy analysis of the correspondence check meets them *)
Theorem C08_toy_analysis_ok : analysis_ok toyA.
Proof. exact toy_ok. Qed.
Print Assumptions C08_toy_analysis_ok.

(* ---- refutations on the faithful model (toy analysis, no repair): conformant history, constrained file, wrong view;
        each witness was replayed on the real server through leg c08.history (known_findings/C08.json) ---- *)
Definition refutes (k : N) (dk : amap (list stmt)) (h : list (action toyA)) (f : file) : Prop :=
  conformant toyA no_fix dk h = true /\ In k (classes toyA no_fix dk h) /\
  constrained toyA (fst (run toyA no_fix dk h)) f = true /\
  ~ Permutation (view (snd (run toyA no_fix dk h)) f) (demanded toyA no_fix (fst (run toyA no_fix dk h)) f).

Local Notation AChange := (@AChange toyA).
Local Notation WC := (@WC toyA).
Local Notation WM := (@WM toyA).

Ltac refute :=
  split; [vm_compute; reflexivity|]; split; [vm_compute; tauto|]; split; [vm_compute; reflexivity|];
  let H := fresh in intros H; apply perm_eqb_of_perm in H; vm_compute in H; discriminate H.

(* 12a: a has an unsaved syntax error; saving b changes a's saved list; the client loses a's syntax error *)
Definition w_live_cleared_dk : amap (list stmt) := [(0, [SU 1]); (1, [SC]); (2, [SL])].
Definition w_live_cleared : list (action toyA) :=
  [AOpen 0; AChange 0 [SU 1; SS]; AOpen 1; AChange 1 [SD 1]; ASave 1].
Theorem C08_live_cleared_refuted : refutes 2 w_live_cleared_dk w_live_cleared 0.
Proof. refute. Qed.
Print Assumptions C08_live_cleared_refuted.

(* 12b: disk a has a syntax error; the buffer is fixed but closed unsaved; the client keeps hiding the error *)
Definition w_close_revert_dk : amap (list stmt) := [(0, [SS])].
Definition w_close_revert : list (action toyA) := [AOpen 0; AChange 0 [SC]; AClose 0].
Theorem C08_close_revert_refuted : refutes 4 w_close_revert_dk w_close_revert 0.
Proof. refute. Qed.
Print Assumptions C08_close_revert_refuted.

(* 12: a requires b; b is created and deleted; no type 6 on a, a fresh start has one *)
Definition w_deleted_require_dk : amap (list stmt) := [(0, [SR 1])].
Definition w_deleted_require : list (action toyA) := [AWatched [WC 1 [SC]]; AWatched [WD 1]].
Theorem C08_deleted_require_refuted : refutes 6 w_deleted_require_dk w_deleted_require 0.
Proof. refute. Qed.
Print Assumptions C08_deleted_require_refuted.

(* the index does not refine the file set (DESIGN C08_index_refines, refuted today) *)
Theorem C08_index_refines_refuted :
  let p := pj (sv (fst (run toyA no_fix w_deleted_require_dk w_deleted_require))) in p_index p <> p_files p.
Proof. vm_compute. discriminate. Qed.
Print Assumptions C08_index_refines_refuted.

(* new: a's saved version has a syntax error, its unsaved buffer is clean; saving b changes a's saved list; the
   stale syntax error is shown again although the buffer does not have it *)
Definition w_unhidden_dk : amap (list stmt) := [(0, [SS; SU 1]); (1, [SC])].
Definition w_unhidden : list (action toyA) := [AOpen 0; AChange 0 [SU 1]; AOpen 1; AChange 1 [SD 1]; ASave 1].
Theorem C08_unhidden_refuted : refutes 3 w_unhidden_dk w_unhidden 0.
Proof. refute. Qed.
Print Assumptions C08_unhidden_refuted.

(* new: a file analysed at start-up is emptied and saved: bytes.Equal(nil, empty) - the old diagnostics stay *)
Definition w_empty_shortcut_dk : amap (list stmt) := [(0, [SS])].
Definition w_empty_shortcut : list (action toyA) := [AOpen 0; AChange 0 []; ASave 0].
Theorem C08_empty_shortcut_refuted : refutes 7 w_empty_shortcut_dk w_empty_shortcut 0.
Proof. refute. Qed.
Print Assumptions C08_empty_shortcut_refuted.

(* new: an external change of a file whose unsaved buffer has a syntax error drops the live entry *)
Definition w_watched_dirty_dk : amap (list stmt) := [(0, [SL])].
Definition w_watched_dirty : list (action toyA) := [AOpen 0; AChange 0 [SL; SS]; AWatched [WM 0 [SL; SL]]].
Theorem C08_watched_dirty_refuted : refutes 5 w_watched_dirty_dk w_watched_dirty 0.
Proof. refute. Qed.
Print Assumptions C08_watched_dirty_refuted.

(* new: a file outside the workspace (p) is opened and closed again: its global keeps suppressing a's warning *)
Definition w_outside_dk : amap (list stmt) := [(0, [SU 1]); (4, [SD 1])].
Definition w_outside : list (action toyA) := [AOpen 4; AOpen 0; AChange 0 [SC; SU 1]; ASave 0; AClose 4].
Theorem C08_outside_file_refuted : refutes 1 w_outside_dk w_outside 0.
Proof. refute. Qed.
Print Assumptions C08_outside_file_refuted.

Theorem C08_full_refuted : ~ C08_full.
Proof.
  intros H. destruct C08_live_cleared_refuted as [Hc [_ [Hk Hn]]]. apply Hn.
  apply (H toyA toy_ok w_live_cleared_dk w_live_cleared); [vm_compute; reflexivity|exact Hk].
Qed.
Print Assumptions C08_full_refuted.

(* ---- with the repair switched on, each repaired witness meets the property (the model with the flag = the patched
        code, work/fixes/C08-*.diff) ---- *)
Definition meets (fx : fixes) (dk : amap (list stmt)) (h : list (action toyA)) (f : file) : bool :=
  perm_eqb (view (snd (run toyA fx dk h)) f) (demanded toyA fx (fst (run toyA fx dk h)) f) && guard toyA fx dk h.

Example C08_live_cleared_fixed :
  meets {| fix12a := true; fix12b := false; fix_index := false; fix_empty := false |} w_live_cleared_dk w_live_cleared 0 = true.
Proof. vm_compute. reflexivity. Qed.
Example C08_close_revert_fixed :
  meets {| fix12a := false; fix12b := true; fix_index := false; fix_empty := false |} w_close_revert_dk w_close_revert 0 = true.
Proof. vm_compute. reflexivity. Qed.
Example C08_deleted_require_fixed :
  meets {| fix12a := false; fix12b := false; fix_index := true; fix_empty := false |} w_deleted_require_dk w_deleted_require 0 = true.
Proof. vm_compute. reflexivity. Qed.
Example C08_empty_shortcut_fixed :
  meets {| fix12a := false; fix12b := false; fix_index := false; fix_empty := true |} w_empty_shortcut_dk w_empty_shortcut 0 = true.
Proof. vm_compute. reflexivity. Qed.

(* ---- non-vacuity: a non-trivial history satisfies the guard of the unrepaired model (fix-then-break cycles with
        saves, an unsaved syntax error visible while another file is saved without changing that file's saved list,
        creation and deletion of files, a require that resolves) ---- *)
Definition g_dk : amap (list stmt) := [(0, [SL; SS]); (1, [SU 1]); (2, [SR 0; SC])].
Definition g_h : list (action toyA) :=
  [AOpen 0; AChange 0 [SL]; ASave 0; AChange 0 [SL; SS]; AOpen 2; AChange 2 [SR 0; SL]; ASave 2; ASave 0;
   AChange 0 [SL; SD 1]; ASave 0; AClose 0; AWatched [WC 3 [SU 2; SL]]; AWatched [WM 3 [SD 2]]; AWatched [WD 3];
   AClose 2].
Example C08_guard_inhabited :
  guard toyA no_fix g_dk g_h = true /\ dirty (fst (run toyA no_fix g_dk g_h)) = [] /\
  view (snd (run toyA no_fix g_dk g_h)) 1 = [] /\ view (snd (run toyA no_fix g_dk g_h)) 2 = [(4, 1, 0)].
Proof. vm_compute. auto. Qed.
