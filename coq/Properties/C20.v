(* C20 - pattern-based checks fire exactly where their pattern occurs.
   Model: Model/Patterns.v (first analysis pass of the Go code on the shared AST); patterns: Spec/PatternSpec.v.
   Only statements closed by `exact` + Print Assumptions live here (and vm_compute witnesses).
   [fclose] is the oracle for "two float literals denote (nearly) the same number"; every theorem holds for all of them.
   reported ty L rs = a report of type ty at Loc L is in rs.

   The model carries a record of fix flags [fx : fixes] (Model/Patterns.v): [no_fixes] = the code as found,
   [deployed] = the code of /repo after the repairs fixes/C20-*.diff (all of them: = [all_fixes]).
   Part 1: what holds for EVERY variant (so for the code as found and for the repaired code alike) - the theorems of
           round 1, unchanged in content.
   Part 2: what the repairs add: the guards that excluded the defects are gone.
   Part 3: whole files.   Part 4: witnesses - the deviations that remain, and the repaired ones as regression examples. *)
From Coq Require Import List NArith ZArith Bool Arith String.
From LH Require Import Base.Bytes Base.Res Model.Lexer Model.Ast Model.Parser Model.LuaFront Spec.PatternSpec
  Model.Patterns Proofs.PatternsLocal Proofs.PatternsTree Proofs.PatternsCompExp Proofs.PatternsClasses
  Proofs.PatternsGuarded Proofs.PatternsKeys Proofs.PatternsFile Proofs.PatternsWitness.
Import ListNotations.
Local Open Scope N_scope.

(* ================================================================== the full statement (refuted below) *)
(* for every file that parses without error: the published reports of the ten types = the places the patterns demand *)
Definition C20_full_for (fx : fixes) : Prop :=
  forall fclose gbk bs o,
    check_bytes fx fclose gbk classify_tok bs = Ok o -> o_valid o = true ->
    forall ty L, reported ty L (o_model o) <-> In (ty, L) (o_spec o).
Definition C20_full : Prop := C20_full_for deployed.

(* ================================================================== Part 1: every variant of the code *)
(* 21: `e1 == e2` / `e1 ~= e2` with a float literal operand, at the Loc of the comparison - exact, no guard *)
Theorem C20_t21_iff : forall fx fclose op e1 e2 l L,
  reported 21 L (binop_checks fx fclose op e1 e2 l) <-> Pattern21 op e1 e2 /\ L = l.
Proof. exact t21_iff. Qed.
Print Assumptions C20_t21_iff.

(* 15 / 16: exact up to GetExpLoc: both operands must have a non-zero Location *)
Theorem C20_t15_iff : forall fx fclose op e1 e2 l L,
  reported 15 L (binop_checks fx fclose op e1 e2 l)
  <-> Pattern15 op e1 e2 /\ has_place fx e1 /\ has_place fx e2 /\ L = operands_loc fx e1 e2.
Proof. exact t15_iff. Qed.
Print Assumptions C20_t15_iff.

Theorem C20_t15_iff_guarded : forall fx fclose op e1 e2 l L,
  located fx e1 -> located fx e2 ->
  (reported 15 L (binop_checks fx fclose op e1 e2 l) <-> Pattern15 op e1 e2 /\ L = span (exp_loc e1) (exp_loc e2)).
Proof. exact t15_iff_guarded. Qed.
Print Assumptions C20_t15_iff_guarded.

Theorem C20_t16_iff : forall fx fclose op e1 e2 l L,
  reported 16 L (binop_checks fx fclose op e1 e2 l)
  <-> Pattern16 op e1 e2 /\ has_place fx e1 /\ has_place fx e2 /\ L = operands_loc fx e1 e2.
Proof. exact t16_iff. Qed.
Print Assumptions C20_t16_iff.

Theorem C20_t16_iff_guarded : forall fx fclose op e1 e2 l L,
  located fx e1 -> located fx e2 ->
  (reported 16 L (binop_checks fx fclose op e1 e2 l) <-> Pattern16 op e1 e2 /\ L = span (exp_loc e1) (exp_loc e2)).
Proof. exact t16_iff_guarded. Qed.
Print Assumptions C20_t16_iff_guarded.

(* 13: a parameter equal to an earlier one (`_` exempt), at the later parameter - exact *)
Theorem C20_t13_iff : forall pars plocs L,
  List.length pars = List.length plocs ->
  (reported 13 L (param_checks pars plocs) <-> exists j, Pattern13 pars j /\ nth_error plocs j = Some L).
Proof. exact t13_iff. Qed.
Print Assumptions C20_t13_iff.

(* 7 / 8: exact *)
Theorem C20_t7_iff : forall fx fclose vars es l L,
  reported 7 L (assign_checks fx fclose vars es l) <-> Pattern7 vars es /\ L = l.
Proof. exact t7_iff. Qed.
Print Assumptions C20_t7_iff.

Theorem C20_t8_iff : forall names es l L,
  reported 8 L (local_checks names es l) <-> Pattern8 names es /\ L = l.
Proof. exact t8_iff. Qed.
Print Assumptions C20_t8_iff.

(* 20: exact in terms of CompExp; the code as found compares with comp_exp, ... *)
Theorem C20_t20_iff : forall fx fclose vars es l L,
  reported 20 L (assign_checks fx fclose vars es l)
  <-> Forall2 (fun v e => cmp fx fclose v e = true) vars es /\ L = l.
Proof. exact t20_iff. Qed.
Print Assumptions C20_t20_iff.

Theorem C20_t20_iff_before : forall fclose vars es l L,
  reported 20 L (assign_checks no_fixes fclose vars es l)
  <-> Forall2 (fun v e => comp_exp fclose v e = true) vars es /\ L = l.
Proof. exact (t20_iff no_fixes). Qed.
Print Assumptions C20_t20_iff_before.

(* ... = the pattern when no grouping parentheses occur *)
Theorem C20_t20_iff_guarded : forall fx fclose vars es l L,
  Forall paren_free vars -> Forall paren_free es ->
  (reported 20 L (assign_checks fx fclose vars es l) <-> Pattern20 fclose vars es /\ L = l).
Proof. exact t20_iff_guarded. Qed.
Print Assumptions C20_t20_iff_guarded.

(* 5: exact in terms of the key strings of the code (GetTableConstuctorKeyStr): key j is reported iff an earlier key has
   the same non-empty key string; the report sits where the code puts it *)
Theorem C20_t5_iff : forall fx ks parent L,
  reported 5 L (table_checks fx ks parent [])
  <-> exists j key, option_map (code_key fx parent) (nth_error ks j) = Some (Some (key, L)) /\
        exists i l', (i < j)%nat /\ option_map (code_key fx parent) (nth_error ks i) = Some (Some (key, l')).
Proof. exact t5_iff. Qed.
Print Assumptions C20_t5_iff.

(* 14: identical operands that have an internal name are reported (completeness) ...
   [fixes_ok]: C20-t14-name-collision is applied on top of C20-parens *)
Theorem C20_t14_complete : forall fx fclose op e1 e2 l,
  fixes_ok fx ->
  Pattern14 fclose op e1 e2 -> has_hash (exp_name e1) = false -> has_place fx e1 -> has_place fx e2 ->
  reported 14 (operands_loc fx e1 e2) (binop_checks fx fclose op e1 e2 l).
Proof. exact t14_complete. Qed.
Print Assumptions C20_t14_complete.

(* ... and on access paths (a, a.b, a["b"].c, ("s").x, parentheses allowed) the check is exact *)
Theorem C20_t14_iff_guarded : forall fx fclose op e1 e2 l L,
  fixes_ok fx ->
  path e1 = true -> path e2 = true -> located fx e1 -> located fx e2 ->
  (reported 14 L (binop_checks fx fclose op e1 e2 l) <-> Pattern14 fclose op e1 e2 /\ L = span (exp_loc e1) (exp_loc e2)).
Proof. exact t14_iff_guarded. Qed.
Print Assumptions C20_t14_iff_guarded.

(* 19: exact in terms of CompExp over the conditions compared ... *)
Theorem C20_t19_iff : forall fx fclose es L,
  reported 19 L (if_checks fx fclose es)
  <-> exists j c, nth_error es j = Some c /\ get_exp_loc fx c = L /\
                  exists i c', (i < j)%nat /\ nth_error es i = Some c' /\ cmp fx fclose c' c = true.
Proof. exact t19_iff. Qed.
Print Assumptions C20_t19_iff.

(* ... which in the code as found are ALL entries of IfStat.Exps (incl. the synthetic `true` of else) *)
Theorem C20_t19_conds_before : forall fclose elses es bs l,
  local_pre no_fixes fclose elses (NS (SIf es bs l)) = if_checks no_fixes fclose es.
Proof. exact (fun _ _ _ _ _ => eq_refl). Qed.
Print Assumptions C20_t19_conds_before.

(* ... = the pattern for an if without else branch, without grouping parentheses and without a nil / BadExpr condition *)
Theorem C20_t19_iff_guarded : forall fx fclose elses es L,
  real_conds elses es = es -> Forall paren_free es -> Forall (located fx) es ->
  (reported 19 L (if_checks fx fclose es)
   <-> exists j c, Pattern19 fclose es j /\ nth_error es j = Some c /\ L = exp_loc c).
Proof. exact t19_iff_guarded. Qed.
Print Assumptions C20_t19_iff_guarded.

(* CompExp (as found) = structural equality modulo Locs of expressions without function / table constructor *)
Theorem C20_compexp_characterisation : forall fclose a b,
  comp_exp fclose a b = true <-> eq_mod_loc fclose a b /\ no_ctor a.
Proof. exact comp_exp_characterisation. Qed.
Print Assumptions C20_compexp_characterisation.

(* the executable "the same" of the specification decides its declarative definition *)
Theorem C20_same_decided : forall fclose a b, same_b fclose a b = true <-> Same fclose a b.
Proof. exact same_b_iff. Qed.
Print Assumptions C20_same_decided.

(* ================================================================== Part 2: the repaired code *)
(* C20-parens: CompExp of the repaired code IS "the same" of the specification *)
Theorem C20_compexp_fixed : forall fx fclose a b,
  fx_parens fx = true -> (cmp fx fclose a b = true <-> Same fclose a b).
Proof. exact cmp_fixed. Qed.
Print Assumptions C20_compexp_fixed.

(* 20 = the pattern, no guard *)
Theorem C20_t20_iff_fixed : forall fx fclose vars es l L,
  fx_parens fx = true ->
  (reported 20 L (assign_checks fx fclose vars es l) <-> Pattern20 fclose vars es /\ L = l).
Proof. exact t20_iff_fixed. Qed.
Print Assumptions C20_t20_iff_fixed.

Corollary C20_t20_deployed : forall fclose vars es l L,
  reported 20 L (assign_checks deployed fclose vars es l) <-> Pattern20 fclose vars es /\ L = l.
Proof. exact (fun fclose vars es l L => t20_iff_fixed deployed fclose vars es l L eq_refl). Qed.
Print Assumptions C20_t20_deployed.

(* C20-nil-loc: GetExpLoc is the node's own Loc for every expression of the source (BadExpr = a syntax error) ... *)
Theorem C20_get_exp_loc_fixed : forall fx e,
  fx_nil_loc fx = true -> is_bad e = false -> get_exp_loc fx e = exp_loc e.
Proof. exact get_exp_loc_fixed. Qed.
Print Assumptions C20_get_exp_loc_fixed.

(* ... so 15 / 16 = the pattern for all operands of the source (real_loc e: not a BadExpr, Loc not zero - lines start at 1) *)
Theorem C20_t15_iff_fixed : forall fx fclose op e1 e2 l L,
  fx_nil_loc fx = true -> real_loc e1 -> real_loc e2 ->
  (reported 15 L (binop_checks fx fclose op e1 e2 l) <-> Pattern15 op e1 e2 /\ L = span (exp_loc e1) (exp_loc e2)).
Proof. exact t15_iff_fixed. Qed.
Print Assumptions C20_t15_iff_fixed.

Theorem C20_t16_iff_fixed : forall fx fclose op e1 e2 l L,
  fx_nil_loc fx = true -> real_loc e1 -> real_loc e2 ->
  (reported 16 L (binop_checks fx fclose op e1 e2 l) <-> Pattern16 op e1 e2 /\ L = span (exp_loc e1) (exp_loc e2)).
Proof. exact t16_iff_fixed. Qed.
Print Assumptions C20_t16_iff_fixed.

(* C20-t19-else + C20-parens + C20-nil-loc: the check of an if statement = the pattern over the conditions written in the
   source; no guard on else branches, parentheses or nil (only: no condition is a BadExpr, i.e. no syntax error there) *)
Theorem C20_t19_iff_fixed : forall fx fclose elses es bs l L,
  fx_else fx = true -> fx_parens fx = true -> fx_nil_loc fx = true ->
  Forall (fun c => is_bad c = false) es ->
  (reported 19 L (local_pre fx fclose elses (NS (SIf es bs l)))
   <-> exists j c, Pattern19 fclose (real_conds elses es) j /\ nth_error (real_conds elses es) j = Some c /\ L = exp_loc c).
Proof. exact t19_node_fixed. Qed.
Print Assumptions C20_t19_iff_fixed.

Corollary C20_t19_deployed : forall fclose elses es bs l L,
  Forall (fun c => is_bad c = false) es ->
  (reported 19 L (local_pre deployed fclose elses (NS (SIf es bs l)))
   <-> exists j c, Pattern19 fclose (real_conds elses es) j /\ nth_error (real_conds elses es) j = Some c /\ L = exp_loc c).
Proof. exact (fun fclose elses es bs l L => t19_node_fixed deployed fclose elses es bs l L eq_refl eq_refl eq_refl). Qed.
Print Assumptions C20_t19_deployed.

(* C20-t14-name-collision (on C20-parens): 14 is sound for ALL operands; what remains is that operands without an internal
   name (literals, calls, operators: C20_t14_literal_refuted) are never reported *)
Theorem C20_t14_iff_fixed : forall fx fclose op e1 e2 l L,
  fx_parens fx = true -> fx_name14 fx = true -> located fx e1 -> located fx e2 ->
  (reported 14 L (binop_checks fx fclose op e1 e2 l)
   <-> Pattern14 fclose op e1 e2 /\ has_hash (exp_name e1) = false /\ L = span (exp_loc e1) (exp_loc e2)).
Proof. exact t14_iff_fixed. Qed.
Print Assumptions C20_t14_iff_fixed.

(* C20-t5-string-key + C20-t5-int-key-place: 5 = the pattern, reported on the repeated key *)
Theorem C20_t5_iff_fixed : forall fx ks parent L,
  fx_str_key fx = true -> fx_int_key fx = true ->
  (reported 5 L (table_checks fx ks parent [])
   <-> exists j ke, Pattern5 ks j /\ nth_error ks j = Some (Some ke) /\ L = exp_loc ke).
Proof. exact (fun fx ks parent L Hs Hi => t5_iff_fixed fx Hs Hi ks parent L). Qed.
Print Assumptions C20_t5_iff_fixed.

Corollary C20_t5_deployed : forall ks parent L,
  reported 5 L (table_checks deployed ks parent [])
  <-> exists j ke, Pattern5 ks j /\ nth_error ks j = Some (Some ke) /\ L = exp_loc ke.
Proof. exact (t5_iff_fixed deployed eq_refl eq_refl). Qed.
Print Assumptions C20_t5_deployed.

(* strconv.FormatInt is injective (behind the key string "#int" + decimal) *)
Theorem C20_dec_Z_injective : forall v w, dec_Z v = dec_Z w -> v = w.
Proof. exact dec_Z_inj. Qed.
Print Assumptions C20_dec_Z_injective.

(* ================================================================== Part 3: the whole file *)
(* the published reports are exactly the checks of the nodes the first pass visits ... *)
Theorem C20_reports_are_visited_checks : forall fx fclose elses b r,
  In r (run_block fx fclose elses b) <-> exists m, within (children_vis fx) (NB b) m /\ In r (local fx fclose elses m).
Proof. exact run_block_iff. Qed.
Print Assumptions C20_reports_are_visited_checks.

(* ... each (type, Loc, message) once (three equal parameters: three pairs, two reports - one per later place) *)
Theorem C20_once : forall fx fclose elses b, NoDup (run_block fx fclose elses b).
Proof. exact run_block_once. Qed.
Print Assumptions C20_once.

(* visited nodes are nodes of the tree ("nowhere else") ... *)
Theorem C20_visited_are_nodes : forall fx n m, within (children_vis fx) n m -> within children_all n m.
Proof. exact within_vis_all. Qed.
Print Assumptions C20_visited_are_nodes.

(* ... and every node of the tree is visited ("at every place"), provided no local declaration has two or more surplus
   values - a proviso only for the variants WITHOUT C20-local-surplus (C20_unvisited_refuted_before_fix); for the code
   now in /repo see C20_every_node_visited_deployed below; bare assignment targets carry no check *)
Theorem C20_every_node_visited_guarded : forall fx root m,
  traversal_ok fx root -> within children_all root m -> ~ target_shape m -> within (children_vis fx) root m.
Proof. exact visited_complete. Qed.
Print Assumptions C20_every_node_visited_guarded.

(* the code now in /repo (fixes/C20-local-surplus.diff in): EVERY node is visited, no proviso about local declarations
   (targets_ok: assignment targets are names or table accesses - always so in an error-free parse) *)
Theorem C20_every_node_visited_deployed : forall root m,
  targets_ok root -> within children_all root m -> ~ target_shape m -> within (children_vis deployed) root m.
Proof. exact visited_complete_deployed. Qed.
Print Assumptions C20_every_node_visited_deployed.

(* what the property demands for a file = the patterns of all its nodes *)
Theorem C20_demanded_iff : forall fclose elses b p,
  In p (demanded fclose elses b) <-> exists m, within children_all (NB b) m /\ In p (spec_node fclose elses m).
Proof. exact demanded_iff. Qed.
Print Assumptions C20_demanded_iff.

(* the correspondence driver's model column is run_bytes *)
Theorem C20_driver_runs_model : forall fx fclose gbk classify bs,
  match check_bytes fx fclose gbk classify bs, run_bytes fx fclose gbk classify bs with
  | Ok o, Ok m => o_model o = m
  | Fault k, Fault k' => k = k'
  | OutOfFuel, OutOfFuel => True
  | _, _ => False
  end.
Proof. exact check_bytes_model. Qed.
Print Assumptions C20_driver_runs_model.

(* ... which is the shared front end (LuaFront.parse_bytes) followed by run_block on the parsed block *)
Theorem C20_model_runs_on_front_end : forall fx fclose gbk classify bs,
  match parse_bytes gbk classify bs, run_bytes fx fclose gbk classify bs with
  | Ok (PR b _ _), Ok m => exists elses, m = run_block fx fclose elses b
  | Ok PRTooMany, Ok m => m = []
  | Fault k, Fault k' => k = k'
  | OutOfFuel, OutOfFuel => True
  | _, _ => False
  end.
Proof. exact run_bytes_front_end. Qed.
Print Assumptions C20_model_runs_on_front_end.

(* the executable patterns (the `spec` column of the correspondence leg) are the declarative ones *)
Theorem C20_spec_binop_iff : forall fclose op a b l ty L,
  In (ty, L) (spec_binop fclose op a b l)
  <-> (ty = 15 /\ Pattern15 op a b /\ L = span (exp_loc a) (exp_loc b))
      \/ (ty = 16 /\ Pattern16 op a b /\ L = span (exp_loc a) (exp_loc b))
      \/ (ty = 21 /\ Pattern21 op a b /\ L = l)
      \/ (ty = 14 /\ Pattern14 fclose op a b /\ L = span (exp_loc a) (exp_loc b)).
Proof. exact spec_binop_iff. Qed.
Print Assumptions C20_spec_binop_iff.

Theorem C20_spec_table_iff : forall ks ty L,
  In (ty, L) (spec_table ks [])
  <-> ty = 5 /\ exists j ke, Pattern5 ks j /\ nth_error ks j = Some (Some ke) /\ L = exp_loc ke.
Proof. exact spec_table_pattern. Qed.
Print Assumptions C20_spec_table_iff.

Theorem C20_spec_if_iff : forall fclose cs ty L,
  In (ty, L) (spec_if fclose cs [])
  <-> ty = 19 /\ exists j c, Pattern19 fclose cs j /\ nth_error cs j = Some c /\ L = exp_loc c.
Proof. exact spec_if_pattern. Qed.
Print Assumptions C20_spec_if_iff.

Theorem C20_spec_assign_iff : forall fclose vars es l ty L,
  In (ty, L) (spec_assign fclose vars es l)
  <-> (ty = 7 /\ Pattern7 vars es /\ L = l) \/ (ty = 20 /\ Pattern20 fclose vars es /\ L = l).
Proof. exact spec_assign_iff. Qed.
Print Assumptions C20_spec_assign_iff.

Theorem C20_spec_local_iff : forall names es l ty L,
  In (ty, L) (spec_local names es l) <-> ty = 8 /\ Pattern8 names es /\ L = l.
Proof. exact spec_local_iff. Qed.
Print Assumptions C20_spec_local_iff.

(* [repaired fx]: every repair but C20-local-surplus is in (true of [deployed], where that one is in as well).
   One node: its checks are exactly its patterns, under the node's part of the guard *)
Theorem C20_node_exact : forall fx fclose elses n ty L,
  repaired fx -> node_guard_b fx fclose n = true ->
  (reported ty L (local fx fclose elses n) <-> In (ty, L) (spec_node fclose elses n)).
Proof. exact (fun fx fclose elses n ty L H => node_exact fx fclose elses H n ty L). Qed.
Print Assumptions C20_node_exact.

(* THE FULL STATEMENT, GUARDED: for the repaired code the published reports of a file are exactly the places the patterns
   demand, on every file that passes the boolean guard file_guard_b (PatternsClasses.v):
     no comparison whose two operands are the same but have no internal name (C20_t14_literal_refuted),
     no local declaration with two or more surplus values - ONLY for a variant without C20-local-surplus
       (C20_unvisited_refuted_before_fix); for [deployed] this clause of the guard is constantly true
       (C20_deployed_guard_no_local_clause),
     and the sanity of an error-free parse (operands / conditions are no BadExpr and carry a Loc; assignment targets are
     names or table accesses).
   The guard is computed for every case by the correspondence driver (o_guard). *)
Theorem C20_full_guarded : forall fx fclose gbk classify bs o,
  repaired fx ->
  check_bytes fx fclose gbk classify bs = Ok o -> o_guard o = true ->
  forall ty L, reported ty L (o_model o) <-> In (ty, L) (o_spec o).
Proof. exact check_bytes_exact. Qed.
Print Assumptions C20_full_guarded.

Corollary C20_full_deployed_guarded : forall fclose gbk bs o,
  check_bytes deployed fclose gbk classify_tok bs = Ok o -> o_guard o = true ->
  forall ty L, reported ty L (o_model o) <-> In (ty, L) (o_spec o).
Proof.
  exact (fun fclose gbk bs o =>
           check_bytes_exact deployed fclose gbk classify_tok bs o
             (conj eq_refl (conj eq_refl (conj eq_refl (conj eq_refl (conj eq_refl eq_refl)))))).
Qed.
Print Assumptions C20_full_deployed_guarded.

(* the guard of the code now in /repo says nothing about local declarations any more *)
Theorem C20_deployed_guard_no_local_clause : forall fclose names ls ats es l,
  node_guard_b deployed fclose (NS (SLocal names ls ats es l)) = true.
Proof. reflexivity. Qed.
Print Assumptions C20_deployed_guard_no_local_clause.

(* ================================================================== Part 4: witnesses *)
Local Open Scope string_scope.
Ltac witness := eexists; split; [split; vm_compute; reflexivity|vm_compute; repeat split; reflexivity].

(* ------------------------------------------------------------------ where the deployed code still deviates *)
(* 14 never reported for literals (nor calls, operators, `...`): operands without internal name *)
Theorem C20_t14_literal_refuted :
  exists o, valid_outcome deployed "x = 1 == 1" o /\ under_reported o 14 = true /\ o_classes o = [C14Unnamed].
Proof. witness. Qed.
Print Assumptions C20_t14_literal_refuted.

(* REPAIRED (fixes/C20-local-surplus.diff, `continue` instead of `break` in cgLocalVarDeclStat): the surplus values of
   a local declaration beyond index nNames were never visited by any pass.  [before_surplus] = the code of /repo before
   that repair (every other repair in): the witness deviates there and no longer for the code now in /repo. *)
Definition before_surplus : fixes := mkFixes true true true true true true false.
Theorem C20_unvisited_refuted_before_fix :
  exists o, valid_outcome before_surplus "local x = 1, 2, a == a" o /\ under_reported o 14 = true /\ o_classes o = [CUnvisited].
Proof. witness. Qed.
Print Assumptions C20_unvisited_refuted_before_fix.
Theorem C20_unvisited_fixed :
  exists o, valid_outcome deployed "local x = 1, 2, a == a" o /\ agrees o = true /\ List.length (o_model o) = 2%nat /\
            o_classes o = [].
Proof. witness. Qed.
Print Assumptions C20_unvisited_fixed.
(* a pattern in the LAST of several surplus values, and one nested in a closure there *)
Example C20_unvisited_deep_regression :
  (exists o, valid_outcome before_surplus "local x = 1, 2, 3, function() t = {k=1, k=2} end" o /\ under_reported o 5 = true /\
            o_classes o = [CUnvisited]) /\
            (exists o, valid_outcome deployed "local x = 1, 2, 3, function() t = {k=1, k=2} end" o /\ agrees o = true /\
            o_classes o = []).
Proof. split; witness. Qed.

(* two places with one Loc (the column defects of the lexer, property C04): their reports are de-duplicated *)
Theorem C20_loc_collision_refuted :
  exists o, valid_outcome deployed "f = function(a, --[[c]] a, --[[c]] a) end" o /\
            List.length (o_model o) = 1%nat /\ List.length (o_spec o) = 2%nat /\ o_classes o = [CLocCollision].
Proof. witness. Qed.
Print Assumptions C20_loc_collision_refuted.

(* hence the full statement does not hold for the deployed code either *)
Theorem C20_full_refuted : ~ C20_full.
Proof.
  destruct C20_t14_literal_refuted as [o [Hvo [Ho _]]].
  exact (full_refuted_from_under deployed _ o 14 Hvo Ho).
Qed.
Print Assumptions C20_full_refuted.

(* ------------------------------------------------------------------ repaired: the old witnesses, before and after *)
(* before: the deviation and its class in the code as found; after: the deployed code agrees with the pattern *)
Example C20_t14_string_name_regression :
  (exists o, valid_outcome no_fixes "x = ""!a"" == a" o /\ over_reported o 14 = true /\ o_classes o = [C14Collision]) /\
  (exists o, valid_outcome deployed "x = ""!a"" == a" o /\ agrees o = true /\ o_model o = [] /\ o_classes o = []).
Proof. split; witness. Qed.

Example C20_t19_else_regression :
  (exists o, valid_outcome no_fixes "if true then x = 1 else x = 2 end" o /\ over_reported o 19 = true /\
             o_classes o = [C19Else]) /\
  (exists o, valid_outcome deployed "if true then x = 1 else x = 2 end" o /\ agrees o = true /\ o_model o = [] /\
             o_classes o = []).
Proof. split; witness. Qed.

(* a genuine repeated `true` is still reported in front of an else branch *)
Example C20_t19_else_true_regression :
  exists o, valid_outcome deployed "if true then x = 1 elseif true then x = 2 else x = 3 end" o /\ agrees o = true /\
            List.length (o_model o) = 1%nat /\ o_classes o = [].
Proof. witness. Qed.

Example C20_t19_parens_regression :
  (exists o, valid_outcome no_fixes "if a then x = 1 elseif (a) then x = 2 end" o /\ under_reported o 19 = true /\
             o_classes o = [C19Parens]) /\
  (exists o, valid_outcome deployed "if a then x = 1 elseif (a) then x = 2 end" o /\ agrees o = true /\
             List.length (o_model o) = 1%nat /\ o_classes o = []).
Proof. split; witness. Qed.

(* a repeated nil condition: was reported at the zero Location (line -1 on the wire) *)
Example C20_t19_nil_place_regression :
  (exists o, valid_outcome no_fixes "if nil then x = 1 elseif nil then x = 2 end" o /\ under_reported o 19 = true /\
             reportedb 19 zero_loc (o_model o) = true /\ o_classes o = [C19NilPlace]) /\
  (exists o, valid_outcome deployed "if nil then x = 1 elseif nil then x = 2 end" o /\ agrees o = true /\
             List.length (o_model o) = 1%nat /\ o_classes o = []).
Proof. split; witness. Qed.

Example C20_t20_parens_regression :
  (exists o, valid_outcome no_fixes "a = (a)" o /\ under_reported o 20 = true /\ o_classes o = [C20Parens]) /\
  (exists o, valid_outcome deployed "a = (a)" o /\ agrees o = true /\ List.length (o_model o) = 1%nat /\ o_classes o = []).
Proof. split; witness. Qed.

(* the parentheses of `(f())` are no grouping parentheses: `f((g()))` and `f(g())` stay different, `(f())` and `((f()))` are
   the same *)
Example C20_parens_adjust_regression :
  exists o, valid_outcome deployed
    "if f((g())) then elseif f(g()) then elseif (f((g()))) then end if (f()) then elseif f() then elseif ((f())) then end" o /\
    agrees o = true /\ List.length (o_model o) = 1%nat /\ o_classes o = [].
Proof. witness. Qed.

(* `nil or true` / `false and nil`: GetExpLoc had no case for NilExp, the zero Location suppressed the report *)
Example C20_t15_nil_regression :
  (exists o, valid_outcome no_fixes "x = nil or true" o /\ under_reported o 15 = true /\ o_classes o = [C1516Nil]) /\
  (exists o, valid_outcome deployed "x = nil or true" o /\ agrees o = true /\ List.length (o_model o) = 1%nat /\
             o_classes o = []).
Proof. split; witness. Qed.

Example C20_t16_nil_regression :
  (exists o, valid_outcome no_fixes "x = false and nil" o /\ under_reported o 16 = true /\ o_classes o = [C1516Nil]) /\
  (exists o, valid_outcome deployed "x = false and nil" o /\ agrees o = true /\ List.length (o_model o) = 1%nat /\
             o_classes o = []).
Proof. split; witness. Qed.

(* 5: an integer key was reported on the whole constructor; three equal integer keys gave ONE report *)
Example C20_t5_int_place_regression :
  (exists o, valid_outcome no_fixes "t = {[1]=1, [1]=2, [1]=3}" o /\ under_reported o 5 = true /\
             over_reported o 5 = true /\ List.length (o_model o) = 1%nat /\ List.length (o_spec o) = 2%nat /\
             o_classes o = [C5IntPlace]) /\
  (exists o, valid_outcome deployed "t = {[1]=1, [1]=2, [1]=3}" o /\ agrees o = true /\
             List.length (o_model o) = 2%nat /\ o_classes o = []).
Proof. split; witness. Qed.

Example C20_t5_collision_regression :
  (exists o, valid_outcome no_fixes "t = {[""!a""]=1, [a]=2, [""#int1""]=3, [1]=4}" o /\ over_reported o 5 = true /\
             o_spec o = [] /\ o_classes o = [C5Collision]) /\
  (exists o, valid_outcome deployed "t = {[""!a""]=1, [a]=2, [""#int1""]=3, [1]=4}" o /\ agrees o = true /\
             o_model o = [] /\ o_classes o = []).
Proof. split; witness. Qed.

Example C20_t5_empty_regression :
  (exists o, valid_outcome no_fixes "t = {[""""]=1, [""""]=2}" o /\ under_reported o 5 = true /\ o_model o = [] /\
             o_classes o = [C5Empty]) /\
  (exists o, valid_outcome deployed "t = {[""""]=1, [""""]=2}" o /\ agrees o = true /\
             List.length (o_model o) = 1%nat /\ o_classes o = []).
Proof. split; witness. Qed.

(* ================================================================== non-vacuity *)
(* "once": three equal parameters - the pairwise loop finds three pairs, two reports are published, and they are the two
   later places the pattern demands; same for three equal conditions *)
Example C20_once_example :
  exists o, valid_outcome deployed "f = function(a, a, a) end if a then elseif a then elseif a then end" o /\
            agrees o = true /\ List.length (o_model o) = 4%nat /\ o_classes o = [].
Proof. witness. Qed.

(* a file with an instance of every pattern inside closures / constructors / arguments / conditions on which the code is
   exact - as found and as deployed *)
Example C20_agreeing_example :
  forall fx, In fx [no_fixes; deployed] ->
  exists o, valid_outcome fx
    "local t = { k = 1, k = 2, [a] = f(a.b == a.b, x or true, y and false, z == 0.5) } function g(p, p) if p then p = p elseif p then local u, v = 1 u, v = 1, 2, 3 end end" o
    /\ agrees o = true /\ List.length (o_model o) = 10%nat /\ o_classes o = [].
Proof. intros fx [<-|[<-|[]]]; witness. Qed.

(* the guard of C20_full_guarded holds on that file, fails on the remaining deviation and failed on surplus values before
   fixes/C20-local-surplus.diff (no longer) *)
Example C20_full_guard_example :
  (exists o, valid_outcome deployed
    "local t = { k = 1, k = 2, [a] = f(a.b == a.b, x or true, y and false, z == 0.5) } function g(p, p) if p then p = p elseif (p) then local u, v = 1 u, v = 1, 2, 3 else t = {[1] = nil or true, [1] = 2} end end" o
    /\ o_guard o = true /\ agrees o = true /\ List.length (o_model o) = 12%nat) /\
  (exists o, valid_outcome deployed "x = 1 == 1" o /\ o_guard o = false) /\
  (exists o, valid_outcome before_surplus "local x = 1, 2, a == a" o /\ o_guard o = false) /\
  (exists o, valid_outcome deployed "local x = 1, 2, a == a" o /\ o_guard o = true).
Proof. split; [|split; [|split]]; witness. Qed.

(* the guards are satisfiable by non-trivial nodes *)
Example C20_fixes_ok_example : fixes_ok no_fixes /\ fixes_ok deployed /\ fixes_ok all_fixes.
Proof. repeat split; intros H; try reflexivity; discriminate. Qed.

Example C20_t14_guard_example :
  let a1 := EIndex (EName [97] (mkLoc 1 0 1 1)) (EStr [98] (mkLoc 1 2 1 3)) (mkLoc 1 0 1 3) in
  let a2 := EParens (EIndex (EName [97] (mkLoc 1 8 1 9)) (EStr [98] (mkLoc 1 10 1 11)) (mkLoc 1 8 1 11)) (mkLoc 1 7 1 12) in
  path a1 = true /\ path a2 = true /\ located no_fixes a1 /\ located no_fixes a2 /\ Pattern14 fc_text TkOpEq a1 a2.
Proof.
  cbv zeta. split; [reflexivity|]. split; [reflexivity|].
  split; [split; [reflexivity|discriminate]|]. split; [split; [reflexivity|discriminate]|].
  split.
  - cbn. tauto.
  - apply same_b_iff. reflexivity.
Qed.

Example C20_t19_t20_guard_example :
  let c := EBinop TkOpEq (EName [120] (mkLoc 1 3 1 4)) (EInt 1 (mkLoc 1 8 1 9)) (mkLoc 1 3 1 9) in
  real_conds [] [c; c] = [c; c] /\ Forall paren_free [c; c] /\ Forall (located no_fixes) [c; c] /\
  Pattern19 fc_text [c; c] 1.
Proof.
  cbv zeta. split; [reflexivity|]. split; [repeat constructor|]. split; [repeat constructor; discriminate|].
  eexists. split; [reflexivity|]. exists O. eexists. split; [auto|]. split; [reflexivity|].
  apply same_b_iff. reflexivity.
Qed.

(* after C20-nil-loc the literal nil is an operand like any other *)
Example C20_real_loc_example :
  let e := ENil (mkLoc 1 4 1 7) in
  real_loc e /\ located deployed e /\ ~ located no_fixes e.
Proof.
  cbv zeta. split; [split; [reflexivity|discriminate]|]. split; [split; [reflexivity|discriminate]|].
  intros [H _]. discriminate.
Qed.
