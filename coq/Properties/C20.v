(* C20 - pattern-based checks fire exactly where their pattern occurs.
   Model: Model/Patterns.v (first analysis pass of the Go code on the shared AST); patterns: Spec/PatternSpec.v.
   Only statements closed by `exact` + Print Assumptions live here (and vm_compute witnesses).
   [fclose] is the oracle for "two float literals denote (nearly) the same number"; every theorem holds for all of them.
   reported ty L rs = a report of type ty at Loc L is in rs. *)
From Coq Require Import List NArith ZArith Bool Arith String.
From LH Require Import Base.Bytes Base.Res Model.Lexer Model.Ast Model.Parser Model.LuaFront Spec.PatternSpec
  Model.Patterns Proofs.PatternsLocal Proofs.PatternsTree Proofs.PatternsCompExp Proofs.PatternsClasses
  Proofs.PatternsGuarded Proofs.PatternsWitness.
Import ListNotations.
Local Open Scope N_scope.

(* ================================================================== the full statement (refuted below) *)
(* for every file that parses without error: the published reports of the ten types = the places the patterns demand *)
Definition C20_full : Prop :=
  forall fclose gbk bs o,
    check_bytes fclose gbk classify_tok bs = Ok o -> o_valid o = true ->
    forall ty L, reported ty L (o_model o) <-> In (ty, L) (o_spec o).

(* ================================================================== the checks, node by node *)
(* 21: `e1 == e2` / `e1 ~= e2` with a float literal operand, at the Loc of the comparison - exact, no guard *)
Theorem C20_t21_iff : forall op e1 e2 l L,
  reported 21 L (binop_checks op e1 e2 l) <-> Pattern21 op e1 e2 /\ L = l.
Proof. exact t21_iff. Qed.
Print Assumptions C20_t21_iff.

(* 15 / 16: exact up to GetExpLoc: both operands must have a non-zero Location (nil has none: C20_t15_nil_refuted) *)
Theorem C20_t15_iff : forall op e1 e2 l L,
  reported 15 L (binop_checks op e1 e2 l)
  <-> Pattern15 op e1 e2 /\ has_place e1 /\ has_place e2 /\ L = operands_loc e1 e2.
Proof. exact t15_iff. Qed.
Print Assumptions C20_t15_iff.

Theorem C20_t15_iff_guarded : forall op e1 e2 l L,
  located e1 -> located e2 ->
  (reported 15 L (binop_checks op e1 e2 l) <-> Pattern15 op e1 e2 /\ L = span (exp_loc e1) (exp_loc e2)).
Proof. exact t15_iff_guarded. Qed.
Print Assumptions C20_t15_iff_guarded.

Theorem C20_t16_iff : forall op e1 e2 l L,
  reported 16 L (binop_checks op e1 e2 l)
  <-> Pattern16 op e1 e2 /\ has_place e1 /\ has_place e2 /\ L = operands_loc e1 e2.
Proof. exact t16_iff. Qed.
Print Assumptions C20_t16_iff.

Theorem C20_t16_iff_guarded : forall op e1 e2 l L,
  located e1 -> located e2 ->
  (reported 16 L (binop_checks op e1 e2 l) <-> Pattern16 op e1 e2 /\ L = span (exp_loc e1) (exp_loc e2)).
Proof. exact t16_iff_guarded. Qed.
Print Assumptions C20_t16_iff_guarded.

(* 13: a parameter equal to an earlier one (`_` exempt), at the later parameter - exact *)
Theorem C20_t13_iff : forall pars plocs L,
  List.length pars = List.length plocs ->
  (reported 13 L (param_checks pars plocs) <-> exists j, Pattern13 pars j /\ nth_error plocs j = Some L).
Proof. exact t13_iff. Qed.
Print Assumptions C20_t13_iff.

(* 7 / 8: exact *)
Theorem C20_t7_iff : forall fclose vars es l L,
  reported 7 L (assign_checks fclose vars es l) <-> Pattern7 vars es /\ L = l.
Proof. exact t7_iff. Qed.
Print Assumptions C20_t7_iff.

Theorem C20_t8_iff : forall names es l L,
  reported 8 L (local_checks names es l) <-> Pattern8 names es /\ L = l.
Proof. exact t8_iff. Qed.
Print Assumptions C20_t8_iff.

(* 20: exact in terms of CompExp; = the pattern when no grouping parentheses occur (C20_t20_parens_refuted) *)
Theorem C20_t20_iff : forall fclose vars es l L,
  reported 20 L (assign_checks fclose vars es l)
  <-> Forall2 (fun v e => comp_exp fclose v e = true) vars es /\ L = l.
Proof. exact t20_iff. Qed.
Print Assumptions C20_t20_iff.

Theorem C20_t20_iff_guarded : forall fclose vars es l L,
  Forall paren_free vars -> Forall paren_free es ->
  (reported 20 L (assign_checks fclose vars es l) <-> Pattern20 fclose vars es /\ L = l).
Proof. exact t20_iff_guarded. Qed.
Print Assumptions C20_t20_iff_guarded.

(* 5: exact in terms of the key strings of the code (GetTableConstuctorKeyStr): key j is reported iff an earlier key has
   the same non-empty key string; the report sits where the code puts it (an integer key: on the whole constructor) *)
Theorem C20_t5_iff : forall ks parent L,
  reported 5 L (table_checks ks parent [])
  <-> exists j key, option_map (code_key parent) (nth_error ks j) = Some (Some (key, L)) /\
        exists i l', (i < j)%nat /\ option_map (code_key parent) (nth_error ks i) = Some (Some (key, l')).
Proof. exact t5_iff. Qed.
Print Assumptions C20_t5_iff.

(* 14: identical operands that have an internal name are reported (completeness) ... *)
Theorem C20_t14_complete : forall fclose op e1 e2 l,
  Pattern14 fclose op e1 e2 -> has_hash (exp_name e1) = false -> has_place e1 -> has_place e2 ->
  reported 14 (operands_loc e1 e2) (binop_checks op e1 e2 l).
Proof. exact t14_complete. Qed.
Print Assumptions C20_t14_complete.

(* ... and on access paths (a, a.b, a["b"].c, ("s").x, parentheses allowed) the check is exact *)
Theorem C20_t14_iff_guarded : forall fclose op e1 e2 l L,
  path e1 = true -> path e2 = true -> located e1 -> located e2 ->
  (reported 14 L (binop_checks op e1 e2 l) <-> Pattern14 fclose op e1 e2 /\ L = span (exp_loc e1) (exp_loc e2)).
Proof. exact t14_iff_guarded. Qed.
Print Assumptions C20_t14_iff_guarded.

(* 19: exact in terms of CompExp over ALL entries of IfStat.Exps (incl. the synthetic `true` of else) ... *)
Theorem C20_t19_iff : forall fclose es L,
  reported 19 L (if_checks fclose es)
  <-> exists j c, nth_error es j = Some c /\ get_exp_loc c = L /\
                  exists i c', (i < j)%nat /\ nth_error es i = Some c' /\ comp_exp fclose c' c = true.
Proof. exact t19_iff. Qed.
Print Assumptions C20_t19_iff.

(* ... = the pattern for an if without else branch, without grouping parentheses and without a nil / BadExpr condition *)
Theorem C20_t19_iff_guarded : forall fclose elses es L,
  real_conds elses es = es -> Forall paren_free es -> Forall located es ->
  (reported 19 L (if_checks fclose es)
   <-> exists j c, Pattern19 fclose es j /\ nth_error es j = Some c /\ L = exp_loc c).
Proof. exact t19_iff_guarded. Qed.
Print Assumptions C20_t19_iff_guarded.

(* CompExp = structural equality modulo Locs of expressions without function / table constructor *)
Theorem C20_compexp_characterisation : forall fclose a b,
  comp_exp fclose a b = true <-> eq_mod_loc fclose a b /\ no_ctor a.
Proof. exact comp_exp_characterisation. Qed.
Print Assumptions C20_compexp_characterisation.

(* the executable "the same" of the specification decides its declarative definition *)
Theorem C20_same_decided : forall fclose a b, same_b fclose a b = true <-> Same fclose a b.
Proof. exact same_b_iff. Qed.
Print Assumptions C20_same_decided.

(* ================================================================== the whole file *)
(* the published reports are exactly the checks of the nodes the first pass visits ... *)
Theorem C20_reports_are_visited_checks : forall fclose b r,
  In r (run_block fclose b) <-> exists m, within children_vis (NB b) m /\ In r (local fclose m).
Proof. exact run_block_iff. Qed.
Print Assumptions C20_reports_are_visited_checks.

(* ... each (type, Loc, message) once (three equal parameters: three pairs, two reports - one per later place) *)
Theorem C20_once : forall fclose b, NoDup (run_block fclose b).
Proof. exact run_block_once. Qed.
Print Assumptions C20_once.

(* visited nodes are nodes of the tree ("nowhere else") ... *)
Theorem C20_visited_are_nodes : forall n m, within children_vis n m -> within children_all n m.
Proof. exact within_vis_all. Qed.
Print Assumptions C20_visited_are_nodes.

(* ... and every node of the tree is visited ("at every place"), provided no local declaration has two or more surplus
   values (C20_unvisited_refuted); bare assignment targets carry no check *)
Theorem C20_every_node_visited_guarded : forall root m,
  traversal_ok root -> within children_all root m -> ~ target_shape m -> within children_vis root m.
Proof. exact visited_complete. Qed.
Print Assumptions C20_every_node_visited_guarded.

(* what the property demands for a file = the patterns of all its nodes *)
Theorem C20_demanded_iff : forall fclose elses b p,
  In p (demanded fclose elses b) <-> exists m, within children_all (NB b) m /\ In p (spec_node fclose elses m).
Proof. exact demanded_iff. Qed.
Print Assumptions C20_demanded_iff.

(* the correspondence driver's model column is run_bytes *)
Theorem C20_driver_runs_model : forall fclose gbk classify bs,
  match check_bytes fclose gbk classify bs, run_bytes fclose gbk classify bs with
  | Ok o, Ok m => o_model o = m
  | Fault k, Fault k' => k = k'
  | OutOfFuel, OutOfFuel => True
  | _, _ => False
  end.
Proof. exact check_bytes_model. Qed.
Print Assumptions C20_driver_runs_model.

(* ================================================================== witnesses: where the unchanged code deviates *)
Local Open Scope string_scope.
Ltac witness := eexists; split; [split; vm_compute; reflexivity|vm_compute; repeat split; reflexivity].

(* 14 reported for a string literal spelled like the internal name of a variable *)
Theorem C20_t14_string_name_refuted :
  exists o, valid_outcome "x = ""!a"" == a" o /\ over_reported o 14 = true /\ o_classes o = [C14Collision].
Proof. witness. Qed.
Print Assumptions C20_t14_string_name_refuted.

(* 14 never reported for literals (nor calls, operators, `...`): operands without internal name *)
Theorem C20_t14_literal_refuted :
  exists o, valid_outcome "x = 1 == 1" o /\ under_reported o 14 = true /\ o_classes o = [C14Unnamed].
Proof. witness. Qed.
Print Assumptions C20_t14_literal_refuted.

(* 19 reported on `else`: the parser turns else into a synthetic `true` condition *)
Theorem C20_t19_else_refuted :
  exists o, valid_outcome "if true then x = 1 else x = 2 end" o /\ over_reported o 19 = true /\ o_classes o = [C19Else].
Proof. witness. Qed.
Print Assumptions C20_t19_else_refuted.

Theorem C20_t19_parens_refuted :
  exists o, valid_outcome "if a then x = 1 elseif (a) then x = 2 end" o /\ under_reported o 19 = true /\
            o_classes o = [C19Parens].
Proof. witness. Qed.
Print Assumptions C20_t19_parens_refuted.

(* a repeated nil condition is reported at the zero Location (line -1 on the wire), not at the condition *)
Theorem C20_t19_nil_place_refuted :
  exists o, valid_outcome "if nil then x = 1 elseif nil then x = 2 end" o /\ under_reported o 19 = true /\
            reportedb 19 zero_loc (o_model o) = true /\ o_classes o = [C19NilPlace].
Proof. witness. Qed.
Print Assumptions C20_t19_nil_place_refuted.

Theorem C20_t20_parens_refuted :
  exists o, valid_outcome "a = (a)" o /\ under_reported o 20 = true /\ o_classes o = [C20Parens].
Proof. witness. Qed.
Print Assumptions C20_t20_parens_refuted.

(* `nil or true` / `false and nil`: GetExpLoc has no case for NilExp, the zero Location suppresses the report *)
Theorem C20_t15_nil_refuted :
  exists o, valid_outcome "x = nil or true" o /\ under_reported o 15 = true /\ o_classes o = [C1516Nil].
Proof. witness. Qed.
Print Assumptions C20_t15_nil_refuted.

Theorem C20_t16_nil_refuted :
  exists o, valid_outcome "x = false and nil" o /\ under_reported o 16 = true /\ o_classes o = [C1516Nil].
Proof. witness. Qed.
Print Assumptions C20_t16_nil_refuted.

(* 5: an integer key is reported on the whole constructor; three equal integer keys give ONE report *)
Theorem C20_t5_int_place_refuted :
  exists o, valid_outcome "t = {[1]=1, [1]=2, [1]=3}" o /\ under_reported o 5 = true /\ over_reported o 5 = true /\
            List.length (o_model o) = 1%nat /\ List.length (o_spec o) = 2%nat /\ o_classes o = [C5IntPlace].
Proof. witness. Qed.
Print Assumptions C20_t5_int_place_refuted.

Theorem C20_t5_collision_refuted :
  exists o, valid_outcome "t = {[""!a""]=1, [a]=2, [""#int1""]=3, [1]=4}" o /\ over_reported o 5 = true /\
            o_spec o = [] /\ o_classes o = [C5Collision].
Proof. witness. Qed.
Print Assumptions C20_t5_collision_refuted.

Theorem C20_t5_empty_refuted :
  exists o, valid_outcome "t = {[""""]=1, [""""]=2}" o /\ under_reported o 5 = true /\ o_model o = [] /\
            o_classes o = [C5Empty].
Proof. witness. Qed.
Print Assumptions C20_t5_empty_refuted.

(* the surplus values of a local declaration beyond index nNames are never visited *)
Theorem C20_unvisited_refuted :
  exists o, valid_outcome "local x = 1, 2, a == a" o /\ under_reported o 14 = true /\ o_classes o = [CUnvisited].
Proof. witness. Qed.
Print Assumptions C20_unvisited_refuted.

(* two places with one Loc (the column defects of the lexer, property C04): their reports are de-duplicated *)
Theorem C20_loc_collision_refuted :
  exists o, valid_outcome "f = function(a, --[[c]] a, --[[c]] a) end" o /\
            List.length (o_model o) = 1%nat /\ List.length (o_spec o) = 2%nat /\ o_classes o = [CLocCollision].
Proof. witness. Qed.
Print Assumptions C20_loc_collision_refuted.

(* hence the full statement does not hold for the unchanged code *)
Theorem C20_full_refuted : ~ C20_full.
Proof.
  destruct C20_t14_string_name_refuted as [o [Hvo [Ho _]]].
  exact (full_refuted_from _ o 14 Hvo Ho).
Qed.
Print Assumptions C20_full_refuted.

(* ================================================================== non-vacuity *)
(* "once": three equal parameters - the pairwise loop finds three pairs, two reports are published, and they are the two
   later places the pattern demands; same for three equal conditions *)
Example C20_once_example :
  exists o, valid_outcome "f = function(a, a, a) end if a then elseif a then elseif a then end" o /\
            agrees o = true /\ List.length (o_model o) = 4%nat /\ o_classes o = [].
Proof. witness. Qed.

(* a file with an instance of every pattern inside closures / constructors / arguments / conditions on which the
   unchanged code is exact *)
Example C20_agreeing_example :
  exists o, valid_outcome
    "local t = { k = 1, k = 2, [a] = f(a.b == a.b, x or true, y and false, z == 0.5) } function g(p, p) if p then p = p elseif p then local u, v = 1 u, v = 1, 2, 3 end end" o
    /\ agrees o = true /\ List.length (o_model o) = 10%nat /\ o_classes o = [].
Proof. witness. Qed.

(* the guards are satisfiable by non-trivial nodes *)
Example C20_t14_guard_example :
  let a1 := EIndex (EName [97] (mkLoc 1 0 1 1)) (EStr [98] (mkLoc 1 2 1 3)) (mkLoc 1 0 1 3) in
  let a2 := EParens (EIndex (EName [97] (mkLoc 1 8 1 9)) (EStr [98] (mkLoc 1 10 1 11)) (mkLoc 1 8 1 11)) (mkLoc 1 7 1 12) in
  path a1 = true /\ path a2 = true /\ located a1 /\ located a2 /\ Pattern14 fc_text TkOpEq a1 a2.
Proof.
  cbv zeta. split; [reflexivity|]. split; [reflexivity|].
  split; [split; [reflexivity|discriminate]|]. split; [split; [reflexivity|discriminate]|].
  split.
  - cbn. tauto.
  - apply same_b_iff. reflexivity.
Qed.

Example C20_t19_t20_guard_example :
  let c := EBinop TkOpEq (EName [120] (mkLoc 1 3 1 4)) (EInt 1 (mkLoc 1 8 1 9)) (mkLoc 1 3 1 9) in
  real_conds [] [c; c] = [c; c] /\ Forall paren_free [c; c] /\ Forall located [c; c] /\ Pattern19 fc_text [c; c] 1.
Proof.
  cbv zeta. split; [reflexivity|]. split; [repeat constructor|]. split; [repeat constructor; discriminate|].
  eexists. split; [reflexivity|]. exists O. eexists. split; [auto|]. split; [reflexivity|].
  apply same_b_iff. reflexivity.
Qed.
