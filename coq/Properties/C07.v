(* C07 - undefined-variable and unused-local warnings agree with the actual bindings.
   Only statements closed by `exact` + Print Assumptions live here (witnesses by vm_compute). *)
From Coq Require Import List NArith ZArith Bool.
From LH Require Import Base.Bytes Base.Res Model.Lexer Model.Ast Model.Parser Model.LuaFront Spec.LuaUsage Model.Usage
  Proofs.UsageWitness.
Import ListNotations.
Local Open Scope N_scope.

(* `local a, b = 1, a`: the code makes `a` visible in the second initialiser: no type 4 for `a` (line 1, columns 6-7),
   no type 2 for the read (columns 16-17); the reference binder demands both.  (DESIGN 6 #11, CONFIRMED) *)
Theorem C07_multi_local_refuted :
  forall gbk, exists b,
    parse_file gbk w_multi = PFile b /\ in_fragment b = true /\ pos_clean b = true /\ multi_local_order b = true /\
    go_diags demo_cfg b [] = [] /\
    diag_mem (4, L 1 6 1 7) (spec_diags demo_cfg b []) = true /\
    diag_mem (2, L 1 16 1 17) (spec_diags demo_cfg b []) = true.
Proof. exact multi_local_witness. Qed.
Print Assumptions C07_multi_local_refuted.

(* a long comment on the line restarts the lexer's column count (C04 finding): the later read of `bbbb` gets a column
   smaller than its declaration, IsCorrectPosition rejects the declaration: the read is reported undefined (type 2) and the
   declaration unused (type 4), although the read binds to it *)
Theorem C07_pos_filter_refuted :
  forall gbk, exists b,
    parse_file gbk w_pos = PFile b /\ in_fragment b = true /\ multi_local_order b = false /\ pos_clean b = false /\
    spec_diags demo_cfg b [] = [] /\
    diag_mem (4, L 1 27 1 31) (go_diags demo_cfg b []) = true /\
    diag_mem (2, L 1 7 1 11) (go_diags demo_cfg b []) = true.
Proof. exact pos_filter_witness. Qed.
Print Assumptions C07_pos_filter_refuted.

(* a top-level read of a global that this file defines only later is reported as type 3 even when another file of the
   workspace defines the global as well (the property: type 3 only when the ONLY definition comes later in the same file) *)
Theorem C07_later_elsewhere_refuted :
  forall gbk, exists b,
    parse_file gbk w_later = PFile b /\ in_fragment b = true /\ pos_clean b = true /\
    later_elsewhere demo_cfg b [[103]] = true /\
    go_diags demo_cfg b [[103]; [103]] = [(3, L 1 6 1 7)] /\
    spec_diags demo_cfg b [[103]] = [].
Proof. exact later_elsewhere_witness. Qed.
Print Assumptions C07_later_elsewhere_refuted.

(* the guards are satisfiable by a non-trivial program, on which model and reference agree (type 2 for `g`) *)
Example C07_guard_inhabited :
  forall gbk, exists b,
    parse_file gbk w_ok = PFile b /\ in_fragment b = true /\ classA_ok b = true /\ pos_clean b = true /\
    go_diags demo_cfg b [] = [(2, L 4 6 4 7)] /\ spec_diags demo_cfg b [] = [(2, L 4 6 4 7)].
Proof. exact guard_witness. Qed.
