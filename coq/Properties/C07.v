(* C07 - undefined-variable and unused-local warnings agree with the actual bindings.
   Only statements closed by `exact` + Print Assumptions live here (witnesses by vm_compute). *)
From Coq Require Import List NArith ZArith Bool.
From LH Require Import Base.Bytes Base.Res Model.Lexer Model.Ast Model.Parser Model.LuaFront Spec.LuaUsage Model.Usage
  Proofs.UsageWitness.
Import ListNotations.
Local Open Scope N_scope.

(* multi_local_order, FIXED (fixes/C07-multi-local-order.diff).  `local a, b = 1, a`: the code before the repair (model variant
   Scope.no_fixes) made `a` visible in the second initialiser: no type 4 for `a` (line 1, columns 6-7), no type 2 for
   the read (columns 16-17); the reference binder demands both (DESIGN 6 #11, CONFIRMED) - and the code now in /repo
   reports exactly these two. *)
Theorem C07_multi_local_refuted_before_fix_and_fixed :
  forall gbk, exists b,
    parse_file gbk w_multi = PFile b /\ in_fragment b = true /\ pos_clean b = true /\ multi_local_order b = true /\
    go_diags_fx demo_cfg Scope.no_fixes b [] [] = [] /\
    diag_mem (4, L 1 6 1 7) (spec_diags demo_cfg b []) = true /\
    diag_mem (2, L 1 16 1 17) (spec_diags demo_cfg b []) = true /\
    diag_mem (4, L 1 6 1 7) (go_diags demo_cfg b [] []) = true /\
    diag_mem (2, L 1 16 1 17) (go_diags demo_cfg b [] []) = true /\
    length (go_diags demo_cfg b [] []) = length (spec_diags demo_cfg b []).
Proof. exact multi_local_witness. Qed.
Print Assumptions C07_multi_local_refuted_before_fix_and_fixed.

(* unvisited_local_surplus, FIXED (fixes/C20-local-surplus.diff).  `local c = 5` / `local d = 1, 2, c, u`: the code before
   the repair (model variant Scope.before_surplus) stopped analysing the initialisers after the first one beyond the
   names: c - read only in the third value - was reported "declared and not used" (type 4 at line 1, columns 6-7) and the
   undefined global u of the fourth value was not reported; the reference binder demands exactly one diagnostic, type 2
   for u (line 2, columns 19-20) - and the code now in /repo reports exactly that. *)
Theorem C07_local_surplus_refuted_before_fix_and_fixed :
  forall gbk, exists b,
    parse_file gbk w_surplus = PFile b /\ in_fragment b = true /\ pos_clean b = true /\
    go_diags_fx demo_cfg Scope.before_surplus b [] [] = [(4, L 1 6 1 7)] /\
    spec_diags demo_cfg b [] = [(2, L 2 19 2 20)] /\
    go_diags demo_cfg b [] [] = [(2, L 2 19 2 20)].
Proof. exact surplus_witness. Qed.
Print Assumptions C07_local_surplus_refuted_before_fix_and_fixed.

(* a long comment on the line restarts the lexer's column count (C04 finding): the later read of `bbbb` gets a column
   smaller than its declaration, IsCorrectPosition rejects the declaration: the read is reported undefined (type 2) and the
   declaration unused (type 4), although the read binds to it *)
Theorem C07_pos_filter_refuted :
  forall gbk, exists b,
    parse_file gbk w_pos = PFile b /\ in_fragment b = true /\ multi_local_order b = false /\ pos_clean b = false /\
    spec_diags demo_cfg b [] = [] /\
    diag_mem (4, L 1 27 1 31) (go_diags demo_cfg b [] []) = true /\
    diag_mem (2, L 1 7 1 11) (go_diags demo_cfg b [] []) = true.
Proof. exact pos_filter_witness. Qed.
Print Assumptions C07_pos_filter_refuted.

(* later_elsewhere, FIXED (fixes/C07-later-elsewhere.diff).  A top-level read of a global that this file defines only
   further down was reported as a load-order error (type 3) even when another file of the workspace defines the global
   as well (the property: type 3 only when the ONLY definition comes later in the same file): findGlobalVar (third
   pass) consulted the file's own first-pass table before the workspace.  It now asks the first-pass tables of the
   OTHER files before it reports (definedInOtherFile).  `print(g)` / `g = 2` with another file defining g: the code
   before the repair (model variant Scope.before_later_else) reported type 3 at line 1, columns 6-7, the reference
   demands nothing - and the code now in /repo reports nothing; with no other definition the type 3 stays, as demanded. *)
Theorem C07_later_elsewhere_refuted_before_fix_and_fixed :
  forall gbk, exists b,
    parse_file gbk w_later = PFile b /\ in_fragment b = true /\ pos_clean b = true /\
    later_elsewhere demo_cfg b [[103]] = true /\
    go_diags_fx demo_cfg Scope.before_later_else b [[103]; [103]] [[103]] = [(3, L 1 6 1 7)] /\
    spec_diags demo_cfg b [[103]] = [] /\
    go_diags demo_cfg b [[103]; [103]] [[103]] = [] /\
    go_diags demo_cfg b [[103]] [] = [(3, L 1 6 1 7)] /\ spec_diags demo_cfg b [] = [(3, L 1 6 1 7)].
Proof. exact later_elsewhere_witness. Qed.
Print Assumptions C07_later_elsewhere_refuted_before_fix_and_fixed.

(* the guards are satisfiable by a non-trivial program, on which model and reference agree (type 2 for `g`) *)
Example C07_guard_inhabited :
  forall gbk, exists b,
    parse_file gbk w_ok = PFile b /\ in_fragment b = true /\ pos_clean b = true /\
    go_diags demo_cfg b [] [] = [(2, L 4 6 4 7)] /\ spec_diags demo_cfg b [] = [(2, L 4 6 4 7)].
Proof. exact guard_witness. Qed.

(* ================================================================== positive theorems (agent traverse-bind)
   Guards (all boolean): in_fragment (the former guard classA_ok = no multi-local order class is GONE since
   fixes/C07-multi-local-order.diff), pos_clean (every look-up of the run saw no
   same-named variable rejected by IsCorrectPosition), flags_ok (reads at the same Loc carry the same idiom flags - true
   when Locs are distinct), decl_locs_distinct (declaration Locs pairwise distinct).  The former guard `not
   later_elsewhere` is GONE since fixes/C07-later-elsewhere.diff: no class guard is left, the remaining guards are the
   fragment and the layout of the Locs. *)
From LH Require Import Proofs.UsageBind Proofs.UsageBindUndef Proofs.UsageBindUnused.

(* the first-pass traversal resolver binds every read and every assigned name exactly like the reference binder *)
Theorem C07_bindings_agree : forall c b,
  in_fragment b = true -> pos_clean b = true ->
  s1_log (first_pass c b) = file_occs b.
Proof. exact usage_bindings_agree. Qed.
Print Assumptions C07_bindings_agree.

(* types 2 and 3: the third pass reports exactly the list the reference demands (type 2 iff the read is bound to no
   local and no file / built-in / ignored name defines it; type 3 iff only this file defines it, later, top level) *)
Theorem C07_undefined_partial : forall c b all others,
  in_fragment b = true -> pos_clean b = true -> flags_ok b = true ->
  (forall n, name_mem n all = name_mem n (gnames (s1_gmap (first_pass c b))) || name_mem n others) ->
  s3_diags (run3 true c (s1_gmap (first_pass c b)) all others (trace b))
  = spec_undefined c others (fun l => loc_mem l (supp_locs b)) (circ_ok b (s1_gmap (first_pass c b))) b.
Proof. exact usage_undefined_agree. Qed.
Print Assumptions C07_undefined_partial.

(* types 4 and 17: the sweeps on scope exit report exactly (as a set) what the reference demands: type 4 for a local
   declaration iff no read binds to it and it is not exempt; type 17 for the assignments to such a declaration.
   decl_locs_distinct b: the declaration Locs of the chunk are pairwise distinct (boolean; true of parser output) *)
Theorem C07_unused_partial : forall c b,
  in_fragment b = true -> pos_clean b = true -> decl_locs_distinct b = true ->
  forall x, In x (s1_diags (first_pass c b)) <-> In x (spec_unused c b).
Proof. exact usage_unused_agree. Qed.
Print Assumptions C07_unused_partial.

(* both halves: the diagnostics of the file are, as a set, the diagnostics the property demands *)
Theorem C07_diags_agree_partial : forall c b all others,
  in_fragment b = true -> pos_clean b = true -> flags_ok b = true ->
  decl_locs_distinct b = true ->
  (forall n, name_mem n all = name_mem n (gnames (s1_gmap (first_pass c b))) || name_mem n others) ->
  forall x, In x (go_diags c b all others) <-> In x (spec_diags c b others).
Proof. exact usage_diags_agree. Qed.
Print Assumptions C07_diags_agree_partial.

(* pos_clean follows from the layout hypothesis Laid of Spec/LuaScope.v (in this model the assignment target is resolved
   before cgAssignStat's re-pointing, so class B4 does not disturb the first pass) *)
From LH Require Spec.LuaScope.
From LH Require Import Proofs.UsageBindLaid.

Theorem C07_laid_pos_clean : forall W b,
  in_fragment b = true -> LuaScope.laid_b W b = true -> pos_clean b = true.
Proof. exact usage_laid_pos_clean. Qed.
Print Assumptions C07_laid_pos_clean.

(* flags_ok and decl_locs_distinct follow from Laid as well (identifiers at different places have different Locs) *)
From LH Require Import Proofs.UsageBindLaidDistinct.
Theorem C07_laid_distinct : forall W b,
  in_fragment b = true -> LuaScope.laid_b W b = true -> decl_locs_distinct b = true /\ flags_ok b = true.
Proof. exact usage_laid_distinct. Qed.
Print Assumptions C07_laid_distinct.

(* the diagnostics of the file agree, as a set, with the reference on EVERY Laid chunk of the fragment (the classes
   multi_local_order and later_elsewhere are repaired - no class guard is left): type 2/3 iff the read binds to no local and no file /
   built-in / ignored name defines it (3 iff only this file, later, top level); type 4 iff no read binds to the
   declaration and it is not exempt; type 17 for the assignments to such a declaration *)
Theorem C07_diags_agree_laid_partial : forall W c b all others,
  in_fragment b = true -> LuaScope.laid_b W b = true ->
  (forall n, name_mem n all = name_mem n (gnames (s1_gmap (first_pass c b))) || name_mem n others) ->
  forall x, In x (go_diags c b all others) <-> In x (spec_diags c b others).
Proof. exact usage_diags_agree_laid_only. Qed.
Print Assumptions C07_diags_agree_laid_partial.

(* the statement aimed at: the same without the layout hypothesis.  Missing: Laid for the parser's output (C04; it fails
   on the column-restart finding, see C07_pos_filter_refuted, and where an identifier directly follows a bracket) *)
Definition C07_diags_full : Prop := forall c b all others,
  in_fragment b = true ->
  (forall n, name_mem n all = name_mem n (gnames (s1_gmap (first_pass c b))) || name_mem n others) ->
  forall x, In x (go_diags c b all others) <-> In x (spec_diags c b others).

(* non-vacuity: a program with shadowing, loops, closures, the three suppression idioms, a use-before-definition
   (type 3) and undefined names (type 2) satisfies every guard.
   local a, b = 1, 2\nif a then local c = b elseif b then a = 3 else b = a end\nfor k, v in pairs(t) do local a = k; a = v end\ng = g or 1\nif not h then h = 2 end\nprint(later) later = 1\nlocal function f(x, y) local z; z = function() return f(z, x) end; return y end\nprint(zz, g, h)\n *)
Definition w_pos_example : list N := [108; 111; 99; 97; 108; 32; 97; 44; 32; 98; 32; 61; 32; 49; 44; 32; 50; 10; 105; 102; 32; 97; 32; 116; 104; 101; 110; 32; 108; 111; 99; 97; 108; 32; 99; 32; 61; 32; 98; 32; 101; 108; 115; 101; 105; 102; 32; 98; 32; 116; 104; 101; 110; 32; 97; 32; 61; 32; 51; 32; 101; 108; 115; 101; 32; 98; 32; 61; 32; 97; 32; 101; 110; 100; 10; 102; 111; 114; 32; 107; 44; 32; 118; 32; 105; 110; 32; 112; 97; 105; 114; 115; 40; 116; 41; 32; 100; 111; 32; 108; 111; 99; 97; 108; 32; 97; 32; 61; 32; 107; 59; 32; 97; 32; 61; 32; 118; 32; 101; 110; 100; 10; 103; 32; 61; 32; 103; 32; 111; 114; 32; 49; 10; 105; 102; 32; 110; 111; 116; 32; 104; 32; 116; 104; 101; 110; 32; 104; 32; 61; 32; 50; 32; 101; 110; 100; 10; 112; 114; 105; 110; 116; 40; 108; 97; 116; 101; 114; 41; 32; 108; 97; 116; 101; 114; 32; 61; 32; 49; 10; 108; 111; 99; 97; 108; 32; 102; 117; 110; 99; 116; 105; 111; 110; 32; 102; 40; 120; 44; 32; 121; 41; 32; 108; 111; 99; 97; 108; 32; 122; 59; 32; 122; 32; 61; 32; 102; 117; 110; 99; 116; 105; 111; 110; 40; 41; 32; 114; 101; 116; 117; 114; 110; 32; 102; 40; 122; 44; 32; 120; 41; 32; 101; 110; 100; 59; 32; 114; 101; 116; 117; 114; 110; 32; 121; 32; 101; 110; 100; 10; 112; 114; 105; 110; 116; 40; 122; 122; 44; 32; 103; 44; 32; 104; 41; 10].
Definition b_pos_example : block := Eval vm_compute in block_of w_pos_example.
Example C07_positive_guards_inhabited :
  in_fragment b_pos_example = true /\ pos_clean b_pos_example = true /\
  LuaScope.laid_b 1000%Z b_pos_example = true /\
  flags_ok b_pos_example = true /\ decl_locs_distinct b_pos_example = true /\
  length (file_occs b_pos_example) = 27%nat /\
  map fst (s3_diags (run3 true demo_cfg (s1_gmap (first_pass demo_cfg b_pos_example))
                          (gnames (s1_gmap (first_pass demo_cfg b_pos_example))) [] (trace b_pos_example)))
  = [2; 2; 3; 2] /\
  map fst (s1_diags (first_pass demo_cfg b_pos_example)) = [4; 4; 17].
Proof. repeat split; vm_compute; reflexivity. Qed.
