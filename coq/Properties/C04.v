(* C04 - every reported range lies in the document and covers what it names (token level).
   Only statements closed by `exact` + Print Assumptions live here (and vm_compute witnesses of the refutations). *)
From Coq Require Import List NArith ZArith Bool.
From LH Require Import Base.Bytes Base.Res Base.Utf8 Model.Lexer Spec.LspRange Proofs.LexerRangeMain.
Import ListNotations.
Local Open Scope N_scope.

Definition lexed_covered (cps : list N) : bool :=
  match lex_all (fun _ => 0%Z) (utf8_of cps) with Ok ts => all_tokens_covered cps ts | _ => false end.

(* full statement: every raw token of every error-free valid-UTF-8 file is covered by its range *)
Definition C04_tok_range_full : Prop :=
  forall gbk cps ts, forallb scalar cps = true -> lex_all gbk (utf8_of cps) = Ok ts -> cls_lexerr ts = false ->
    all_tokens_covered cps ts = true.

(* proved: for every valid-UTF-8 file without backslash, long-bracket opener, astral or 2-byte character, LF-CR pair or
   leading BOM that lexes without lexical error, every token whose recorded text is its source text is reported with
   a range that lies inside the document, has start <= end, and covers exactly the token text (LSP reading: UTF-16
   columns; LF, CRLF, CR line ends) - for any GBK oracle *)
Theorem C04_tok_range_exact : forall gbk cps ts,
  forallb scalar cps = true -> file_class_ok cps = true ->
  lex_all gbk (utf8_of cps) = Ok ts -> cls_lexerr ts = false ->
  all_tokens_covered cps ts = true.
Proof. exact tok_range_exact. Qed.
Print Assumptions C04_tok_range_exact.

(* local s = "a\nb" local y  : the token after a string with an escape is reported one column too far left *)
Theorem C04_escape_shift_refuted :
  let cps := [108;111;99;97;108;32;115;32;61;32;34;97;92;110;98;34;32;108;111;99;97;108;32;121] in
  forallb scalar cps = true /\ cls_escape cps = true /\ lexed_covered cps = false.
Proof. repeat split; vm_compute; reflexivity. Qed.
Print Assumptions C04_escape_shift_refuted.

(* x = [[s]] y = 1 : after a long-bracket string the column restarts at the end of the string *)
Theorem C04_long_bracket_refuted :
  let cps := [120;32;61;32;91;91;115;93;93;32;121;32;61;32;49] in
  forallb scalar cps = true /\ cls_long_bracket cps = true /\ lexed_covered cps = false.
Proof. repeat split; vm_compute; reflexivity. Qed.
Print Assumptions C04_long_bracket_refuted.

(* s = "😀" y : an astral character is two UTF-16 units but one rune *)
Theorem C04_astral_refuted :
  let cps := [115;32;61;32;34;128512;34;32;121] in
  forallb scalar cps = true /\ cls_astral cps = true /\ lexed_covered cps = false.
Proof. repeat split; vm_compute; reflexivity. Qed.
Print Assumptions C04_astral_refuted.

(* a = 1 LF CR b = 2 : "\n\r" is one line end for the lexer, two for LSP *)
Theorem C04_lfcr_refuted :
  let cps := [97;32;61;32;49;10;13;98;32;61;32;50] in
  forallb scalar cps = true /\ cls_lfcr cps = true /\ lexed_covered cps = false.
Proof. repeat split; vm_compute; reflexivity. Qed.
Print Assumptions C04_lfcr_refuted.

(* <BOM>x = 1 : the byte-order mark is stripped without advancing the position *)
Theorem C04_bom_refuted :
  let cps := [65279;120;32;61;32;49] in
  forallb scalar cps = true /\ cls_bom cps = true /\ lexed_covered cps = false.
Proof. repeat split; vm_compute; reflexivity. Qed.
Print Assumptions C04_bom_refuted.

(* non-vacuity of the guard: CRLF + CJK string + trailing comment, all tokens covered *)
Example C04_guard_inhabited :
  let cps := [108;111;99;97;108;32;115;32;61;32;34;20013;25991;34;32;120;32;45;45;32;99;13;10;9;121;32;61;32;115] in
  forallb scalar cps = true /\ file_class_ok cps = true /\ lexed_covered cps = true.
Proof. repeat split; vm_compute; reflexivity. Qed.

(* ================================================================== names level (round 2, agent ast-loc)
   Every name-bearing AST node (NameExp, `local` / parameter / numeric and generic `for` variable, `local function`
   name; not the synthetic `self` of `function a:m()`) carries the Loc of its identifier token: Proofs/ParserLoc*.v. *)
From LH Require Import Model.Ast Model.Parser Model.Number Model.LuaFront.
From LH Require Import Proofs.LexerTotalWf Proofs.ParserTotalBase Proofs.ParserLocBase Proofs.ParserLocMain.

Definition parsed_names_covered (cps : list N) : option (bool * nat) :=
  match parse_bytes (fun _ => 0%Z) classify_tok (utf8_of cps) with
  | Ok (PR b [] []) => Some (names_covered cps b, length (name_locs b))
  | _ => None
  end.

(* full statement: every name-bearing node of every valid-UTF-8 file that parses without lexical and syntax error is
   covered by its range (false outside file_class_ok: C04_name_escape_shift_refuted) *)
Definition C04_name_range_full : Prop :=
  forall gbk classify cps b, forallb scalar cps = true ->
    parse_bytes gbk classify (utf8_of cps) = Ok (PR b [] []) -> names_covered cps b = true.

(* parser invariant, for EVERY token list ending in an EOF token (wfr), every fuel and numeral classifier: in an AST
   returned without syntax error every name-bearing node (name, Loc) is the text and the GetNowTokenLoc Loc of an
   identifier token of the list (an element of tok_locs, the list C04_tok_range_exact speaks about) *)
Theorem C04_name_is_token : forall classify ts, wfr ts -> forall fuel b le,
  parse_tokens classify fuel ts = Ok (PR b le []) ->
  Forall (fun x => exists t, In (t, snd x) (tok_locs zero_tok ts) /\ tk t = TkIdentifier /\ tstr t = fst x)
         (name_locs b).
Proof. exact parse_tokens_names. Qed.
Print Assumptions C04_name_is_token.

(* an error-free parse has read the whole token list: the lexical errors it reports are those of all tokens *)
Theorem C04_parse_reads_all : forall classify ts fuel b le,
  wf_tokens ts -> parse_tokens classify fuel ts = Ok (PR b le []) -> le = flat_map lerrs ts.
Proof. intros classify ts fuel b le Hw. exact (parse_tokens_lexerrs classify ts (wf_tokens_wfr ts Hw) fuel b le Hw). Qed.
Print Assumptions C04_parse_reads_all.

(* proved: for every valid-UTF-8 file inside file_class_ok that parses without lexical and without syntax error, every
   name-bearing AST node is reported with a range that lies inside the document, has start <= end and covers exactly
   the identifier (LSP reading) - for any GBK oracle and numeral classifier *)
Theorem C04_name_range_exact : forall gbk classify cps b,
  forallb scalar cps = true -> file_class_ok cps = true ->
  parse_bytes gbk classify (utf8_of cps) = Ok (PR b [] []) ->
  names_covered cps b = true.
Proof. exact name_range_exact. Qed.
Print Assumptions C04_name_range_exact.

(* local s = "a\nb" local y : the declaration of y is reported one column too far left *)
Theorem C04_name_escape_shift_refuted :
  let cps := [108;111;99;97;108;32;115;32;61;32;34;97;92;110;98;34;32;108;111;99;97;108;32;121] in
  forallb scalar cps = true /\ cls_escape cps = true /\ parsed_names_covered cps = Some (false, 2%nat).
Proof. repeat split; vm_compute; reflexivity. Qed.
Print Assumptions C04_name_escape_shift_refuted.

(* non-vacuity: CRLF / LF lines, a CJK string, a comment; local function, parameters, numeric and generic for,
   attribute local, method definition with synthetic self: 15 name-bearing nodes, all covered *)
Example C04_name_guard_inhabited :
  let cps := [108;111;99;97;108;32;102;117;110;99;116;105;111;110;32;102;40;97;44;32;46;46;46;41;13;10;32;32;102;111;114;32;105;32;61;32;49;44;32;97;32;100;111;32;108;111;99;97;108;32;115;32;60;99;111;110;115;116;62;32;61;32;34;20013;25991;34;32;101;110;100;10;32;102;111;114;32;107;44;32;118;32;105;110;32;112;97;105;114;115;40;116;41;32;100;111;32;120;46;121;58;109;40;107;41;32;101;110;100;32;45;45;32;99;13;10;32;101;110;100;10;32;102;117;110;99;116;105;111;110;32;111;46;112;58;113;40;122;41;32;114;101;116;117;114;110;32;115;101;108;102;44;32;122;32;101;110;100] in
  forallb scalar cps = true /\ file_class_ok cps = true /\ parsed_names_covered cps = Some (true, 15%nat).
Proof. repeat split; vm_compute; reflexivity. Qed.

(* ================================================================== Loc order (round 2, agent ast-loc)
   Proofs/ParserLocKeys.v, ParserLocOrder.v, ParserLocOrderMain.v, ParserLocLaid.v *)
From LH Require Import Spec.LuaScope Proofs.ParserLocKeys Proofs.ParserLocOrderMain Proofs.ParserLocLaid.

(* the token list the parser sees is key-ordered for line width W: every token is recorded in the one-line form, starts
   before it ends and ends before the next one starts (key = line * W + column); boolean guard of the theorems below *)
Definition lexed_ordered (W : Z) (cps : list N) : bool :=
  match lex_all (fun _ => 0%Z) (utf8_of cps) with Ok ts => tok_ordered_b W (parser_view ts) | _ => false end.
Definition parsed_locs_ordered (W : Z) (cps : list N) : option (bool * nat) :=
  match parse_bytes (fun _ => 0%Z) classify_tok (utf8_of cps) with
  | Ok (PR b _ _) => Some (all_locs_ordered W b, length (locs_block b))
  | _ => None
  end.

(* full statement (DESIGN C04_ast_loc_wf, in the form the binder family consumes it): the AST of every error-free file
   inside the guard is Laid (Spec/LuaScope.v).  REFUTED below: the statement is false for the parser as it is. *)
Definition C04_ast_loc_wf_full : Prop :=
  forall gbk classify cps b, forallb scalar cps = true -> file_class_ok cps = true ->
    parse_bytes gbk classify (utf8_of cps) = Ok (PR b [] []) -> Laid b.

(* local x = a.b(c) : the Loc of a call starts at the LAST token of its callee (finishFuncCallExp takes
   GetNowTokenLoc after the callee has been parsed): the call a.b(c) is 1:12-1:16 and does not contain a.b (1:10-1:13),
   so the marks of LuaScope are out of order for every line width *)
Theorem C04_ast_loc_wf_refuted : ~ C04_ast_loc_wf_full.
Proof. exact ast_laid_refuted. Qed.
Print Assumptions C04_ast_loc_wf_refuted.

Example C04_call_loc_excludes_callee :
  parsed_block laid_wit_cps =
  Block [SLocal [[120]] [mkLoc 1 6 1 7] [AttrReg]
           [ECall (EIndex (EName [97] (mkLoc 1 10 1 11)) (EStr [98] (mkLoc 1 12 1 13)) (mkLoc 1 10 1 13)) None
                  [EName [99] (mkLoc 1 14 1 15)] (mkLoc 1 12 1 16)]
           (mkLoc 1 0 1 16)] None (mkLoc 1 0 1 16).
Proof. vm_compute. reflexivity. Qed.

(* do end : the Loc of a do / while / for / function / repeat / chunk block runs from the first token after the opener
   to the last token before the closer; for an empty block that is `end` .. `do`: start 1:3 AFTER end 1:2 *)
Example C04_empty_block_loc_inverted :
  parsed_block [100;111;32;101;110;100] =
  Block [SDo (Block [] None (mkLoc 1 3 1 2)) (mkLoc 1 0 1 6)] None (mkLoc 1 0 1 6).
Proof. vm_compute. reflexivity. Qed.

(* proved part, parser level: for EVERY key function, every token list that ends in EOF and is key-ordered, every fuel
   and numeral classifier - with or without syntax errors: every statement / expression / name Loc and every
   then / elseif / else block Loc of the returned AST is zero_loc (a synthesized node: default `for` step, malformed
   numeral) or starts before it ends, not before the first token and not after the last token of the list.
   Missing for C04_ast_loc_wf: containment of children (false for calls), the plain block Locs (inverted when empty),
   and the lexer-side proof that files inside file_class_ok yield key-ordered token lists (guard tok_ordered_b). *)
Theorem C04_ast_locs_within_partial : forall key classify ts, wfr ts -> TokOrd key ts -> forall fuel b le pe,
  parse_tokens classify fuel ts = Ok (PR b le pe) ->
  WithinL key (lo key (SL (first_tok ts))) (locs_block b) (hi key (SL (last_tok ts))).
Proof. exact parse_tokens_locs_within. Qed.
Print Assumptions C04_ast_locs_within_partial.

(* the same from the bytes, key = line * W + column: start <= end for every such Loc *)
Theorem C04_ast_locs_ordered_partial : forall W gbk classify bs ts b le pe,
  lex_all gbk bs = Ok ts -> tok_ordered_b W (parser_view ts) = true ->
  parse_bytes gbk classify bs = Ok (PR b le pe) ->
  all_locs_ordered W b = true.
Proof. exact ast_locs_ordered. Qed.
Print Assumptions C04_ast_locs_ordered_partial.

(* non-vacuity of the guard: the 35 Locs of the example file above; and a file WITH syntax errors (16 Locs) *)
Example C04_locs_guard_inhabited :
  let cps := [108;111;99;97;108;32;102;117;110;99;116;105;111;110;32;102;40;97;44;32;46;46;46;41;13;10;32;32;102;111;114;32;105;32;61;32;49;44;32;97;32;100;111;32;108;111;99;97;108;32;115;32;60;99;111;110;115;116;62;32;61;32;34;20013;25991;34;32;101;110;100;10;32;102;111;114;32;107;44;32;118;32;105;110;32;112;97;105;114;115;40;116;41;32;100;111;32;120;46;121;58;109;40;107;41;32;101;110;100;32;45;45;32;99;13;10;32;101;110;100;10;32;102;117;110;99;116;105;111;110;32;111;46;112;58;113;40;122;41;32;114;101;116;117;114;110;32;115;101;108;102;44;32;122;32;101;110;100] in
  lexed_ordered 1000 cps = true /\ parsed_locs_ordered 1000 cps = Some (true, 35%nat).
Proof. split; vm_compute; reflexivity. Qed.
Example C04_locs_guard_inhabited_errors :
  let cps := [108;111;99;97;108;32;49;32;61;32;50;32;105;102;32;120;32;116;104;101;110;32;101;108;115;101;32;101;110;100;32;100;111;32;101;110;100;32;120;32;61;32;97;46;98;40;99;41;32;41] in
  lexed_ordered 1000 cps = true /\ parsed_locs_ordered 1000 cps = Some (true, 16%nat).
Proof. split; vm_compute; reflexivity. Qed.

(* ================================================================== token order from the file class (round 2b, agent
   c04-lexorder): Proofs/LexerOrderBase.v, LexerOrderMain.v, LexerOrderAst.v.  The guard tok_ordered_b of the Loc-order
   theorems above is discharged: it holds for every error-free file of the class. *)
From LH Require Import Proofs.LexerOrderBase Proofs.LexerOrderMain Proofs.LexerOrderAst.

(* the bound on the line width, an arithmetic condition on the file: W is at least the longest line of the file
   measured in BYTES of its UTF-8 form, lines ending at CR or LF
       line_width_ok W cps  =  (Z.of_nat (max_line_bytes (utf8_of cps)) <=? W)
   (bytes are a sufficient measure, chosen because the lexer's column counts bytes inside short comments and on the `#`
   line; W only serves to compare (line, column) pairs, every larger W gives the same order) *)
Example C04_line_width_example :
  max_line_bytes (utf8_of [120;32;61;32;34;20013;25991;34;13;10;121;32;61;32;49;10;10;122]) = 12%nat.
Proof. vm_compute. reflexivity. Qed.

(* goal 1: for every valid-UTF-8 file inside file_class_ok that lexes without lexical error, every GBK oracle and every
   W >= the longest line: the token list the parser sees (= the lexer's list) is key-ordered: every token is recorded in
   the one-line form, starts before it ends (EOF is empty), and ends before the next one starts, positions compared by
   line * W + column: the tokens' Locs do not overlap and increase in (line, column) *)
Theorem C04_tokens_ordered : forall W gbk cps ts,
  forallb scalar cps = true -> file_class_ok cps = true -> line_width_ok W cps = true ->
  lex_all gbk (utf8_of cps) = Ok ts -> cls_lexerr ts = false ->
  tok_ordered_b W (parser_view ts) = true.
Proof. exact tokens_ordered_b. Qed.
Print Assumptions C04_tokens_ordered.

(* the same in Prop form, with the fact that nothing is lost between lexer and parser *)
Theorem C04_tokens_ordered_prop : forall W gbk cps ts,
  forallb scalar cps = true -> file_class_ok cps = true -> line_width_ok W cps = true ->
  lex_all gbk (utf8_of cps) = Ok ts -> cls_lexerr ts = false ->
  parser_view ts = ts /\ TokOrd (wkey W) ts.
Proof. exact tokens_TokOrd. Qed.
Print Assumptions C04_tokens_ordered_prop.

(* the class guard matters: x = [[s]] y = 1 - after a long-bracket string lineStartPos is moved behind the token start,
   the string token is not in the one-line form (for no W); and the width matters: the 48-byte example file is ordered
   for W = 48 but not for W = 40 *)
Example C04_tokens_order_long_bracket :
  let cps := [120;32;61;32;91;91;115;93;93;32;121;32;61;32;49] in
  cls_long_bracket cps = true /\ lexed_ordered 1000000 cps = false.
Proof. split; vm_compute; reflexivity. Qed.
Example C04_tokens_order_width :
  let cps := [108;111;99;97;108;32;102;117;110;99;116;105;111;110;32;102;40;97;44;32;46;46;46;41;13;10;32;32;102;111;114;32;105;32;61;32;49;44;32;97;32;100;111;32;108;111;99;97;108;32;115;32;60;99;111;110;115;116;62;32;61;32;34;20013;25991;34;32;101;110;100;10;32;102;111;114;32;107;44;32;118;32;105;110;32;112;97;105;114;115;40;116;41;32;100;111;32;120;46;121;58;109;40;107;41;32;101;110;100;32;45;45;32;99;13;10;32;101;110;100;10;32;102;117;110;99;116;105;111;110;32;111;46;112;58;113;40;122;41;32;114;101;116;117;114;110;32;115;101;108;102;44;32;122;32;101;110;100] in
  forallb scalar cps = true /\ file_class_ok cps = true /\ max_line_bytes (utf8_of cps) = 48%nat /\
  line_width_ok 48 cps = true /\ lexed_ordered 48 cps = true /\ lexed_ordered 40 cps = false.
Proof. repeat split; vm_compute; reflexivity. Qed.

(* goal 2: C04_ast_locs_ordered_partial without the token-order hypothesis.  For every valid-UTF-8 file inside
   file_class_ok that lexes without lexical error - with or without syntax errors - every statement / expression / name
   Loc and every then / elseif / else block Loc of the AST is zero_loc (synthesized node) or has start <= end.
   Still `_partial` with respect to C04_ast_loc_wf_full: the plain block Locs (inverted when the block is empty) and the
   containment of children (false for calls) are not covered - they are refuted above. *)
Theorem C04_ast_locs_ordered_file_partial : forall W gbk classify cps ts b le pe,
  forallb scalar cps = true -> file_class_ok cps = true -> line_width_ok W cps = true ->
  lex_all gbk (utf8_of cps) = Ok ts -> cls_lexerr ts = false ->
  parse_bytes gbk classify (utf8_of cps) = Ok (PR b le pe) ->
  all_locs_ordered W b = true.
Proof. exact ast_locs_ordered_file. Qed.
Print Assumptions C04_ast_locs_ordered_file_partial.

(* the error-free parse: no hypothesis about the lexer at all *)
Theorem C04_ast_locs_ordered_clean_partial : forall W gbk classify cps b,
  forallb scalar cps = true -> file_class_ok cps = true -> line_width_ok W cps = true ->
  parse_bytes gbk classify (utf8_of cps) = Ok (PR b [] []) ->
  all_locs_ordered W b = true.
Proof. exact ast_locs_ordered_clean. Qed.
Print Assumptions C04_ast_locs_ordered_clean_partial.

(* ... and every such Loc lies between the start of the first token and the end of the EOF token of the file *)
Theorem C04_ast_locs_within_file_partial : forall W gbk classify cps ts b le pe,
  forallb scalar cps = true -> file_class_ok cps = true -> line_width_ok W cps = true ->
  lex_all gbk (utf8_of cps) = Ok ts -> cls_lexerr ts = false ->
  parse_bytes gbk classify (utf8_of cps) = Ok (PR b le pe) ->
  WithinL (wkey W) (lo (wkey W) (SL (first_tok ts))) (locs_block b) (hi (wkey W) (SL (last_tok ts))).
Proof. exact ast_locs_within_file. Qed.
Print Assumptions C04_ast_locs_within_file_partial.

(* parser level, for EVERY key function and every key-ordered token list ending in EOF: both end points of every such
   Loc are end points (start or end position) of tokens of the list - no Loc starts or ends inside a token or in white
   space.  (Instance of C04_ast_locs_within_partial for a key that sends all other positions below the first token.) *)
Theorem C04_ast_locs_on_token_bounds : forall key classify ts, wfr ts -> TokOrd key ts -> forall fuel b le pe,
  parse_tokens classify fuel ts = Ok (PR b le pe) ->
  forallb (loc_on_bounds ts) (locs_block b) = true.
Proof. exact parse_tokens_locs_on_bounds. Qed.
Print Assumptions C04_ast_locs_on_token_bounds.

(* from the bytes, for the file class *)
Theorem C04_ast_locs_on_token_bounds_file : forall gbk classify cps ts b le pe,
  forallb scalar cps = true -> file_class_ok cps = true ->
  lex_all gbk (utf8_of cps) = Ok ts -> cls_lexerr ts = false ->
  parse_bytes gbk classify (utf8_of cps) = Ok (PR b le pe) ->
  forallb (loc_on_bounds ts) (locs_block b) = true.
Proof. exact ast_locs_on_bounds_file. Qed.
Print Assumptions C04_ast_locs_on_token_bounds_file.

(* ------------------------------------------------------------------ within the document (agent c04-lexorder)
   Proofs/LexerOrderDoc.v, LexerOrderDocAst.v.  loc_in_doc cps l: both end points of l are positions of the document
   (LSP reading) and start index <= end index, i.e. loc_to_range l = Some r and range_index cps r is defined. *)
From LH Require Import Proofs.LexerOrderDoc Proofs.LexerOrderDocAst.

Definition lexed_in_doc (cps : list N) : option (bool * nat) :=
  match lex_all (fun _ => 0%Z) (utf8_of cps) with Ok ts => Some (all_tokens_in_doc cps ts, length ts) | _ => None end.
(* (all Locs zero / in the document / at EOF,  all Locs zero / in the document,  number of Locs) *)
Definition parsed_in_doc (cps : list N) : option (bool * bool * nat) :=
  match lex_all (fun _ => 0%Z) (utf8_of cps), parse_bytes (fun _ => 0%Z) classify_tok (utf8_of cps) with
  | Ok ts, Ok (PR b _ _) => Some (forallb (loc_doc_ok cps ts) (locs_block b),
                                  forallb (fun l => is_zero_loc l || loc_in_doc cps l) (locs_block b),
                                  length (locs_block b))
  | _, _ => None
  end.

(* token level, ALL kinds of tokens (C04_tok_range_exact speaks about the tokens recorded verbatim; this one includes
   the string tokens): in every error-free file of the class the range of every token except EOF lies in the document *)
Theorem C04_tokens_in_document : forall gbk cps ts,
  forallb scalar cps = true -> file_class_ok cps = true ->
  lex_all gbk (utf8_of cps) = Ok ts -> cls_lexerr ts = false ->
  all_tokens_in_doc cps ts = true.
Proof. exact tokens_in_doc. Qed.
Print Assumptions C04_tokens_in_document.

(* goal 2, "lies within the document": for every valid-UTF-8 file inside file_class_ok that lexes without lexical error
   - with or without syntax errors - every statement / expression / name Loc and every then / elseif / else block Loc of
   the AST is zero_loc (synthesized node), or lies in the document (both end points are document positions, start <=
   end), or has an end point at the position of the EOF token.
   `_partial`: the EOF exception is real (example below); the plain block Locs are not covered (inverted when empty). *)
Theorem C04_ast_locs_in_document_partial : forall gbk classify cps ts b le pe,
  forallb scalar cps = true -> file_class_ok cps = true ->
  lex_all gbk (utf8_of cps) = Ok ts -> cls_lexerr ts = false ->
  parse_bytes gbk classify (utf8_of cps) = Ok (PR b le pe) ->
  forallb (loc_doc_ok cps ts) (locs_block b) = true.
Proof. exact ast_locs_in_doc. Qed.
Print Assumptions C04_ast_locs_in_document_partial.

Definition C04_ast_locs_in_document_full : Prop := forall gbk classify cps ts b le pe,
  forallb scalar cps = true -> file_class_ok cps = true ->
  lex_all gbk (utf8_of cps) = Ok ts -> cls_lexerr ts = false ->
  parse_bytes gbk classify (utf8_of cps) = Ok (PR b le pe) ->
  forallb (fun l => is_zero_loc l || loc_in_doc cps l) (locs_block b) = true.

(* x = --中文 : inside a short comment the lexer's column counts BYTES, the EOF token is recorded at 1:12 while the line
   has 8 characters; the syntax error "expression expected" and the statement x = <bad> end there: the full statement is
   false, the EOF clause of the partial one is needed *)
Theorem C04_eof_after_comment_refuted : ~ C04_ast_locs_in_document_full.
Proof.
  intros H.
  specialize (H (fun _ => 0%Z) classify_tok [120;32;61;32;45;45;20013;25991]).
  vm_compute in H. specialize (H _ _ _ _ eq_refl eq_refl eq_refl eq_refl eq_refl). discriminate.
Qed.
Print Assumptions C04_eof_after_comment_refuted.

Example C04_eof_after_comment :
  let cps := [120;32;61;32;45;45;20013;25991] in
  forallb scalar cps = true /\ file_class_ok cps = true /\
  lexed_in_doc cps = Some (true, 3%nat) /\ parsed_in_doc cps = Some (true, false, 3%nat) /\
  loc_in_doc cps (mkLoc 1 8 1 8) = true /\ loc_in_doc cps (mkLoc 1 12 1 12) = false.
Proof. repeat split; vm_compute; reflexivity. Qed.

(* non-vacuity: the example file above (58 tokens, 35 Locs, all in the document) and the file with syntax errors *)
Example C04_in_document_inhabited :
  let cps := [108;111;99;97;108;32;102;117;110;99;116;105;111;110;32;102;40;97;44;32;46;46;46;41;13;10;32;32;102;111;114;32;105;32;61;32;49;44;32;97;32;100;111;32;108;111;99;97;108;32;115;32;60;99;111;110;115;116;62;32;61;32;34;20013;25991;34;32;101;110;100;10;32;102;111;114;32;107;44;32;118;32;105;110;32;112;97;105;114;115;40;116;41;32;100;111;32;120;46;121;58;109;40;107;41;32;101;110;100;32;45;45;32;99;13;10;32;101;110;100;10;32;102;117;110;99;116;105;111;110;32;111;46;112;58;113;40;122;41;32;114;101;116;117;114;110;32;115;101;108;102;44;32;122;32;101;110;100] in
  lexed_in_doc cps = Some (true, 58%nat) /\ parsed_in_doc cps = Some (true, true, 35%nat).
Proof. split; vm_compute; reflexivity. Qed.
Example C04_in_document_inhabited_errors :
  let cps := [108;111;99;97;108;32;49;32;61;32;50;32;105;102;32;120;32;116;104;101;110;32;101;108;115;101;32;101;110;100;32;100;111;32;101;110;100;32;120;32;61;32;97;46;98;40;99;41;32;41] in
  parsed_in_doc cps = Some (true, true, 16%nat).
Proof. vm_compute; reflexivity. Qed.

(* "non-overlapping and increasing" in document terms: in every error-free file of the class the range of every token
   ends (index in code points, LSP reading of the document) at or before the start of the range of the next token *)
Theorem C04_tokens_disjoint_in_document : forall gbk cps ts,
  forallb scalar cps = true -> file_class_ok cps = true ->
  lex_all gbk (utf8_of cps) = Ok ts -> cls_lexerr ts = false ->
  doc_chain_b cps (map lt ts) = true.
Proof. exact tokens_disjoint_in_doc. Qed.
Print Assumptions C04_tokens_disjoint_in_document.

Example C04_tokens_disjoint_example :
  let cps := [108;111;99;97;108;32;115;32;61;32;34;20013;25991;34;32;120;32;45;45;32;99;13;10;9;121;32;61;32;115] in
  match lex_all (fun _ => 0%Z) (utf8_of cps) with
  | Ok ts => map (fun t => tok_range_index cps (lt t)) ts =
             [Some (0, 5); Some (6, 7); Some (8, 9); Some (10, 14); Some (15, 16); Some (24, 25); Some (26, 27);
              Some (28, 29); Some (29, 29)] /\ doc_chain_b cps (map lt ts) = true
  | _ => False
  end.
Proof. vm_compute. split; reflexivity. Qed.

(* ------------------------------------------------------------------ the error-free parse: no EOF clause (agent
   c04-lexorder): Proofs/LexerOrderEof.v (a pass over the 20 parser functions: while no syntax error has been reported
   the parser never stands ON the EOF token - every `next` is guarded by a test of the look-ahead that excludes EOF). *)
From LH Require Import Proofs.LexerOrderEof.

(* parser level, for EVERY key function and every key-ordered token list whose only EOF token is the last one: after a
   parse without syntax error the AST has no Loc at all (nothing but EOF), or every Loc lies between the start of the
   first token and the END OF A NON-EOF TOKEN (the last one consumed) *)
Theorem C04_ast_locs_within_clean_partial : forall key classify ts, wf_tokens ts -> TokOrd key ts -> forall fuel b le,
  parse_tokens classify fuel ts = Ok (PR b le []) ->
  locs_block b = [] \/
  exists n, In n (map lt ts) /\ tk n <> TkEOF /\
            WithinL key (lo key (SL (first_tok ts))) (locs_block b) (hi key (SL n)).
Proof. exact parse_tokens_locs_within_clean. Qed.
Print Assumptions C04_ast_locs_within_clean_partial.

(* goal 2 for the files the language server analyses further: for every valid-UTF-8 file inside file_class_ok that parses
   without lexical and without syntax error, for every GBK oracle and numeral classifier, every statement / expression /
   name Loc and every then / elseif / else block Loc of the AST is zero_loc (synthesized node: default `for` step) or
   lies within the document - both end points are positions of the document (LSP reading) and start <= end.
   (With syntax errors: C04_ast_locs_in_document_partial and the refutation C04_eof_after_comment_refuted above.)
   `_partial` only with respect to C04_ast_loc_wf_full: the own Locs of do / while / for / function / repeat / chunk blocks
   are not in locs_block (they are inverted for empty blocks: C04_empty_block_loc_inverted) and containment of children
   is not claimed (false for calls). *)
Theorem C04_ast_locs_in_document_clean_partial : forall gbk classify cps b,
  forallb scalar cps = true -> file_class_ok cps = true ->
  parse_bytes gbk classify (utf8_of cps) = Ok (PR b [] []) ->
  forallb (fun l => is_zero_loc l || loc_in_doc cps l) (locs_block b) = true.
Proof. exact ast_locs_in_doc_clean. Qed.
Print Assumptions C04_ast_locs_in_document_clean_partial.

(* non-vacuity: the 35 Locs of the example file (it parses without error: C04_name_guard_inhabited); and a file that
   ends in a short comment with CJK text, whose EOF token is beyond the line end but is not used by any Loc *)
Example C04_in_document_clean_inhabited :
  let cps := [108;111;99;97;108;32;120;32;61;32;102;40;49;41;32;45;45;20013;25991] in
  forallb scalar cps = true /\ file_class_ok cps = true /\
  parse_bytes (fun _ => 0%Z) classify_tok (utf8_of cps) =
    Ok (PR (Block [SLocal [[120]] [mkLoc 1 6 1 7] [AttrReg]
                     [ECall (EName [102] (mkLoc 1 10 1 11)) None [EInt 1 (mkLoc 1 12 1 13)] (mkLoc 1 10 1 14)]
                     (mkLoc 1 0 1 14)] None (mkLoc 1 0 1 14)) [] []) /\
  parsed_in_doc cps = Some (true, true, 5%nat) /\ loc_in_doc cps (mkLoc 1 23 1 23) = false.
Proof. repeat split; vm_compute; reflexivity. Qed.

(* ------------------------------------------------------------------ goal 1 with the tight width (agent c04-lexorder):
   W >= the longest line of the document in UTF-16 units,
       line_units_ok W cps  =  (Z.of_N (max_line_units cps) <=? W),   max_line_units = the largest column of the position
   table of the document (Spec/LspText.v).  Derived from the byte version and C04_tokens_in_document. *)
Theorem C04_tokens_ordered_units : forall W gbk cps ts,
  forallb scalar cps = true -> file_class_ok cps = true -> line_units_ok W cps = true ->
  lex_all gbk (utf8_of cps) = Ok ts -> cls_lexerr ts = false ->
  tok_ordered_b W (parser_view ts) = true.
Proof. exact tokens_ordered_units_b. Qed.
Print Assumptions C04_tokens_ordered_units.

Theorem C04_ast_locs_ordered_units_partial : forall W gbk classify cps ts b le pe,
  forallb scalar cps = true -> file_class_ok cps = true -> line_units_ok W cps = true ->
  lex_all gbk (utf8_of cps) = Ok ts -> cls_lexerr ts = false ->
  parse_bytes gbk classify (utf8_of cps) = Ok (PR b le pe) ->
  all_locs_ordered W b = true.
Proof. exact ast_locs_ordered_units. Qed.
Print Assumptions C04_ast_locs_ordered_units_partial.

(* local s = "<4 CJK>" --<2 CJK> LF x = 1 : the longest line has 21 UTF-16 units and 33 bytes; ordered for W = 21 *)
Example C04_tokens_ordered_units_example :
  let cps := [108;111;99;97;108;32;115;32;61;32;34;20013;25991;20013;25991;34;32;45;45;20013;25991;10;120;32;61;32;49] in
  forallb scalar cps = true /\ file_class_ok cps = true /\ max_line_units cps = 21%N /\
  max_line_bytes (utf8_of cps) = 33%nat /\ line_units_ok 21 cps = true /\ lexed_ordered 21 cps = true /\
  lexed_ordered 15 cps = false.
Proof. repeat split; vm_compute; reflexivity. Qed.

(* ================================================================== the ranges the SERVER sends (agent c04-server)
   Proofs/ServerRange.v.  Leg c04.ranges runs the real language server (definition, references, documentHighlight,
   rename, documentSymbol, workspace/symbol, diagnostics) and judges EVERY range of every answer with the booleans
   extracted from here:
     range_in_doc cps r            clause (i): r lies in the document, start <= end (range_index of Spec/LspText.v);
     ranges_designate ts name rs   clause (ii): every r in rs is the Loc (GetNowTokenLoc) of an identifier token of the
                                   model lexer's token list ts whose text is `name` (the identifier under the cursor for
                                   definition / references / highlight / rename, `ident_at`; the last component of the
                                   symbol's name for documentSymbol selection ranges and workspace symbols).
   The judgement is sound: what it accepts satisfies the property's own words.  (The lexer is a black box here: only
   C04_tok_range_exact is used.) *)
From LH Require Import Model.TextSync Spec.LspText Proofs.ServerRange.

(* range_names cps name r  :=  exists i j, range_index cps r = Some (i, j) /\ i <= j /\
                               utf8_of (firstn (j - i) (skipn i cps)) = name
   i.e. both end points are positions of the document (LSP reading: UTF-16 columns; LF, CRLF, CR), start <= end, and the
   text between them is exactly `name`; equivalently covers cps (loc_of_range r) name = true (Spec/LspRange.v) *)
Theorem C04_designate_sound : forall gbk cps ts name rs,
  forallb scalar cps = true -> file_class_ok cps = true ->
  lex_all gbk (utf8_of cps) = Ok ts -> cls_lexerr ts = false ->
  ranges_designate ts name rs = true ->
  Forall (range_names cps name) rs.
Proof. exact designate_sound. Qed.
Print Assumptions C04_designate_sound.

Theorem C04_range_names_covers : forall cps name r,
  range_names cps name r <-> covers cps (loc_of_range r) name = true.
Proof. exact range_names_covers. Qed.
Print Assumptions C04_range_names_covers.

(* what the judgement accepts for clause (ii) also passes clause (i) *)
Theorem C04_range_names_in_doc : forall cps name r, range_names cps name r -> range_in_doc cps r = true.
Proof. exact range_names_in_doc. Qed.
Print Assumptions C04_range_names_in_doc.

(* the name the driver asks about is the text of an identifier token whose Loc contains the cursor *)
Theorem C04_ident_at_token : forall ts line ch name, ident_at ts line ch = Some name ->
  exists t l, In (t, l) (tok_locs zero_tok ts) /\ tk t = TkIdentifier /\ tstr t = name /\ pos_in_loc line ch l = true.
Proof. exact ident_at_token. Qed.
Print Assumptions C04_ident_at_token.

Definition srv_lexed (cps : list N) : list ltok :=
  match lex_all (fun _ => 0%Z) (utf8_of cps) with Ok ts => ts | _ => [] end.
Definition rg (l1 c1 l2 c2 : N) : range := mkrange (mkpos l1 c1) (mkpos l2 c2).

(* non-vacuity: CRLF file, CJK string and a comment with CJK text in front of the identifiers
       local s = "<2 CJK>" cfg = {} -- <2 CJK> CRLF TAB cfg.net = 1 ; print(cfg["net"], cfg.net)
   the three ranges the unchanged server answers for references on `net`: 1:5-1:8 and 1:37-1:40 designate net,
   1:25-1:30 (the string key, quotes included) does not - class string_key; the identifier under 1:6 is net *)
Example C04_designate_example :
  let cps := [108;111;99;97;108;32;115;32;61;32;34;20013;25991;34;32;99;102;103;32;61;32;123;125;32;45;45;32;20013;25991;13;10;
              9;99;102;103;46;110;101;116;32;61;32;49;32;59;32;112;114;105;110;116;40;99;102;103;91;34;110;101;116;34;93;44;32;
              99;102;103;46;110;101;116;41] in
  let net := [110;101;116] in
  forallb scalar cps = true /\ file_class_ok cps = true /\ cls_lexerr (srv_lexed cps) = false /\
  ident_at (srv_lexed cps) 1 6 = Some net /\
  ranges_designate (srv_lexed cps) net [rg 1 5 1 8; rg 1 37 1 40] = true /\
  ranges_designate (srv_lexed cps) net [rg 1 25 1 30] = false /\
  cls_string_key (srv_lexed cps) net (rg 1 25 1 30) = true /\
  range_in_doc cps (rg 1 25 1 30) = true /\ range_in_doc cps (rg 1 37 1 42) = false /\
  covers cps (loc_of_range (rg 1 37 1 40)) net = true /\ covers cps (loc_of_range (rg 1 25 1 30)) net = false.
Proof. repeat split; vm_compute; reflexivity. Qed.

(* the guard matters: local s = "a\nb" x = 1 - the judgement accepts the Loc the lexer records for x (0:15-0:16), but
   the text under it is a blank and `=`'s neighbour: outside file_class_ok nothing is claimed (class escape) *)
Example C04_designate_needs_guard :
  let cps := [108;111;99;97;108;32;115;32;61;32;34;97;92;110;98;34;32;120;32;61;32;49] in
  file_class_ok cps = false /\ ranges_designate (srv_lexed cps) [120] [rg 0 16 0 17] = true /\
  covers cps (loc_of_range (rg 0 16 0 17)) [120] = false.
Proof. repeat split; vm_compute; reflexivity. Qed.

(* ================================================================== ranges that come from the ANNOTATION lexer (agent
   c04-ann): Proofs/ServerRangeText.v.  Names declared in comments (---@class / ---@alias / ---@field, type names inside
   annotation types) are no tokens of the Lua lexer, so the token judgement above demands nothing of the ranges that
   designate them (documentSymbol / workspace symbol entries of annotation classes and aliases, definition answers for an
   annotation type name or for a member resolved to a ---@field).  Leg c04.ranges judges those ranges with the TEXT
   predicate, extracted from here:
     text_designates cps name r  :=  covers cps (loc_of_range r) name      (Spec/LspRange.v)
     texts_designate cps name rs :=  forallb (text_designates cps name) rs
   expected name: the full name of the class / alias entry, the word under the cursor (word_at) for a cursor that stands on
   no Lua identifier, the identifier under the cursor otherwise (range_designates_any = token judgement || text judgement). *)
From LH Require Import Proofs.ServerRangeText.

(* for EVERY document (every list of code points, in particular every valid-UTF-8 file: no lexer, no file class), every
   name and every list of ranges: what the text judgement accepts lies in the document, has start <= end and the text
   under it (LSP reading: UTF-16 columns; LF, CRLF, CR) is exactly `name` *)
Theorem C04_text_designate_sound : forall cps name rs,
  texts_designate cps name rs = true -> Forall (range_names cps name) rs.
Proof. exact text_designate_sound. Qed.
Print Assumptions C04_text_designate_sound.

(* ... and it rejects nothing that is right: the judgement IS clause (ii) of the property *)
Theorem C04_text_designate_complete : forall cps name rs,
  Forall (range_names cps name) rs -> texts_designate cps name rs = true.
Proof. exact text_designate_complete. Qed.
Print Assumptions C04_text_designate_complete.

(* the combined judgement (identifier token of the model lexer, or text) under the guard of the token judgement *)
Theorem C04_designate_any_sound : forall gbk cps ts name rs,
  forallb scalar cps = true -> file_class_ok cps = true ->
  lex_all gbk (utf8_of cps) = Ok ts -> cls_lexerr ts = false ->
  ranges_designate_any cps ts name rs = true ->
  Forall (range_names cps name) rs.
Proof. exact designate_any_sound. Qed.
Print Assumptions C04_designate_any_sound.

(* the name the driver asks about for a cursor in a comment: a non-empty slice of the document made of word characters
   (letters, digits, `_`, `.`: the identifier characters of the annotation lexer) that the cursor stands in or next to *)
Theorem C04_word_at_slice : forall cps line ch w, word_at cps line ch = Some w ->
  exists i a b w1 w2, pos_index cps (mkpos line ch) = Some i /\
    firstn (N.to_nat i) cps = a ++ w1 /\ skipn (N.to_nat i) cps = w2 ++ b /\
    cps = a ++ w ++ b /\ w = w1 ++ w2 /\ w <> [] /\ forallb is_word_cp w = true.
Proof. exact word_at_slice. Qed.
Print Assumptions C04_word_at_slice.

(* non-vacuity: CRLF lines, a comment block whose lines start in columns 0 / 1 (tab) / 4 with CJK text in its first line:
       local function make() / -- <2 CJK> note / TAB ---@class ns.Vec / ____---@field xpos number / ____local Vec = {} /
       ____---@type ns.Vec / ____local p = Vec / ____return p.xpos / end
   the ranges the unchanged server sends: class ns.Vec 2:11-2:17, field xpos 3:14-3:18 are accepted; the ranges the
   seeded change C04-5 sends (every line of the block read with the start column 0 of its first line: 2:10-2:16,
   3:10-3:14) are rejected; the word under 5:15 is ns.Vec, under 7:14 (p.xpos) it is `p.xpos` - there the identifier
   token `xpos` is asked about (ident_at) *)
Example C04_text_designate_example :
  let cps := [108;111;99;97;108;32;102;117;110;99;116;105;111;110;32;109;97;107;101;40;41;13;10;45;45;32;20013;25991;32;110;111;116;101;13;10;9;45;45;45;64;99;108;97;115;115;32;110;115;46;86;101;99;13;10;32;32;32;32;45;45;45;64;102;105;101;108;100;32;120;112;111;115;32;110;117;109;98;101;114;13;10;32;32;32;32;108;111;99;97;108;32;86;101;99;32;61;32;123;125;13;10;32;32;32;32;45;45;45;64;116;121;112;101;32;110;115;46;86;101;99;13;10;32;32;32;32;108;111;99;97;108;32;112;32;61;32;86;101;99;13;10;32;32;32;32;114;101;116;117;114;110;32;112;46;120;112;111;115;13;10;101;110;100] in
  let vec := [110;115;46;86;101;99] in let xpos := [120;112;111;115] in
  forallb scalar cps = true /\
  texts_designate cps vec [rg 2 11 2 17] = true /\ texts_designate cps xpos [rg 3 14 3 18] = true /\
  text_designates cps vec (rg 2 10 2 16) = false /\ text_designates cps xpos (rg 3 10 3 14) = false /\
  word_at cps 5 15 = Some vec /\ word_at cps 2 14 = Some vec /\ ident_at (srv_lexed cps) 7 14 = Some xpos /\
  range_designates_any cps (srv_lexed cps) xpos (rg 3 14 3 18) = true /\
  range_designates (srv_lexed cps) xpos (rg 3 14 3 18) = false /\
  range_designates_any cps (srv_lexed cps) xpos (rg 7 13 7 17) = true.
Proof. repeat split; vm_compute; reflexivity. Qed.

(* the exact classes of the deviations of the unchanged server found by the new cases (known_findings/C04.json):
   ann_bytes - the annotation lexer counts BYTES: ---@alias Mode "<4 CJK>" | Undef1 : the diagnostic for Undef1 is sent as
   0:32-0:38 on a 30-character line, the name stands at 0:24-0:30 (ann_unbyte maps the one to the other);
   member_value_type - ---@type table<string, Other> / local p3 = nil / print(p3.cb) : definition on cb answers 0:23-0:28,
   the value type name Other in the comment (cls_ann_type_word) *)
Example C04_ann_bytes_example :
  let cps := [45;45;45;64;97;108;105;97;115;32;77;111;100;101;32;34;20013;25991;20013;25991;34;32;124;32;85;110;100;101;102;49] in
  let undef := [85;110;100;101;102;49] in
  range_in_doc cps (rg 0 32 0 38) = false /\ cls_ann_bytes_doc cps (rg 0 32 0 38) = true /\
  cls_ann_bytes cps undef (rg 0 32 0 38) = true /\ ann_unbyte cps (rg 0 32 0 38) = Some (rg 0 24 0 30) /\
  text_designates cps undef (rg 0 24 0 30) = true /\ cls_ann_bytes cps undef (rg 0 24 0 30) = false.
Proof. repeat split; vm_compute; reflexivity. Qed.
Example C04_member_value_type_example :
  let cps := [45;45;45;64;116;121;112;101;32;116;97;98;108;101;60;115;116;114;105;110;103;44;32;79;116;104;101;114;62;10;108;111;99;97;108;32;112;51;32;61;32;110;105;108;10;112;114;105;110;116;40;112;51;46;99;98;41;10;45;45;45;64;102;105;101;108;100;32;112;117;98;108;105;99;32;120;112;111;115;32;80;111;105;110;116;124;79;116;104;101;114;32;64;32;120;10;45;45;45;64;99;108;97;115;115;32;65;32;58;32;66] in
  text_designates cps [99;98] (rg 0 23 0 28) = false /\ cls_ann_type_word cps (rg 0 23 0 28) = true /\
  cls_ann_type_word cps (rg 0 23 0 27) = false /\ cls_ann_type_word cps (rg 2 9 2 11) = false /\
  text_designates cps [99;98] (rg 2 9 2 11) = true /\
  (* ---@field public xpos Point|Other @ x : the tag, the access keyword, the declared name and the note are no type
     positions; Point and Other are.  ---@class A : B : the parent B is, the declared name A is not *)
  map (cls_ann_type_word cps) [rg 3 4 3 9; rg 3 10 3 16; rg 3 17 3 21; rg 3 22 3 27; rg 3 28 3 33; rg 3 36 3 37;
                               rg 4 10 4 11; rg 4 14 4 15] =
  [false; false; false; true; true; false; false; true].
Proof. repeat split; vm_compute; reflexivity. Qed.
