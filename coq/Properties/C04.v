(* C04 - every reported range lies in the document and covers what it names (token level).
   Only statements closed by `exact` + Print Assumptions live here (and vm_compute witnesses of the refutations). *)
From Coq Require Import List NArith ZArith Bool.
From LH Require Import Base.Bytes Base.Res Base.Utf8 Model.Lexer Spec.LspRange Proofs.LexerRangeMain.
Import ListNotations.
Local Open Scope N_scope.

Definition lexed_covered (cps : list N) : bool :=
  match lex_all (fun _ => 0%Z) (utf8_of cps) with Ok ts => all_tokens_covered cps ts | _ => false end.

(* full statement: every raw token of every error-free valid-UTF-8 file is covered by its range *)
Definition C04_tok_range_full : Prop :=
  forall gbk cps ts, forallb scalar cps = true -> lex_all gbk (utf8_of cps) = Ok ts -> cls_lexerr ts = false ->
    all_tokens_covered cps ts = true.

(* proved: for every valid-UTF-8 file without backslash, long-bracket opener, astral or 2-byte character, LF-CR pair or
   leading BOM that lexes without lexical error, every token whose recorded text is its source text is reported with
   a range that lies inside the document, has start <= end, and covers exactly the token text (LSP reading: UTF-16
   columns; LF, CRLF, CR line ends) - for any GBK oracle *)
Theorem C04_tok_range_exact : forall gbk cps ts,
  forallb scalar cps = true -> file_class_ok cps = true ->
  lex_all gbk (utf8_of cps) = Ok ts -> cls_lexerr ts = false ->
  all_tokens_covered cps ts = true.
Proof. exact tok_range_exact. Qed.
Print Assumptions C04_tok_range_exact.

(* local s = "a\nb" local y  : the token after a string with an escape is reported one column too far left *)
Theorem C04_escape_shift_refuted :
  let cps := [108;111;99;97;108;32;115;32;61;32;34;97;92;110;98;34;32;108;111;99;97;108;32;121] in
  forallb scalar cps = true /\ cls_escape cps = true /\ lexed_covered cps = false.
Proof. repeat split; vm_compute; reflexivity. Qed.
Print Assumptions C04_escape_shift_refuted.

(* x = [[s]] y = 1 : after a long-bracket string the column restarts at the end of the string *)
Theorem C04_long_bracket_refuted :
  let cps := [120;32;61;32;91;91;115;93;93;32;121;32;61;32;49] in
  forallb scalar cps = true /\ cls_long_bracket cps = true /\ lexed_covered cps = false.
Proof. repeat split; vm_compute; reflexivity. Qed.
Print Assumptions C04_long_bracket_refuted.

(* s = "😀" y : an astral character is two UTF-16 units but one rune *)
Theorem C04_astral_refuted :
  let cps := [115;32;61;32;34;128512;34;32;121] in
  forallb scalar cps = true /\ cls_astral cps = true /\ lexed_covered cps = false.
Proof. repeat split; vm_compute; reflexivity. Qed.
Print Assumptions C04_astral_refuted.

(* a = 1 LF CR b = 2 : "\n\r" is one line end for the lexer, two for LSP *)
Theorem C04_lfcr_refuted :
  let cps := [97;32;61;32;49;10;13;98;32;61;32;50] in
  forallb scalar cps = true /\ cls_lfcr cps = true /\ lexed_covered cps = false.
Proof. repeat split; vm_compute; reflexivity. Qed.
Print Assumptions C04_lfcr_refuted.

(* <BOM>x = 1 : the byte-order mark is stripped without advancing the position *)
Theorem C04_bom_refuted :
  let cps := [65279;120;32;61;32;49] in
  forallb scalar cps = true /\ cls_bom cps = true /\ lexed_covered cps = false.
Proof. repeat split; vm_compute; reflexivity. Qed.
Print Assumptions C04_bom_refuted.

(* non-vacuity of the guard: CRLF + CJK string + trailing comment, all tokens covered *)
Example C04_guard_inhabited :
  let cps := [108;111;99;97;108;32;115;32;61;32;34;20013;25991;34;32;120;32;45;45;32;99;13;10;9;121;32;61;32;115] in
  forallb scalar cps = true /\ file_class_ok cps = true /\ lexed_covered cps = true.
Proof. repeat split; vm_compute; reflexivity. Qed.

(* ================================================================== names level (round 2, agent ast-loc)
   Every name-bearing AST node (NameExp, `local` / parameter / numeric and generic `for` variable, `local function`
   name; not the synthetic `self` of `function a:m()`) carries the Loc of its identifier token: Proofs/ParserLoc*.v. *)
From LH Require Import Model.Ast Model.Parser Model.Number Model.LuaFront.
From LH Require Import Proofs.LexerTotalWf Proofs.ParserTotalBase Proofs.ParserLocBase Proofs.ParserLocMain.

Definition parsed_names_covered (cps : list N) : option (bool * nat) :=
  match parse_bytes (fun _ => 0%Z) classify_tok (utf8_of cps) with
  | Ok (PR b [] []) => Some (names_covered cps b, length (name_locs b))
  | _ => None
  end.

(* full statement: every name-bearing node of every valid-UTF-8 file that parses without lexical and syntax error is
   covered by its range (false outside file_class_ok: C04_name_escape_shift_refuted) *)
Definition C04_name_range_full : Prop :=
  forall gbk classify cps b, forallb scalar cps = true ->
    parse_bytes gbk classify (utf8_of cps) = Ok (PR b [] []) -> names_covered cps b = true.

(* parser invariant, for EVERY token list ending in an EOF token (wfr), every fuel and numeral classifier: in an AST
   returned without syntax error every name-bearing node (name, Loc) is the text and the GetNowTokenLoc Loc of an
   identifier token of the list (an element of tok_locs, the list C04_tok_range_exact speaks about) *)
Theorem C04_name_is_token : forall classify ts, wfr ts -> forall fuel b le,
  parse_tokens classify fuel ts = Ok (PR b le []) ->
  Forall (fun x => exists t, In (t, snd x) (tok_locs zero_tok ts) /\ tk t = TkIdentifier /\ tstr t = fst x)
         (name_locs b).
Proof. exact parse_tokens_names. Qed.
Print Assumptions C04_name_is_token.

(* an error-free parse has read the whole token list: the lexical errors it reports are those of all tokens *)
Theorem C04_parse_reads_all : forall classify ts fuel b le,
  wf_tokens ts -> parse_tokens classify fuel ts = Ok (PR b le []) -> le = flat_map lerrs ts.
Proof. intros classify ts fuel b le Hw. exact (parse_tokens_lexerrs classify ts (wf_tokens_wfr ts Hw) fuel b le Hw). Qed.
Print Assumptions C04_parse_reads_all.

(* proved: for every valid-UTF-8 file inside file_class_ok that parses without lexical and without syntax error, every
   name-bearing AST node is reported with a range that lies inside the document, has start <= end and covers exactly
   the identifier (LSP reading) - for any GBK oracle and numeral classifier *)
Theorem C04_name_range_exact : forall gbk classify cps b,
  forallb scalar cps = true -> file_class_ok cps = true ->
  parse_bytes gbk classify (utf8_of cps) = Ok (PR b [] []) ->
  names_covered cps b = true.
Proof. exact name_range_exact. Qed.
Print Assumptions C04_name_range_exact.

(* local s = "a\nb" local y : the declaration of y is reported one column too far left *)
Theorem C04_name_escape_shift_refuted :
  let cps := [108;111;99;97;108;32;115;32;61;32;34;97;92;110;98;34;32;108;111;99;97;108;32;121] in
  forallb scalar cps = true /\ cls_escape cps = true /\ parsed_names_covered cps = Some (false, 2%nat).
Proof. repeat split; vm_compute; reflexivity. Qed.
Print Assumptions C04_name_escape_shift_refuted.

(* non-vacuity: CRLF / LF lines, a CJK string, a comment; local function, parameters, numeric and generic for,
   attribute local, method definition with synthetic self: 15 name-bearing nodes, all covered *)
Example C04_name_guard_inhabited :
  let cps := [108;111;99;97;108;32;102;117;110;99;116;105;111;110;32;102;40;97;44;32;46;46;46;41;13;10;32;32;102;111;114;32;105;32;61;32;49;44;32;97;32;100;111;32;108;111;99;97;108;32;115;32;60;99;111;110;115;116;62;32;61;32;34;20013;25991;34;32;101;110;100;10;32;102;111;114;32;107;44;32;118;32;105;110;32;112;97;105;114;115;40;116;41;32;100;111;32;120;46;121;58;109;40;107;41;32;101;110;100;32;45;45;32;99;13;10;32;101;110;100;10;32;102;117;110;99;116;105;111;110;32;111;46;112;58;113;40;122;41;32;114;101;116;117;114;110;32;115;101;108;102;44;32;122;32;101;110;100] in
  forallb scalar cps = true /\ file_class_ok cps = true /\ parsed_names_covered cps = Some (true, 15%nat).
Proof. repeat split; vm_compute; reflexivity. Qed.

(* ================================================================== Loc order (round 2, agent ast-loc)
   Proofs/ParserLocKeys.v, ParserLocOrder.v, ParserLocOrderMain.v, ParserLocLaid.v *)
From LH Require Import Spec.LuaScope Proofs.ParserLocKeys Proofs.ParserLocOrderMain Proofs.ParserLocLaid.

(* the token list the parser sees is key-ordered for line width W: every token is recorded in the one-line form, starts
   before it ends and ends before the next one starts (key = line * W + column); boolean guard of the theorems below *)
Definition lexed_ordered (W : Z) (cps : list N) : bool :=
  match lex_all (fun _ => 0%Z) (utf8_of cps) with Ok ts => tok_ordered_b W (parser_view ts) | _ => false end.
Definition parsed_locs_ordered (W : Z) (cps : list N) : option (bool * nat) :=
  match parse_bytes (fun _ => 0%Z) classify_tok (utf8_of cps) with
  | Ok (PR b _ _) => Some (all_locs_ordered W b, length (locs_block b))
  | _ => None
  end.

(* full statement (DESIGN C04_ast_loc_wf, in the form the binder family consumes it): the AST of every error-free file
   inside the guard is Laid (Spec/LuaScope.v).  REFUTED below: the statement is false for the parser as it is. *)
Definition C04_ast_loc_wf_full : Prop :=
  forall gbk classify cps b, forallb scalar cps = true -> file_class_ok cps = true ->
    parse_bytes gbk classify (utf8_of cps) = Ok (PR b [] []) -> Laid b.

(* local x = a.b(c) : the Loc of a call starts at the LAST token of its callee (finishFuncCallExp takes
   GetNowTokenLoc after the callee has been parsed): the call a.b(c) is 1:12-1:16 and does not contain a.b (1:10-1:13),
   so the marks of LuaScope are out of order for every line width *)
Theorem C04_ast_loc_wf_refuted : ~ C04_ast_loc_wf_full.
Proof. exact ast_laid_refuted. Qed.
Print Assumptions C04_ast_loc_wf_refuted.

Example C04_call_loc_excludes_callee :
  parsed_block laid_wit_cps =
  Block [SLocal [[120]] [mkLoc 1 6 1 7] [AttrReg]
           [ECall (EIndex (EName [97] (mkLoc 1 10 1 11)) (EStr [98] (mkLoc 1 12 1 13)) (mkLoc 1 10 1 13)) None
                  [EName [99] (mkLoc 1 14 1 15)] (mkLoc 1 12 1 16)]
           (mkLoc 1 0 1 16)] None (mkLoc 1 0 1 16).
Proof. vm_compute. reflexivity. Qed.

(* do end : the Loc of a do / while / for / function / repeat / chunk block runs from the first token after the opener
   to the last token before the closer; for an empty block that is `end` .. `do`: start 1:3 AFTER end 1:2 *)
Example C04_empty_block_loc_inverted :
  parsed_block [100;111;32;101;110;100] =
  Block [SDo (Block [] None (mkLoc 1 3 1 2)) (mkLoc 1 0 1 6)] None (mkLoc 1 0 1 6).
Proof. vm_compute. reflexivity. Qed.

(* proved part, parser level: for EVERY key function, every token list that ends in EOF and is key-ordered, every fuel
   and numeral classifier - with or without syntax errors: every statement / expression / name Loc and every
   then / elseif / else block Loc of the returned AST is zero_loc (a synthesized node: default `for` step, malformed
   numeral) or starts before it ends, not before the first token and not after the last token of the list.
   Missing for C04_ast_loc_wf: containment of children (false for calls), the plain block Locs (inverted when empty),
   and the lexer-side proof that files inside file_class_ok yield key-ordered token lists (guard tok_ordered_b). *)
Theorem C04_ast_locs_within_partial : forall key classify ts, wfr ts -> TokOrd key ts -> forall fuel b le pe,
  parse_tokens classify fuel ts = Ok (PR b le pe) ->
  WithinL key (lo key (SL (first_tok ts))) (locs_block b) (hi key (SL (last_tok ts))).
Proof. exact parse_tokens_locs_within. Qed.
Print Assumptions C04_ast_locs_within_partial.

(* the same from the bytes, key = line * W + column: start <= end for every such Loc *)
Theorem C04_ast_locs_ordered_partial : forall W gbk classify bs ts b le pe,
  lex_all gbk bs = Ok ts -> tok_ordered_b W (parser_view ts) = true ->
  parse_bytes gbk classify bs = Ok (PR b le pe) ->
  all_locs_ordered W b = true.
Proof. exact ast_locs_ordered. Qed.
Print Assumptions C04_ast_locs_ordered_partial.

(* non-vacuity of the guard: the 35 Locs of the example file above; and a file WITH syntax errors (16 Locs) *)
Example C04_locs_guard_inhabited :
  let cps := [108;111;99;97;108;32;102;117;110;99;116;105;111;110;32;102;40;97;44;32;46;46;46;41;13;10;32;32;102;111;114;32;105;32;61;32;49;44;32;97;32;100;111;32;108;111;99;97;108;32;115;32;60;99;111;110;115;116;62;32;61;32;34;20013;25991;34;32;101;110;100;10;32;102;111;114;32;107;44;32;118;32;105;110;32;112;97;105;114;115;40;116;41;32;100;111;32;120;46;121;58;109;40;107;41;32;101;110;100;32;45;45;32;99;13;10;32;101;110;100;10;32;102;117;110;99;116;105;111;110;32;111;46;112;58;113;40;122;41;32;114;101;116;117;114;110;32;115;101;108;102;44;32;122;32;101;110;100] in
  lexed_ordered 1000 cps = true /\ parsed_locs_ordered 1000 cps = Some (true, 35%nat).
Proof. split; vm_compute; reflexivity. Qed.
Example C04_locs_guard_inhabited_errors :
  let cps := [108;111;99;97;108;32;49;32;61;32;50;32;105;102;32;120;32;116;104;101;110;32;101;108;115;101;32;101;110;100;32;100;111;32;101;110;100;32;120;32;61;32;97;46;98;40;99;41;32;41] in
  lexed_ordered 1000 cps = true /\ parsed_locs_ordered 1000 cps = Some (true, 16%nat).
Proof. split; vm_compute; reflexivity. Qed.
