(* C04 - every reported range lies in the document and covers what it names (token level).
   Only statements closed by `exact` + Print Assumptions live here (and vm_compute witnesses of the refutations). *)
From Coq Require Import List NArith ZArith Bool.
From LH Require Import Base.Bytes Base.Res Base.Utf8 Model.Lexer Spec.LspRange Proofs.LexerRangeMain.
Import ListNotations.
Local Open Scope N_scope.

Definition lexed_covered (cps : list N) : bool :=
  match lex_all (fun _ => 0%Z) (utf8_of cps) with Ok ts => all_tokens_covered cps ts | _ => false end.

(* full statement: every raw token of every error-free valid-UTF-8 file is covered by its range *)
Definition C04_tok_range_full : Prop :=
  forall gbk cps ts, forallb scalar cps = true -> lex_all gbk (utf8_of cps) = Ok ts -> cls_lexerr ts = false ->
    all_tokens_covered cps ts = true.

(* proved: for every valid-UTF-8 file without backslash, long-bracket opener, astral or 2-byte character, LF-CR pair or
   leading BOM that lexes without lexical error, every token whose recorded text is its source text is reported with
   a range that lies inside the document, has start <= end, and covers exactly the token text (LSP reading: UTF-16
   columns; LF, CRLF, CR line ends) - for any GBK oracle *)
Theorem C04_tok_range_exact : forall gbk cps ts,
  forallb scalar cps = true -> file_class_ok cps = true ->
  lex_all gbk (utf8_of cps) = Ok ts -> cls_lexerr ts = false ->
  all_tokens_covered cps ts = true.
Proof. exact tok_range_exact. Qed.
Print Assumptions C04_tok_range_exact.

(* local s = "a\nb" local y  : the token after a string with an escape is reported one column too far left *)
Theorem C04_escape_shift_refuted :
  let cps := [108;111;99;97;108;32;115;32;61;32;34;97;92;110;98;34;32;108;111;99;97;108;32;121] in
  forallb scalar cps = true /\ cls_escape cps = true /\ lexed_covered cps = false.
Proof. repeat split; vm_compute; reflexivity. Qed.
Print Assumptions C04_escape_shift_refuted.

(* x = [[s]] y = 1 : after a long-bracket string the column restarts at the end of the string *)
Theorem C04_long_bracket_refuted :
  let cps := [120;32;61;32;91;91;115;93;93;32;121;32;61;32;49] in
  forallb scalar cps = true /\ cls_long_bracket cps = true /\ lexed_covered cps = false.
Proof. repeat split; vm_compute; reflexivity. Qed.
Print Assumptions C04_long_bracket_refuted.

(* s = "😀" y : an astral character is two UTF-16 units but one rune *)
Theorem C04_astral_refuted :
  let cps := [115;32;61;32;34;128512;34;32;121] in
  forallb scalar cps = true /\ cls_astral cps = true /\ lexed_covered cps = false.
Proof. repeat split; vm_compute; reflexivity. Qed.
Print Assumptions C04_astral_refuted.

(* a = 1 LF CR b = 2 : "\n\r" is one line end for the lexer, two for LSP *)
Theorem C04_lfcr_refuted :
  let cps := [97;32;61;32;49;10;13;98;32;61;32;50] in
  forallb scalar cps = true /\ cls_lfcr cps = true /\ lexed_covered cps = false.
Proof. repeat split; vm_compute; reflexivity. Qed.
Print Assumptions C04_lfcr_refuted.

(* <BOM>x = 1 : the byte-order mark is stripped without advancing the position *)
Theorem C04_bom_refuted :
  let cps := [65279;120;32;61;32;49] in
  forallb scalar cps = true /\ cls_bom cps = true /\ lexed_covered cps = false.
Proof. repeat split; vm_compute; reflexivity. Qed.
Print Assumptions C04_bom_refuted.

(* non-vacuity of the guard: CRLF + CJK string + trailing comment, all tokens covered *)
Example C04_guard_inhabited :
  let cps := [108;111;99;97;108;32;115;32;61;32;34;20013;25991;34;32;120;32;45;45;32;99;13;10;9;121;32;61;32;115] in
  forallb scalar cps = true /\ file_class_ok cps = true /\ lexed_covered cps = true.
Proof. repeat split; vm_compute; reflexivity. Qed.
