(* C05 - go-to-definition follows Lua's lexical scoping (DESIGN 5, binder family).
   Model: Model/Scope.v (scope tree of the traversal), Model/Resolve.v (FindMinScope / FindLocVar / IsCorrectPosition,
   text cut, globals).  Reference: Spec/LuaScope.v (environment-passing binder `bind_file`, class tags, `Laid`).
   The code violates the full statement: classes B2 and B4, each refuted here on parsed bytes (B1, B3, B5, doc_end:
   repaired, refuted for the code before the repair). *)
From Coq Require Import List NArith ZArith Bool.
From LH Require Import Base.Bytes Model.Lexer Model.Ast Model.Scope Model.Globals Model.Resolve Spec.LuaScope
  Proofs.ResolveRun Proofs.ResolveWitness Proofs.ResolveFixes.
Import ListNotations.
Local Open Scope N_scope.

(* local x = 1\nlocal x = x + 1\n *)
Definition src_init_shadow : list N :=
    [108; 111; 99; 97; 108; 32; 120; 32; 61; 32; 49; 10; 108; 111; 99; 97; 108; 32; 120; 32; 61; 32; 120; 32; 43;
    32; 49; 10].

(* local i = 9 for i = i, 10 do end\n *)
Definition src_for_bound : list N :=
    [108; 111; 99; 97; 108; 32; 105; 32; 61; 32; 57; 32; 102; 111; 114; 32; 105; 32; 61; 32; 105; 44; 32; 49; 48;
    32; 100; 111; 32; 101; 110; 100; 10].

(* local a = 0\nlocal a, b = 1, a\nuse(a)\n *)
Definition src_multi_local : list N :=
    [108; 111; 99; 97; 108; 32; 97; 32; 61; 32; 48; 10; 108; 111; 99; 97; 108; 32; 97; 44; 32; 98; 32; 61; 32; 49;
    44; 32; 97; 10; 117; 115; 101; 40; 97; 41; 10].

(* local f\nf = function() return f() end\n *)
Definition src_forward_decl : list N :=
    [108; 111; 99; 97; 108; 32; 102; 10; 102; 32; 61; 32; 102; 117; 110; 99; 116; 105; 111; 110; 40; 41; 32; 114;
    101; 116; 117; 114; 110; 32; 102; 40; 41; 32; 101; 110; 100; 10].

(* for i = 1, f(function(yy)\nreturn yy end),\ng(function() end) do end\n *)
Definition src_for_step : list N :=
    [102; 111; 114; 32; 105; 32; 61; 32; 49; 44; 32; 102; 40; 102; 117; 110; 99; 116; 105; 111; 110; 40; 121; 121;
    41; 10; 114; 101; 116; 117; 114; 110; 32; 121; 121; 32; 101; 110; 100; 41; 44; 10; 103; 40; 102; 117; 110; 99;
    116; 105; 111; 110; 40; 41; 32; 101; 110; 100; 41; 32; 100; 111; 32; 101; 110; 100; 10].

(* local x = 1\nreturn x *)
Definition src_doc_end : list N :=
    [108; 111; 99; 97; 108; 32; 120; 32; 61; 32; 49; 10; 114; 101; 116; 117; 114; 110; 32; 120].

(* local function fact(n)\n  if n < 2 then return 1 end\n  local r = n * fact(n - 1)\n  return r\nend\nlocal x = 1\ndo local x = x local y = g(x) use(x, y) end\nfor i = 1, x do local x = i use(x) end\nrepeat local q = use() until q\nlocal f = function() return f end\ncount = fact(x)\nuse(count)\n *)
Definition src_ok : list N :=
    [108; 111; 99; 97; 108; 32; 102; 117; 110; 99; 116; 105; 111; 110; 32; 102; 97; 99; 116; 40; 110; 41; 10; 32;
    32; 105; 102; 32; 110; 32; 60; 32; 50; 32; 116; 104; 101; 110; 32; 114; 101; 116; 117; 114; 110; 32; 49; 32;
    101; 110; 100; 10; 32; 32; 108; 111; 99; 97; 108; 32; 114; 32; 61; 32; 110; 32; 42; 32; 102; 97; 99; 116; 40;
    110; 32; 45; 32; 49; 41; 10; 32; 32; 114; 101; 116; 117; 114; 110; 32; 114; 10; 101; 110; 100; 10; 108; 111;
    99; 97; 108; 32; 120; 32; 61; 32; 49; 10; 100; 111; 32; 108; 111; 99; 97; 108; 32; 120; 32; 61; 32; 120; 32;
    108; 111; 99; 97; 108; 32; 121; 32; 61; 32; 103; 40; 120; 41; 32; 117; 115; 101; 40; 120; 44; 32; 121; 41; 32;
    101; 110; 100; 10; 102; 111; 114; 32; 105; 32; 61; 32; 49; 44; 32; 120; 32; 100; 111; 32; 108; 111; 99; 97;
    108; 32; 120; 32; 61; 32; 105; 32; 117; 115; 101; 40; 120; 41; 32; 101; 110; 100; 10; 114; 101; 112; 101; 97;
    116; 32; 108; 111; 99; 97; 108; 32; 113; 32; 61; 32; 117; 115; 101; 40; 41; 32; 117; 110; 116; 105; 108; 32;
    113; 10; 108; 111; 99; 97; 108; 32; 102; 32; 61; 32; 102; 117; 110; 99; 116; 105; 111; 110; 40; 41; 32; 114;
    101; 116; 117; 114; 110; 32; 102; 32; 101; 110; 100; 10; 99; 111; 117; 110; 116; 32; 61; 32; 102; 97; 99; 116;
    40; 120; 41; 10; 117; 115; 101; 40; 99; 111; 117; 110; 116; 41; 10].

(* ---- full statements (T1: core fragment, local part; the global part is decided by the correspondence legs) *)
Definition C05_define_local_full : Prop := C05_define_local_full_stmt.
(* for a global: SOME assignment to that global in the workspace, nothing if there is none (executable form:
   Spec/LuaScope.v define_ok, compared on every generated cursor by leg c05.define) *)
Definition C05_define_global_full : Prop :=
  forall (files : list (list N * list N)) (f : list N) (line col : N) (o : socc) (n : list N) (l : list floc),
    all_in_fragment files = true -> spec_occ files f line col = Some o -> s_bind o = BGlobal n ->
    run_define files f line col = ALocs l -> define_ok (spec_ws files) f o l = true.

(* ---- the full statement is false for the unchanged code *)
Theorem C05_define_local_full_refuted : ~ C05_define_local_full.
Proof.
  apply (full_refuted_by (chunk_of src_for_bound) 1000%Z CB2); vm_compute; reflexivity.
Qed.
Print Assumptions C05_define_local_full_refuted.

(* B1, FIXED (fixes/C05-own-initialiser.diff): `local x = 1; local x = x + 1`: the cursor on the x of `x + 1` jumped to
   the NEW x (line 2): IsCorrectPosition only asked "declared before the cursor", plus a containment test for the three
   initialiser shapes name / call / function.  The declaration now carries the region of its statement's initialiser
   list (VarInfo.InitLoc) and is invisible from inside it.  Before the repair (`no_fixes`) / the code in /repo: *)
Theorem C05_init_shadow_refuted_before_fix :
  run_define_fx no_fixes [(a_lua, src_init_shadow)] a_lua 1 10 = ALocs [(a_lua, mk_loc 2 6 2 7)] /\
  option_map s_bind (spec_occ [(a_lua, src_init_shadow)] a_lua 1 10) = Some (BLocal (mk_loc 1 6 1 7)).
Proof. vm_compute. repeat split. Qed.
Print Assumptions C05_init_shadow_refuted_before_fix.
Theorem C05_init_shadow_fixed :
  has_deviation CB1 (chunk_of src_init_shadow) = false /\
  run_define [(a_lua, src_init_shadow)] a_lua 1 10 = ALocs [(a_lua, mk_loc 1 6 1 7)] /\
  option_map s_bind (spec_occ [(a_lua, src_init_shadow)] a_lua 1 10) = Some (BLocal (mk_loc 1 6 1 7)).
Proof. vm_compute. repeat split. Qed.
Print Assumptions C05_init_shadow_fixed.

(* B2: `local i = 9 for i = i, 10 do end`: the bound i resolves to the loop variable *)
Theorem C05_for_bound_refuted :
  has_deviation CB2 (chunk_of src_for_bound) = true /\
  run_define [(a_lua, src_for_bound)] a_lua 0 20 = ALocs [(a_lua, mk_loc 1 16 1 17)] /\
  option_map s_bind (spec_occ [(a_lua, src_for_bound)] a_lua 0 20) = Some (BLocal (mk_loc 1 6 1 7)).
Proof. vm_compute. repeat split. Qed.
Print Assumptions C05_for_bound_refuted.

(* B3, FIXED: `local a = 0; local a, b = 1, a`: the a of the second initialiser resolved to the new a.  The TRAVERSAL side
   was repaired by fixes/C07-multi-local-order.diff (references / rename / diagnostics); the position resolver still
   picked the new a (an instance of class B1) until fixes/C05-own-initialiser.diff *)
Theorem C05_multi_local_refuted_before_fix :
  run_define_fx no_fixes [(a_lua, src_multi_local)] a_lua 1 16 = ALocs [(a_lua, mk_loc 2 6 2 7)] /\
  option_map s_bind (spec_occ [(a_lua, src_multi_local)] a_lua 1 16) = Some (BLocal (mk_loc 1 6 1 7)).
Proof. vm_compute. repeat split. Qed.
Print Assumptions C05_multi_local_refuted_before_fix.
Theorem C05_multi_local_fixed :
  run_define [(a_lua, src_multi_local)] a_lua 1 16 = ALocs [(a_lua, mk_loc 1 6 1 7)] /\
  option_map s_bind (spec_occ [(a_lua, src_multi_local)] a_lua 1 16) = Some (BLocal (mk_loc 1 6 1 7)).
Proof. vm_compute. repeat split. Qed.
Print Assumptions C05_multi_local_fixed.

(* B4: `local f; f = function() return f() end`: definition on the inner f finds nothing *)
Theorem C05_forward_decl_refuted :
  has_deviation CB4 (chunk_of src_forward_decl) = true /\
  run_define [(a_lua, src_forward_decl)] a_lua 1 22 = ALocs [] /\
  option_map s_bind (spec_occ [(a_lua, src_forward_decl)] a_lua 1 22) = Some (BLocal (mk_loc 1 6 1 7)).
Proof. vm_compute. repeat split. Qed.
Print Assumptions C05_forward_decl_refuted.

(* B5, FIXED (fixes/C05-for-step-order.diff): numeric for visited init, STEP, limit: a function scope of the step was stored
   before the function scopes of the limit, FindMinScope's early exit (`subScope.StartLine > line => break`) then never
   reached a function in the limit that starts on an earlier line: its parameters/locals resolved to nothing and were not
   completed.  The witness deviates for the code before the repair (`no_fixes`) and no longer for the code in /repo. *)
Theorem C05_for_step_order_refuted_before_fix :
  run_define_fx no_fixes [(a_lua, src_for_step)] a_lua 1 7 = ALocs [] /\
  option_map s_bind (spec_occ [(a_lua, src_for_step)] a_lua 1 7) = Some (BLocal (mk_loc 1 22 1 24)).
Proof. vm_compute. repeat split. Qed.
Print Assumptions C05_for_step_order_refuted_before_fix.
Theorem C05_for_step_order_fixed :
  run_define [(a_lua, src_for_step)] a_lua 1 7 = ALocs [(a_lua, mk_loc 1 22 1 24)] /\
  option_map s_bind (spec_occ [(a_lua, src_for_step)] a_lua 1 7) = Some (BLocal (mk_loc 1 22 1 24)).
Proof. vm_compute. repeat split. Qed.
Print Assumptions C05_for_step_order_fixed.

(* doc_end, FIXED (fixes/C05-doc-end.diff): cursor at the very end of a file without trailing newline.  Before the repair
   the handler answered nothing (`offset >= len(contents)`; model variant `no_fixes`); now it answers the declaration *)
Theorem C05_doc_end_refuted_before_fix :
  run_define_fx no_fixes [(a_lua, src_doc_end)] a_lua 1 8 = ALocs [] /\
  offset_of src_doc_end 1 8 0 = Some (N.of_nat (length src_doc_end)) /\
  option_map s_bind (spec_occ [(a_lua, src_doc_end)] a_lua 1 8) = Some (BLocal (mk_loc 1 6 1 7)).
Proof. vm_compute. repeat split. Qed.
Print Assumptions C05_doc_end_refuted_before_fix.
Theorem C05_doc_end_fixed :
  run_define [(a_lua, src_doc_end)] a_lua 1 8 = ALocs [(a_lua, mk_loc 1 6 1 7)] /\
  offset_of src_doc_end 1 8 0 = Some (N.of_nat (length src_doc_end)) /\
  option_map s_bind (spec_occ [(a_lua, src_doc_end)] a_lua 1 8) = Some (BLocal (mk_loc 1 6 1 7)).
Proof. vm_compute. repeat split. Qed.
Print Assumptions C05_doc_end_fixed.

(* a.lua: local a = 1, 2, 3, function(p) return p end\nuse(a)\n *)
Definition src_surplus_closure : list N :=
  [108; 111; 99; 97; 108; 32; 97; 32; 61; 32; 49; 44; 32; 50; 44; 32; 51; 44; 32; 102; 117; 110; 99; 116; 105; 111; 110; 40; 112; 41; 32; 114; 101; 116; 117; 114; 110; 32; 112; 32; 101; 110; 100; 10; 117; 115; 101; 40; 97; 41; 10].
(* unvisited_local_surplus, FIXED (fixes/C20-local-surplus.diff): cgLocalVarDeclStat left its expression loop (`break`)
   after the FIRST initialiser beyond the names of `local a = 1, 2, <here>, <and here>`: the later ones were never
   analysed by any pass - their closures got no scope, the names read there no reference.  `before_surplus` = the code
   of /repo before that repair; the witness deviates there and no longer for the code now in /repo. *)
(* the closure in the last value had no scope: go-to-definition on its parameter p (line 0, column 38) found nothing *)
Theorem C05_local_surplus_refuted_before_fix :
  all_in_fragment [(a_lua, src_surplus_closure)] = true /\
  run_define_fx before_surplus [(a_lua, src_surplus_closure)] a_lua 0 38 = ALocs [] /\
  option_map s_bind (spec_occ [(a_lua, src_surplus_closure)] a_lua 0 38) = Some (BLocal (mk_loc 1 28 1 29)).
Proof. vm_compute. repeat split. Qed.
Print Assumptions C05_local_surplus_refuted_before_fix.
Theorem C05_local_surplus_fixed :
  run_define [(a_lua, src_surplus_closure)] a_lua 0 38 = ALocs [(a_lua, mk_loc 1 28 1 29)] /\
  option_map s_bind (spec_occ [(a_lua, src_surplus_closure)] a_lua 0 38) = Some (BLocal (mk_loc 1 28 1 29)).
Proof. vm_compute. repeat split. Qed.
Print Assumptions C05_local_surplus_fixed.

(* ---- the guard of the partial theorem is satisfiable by a non-trivial program: every one of its occurrences is
   untagged, it is in the fragment and Laid, and the position resolver agrees with the reference binder on it *)
Example C05_guard_nonvacuous :
  in_fragment (chunk_of src_ok) = true /\ laid_b 1000%Z (chunk_of src_ok) = true /\
  all_class_ok (chunk_of src_ok) = true /\ length (bind_file (chunk_of src_ok)) = 33%nat /\
  forallb (fun o => negb (deviates_at_start (chunk_of src_ok) o)) (bind_file (chunk_of src_ok)) = true.
Proof. vm_compute. repeat split. Qed.

(* ==================================================================== positive theorems (agent position-bind)
   Proofs/PositionBind*.v.  Guards (all boolean, computed from the program alone):
     in_fragment P         the core fragment of Spec/LuaScope.v;
     Laid2 P               = exists W, laid2_b W P = true: the layout hypothesis `Laid` with the Locs of EMPTY
                             if-branches included, plus shape_ok P (one block per if-condition, one Loc per local name;
                             the former conjunct "no function expression in the STEP of a numeric for" = class B5
                             excluded program-wide is GONE since fixes/C05-for-step-order.diff);
     no_repoint P          no assignment `n = <name | call | function>` to a name that a local of the file carries while
                             declared without a value (class B4 excluded program-wide);
     classB_ok o           the occurrence carries no class tag (B2 only: B1, B3 and B5 are repaired). *)
From LH Require Import Proofs.PositionBindBase Proofs.PositionBindShape Proofs.PositionBindFinal Proofs.PositionBindWitness.

(* the statement `C05_define_local_partial_stmt` as written (guard `Laid`) is false: `Laid` does not constrain the Loc
   of an empty if-branch, which FindMinScope's early exit reads (hand-built AST, not a parser output) *)
Theorem C05_define_local_partial_stmt_refuted : ~ C05_define_local_partial_stmt.
Proof. exact define_local_partial_stmt_refuted. Qed.
Print Assumptions C05_define_local_partial_stmt_refuted.

(* layer 1: the scope tree built by the traversal is the skeleton (a pure function of the AST), up to the
   re-pointing of entries by cgAssignStat - for every program of the fragment *)
Theorem C05_scope_tree_is_skeleton : forall P,
  in_fragment P = true -> shape_ok P = true -> sstep (asg_block P) (sk_root P) (fi_root (analyse P)).
Proof. intros P H1 H2. apply analyse_shape. split; assumption. Qed.
Print Assumptions C05_scope_tree_is_skeleton.

(* layers 1-2: FindMinScope is complete - at every cursor column of every (non-declaring) occurrence, the chain it
   returns contains, for each declaration in the environment of Lua's binder at that occurrence, an entry with that
   name and Loc, declared before the cursor *)
Theorem C05_chain_covers_binder_env : forall P,
  in_fragment P = true -> Laid2 P -> no_repoint P = true ->
  forall o, In o (bind_file P) -> is_decl (s_role o) = false ->
  forall col, (sc (s_loc o) <= col <= ec (s_loc o))%Z ->
  forall x, In x (s_env o) ->
  exists vars v, In vars (chain_at (analyse P) (sl (s_loc o)) col) /\ In v vars /\
                 v_name v = fst (fst x) /\ v_loc v = snd (fst x) /\ decl_before (sl (s_loc o)) col v = true.
Proof. exact chain_covers_env. Qed.
Print Assumptions C05_chain_covers_binder_env.

(* layer 3 = the theorem: go-to-definition on a local follows Lua's scoping.  For every laid-out program of the
   fragment outside class B4, every untagged occurrence (declaration, read or write) that Lua binds to a local
   declaration d, and every cursor column on the identifier (both ends), the position resolver answers d *)
Theorem C05_define_local_partial : forall P,
  in_fragment P = true -> Laid2 P -> no_repoint P = true -> define_local_at classB_ok P.
Proof. exact define_local_core. Qed.
Print Assumptions C05_define_local_partial.

(* the guards are satisfiable by non-trivial parsed programs: src_ok (33 occurrences) and src_core (43 occurrences:
   function statement, numeric and generic for, if with an empty branch, a function in a while condition, multiple
   assignment from a call, a local declared without value and assigned an arithmetic expression, repeat-until) *)
Example C05_core_guards_nonvacuous :
  core_guards_b 1000%Z (chunk_of src_ok) = true /\ all_class_ok (chunk_of src_ok) = true /\
  core_guards_b 1000%Z (chunk_of src_core) = true /\ all_class_ok (chunk_of src_core) = true /\
  length (bind_file (chunk_of src_core)) = 43%nat /\
  forallb (fun o => negb (deviates_at_start (chunk_of src_core) o)) (bind_file (chunk_of src_core)) = true.
Proof. vm_compute. repeat split. Qed.

(* since fixes/C05-for-step-order.diff the guards no longer exclude class B5: the former witness program (a function
   expression in the LIMIT and in the STEP of a numeric for, on different lines) satisfies them, none of its
   occurrences is tagged, and the position resolver agrees with the reference binder at every occurrence *)
Example C05_core_guards_cover_B5 :
  core_guards_b 1000%Z (chunk_of src_for_step) = true /\ all_class_ok (chunk_of src_for_step) = true /\
  length (bind_file (chunk_of src_for_step)) = 5%nat /\
  forallb (fun o => negb (deviates_at_start (chunk_of src_for_step) o)) (bind_file (chunk_of src_for_step)) = true.
Proof. vm_compute. repeat split. Qed.

(* ================================================================== wide fragment (agent wide-fragment)
   Model/ResolveWide.v, Spec/LuaScopeWide.v, Proofs/WideNarrow.v, Proofs/WideRun.v: `_G.name` reads / writes and plain
   names inside table constructors, index expressions, method calls, `function t.f()` / `function t:m()`.  The wide
   predicate, binder, traversal, text cut and request models are NEW functions; the theorems below say that each
   coincides with its narrow counterpart where the narrow one is defined (so the legs may run the wide functions on
   every program), and what `_G.name` resolves to at model level.  Model = code = reference on wide programs is decided
   by correspondence (legs *.wide), not proved. *)
From LH Require Import Model.ResolveWide Spec.LuaScopeWide Proofs.WideNarrow Proofs.WideRun.

Theorem C05_wide_contains_fragment : forall b, in_fragment b = true -> in_wide b = true.
Proof. exact in_fragment_in_wide. Qed.
Print Assumptions C05_wide_contains_fragment.

(* the wide reference binder is the narrow one on the narrow fragment *)
Theorem C05_wide_binder_narrow : forall b, in_fragment b = true -> bind_file_wide b = bind_file b.
Proof. exact bind_file_wide_narrow. Qed.
Print Assumptions C05_wide_binder_narrow.

(* the wide traversal is Scope.analyse on every chunk without a `_G.name` node and without an assignment to a member
   chain `t.a = e` / `function t.f()` (has_w_block: the two constructs for which ResolveWide adds behaviour) - in
   particular on the fragment *)
Theorem C05_wide_traversal_no_G : forall b, has_w_block b = false -> analyse_wide b = analyse b.
Proof. exact analyse_wide_no_g. Qed.
Print Assumptions C05_wide_traversal_no_G.

Theorem C05_wide_traversal_narrow : forall b, in_fragment b = true -> analyse_wide b = analyse b.
Proof. exact analyse_wide_narrow. Qed.
Print Assumptions C05_wide_traversal_narrow.

(* the wide text cut on texts that pass the narrow guard (no square brackets): the same identifier, and no prediction
   exactly where the narrow cut makes none or sees `_G.name` *)
Theorem C05_wide_cut_narrow : forall bs off, text_ok bs = true -> cut_of_wcut (cut_name_wide bs off) = cut_name bs off.
Proof. exact cut_name_wide_narrow. Qed.
Print Assumptions C05_wide_cut_narrow.

Theorem C05_wide_define_narrow : forall w f fi n line col,
  define_at_wide false w f fi n line col = define_at w f fi n line col.
Proof. exact define_at_wide_narrow. Qed.
Print Assumptions C05_wide_define_narrow.

(* request level, from file bytes: on a narrow workspace the wide and the narrow definition models never give two
   different answers *)
Theorem C05_wide_run_define_narrow : forall files f line0 col,
  all_in_fragment files = true -> all_text_ok files = true ->
  answers_agree (run_define_wide files f line0 col) (run_define files f line0 col).
Proof. exact run_define_wide_narrow. Qed.
Print Assumptions C05_wide_run_define_narrow.

Theorem C05_wide_spec_occ_narrow : forall files f line0 col,
  all_in_fragment files = true -> spec_occ_wide files f line0 col = spec_occ files f line0 col.
Proof. exact spec_occ_wide_narrow. Qed.
Print Assumptions C05_wide_spec_occ_narrow.

(* `_G.name`: the file's own newest global entry of that name, else the single owner in the workspace, else nothing;
   never a local, wherever the cursor stands *)
Theorem C05_G_name_is_global : forall w f fi n line col,
  resolve_at_wide true w f fi n line col =
  match find_global_var (fi_globals fi) n with
  | Some e => TGlobal f e
  | None => match ws_global w n with WOne f' e => TGlobal f' e | WNone => TNone | WAmbig => TAmbig end
  end.
Proof. exact resolve_G_is_global. Qed.
Print Assumptions C05_G_name_is_global.

Theorem C05_G_name_never_local : forall w f fi n line col v, resolve_at_wide true w f fi n line col <> TLocal v.
Proof. exact resolve_G_never_local. Qed.
Print Assumptions C05_G_name_never_local.

(* the traversal: an assignment to `_G.x` re-assigns or defines the GLOBAL x (entry at the key's Loc); the scopes are
   untouched and the occurrence carries no local resolution *)
Theorem C05_G_assignment_is_global : forall flv slv x xl st,
  t_frames (assign_g flv slv x xl st) = t_frames st /\
  exists o, t_occs (assign_g flv slv x xl st) = o :: t_occs st /\ o_name o = x /\ o_loc o = xl /\ o_res o = None /\
            (t_globals (assign_g flv slv x xl st) = t_globals st /\ o_kind o = OAssign \/
             t_globals (assign_g flv slv x xl st) = mkG x xl flv slv :: t_globals st /\ o_kind o = ODefineG).
Proof. exact assign_g_global. Qed.
Print Assumptions C05_G_assignment_is_global.

(* non-vacuity / witness: a wide program outside the narrow fragment; `_G.x` under a local x is the global, plain x in a
   table constructor / method call / function body the local; model = reference at all of these cursors *)
Example C05_wide_witness :
  all_in_wide w_wide = true /\ all_in_fragment w_wide = false /\
  option_map s_bind (spec_occ_wide w_wide a_lua 2 7) = Some (BGlobal name_x) /\
  option_map s_bind (spec_occ_wide w_wide a_lua 2 10) = Some (BLocal (snd l_def)) /\
  run_define_wide w_wide a_lua 1 3 = ALocs [g_def] /\ run_define_wide w_wide a_lua 2 7 = ALocs [g_def] /\
  run_define_wide w_wide a_lua 4 30 = ALocs [g_def] /\
  run_define_wide w_wide a_lua 2 10 = ALocs [l_def] /\ run_define_wide w_wide a_lua 2 15 = ALocs [l_def] /\
  run_define_wide w_wide a_lua 2 22 = ALocs [l_def] /\ run_define_wide w_wide a_lua 2 36 = ALocs [l_def] /\
  run_define_wide w_wide a_lua 3 27 = ALocs [l_def].
Proof. vm_compute. repeat split; reflexivity. Qed.

(* ================================================================== boundary cursors (end-inclusive Loc tests)
   Loc end columns are exclusive; IsContainLoc / isInLocation compare them inclusively and the handlers look the cursor
   up as a POINT.  Two cursor-dependent classes besides B1_adjacent_local_end (Spec/LuaScopeWide.v, end of file): *)
(* a.lua: local v = 1\nrepeat local v = 2 until 's'v = 3\n *)
Definition src_repeat_end : list N :=
  [108; 111; 99; 97; 108; 32; 118; 32; 61; 32; 49; 10; 114; 101; 112; 101; 97; 116; 32; 108; 111; 99; 97; 108; 32; 118; 32; 61; 32; 50; 32; 117; 110; 116; 105; 108; 32; 39; 115; 39; 118; 32; 61; 32; 51; 10].
(* adjacent_repeat_end (open): the scope of a `repeat` block ends with the `until` expression - the only block end that is
   not a keyword.  An identifier glued to it starts on the (inclusive) end column of the scope: with the cursor on its
   FIRST column (line 1, column 28) the v of `v = 3` is looked up inside the block and jumps to the inner v; on its other
   column (29) the answer is right.  Core fragment; outside Laid2 (an end mark directly followed by a start mark). *)
Theorem C05_adjacent_repeat_end_refuted :
  all_in_fragment [(a_lua, src_repeat_end)] = true /\
  at_repeat_end (rends_block (chunk_of src_repeat_end)) 2 28 = true /\
  run_define [(a_lua, src_repeat_end)] a_lua 1 28 = ALocs [(a_lua, mk_loc 2 13 2 14)] /\
  option_map s_bind (spec_occ [(a_lua, src_repeat_end)] a_lua 1 28) = Some (BLocal (mk_loc 1 6 1 7)) /\
  run_define [(a_lua, src_repeat_end)] a_lua 1 29 = ALocs [(a_lua, mk_loc 1 6 1 7)].
Proof. vm_compute. repeat split. Qed.
Print Assumptions C05_adjacent_repeat_end_refuted.

(* a.lua: local n\nn = v[n]()\nuse(n)\n *)
Definition src_b4_boundary : list N :=
  [108; 111; 99; 97; 108; 32; 110; 10; 110; 32; 61; 32; 118; 91; 110; 93; 40; 41; 10; 117; 115; 101; 40; 110; 41; 10].
(* B4 at the boundary (class B4_forward_decl, wide fragment): the Loc of a call starts at the LAST token of its callee
   (`v[n]()`: at `]`).  The call re-points the local n declared without a value; the n inside the brackets is NOT
   contained in the call's Loc (no tag CB4 on the occurrence), but the cursor at its END (line 1, column 7) is the first
   column of that Loc: n is not found there; on its first column (6) it is.  b4_boundary is the class predicate the
   legs use for such a cursor. *)
Theorem C05_B4_boundary_refuted :
  all_in_wide [(a_lua, src_b4_boundary)] = true /\
  option_map (fun o => (s_bind o, s_cls o, b4_boundary (rp_block (chunk_of src_b4_boundary)) o 2 7))
             (spec_occ_wide [(a_lua, src_b4_boundary)] a_lua 1 7) = Some (BLocal (mk_loc 1 6 1 7), [], true) /\
  run_define_wide [(a_lua, src_b4_boundary)] a_lua 1 7 = ALocs [] /\
  run_define_wide [(a_lua, src_b4_boundary)] a_lua 1 6 = ALocs [(a_lua, mk_loc 1 6 1 7)].
Proof. vm_compute. repeat split. Qed.
Print Assumptions C05_B4_boundary_refuted.
