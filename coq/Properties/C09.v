(* C09 - results are a function of workspace and configuration, not of scheduling.
   Only statements closed by `exact` + Print Assumptions live here (+ vm_compute witnesses). *)
From Coq Require Import List NArith ZArith Bool Lia Permutation.
From LH Require Import Base.Bytes Model.FileIndex Model.ModulePath Model.Merge Proofs.MergeProofs.
Import ListNotations.
Local Open Scope N_scope.

(* ---- the workspace-wide global table (third pass): files and, inside a file, globals are visited in map order ---- *)

(* full statement: the winner of every name is the same whatever the visiting order *)
Definition C09_merge_full : Prop :=
  forall items items', Permutation items items' -> forall n, winner (merge items) n = winner (merge items') n.

(* T1 statement of the plan: files in any order, every global owned by one file *)
Theorem C09_merge_perm : forall fs fs', Permutation fs fs' -> single_owner (flatten fs) ->
  forall n, winner (merge_files fs) n = winner (merge_files fs') n.
Proof. exact merge_files_perm_single. Qed.
Print Assumptions C09_merge_perm.

(* the same for any interleaving of the individual (name, definition) insertions *)
Theorem C09_merge_perm_items : forall items items', Permutation items items' -> single_owner items ->
  forall n, winner (merge items) n = winner (merge items') n.
Proof. exact merge_perm_single. Qed.
Print Assumptions C09_merge_perm_items.

(* sharper guard: several owners, one of which beats all others (not deeper and on a strictly earlier line):
   that one wins in every order *)
Theorem C09_merge_perm_least : forall items items' n x, Permutation items items' ->
  NoDup (map gv_file (vars_of n items)) -> least (vars_of n items) x ->
  winner (merge items) n = Some x /\ winner (merge items') n = Some x.
Proof. exact merge_perm_least. Qed.
Print Assumptions C09_merge_perm_least.

(* the form the correspondence check uses: class predicate no_least false => order-independent *)
Theorem C09_merge_perm_class : forall items items' n, Permutation items items' ->
  NoDup (map gv_file (vars_of n items)) -> no_least n items = false ->
  winner (merge items) n = winner (merge items') n.
Proof. exact merge_perm_class. Qed.
Print Assumptions C09_merge_perm_class.

(* in EVERY order the winner is a definition that no other definition beats: the possible answers of the
   nondeterministic code are exactly bounded by minimal_set *)
Theorem C09_merge_winner_minimal : forall items n x,
  NoDup (map gv_file (vars_of n items)) -> winner (merge items) n = Some x ->
  In x (vars_of n items) /\ forall w, In w (vars_of n items) -> beats w x = false.
Proof. exact merge_winner_minimal. Qed.
Print Assumptions C09_merge_winner_minimal.

(* ... and every such definition does win in some order (visit it first): minimal_set is exactly the set of
   answers the nondeterministic code can give; with a least owner it is that owner alone *)
Theorem C09_merge_minimal_reachable : forall n l x,
  NoDup (map gv_file l) -> In x l -> (forall w, In w l -> beats w x = false) ->
  exists l', Permutation l l' /\ winner (merge (map (fun v => (n, v)) l')) n = Some x.
Proof. exact merge_minimal_reachable. Qed.
Print Assumptions C09_merge_minimal_reachable.

Theorem C09_minimal_set_least : forall items n x,
  NoDup (map gv_file (vars_of n items)) -> least (vars_of n items) x ->
  forall w, In w (minimal_set (vars_of n items)) <-> w = x.
Proof. exact minimal_set_least_items. Qed.
Print Assumptions C09_minimal_set_least.

(* a.lua and b.lua both define g at top level on line 1: the first file visited wins *)
Definition n_g : list N := [103].
Definition v_a : gvar := mk_gvar [97; 46; 108; 117; 97] 0 0 1.    (* a.lua, funcLv 0, scopeLv 0, line 1 *)
Definition v_b : gvar := mk_gvar [98; 46; 108; 117; 97] 0 0 1.    (* b.lua *)
Definition v_c : gvar := mk_gvar [99; 46; 108; 117; 97] 0 1 3.    (* c.lua, inside a block, line 3 *)
Definition v_d : gvar := mk_gvar [100; 46; 108; 117; 97] 0 0 5.   (* d.lua, top level, line 5 *)
Theorem C09_merge_refuted :
  (let items := [(n_g, v_a); (n_g, v_b)] in let items' := [(n_g, v_b); (n_g, v_a)] in
   Permutation items items' /\ no_least n_g items = true /\
   winner (merge items) n_g = Some v_a /\ winner (merge items') n_g = Some v_b) /\
  (* (scope 1, line 3) against (scope 0, line 5): neither beats the other, first visited wins either way *)
  (winner (merge [(n_g, v_c); (n_g, v_d)]) n_g = Some v_c /\ winner (merge [(n_g, v_d); (n_g, v_c)]) n_g = Some v_d) /\
  ~ C09_merge_full.
Proof.
  split; [cbv zeta; split; [apply perm_swap|repeat split; vm_compute; reflexivity]|].
  split; [split; vm_compute; reflexivity|].
  intros H. specialize (H [(n_g, v_a); (n_g, v_b)] [(n_g, v_b); (n_g, v_a)] (perm_swap _ _ _) n_g).
  vm_compute in H. discriminate.
Qed.
Print Assumptions C09_merge_refuted.

(* ---- best-match module candidate ---- *)
Definition C09_best_match_full : Prop :=
  forall cur refer cs cs', Permutation cs cs' -> first_max cur refer cs' = first_max cur refer cs.

Theorem C09_best_match_unique : forall cur refer cs cs', unique_max cur refer cs -> Permutation cs cs' ->
  first_max cur refer cs' = first_max cur refer cs.
Proof. exact best_match_unique. Qed.
Print Assumptions C09_best_match_unique.

(* whatever sort.Sort (unstable) does with ties: the first element of any arrangement sorted by descending score
   is one of the best-scored candidates *)
Theorem C09_sort_head_argmax : forall cur refer cs sorted h rest,
  Permutation sorted cs -> sorted = h :: rest ->
  (forall c, In c rest -> (calc_score cur refer c <= calc_score cur refer h)%Z) ->
  In h (argmax_set cur refer cs).
Proof. exact sort_head_argmax. Qed.
Print Assumptions C09_sort_head_argmax.

(* /ws/a/m.lua and /ws/b/m.lua required as "m" from /ws/c/x.lua: equal scores, the answer follows the order *)
Definition c_a_m : list N := [47;119;115;47;97;47;109;46;108;117;97].
Definition c_b_m : list N := [47;119;115;47;98;47;109;46;108;117;97].
Definition c_cur : list N := [47;119;115;47;99;47;120;46;108;117;97].
Theorem C09_best_match_refuted :
  calc_score c_cur [109] c_a_m = calc_score c_cur [109] c_b_m /\
  first_max c_cur [109] [c_a_m; c_b_m] = Some c_a_m /\ first_max c_cur [109] [c_b_m; c_a_m] = Some c_b_m /\
  ~ C09_best_match_full.
Proof.
  repeat split; try (vm_compute; reflexivity).
  intros H. specialize (H c_cur [109] [c_a_m; c_b_m] [c_b_m; c_a_m] (perm_swap _ _ _)). vm_compute in H. discriminate.
Qed.
Print Assumptions C09_best_match_refuted.

(* ---- worker pools: per-file results stored under the file's key, any completion order ---- *)
Theorem C09_arrival_perm : forall (R : Type) (arr arr' : list (list N * R)),
  NoDup (map fst arr) -> Permutation arr arr' -> forall f, aget f (collect arr) = aget f (collect arr').
Proof. exact @arrival_perm. Qed.
Print Assumptions C09_arrival_perm.

(* ---- one scope's unused-local diagnostics: the same multiset in every map order (the list order is not fixed) ---- *)
Theorem C09_diag_set_perm : forall (var err : Type) (errs_of : list N -> var -> list err) m m',
  Permutation m m' -> Permutation (scope_errors var err errs_of m) (scope_errors var err errs_of m').
Proof. exact @scope_errors_perm. Qed.
Print Assumptions C09_diag_set_perm.

Theorem C09_diag_list_order_refuted :
  exists (errs_of : list N -> N -> list N) m m', Permutation m m' /\
    scope_errors N N errs_of m <> scope_errors N N errs_of m'.
Proof.
  exists (fun _ v => [v]), [([97], [1]); ([98], [2])], [([98], [2]); ([97], [1])].
  split; [apply perm_swap|]. vm_compute. discriminate.
Qed.
Print Assumptions C09_diag_list_order_refuted.

(* ---- non-vacuity of the guards ---- *)
Definition n_h : list N := [104].
Example C09_guards_inhabited :
  (* three files, two names, each owned once *)
  single_owner [(n_g, v_a); (n_h, v_b); ([105], v_c)] /\
  (* two owners, a.lua line 1 beats d.lua line 5 *)
  (let items := [(n_g, v_d); (n_h, v_b); (n_g, v_a)] in
   multi_owner n_g items = true /\ no_least n_g items = false /\ NoDup (map gv_file (vars_of n_g items)) /\
   least (vars_of n_g items) v_a /\ winner (merge items) n_g = Some v_a) /\
  (* two candidates with different scores *)
  unique_max c_cur [109] [c_a_m; [47;119;115;47;99;47;109;46;108;117;97]].
Proof.
  split.
  - intros n. unfold vars_of. cbn [filter fst].
    destruct (beq_bytes n_g n) eqn:E1; destruct (beq_bytes n_h n) eqn:E2; destruct (beq_bytes [105] n) eqn:E3;
      cbn [map length snd]; try lia; exfalso;
      repeat match goal with H : beq_bytes _ _ = true |- _ => apply beq_bytes_eq in H end;
      unfold n_g, n_h in *; subst;
      match goal with H : _ :: _ = _ :: _ |- _ => solve [inversion H] end.
  - split; [|vm_compute; reflexivity].
    cbv zeta. split; [vm_compute; reflexivity|]. split; [vm_compute; reflexivity|].
    split; [vm_compute; repeat constructor; simpl; intuition discriminate|].
    split; [apply least_of_some; vm_compute; reflexivity|vm_compute; reflexivity].
Qed.
