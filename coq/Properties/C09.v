(* C09 - results are a function of workspace and configuration, not of scheduling.
   Only statements closed by `exact` + Print Assumptions live here (+ vm_compute witnesses).
   Since fixes/C09-deterministic-order.diff (in /repo) the two order-dependent choices are repaired: the FULL statements
   C09_merge_perm_full and C09_best_match_perm_full hold without a uniqueness guard for the repaired variants
   (fx = true, the ones the drivers run); the variants before the repair (fx = false / explicit orders) keep their
   exact characterisation and their refutations (..._prefix_refuted). *)
From Coq Require Import List NArith ZArith Bool Lia Permutation.
From LH Require Import Base.Bytes Model.FileIndex Model.ModulePath Model.Merge Proofs.MergeProofs Proofs.MergeDet
  Proofs.MergeProject.
Import ListNotations.
Local Open Scope N_scope.

(* ---- the workspace-wide global table (third pass) ----
   `merge items` replays the loop body of generateAllGlobalMaps (JudgeShouldInsertGlobalInfo + InsertThirdGlobalGMaps)
   along an explicit visiting order; `merge_ws fx globals_of files` is the whole function: fx = false visits the files
   in the order of the Go map iteration (the code before fixes/C09-deterministic-order.diff), fx = true in sorted
   name order (the repaired code, the one the drivers run). *)

(* full statement for the code BEFORE the repair (refuted below): the winner of every name is the same whatever the
   visiting order *)
Definition C09_merge_prefix_full : Prop :=
  forall items items', Permutation items items' -> forall n, winner (merge items) n = winner (merge items') n.

(* FULL statement, repaired code: whatever order the map iteration hands out the files in, the winner of every global
   is the same (no guard at all: even the tables are equal) *)
Theorem C09_merge_perm_full : forall globals_of files files', Permutation files files' ->
  forall n, winner (merge_ws true globals_of files) n = winner (merge_ws true globals_of files') n.
Proof. exact merge_ws_perm_files. Qed.
Print Assumptions C09_merge_perm_full.

Theorem C09_merge_perm_table : forall globals_of files files', Permutation files files' ->
  merge_ws true globals_of files = merge_ws true globals_of files'.
Proof. exact merge_ws_perm_table. Qed.
Print Assumptions C09_merge_perm_table.

(* both map levels at once: the files in any order AND the globals of every file in any order (GlobalMaps is a Go map
   keyed by the name: map_shaped is that representation invariant, a boolean) *)
Theorem C09_merge_perm_full_inner : forall globals_of globals_of' files files',
  Permutation files files' -> map_shaped globals_of files = true ->
  (forall k, In k files -> Permutation (globals_of k) (globals_of' k)) ->
  forall n, winner (merge_ws true globals_of files) n = winner (merge_ws true globals_of' files') n.
Proof. exact merge_ws_perm_full. Qed.
Print Assumptions C09_merge_perm_full_inner.

(* sort.Strings on the collected keys: a function of the multiset of keys *)
Theorem C09_sort_paths_perm : forall l l', Permutation l l' -> sort_paths l = sort_paths l'.
Proof. exact sort_paths_perm_eq. Qed.
Print Assumptions C09_sort_paths_perm.

(* the repair keeps every preference rule: the repaired visit is one of the orders the old code could take, a least
   owner still wins, and in general the winner is a definition that no other definition beats *)
Theorem C09_merge_fixed_least : forall globals_of files n x,
  NoDup (map gv_file (vars_of n (flat_map globals_of files))) -> least (vars_of n (flat_map globals_of files)) x ->
  winner (merge_ws true globals_of files) n = Some x.
Proof. exact merge_ws_fixed_least. Qed.
Print Assumptions C09_merge_fixed_least.

Theorem C09_merge_fixed_minimal : forall globals_of files n x,
  NoDup (map gv_file (vars_of n (flat_map globals_of files))) -> winner (merge_ws true globals_of files) n = Some x ->
  In x (vars_of n (flat_map globals_of files)) /\
  forall w, In w (vars_of n (flat_map globals_of files)) -> beats w x = false.
Proof. exact merge_ws_fixed_minimal. Qed.
Print Assumptions C09_merge_fixed_minimal.

(* ---- the loop body along explicit orders = everything the code before the repair could do ---- *)

(* T1 statement of the plan: files in any order, every global owned by one file *)
Theorem C09_merge_perm : forall fs fs', Permutation fs fs' -> single_owner (flatten fs) ->
  forall n, winner (merge_files fs) n = winner (merge_files fs') n.
Proof. exact merge_files_perm_single. Qed.
Print Assumptions C09_merge_perm.

(* the same for any interleaving of the individual (name, definition) insertions *)
Theorem C09_merge_perm_items : forall items items', Permutation items items' -> single_owner items ->
  forall n, winner (merge items) n = winner (merge items') n.
Proof. exact merge_perm_single. Qed.
Print Assumptions C09_merge_perm_items.

(* sharper guard: several owners, one of which beats all others (not deeper and on a strictly earlier line):
   that one wins in every order *)
Theorem C09_merge_perm_least : forall items items' n x, Permutation items items' ->
  NoDup (map gv_file (vars_of n items)) -> least (vars_of n items) x ->
  winner (merge items) n = Some x /\ winner (merge items') n = Some x.
Proof. exact merge_perm_least. Qed.
Print Assumptions C09_merge_perm_least.

(* the form the correspondence check uses: class predicate no_least false => order-independent *)
Theorem C09_merge_perm_class : forall items items' n, Permutation items items' ->
  NoDup (map gv_file (vars_of n items)) -> no_least n items = false ->
  winner (merge items) n = winner (merge items') n.
Proof. exact merge_perm_class. Qed.
Print Assumptions C09_merge_perm_class.

(* in EVERY order the winner is a definition that no other definition beats: the possible answers of the
   nondeterministic code are exactly bounded by minimal_set *)
Theorem C09_merge_winner_minimal : forall items n x,
  NoDup (map gv_file (vars_of n items)) -> winner (merge items) n = Some x ->
  In x (vars_of n items) /\ forall w, In w (vars_of n items) -> beats w x = false.
Proof. exact merge_winner_minimal. Qed.
Print Assumptions C09_merge_winner_minimal.

(* ... and every such definition does win in some order (visit it first): minimal_set is exactly the set of
   answers the nondeterministic code can give; with a least owner it is that owner alone *)
Theorem C09_merge_minimal_reachable : forall n l x,
  NoDup (map gv_file l) -> In x l -> (forall w, In w l -> beats w x = false) ->
  exists l', Permutation l l' /\ winner (merge (map (fun v => (n, v)) l')) n = Some x.
Proof. exact merge_minimal_reachable. Qed.
Print Assumptions C09_merge_minimal_reachable.

Theorem C09_minimal_set_least : forall items n x,
  NoDup (map gv_file (vars_of n items)) -> least (vars_of n items) x ->
  forall w, In w (minimal_set (vars_of n items)) <-> w = x.
Proof. exact minimal_set_least_items. Qed.
Print Assumptions C09_minimal_set_least.

(* a.lua and b.lua both define g at top level on line 1: the first file visited wins *)
Definition n_g : list N := [103].
Definition v_a : gvar := mk_gvar [97; 46; 108; 117; 97] 0 0 1.    (* a.lua, funcLv 0, scopeLv 0, line 1 *)
Definition v_b : gvar := mk_gvar [98; 46; 108; 117; 97] 0 0 1.    (* b.lua *)
Definition v_c : gvar := mk_gvar [99; 46; 108; 117; 97] 0 1 3.    (* c.lua, inside a block, line 3 *)
Definition v_d : gvar := mk_gvar [100; 46; 108; 117; 97] 0 0 5.   (* d.lua, top level, line 5 *)
(* the workspace of the witnesses: which file holds which globals *)
Definition f_a : list N := [97; 46; 108; 117; 97].
Definition f_b : list N := [98; 46; 108; 117; 97].
Definition f_c : list N := [99; 46; 108; 117; 97].
Definition f_d : list N := [100; 46; 108; 117; 97].
Definition w_globals (k : list N) : list (list N * gvar) :=
  if beq_bytes k f_a then [(n_g, v_a)] else if beq_bytes k f_b then [(n_g, v_b)]
  else if beq_bytes k f_c then [(n_g, v_c)] else if beq_bytes k f_d then [(n_g, v_d)] else [].

Theorem C09_merge_prefix_refuted :
  (let items := [(n_g, v_a); (n_g, v_b)] in let items' := [(n_g, v_b); (n_g, v_a)] in
   Permutation items items' /\ no_least n_g items = true /\
   winner (merge items) n_g = Some v_a /\ winner (merge items') n_g = Some v_b) /\
  (* (scope 1, line 3) against (scope 0, line 5): neither beats the other, first visited wins either way *)
  (winner (merge [(n_g, v_c); (n_g, v_d)]) n_g = Some v_c /\ winner (merge [(n_g, v_d); (n_g, v_c)]) n_g = Some v_d) /\
  ~ C09_merge_prefix_full /\
  (* the same through the whole function before the repair: the map order of the two files decides *)
  (Permutation [f_a; f_b] [f_b; f_a] /\
   winner (merge_ws false w_globals [f_a; f_b]) n_g = Some v_a /\
   winner (merge_ws false w_globals [f_b; f_a]) n_g = Some v_b) /\
  ~ (forall globals_of files files', Permutation files files' ->
       forall n, winner (merge_ws false globals_of files) n = winner (merge_ws false globals_of files') n).
Proof.
  split; [cbv zeta; split; [apply perm_swap|repeat split; vm_compute; reflexivity]|].
  split; [split; vm_compute; reflexivity|].
  split.
  { intros H. specialize (H [(n_g, v_a); (n_g, v_b)] [(n_g, v_b); (n_g, v_a)] (perm_swap _ _ _) n_g).
    vm_compute in H. discriminate. }
  split; [split; [apply perm_swap|split; vm_compute; reflexivity]|].
  intros H. specialize (H w_globals [f_a; f_b] [f_b; f_a] (perm_swap _ _ _) n_g). vm_compute in H. discriminate.
Qed.
Print Assumptions C09_merge_prefix_refuted.

(* regression on the old witnesses: the repaired code answers the same in both orders (a.lua is visited first; in the
   second pair c.lua is) *)
Example C09_merge_witness_fixed :
  winner (merge_ws true w_globals [f_a; f_b]) n_g = Some v_a /\
  winner (merge_ws true w_globals [f_b; f_a]) n_g = Some v_a /\
  winner (merge_ws true w_globals [f_c; f_d]) n_g = Some v_c /\
  winner (merge_ws true w_globals [f_d; f_c]) n_g = Some v_c /\
  winner (merge_ws true w_globals [f_d; f_b; f_c; f_a]) n_g = Some v_a /\
  sort_paths [f_d; f_b; f_c; f_a] = [f_a; f_b; f_c; f_d] /\
  map_shaped w_globals [f_d; f_b; f_c; f_a] = true.
Proof. repeat split; vm_compute; reflexivity. Qed.

(* ---- best-match module candidate ----
   best_match fx cur refer cs: the file GetBestMatchReferFile answers for the candidates cs (in the order the map
   iteration produced them); fx = false: before the repair (first_max = a stable sort; the unstable sort.Sort may
   answer any element of argmax_set); fx = true: Less breaks score ties by the path. *)

(* FULL statement, repaired code: the chosen file is the same for every order of the candidates - no uniqueness
   guard, duplicates allowed *)
Theorem C09_best_match_perm_full : forall cur refer cs cs', Permutation cs cs' ->
  best_match true cur refer cs' = best_match true cur refer cs.
Proof. exact best_match_perm_full. Qed.
Print Assumptions C09_best_match_perm_full.

(* whatever sort.Sort does with the repaired Less: the head of ANY arrangement of the candidates in which no later
   element is Less than the head is the model's answer (so the answer does not depend on the sort algorithm either) *)
Theorem C09_sort_head_fixed : forall cur refer cs sorted h rest,
  Permutation sorted cs -> sorted = h :: rest ->
  (forall c, In c rest -> less_fx cur refer c h = false) ->
  best_match true cur refer cs = Some h.
Proof. exact sort_head_fixed. Qed.
Print Assumptions C09_sort_head_fixed.

(* the repair keeps the score preference: the answer is a best-scored candidate, and there is one iff there is a
   candidate *)
Theorem C09_best_match_fixed_argmax : forall cur refer cs c,
  best_match true cur refer cs = Some c -> In c (argmax_set cur refer cs).
Proof. exact best_match_fixed_argmax. Qed.
Print Assumptions C09_best_match_fixed_argmax.

Theorem C09_best_match_fixed_none : forall cur refer cs, best_match true cur refer cs = None <-> cs = [].
Proof. exact best_match_fixed_none. Qed.
Print Assumptions C09_best_match_fixed_none.

(* full statement for the code BEFORE the repair (refuted below) *)
Definition C09_best_match_prefix_full : Prop :=
  forall cur refer cs cs', Permutation cs cs' -> best_match false cur refer cs' = best_match false cur refer cs.

Theorem C09_best_match_unique : forall cur refer cs cs', unique_max cur refer cs -> Permutation cs cs' ->
  first_max cur refer cs' = first_max cur refer cs.
Proof. exact best_match_unique. Qed.
Print Assumptions C09_best_match_unique.

(* whatever sort.Sort (unstable) does with ties: the first element of any arrangement sorted by descending score
   is one of the best-scored candidates *)
Theorem C09_sort_head_argmax : forall cur refer cs sorted h rest,
  Permutation sorted cs -> sorted = h :: rest ->
  (forall c, In c rest -> (calc_score cur refer c <= calc_score cur refer h)%Z) ->
  In h (argmax_set cur refer cs).
Proof. exact sort_head_argmax. Qed.
Print Assumptions C09_sort_head_argmax.

(* /ws/a/m.lua and /ws/b/m.lua required as "m" from /ws/c/x.lua: equal scores, the answer follows the order *)
Definition c_a_m : list N := [47;119;115;47;97;47;109;46;108;117;97].
Definition c_b_m : list N := [47;119;115;47;98;47;109;46;108;117;97].
Definition c_cur : list N := [47;119;115;47;99;47;120;46;108;117;97].
Theorem C09_best_match_prefix_refuted :
  calc_score c_cur [109] c_a_m = calc_score c_cur [109] c_b_m /\
  best_match false c_cur [109] [c_a_m; c_b_m] = Some c_a_m /\
  best_match false c_cur [109] [c_b_m; c_a_m] = Some c_b_m /\
  ~ C09_best_match_prefix_full.
Proof.
  repeat split; try (vm_compute; reflexivity).
  intros H. specialize (H c_cur [109] [c_a_m; c_b_m] [c_b_m; c_a_m] (perm_swap _ _ _)). vm_compute in H. discriminate.
Qed.
Print Assumptions C09_best_match_prefix_refuted.

(* regression on the old witness: the repaired code answers /ws/a/m.lua in both orders *)
Example C09_best_match_witness_fixed :
  best_match true c_cur [109] [c_a_m; c_b_m] = Some c_a_m /\
  best_match true c_cur [109] [c_b_m; c_a_m] = Some c_a_m /\
  (* a better-scored candidate still wins against a smaller path: /ws/c/m.lua shares the directory of the referrer *)
  best_match true c_cur [109] [c_a_m; [47;119;115;47;99;47;109;46;108;117;97]; c_b_m]
    = Some [47;119;115;47;99;47;109;46;108;117;97].
Proof. repeat split; vm_compute; reflexivity. Qed.

(* ---- worker pools: per-file results stored under the file's key, any completion order ---- *)
Theorem C09_arrival_perm : forall (R : Type) (arr arr' : list (list N * R)),
  NoDup (map fst arr) -> Permutation arr arr' -> forall f, aget f (collect arr) = aget f (collect arr').
Proof. exact @arrival_perm. Qed.
Print Assumptions C09_arrival_perm.

(* ---- one scope's unused-local diagnostics: the same multiset in every map order (the list order is not fixed) ---- *)
Theorem C09_diag_set_perm : forall (var err : Type) (errs_of : list N -> var -> list err) m m',
  Permutation m m' -> Permutation (scope_errors var err errs_of m) (scope_errors var err errs_of m').
Proof. exact @scope_errors_perm. Qed.
Print Assumptions C09_diag_set_perm.

Theorem C09_diag_list_order_refuted :
  exists (errs_of : list N -> N -> list N) m m', Permutation m m' /\
    scope_errors N N errs_of m <> scope_errors N N errs_of m'.
Proof.
  exists (fun _ v => [v]), [([97], [1]); ([98], [2])], [([98], [2]); ([97], [1])].
  split; [apply perm_swap|]. vm_compute. discriminate.
Qed.
Print Assumptions C09_diag_list_order_refuted.

(* ---- non-vacuity of the guards ---- *)
Definition n_h : list N := [104].
Example C09_guards_inhabited :
  (* three files, two names, each owned once *)
  single_owner [(n_g, v_a); (n_h, v_b); ([105], v_c)] /\
  (* two owners, a.lua line 1 beats d.lua line 5 *)
  (let items := [(n_g, v_d); (n_h, v_b); (n_g, v_a)] in
   multi_owner n_g items = true /\ no_least n_g items = false /\ NoDup (map gv_file (vars_of n_g items)) /\
   least (vars_of n_g items) v_a /\ winner (merge items) n_g = Some v_a) /\
  (* two candidates with different scores *)
  unique_max c_cur [109] [c_a_m; [47;119;115;47;99;47;109;46;108;117;97]].
Proof.
  split.
  - intros n. unfold vars_of. cbn [filter fst].
    destruct (beq_bytes n_g n) eqn:E1; destruct (beq_bytes n_h n) eqn:E2; destruct (beq_bytes [105] n) eqn:E3;
      cbn [map length snd]; try lia; exfalso;
      repeat match goal with H : beq_bytes _ _ = true |- _ => apply beq_bytes_eq in H end;
      unfold n_g, n_h in *; subst;
      match goal with H : _ :: _ = _ :: _ |- _ => solve [inversion H] end.
  - split; [|vm_compute; reflexivity].
    cbv zeta. split; [vm_compute; reflexivity|]. split; [vm_compute; reflexivity|].
    split; [vm_compute; repeat constructor; simpl; intuition discriminate|].
    split; [apply least_of_some; vm_compute; reflexivity|vm_compute; reflexivity].
Qed.

(* ---- project mode (luahelper.json with ProjectFiles; check_second_project.go) ----
   The first-phase _G table of a project is NOT the third-pass merge: InsertGlobalGMaps appends unconditionally (no
   JudgeShouldInsertGlobalInfo) and FindGlobalGInfo answers the last insertion, so before the repair EVERY definition
   of a name could win (whichever file the map iteration handed out last), not just the minimal ones.
   project_merge_ws fx g_of plain_of refers_of files: both loops of checkOneProject over second.AllFiles
   (generateAllFristGlobalGMaps: the `_G.x` globals g_of; generateRequireFileGlobalGmaps: the plain globals plain_of of
   the files referenced along refers_of, a require'd file once); fx = false: map order (before the repair), fx = true:
   sorted name order (fixes/C09-project-order.diff, the variant the driver runs). *)

(* full statement for the code BEFORE the repair (refuted below) *)
Definition C09_project_merge_prefix_full : Prop :=
  forall g_of plain_of refers_of files files', Permutation files files' ->
  forall n, winner (project_merge_ws false g_of plain_of refers_of files) n
          = winner (project_merge_ws false g_of plain_of refers_of files') n.

(* FULL statement, repaired code: whatever order the map iteration hands out the project's files in, every name has
   the same winner (no guard; even the tables are equal) *)
Theorem C09_project_merge_perm_full : forall g_of plain_of refers_of files files', Permutation files files' ->
  forall n, winner (project_merge_ws true g_of plain_of refers_of files) n
          = winner (project_merge_ws true g_of plain_of refers_of files') n.
Proof. exact project_merge_ws_perm_files. Qed.
Print Assumptions C09_project_merge_perm_full.

Theorem C09_project_merge_perm_table : forall g_of plain_of refers_of files files', Permutation files files' ->
  project_merge_ws true g_of plain_of refers_of files = project_merge_ws true g_of plain_of refers_of files'.
Proof. exact project_merge_ws_perm_table. Qed.
Print Assumptions C09_project_merge_perm_table.

(* all map levels at once: the files in any order AND every file's GlobalMaps in any order (map_shaped = the maps are
   keyed by the name, boolean; refer_targets = the files the second loop can take plain globals from) *)
Theorem C09_project_merge_perm_full_inner : forall g_of g_of' plain_of plain_of' refers_of files files',
  Permutation files files' ->
  map_shaped g_of files = true -> map_shaped plain_of (refer_targets refers_of files) = true ->
  (forall k, In k files -> Permutation (g_of k) (g_of' k)) ->
  (forall k, In k (refer_targets refers_of files) -> Permutation (plain_of k) (plain_of' k)) ->
  forall n, winner (project_merge_ws true g_of plain_of refers_of files) n
          = winner (project_merge_ws true g_of' plain_of' refers_of files') n.
Proof. exact project_merge_ws_perm_full. Qed.
Print Assumptions C09_project_merge_perm_full_inner.

(* what the table answers (either variant): the last definition along the visiting order, the plain globals of the
   referenced files after all `_G.` ones *)
Theorem C09_project_winner_last : forall fx g_of plain_of refers_of files n,
  winner (project_merge_ws fx g_of plain_of refers_of files) n =
  last_opt (flat_map (fun k => vars_of n (g_of k)) (visit_order fx files) ++
            flat_map (fun k => vars_of n (plain_of k)) (picked (flat_map refers_of (visit_order fx files)) [])).
Proof. exact project_merge_ws_winner. Qed.
Print Assumptions C09_project_winner_last.

(* handleOtherFileInsertSub: the file that provides a member several files add to a global *)
Theorem C09_member_provider_perm : forall adds files files' key, Permutation files files' ->
  member_provider true adds files key = member_provider true adds files' key.
Proof. exact member_provider_perm. Qed.
Print Assumptions C09_member_provider_perm.

(* findMaxSecondProject: the project a file that belongs to several projects is answered from (sizes_pos: every
   candidate project has at least one file - it contains the file asked for; boolean) *)
Theorem C09_pick_project_perm : forall ps ps', Permutation ps ps' -> sizes_pos ps = true ->
  pick_project true ps = pick_project true ps'.
Proof. exact pick_project_perm. Qed.
Print Assumptions C09_pick_project_perm.

Theorem C09_pick_project_most : forall ps e, sizes_pos ps = true -> pick_project true ps = Some e ->
  exists n, In (e, n) ps /\ forall c, In c ps -> snd c <= n.
Proof. exact pick_project_most. Qed.
Print Assumptions C09_pick_project_most.

(* the witness project: main.lua = require("a") require("b") require("c") _G.foo(1, 2); a.lua, b.lua, c.lua each
   `_G.foo = function ... end` on line 1 *)
Definition n_foo : list N := [102; 111; 111].
Definition f_main : list N := [109; 97; 105; 110; 46; 108; 117; 97].
Definition f_x : list N := [120; 46; 108; 117; 97].
Definition pv_a : gvar := mk_gvar f_a 0 0 1.
Definition pv_b : gvar := mk_gvar f_b 0 0 1.
Definition pv_c : gvar := mk_gvar f_c 0 0 1.
Definition p_g (k : list N) : list (list N * gvar) :=
  if beq_bytes k f_a then [(n_foo, pv_a)] else if beq_bytes k f_b then [(n_foo, pv_b)]
  else if beq_bytes k f_c then [(n_foo, pv_c)] else [].
Definition p_none (k : list N) : list (list N * gvar) := [].
Definition p_refs (k : list N) : list refer :=
  if beq_bytes k f_main then [(true, f_a); (true, f_b); (true, f_c)] else [].
(* second witness: main.lua = require("a") require("x") foo(1, 2); x.lua = require("b"); a.lua, b.lua each a plain
   `function foo ... end`: which of the two is inserted last depends on whether main.lua or x.lua is visited first *)
Definition p_plain2 (k : list N) : list (list N * gvar) :=
  if beq_bytes k f_a then [(n_foo, pv_a)] else if beq_bytes k f_b then [(n_foo, pv_b)] else [].
Definition p_refs2 (k : list N) : list refer :=
  if beq_bytes k f_main then [(true, f_a); (true, f_x)] else if beq_bytes k f_x then [(true, f_b)] else [].
Definition p_adds (f key : list N) : bool := beq_bytes f f_a || beq_bytes f f_b.

Theorem C09_project_merge_prefix_refuted :
  (* three fresh starts of the real server: the map handed out main a b c / b c main a / c main a b *)
  (Permutation [f_main; f_a; f_b; f_c] [f_b; f_c; f_main; f_a] /\
   Permutation [f_main; f_a; f_b; f_c] [f_c; f_main; f_a; f_b] /\
   winner (project_merge_ws false p_g p_none p_refs [f_main; f_a; f_b; f_c]) n_foo = Some pv_c /\
   winner (project_merge_ws false p_g p_none p_refs [f_b; f_c; f_main; f_a]) n_foo = Some pv_a /\
   winner (project_merge_ws false p_g p_none p_refs [f_c; f_main; f_a; f_b]) n_foo = Some pv_b) /\
  ~ C09_project_merge_prefix_full /\
  (* the second loop (plain globals of require'd files) *)
  (Permutation [f_main; f_a; f_x; f_b] [f_x; f_b; f_main; f_a] /\
   winner (project_merge_ws false p_none p_plain2 p_refs2 [f_main; f_a; f_x; f_b]) n_foo = Some pv_b /\
   winner (project_merge_ws false p_none p_plain2 p_refs2 [f_x; f_b; f_main; f_a]) n_foo = Some pv_a) /\
  (* the third loop (a member added by two files) *)
  (member_provider false p_adds [f_a; f_b] n_foo = Some f_a /\ member_provider false p_adds [f_b; f_a] n_foo = Some f_b) /\
  (* two equally large projects that both contain the file *)
  (Permutation [(f_a, 3); (f_b, 3)] [(f_b, 3); (f_a, 3)] /\
   pick_project false [(f_a, 3); (f_b, 3)] = Some f_a /\ pick_project false [(f_b, 3); (f_a, 3)] = Some f_b).
Proof.
  split.
  { split; [exact (Permutation_app_comm [f_main; f_a] [f_b; f_c])|].
    split; [exact (Permutation_app_comm [f_main; f_a; f_b] [f_c])|].
    repeat split; vm_compute; reflexivity. }
  split.
  { intros H. specialize (H p_g p_none p_refs [f_main; f_a; f_b; f_c] [f_b; f_c; f_main; f_a]
      (Permutation_app_comm [f_main; f_a] [f_b; f_c]) n_foo). vm_compute in H. discriminate. }
  split.
  { split; [exact (Permutation_app_comm [f_main; f_a] [f_x; f_b])|]. split; vm_compute; reflexivity. }
  split; [split; vm_compute; reflexivity|].
  split; [apply perm_swap|]. split; vm_compute; reflexivity.
Qed.
Print Assumptions C09_project_merge_prefix_refuted.

(* regression on the witnesses: the repaired code answers the same in every order - c.lua (the last file in name
   order that defines _G.foo), b.lua, a.lua, a.lua: what the repaired server answers on the four witness projects *)
Example C09_project_witness_fixed :
  winner (project_merge_ws true p_g p_none p_refs [f_main; f_a; f_b; f_c]) n_foo = Some pv_c /\
  winner (project_merge_ws true p_g p_none p_refs [f_b; f_c; f_main; f_a]) n_foo = Some pv_c /\
  winner (project_merge_ws true p_g p_none p_refs [f_c; f_main; f_a; f_b]) n_foo = Some pv_c /\
  winner (project_merge_ws true p_none p_plain2 p_refs2 [f_main; f_a; f_x; f_b]) n_foo = Some pv_b /\
  winner (project_merge_ws true p_none p_plain2 p_refs2 [f_x; f_b; f_main; f_a]) n_foo = Some pv_b /\
  member_provider true p_adds [f_a; f_b] n_foo = Some f_a /\ member_provider true p_adds [f_b; f_a] n_foo = Some f_a /\
  pick_project true [(f_a, 3); (f_b, 3)] = Some f_a /\ pick_project true [(f_b, 3); (f_a, 3)] = Some f_a /\
  (* more files still wins against a smaller entry name *)
  pick_project true [(f_a, 3); (f_b, 4)] = Some f_b /\
  (* the guards of the theorems above hold of the witnesses *)
  map_shaped p_g [f_main; f_a; f_b; f_c] = true /\
  map_shaped p_plain2 (refer_targets p_refs2 [f_main; f_a; f_x; f_b]) = true /\
  refer_targets p_refs2 [f_main; f_a; f_x; f_b] = [f_a; f_x; f_b] /\
  sizes_pos [(f_a, 3); (f_b, 3)] = true.
Proof. repeat split; vm_compute; reflexivity. Qed.
