(* C14 - completion offers the names that are in scope at the cursor, and only those (DESIGN 5, binder family).
   Model: Model/Resolve.v complete_at (GetCompleteVar over the scope chain of FindMinScope, file globals, the file's
   undefined-name map, workspace globals, IsCompleteNeedShow), run from file bytes by run_complete. *)
From Coq Require Import List NArith ZArith Bool.
From LH Require Import Base.Bytes Model.Lexer Model.Ast Model.Scope Model.Globals Model.Resolve Spec.LuaScope
  Proofs.ResolveRun Proofs.ResolveBasics Proofs.ResolveWitness Proofs.ResolveFull Proofs.ResolveFixes Properties.C05.
Import ListNotations.
Local Open Scope N_scope.

Definition C14_complete_full : Prop := complete_full_stmt.

(* ---- "only those", for every workspace and cursor: a label is a global / undefined name of the workspace, or a
   variable of a scope that CONTAINS the cursor (or of the file's root scope) declared at or before the cursor -
   never a local declared later, never a local of a block that does not enclose the cursor *)
Theorem C14_labels_only_visible : forall files f line col labels n,
  run_complete files f line col = Some labels -> In n labels ->
  exists ps fi, parse_all files = Some ps /\ ws_file (mws_of ps) f = Some fi /\
    (In n (map g_name (fi_globals fi) ++ nodefine_names fi ++ ws_global_names (mws_of ps)) \/
     exists s v, in_tree s (fi_root fi) /\ In v (scope_vars s) /\ v_name v = n /\
                 decl_before (zl line) (Z.of_N col) v = true /\
                 (in_location (scope_loc s) (zl line) (Z.of_N col) = true \/ s = fi_root fi)).
Proof. exact run_complete_locals_sound. Qed.
Print Assumptions C14_labels_only_visible.

Theorem C14_refuted_by_one_cursor : forall files f line col,
  complete_deviates files f line col = true -> ~ C14_complete_full.
Proof. exact complete_full_refuted_by. Qed.
Print Assumptions C14_refuted_by_one_cursor.

(* ---- "every visible local is offered" failed in class B5 (FindMinScope's early exit never reached the scope) *)
(* a.lua: for i = 1, f(function(yy)\nreturn yy end),\ng(function() end) do end\n *)
Definition w_B5_for_step_order : list (list N * list N) :=
  [([97; 46; 108; 117; 97], [102; 111; 114; 32; 105; 32; 61; 32; 49; 44; 32; 102; 40; 102; 117; 110; 99; 116; 105; 111; 110; 40; 121; 121; 41; 10; 114; 101; 116; 117; 114; 110; 32; 121; 121; 32; 101; 110; 100; 41; 44; 10; 103; 40; 102; 117; 110; 99; 116; 105; 111; 110; 40; 41; 32; 101; 110; 100; 41; 32; 100; 111; 32; 101; 110; 100; 10])].
(* B5, FIXED (fixes/C05-for-step-order.diff): numeric for visited init, STEP, limit: a function scope of the step was stored
   before the function scopes of the limit, FindMinScope's early exit (`subScope.StartLine > line => break`) then never
   reached a function in the limit that starts on an earlier line: its parameters/locals resolved to nothing and were not
   completed.  The witness deviates for the code before the repair (`no_fixes`) and no longer for the code in /repo. *)
Theorem C14_B5_for_step_order_refuted_before_fix : complete_deviates_fx no_fixes w_B5_for_step_order [97; 46; 108; 117; 97] 1 8 = true.
Proof. vm_compute. reflexivity. Qed.
Print Assumptions C14_B5_for_step_order_refuted_before_fix.
Theorem C14_B5_for_step_order_fixed : complete_deviates w_B5_for_step_order [97; 46; 108; 117; 97] 1 8 = false.
Proof. vm_compute. reflexivity. Qed.
Print Assumptions C14_B5_for_step_order_fixed.

(* a.lua: local a = 1, 2, 3, function(p) return p end\nuse(a)\n *)
Definition w_local_surplus : list (list N * list N) :=
  [([97; 46; 108; 117; 97], [108; 111; 99; 97; 108; 32; 97; 32; 61; 32; 49; 44; 32; 50; 44; 32; 51; 44; 32; 102; 117; 110; 99; 116; 105; 111; 110; 40; 112; 41; 32; 114; 101; 116; 117; 114; 110; 32; 112; 32; 101; 110; 100; 10; 117; 115; 101; 40; 97; 41; 10])].
(* unvisited_local_surplus, FIXED (fixes/C20-local-surplus.diff): cgLocalVarDeclStat left its expression loop (`break`)
   after the FIRST initialiser beyond the names of `local a = 1, 2, <here>, <and here>`: the later ones were never
   analysed by any pass - their closures got no scope, the names read there no reference.  `before_surplus` = the code
   of /repo before that repair; the witness deviates there and no longer for the code now in /repo. *)
(* the closure in the last value had no scope: its parameter p was not offered behind `return p` (line 0, column 39) *)
Theorem C14_local_surplus_refuted_before_fix : complete_deviates_fx before_surplus w_local_surplus [97; 46; 108; 117; 97] 0 39 = true.
Proof. vm_compute. reflexivity. Qed.
Print Assumptions C14_local_surplus_refuted_before_fix.
Theorem C14_local_surplus_fixed : all_in_fragment w_local_surplus = true /\ complete_deviates w_local_surplus [97; 46; 108; 117; 97] 0 39 = false.
Proof. vm_compute. split; reflexivity. Qed.
Print Assumptions C14_local_surplus_fixed.

(* the full statement was refuted for the code before the repair; for the code now in /repo no deviating cursor is
   known (B5 was the only class of C14) - the proved parts are the theorems below, the rest is decided by the legs *)
Theorem C14_complete_full_refuted_before_fix : ~ complete_full_stmt_fx no_fixes.
Proof. exact (complete_full_refuted_by_fx _ _ _ _ _ C14_B5_for_step_order_refuted_before_fix). Qed.
Print Assumptions C14_complete_full_refuted_before_fix.

(* non-vacuity: at the end of every identifier USE of C05's example program (the program re-declares names, so the
   cursors on declarations are outside the property's quantifier: uniquely named declarations) the labels satisfy the property *)
Definition C14_ok_at (files : list (list N * list N)) (f : list N) (o : socc) : bool :=
  let line := line0_of (s_loc o) in let col := Z.to_N (ec (s_loc o)) in
  match spec_occ files f line col, offset_of (bytes_of files f) line col 0 with
  | Some o', Some off =>
    match complete_prefix (bytes_of files f) off, run_complete files f line col with
    | CutName pre, Some labels => complete_ok (spec_ws files) f (env_names (s_env o') []) pre (zl line) (Z.of_N col) labels
    | _, _ => false
    end
  | _, _ => false
  end.
Example C14_agreeing_example :
  all_in_fragment [(a_lua, src_ok)] = true /\
  forallb (C14_ok_at [(a_lua, src_ok)] a_lua) (filter (fun o => negb (is_decl (s_role o))) (bind_file (chunk_of src_ok))) = true /\
  length (filter (fun o => negb (is_decl (s_role o))) (bind_file (chunk_of src_ok))) = 23%nat.
Proof. vm_compute. repeat split; reflexivity. Qed.

(* ==================================================================== positive theorems (agent position-bind)
   Proofs/PositionBind*.v; guards as in Properties/C05.v (Laid2 includes shape_ok: list lengths only, class B5 is
   repaired and no longer excluded; no_repoint = class B4 excluded program-wide). *)
From LH Require Import Proofs.PositionBindBase Proofs.PositionBindFinal Proofs.PositionBindWitness.

(* "every visible local is offered", model level: at every cursor column of every non-declaring identifier
   occurrence o of a laid-out fragment program outside B4, every local declaration that is in the environment of
   Lua's binder at o (s_env o: all of them are declared before the cursor) is among the local labels that
   GetCompleteVar collects along FindMinScope's chain *)
Theorem C14_complete_locals_partial : forall P,
  in_fragment P = true -> Laid2 P -> no_repoint P = true ->
  forall o, In o (bind_file P) -> is_decl (s_role o) = false ->
  forall col, (sc (s_loc o) <= col <= ec (s_loc o))%Z ->
  forall x, In x (s_env o) -> In (fst (fst x)) (complete_locals (analyse P) (sl (s_loc o)) col).
Proof. exact complete_locals_core. Qed.
Print Assumptions C14_complete_locals_partial.

(* the full statement this is a part of: the same for whole requests over file bytes (text cut, prefix filter, globals)
   = the first conjunct of complete_ok in C14_complete_full; the lift to run_complete is not proved *)
Definition C14_complete_locals_full : Prop :=
  forall files f line col o labels pre off,
    all_in_fragment files = true -> spec_occ files f line col = Some o ->
    offset_of (bytes_of files f) line col 0 = Some off -> complete_prefix (bytes_of files f) off = CutName pre ->
    run_complete files f line col = Some labels ->
    forallb (fun n => negb (starts_with pre n) || name_in n labels) (env_names (s_env o) []) = true.

Example C14_core_guards_nonvacuous :
  core_guards_b 1000%Z (chunk_of src_core) = true /\
  length (filter (fun o => negb (is_decl (s_role o))) (bind_file (chunk_of src_core))) = 29%nat.
Proof. vm_compute. repeat split. Qed.

(* ================================================================== composition (agent c12-compose)
   Proofs/ComposeBind.v, ComposeBindRun.v: C14_complete_locals_partial lifted to whole completion requests over file
   bytes = the statement C14_complete_locals_full (first conjunct of complete_ok in C14_complete_full, visible locals)
   for any workspace, restricted by ONE boolean guard on the queried file and to cursors on non-declaring occurrences:
     complete_guard W files f = file f parses and its chunk satisfies core_guards_b W (in_fragment, laid2_b W, no_repoint).
   No guard on the text: whatever prefix GetCompleteVar's text cut yields, every visible local that starts with it is
   offered (IsCompleteNeedShow keeps a name that starts with the prefix).  Missing for C14_complete_full: cursors on
   declarations, the global labels, the second conjunct ("only those" is C14_labels_only_visible), class B4 (B5: repaired, the witness
   program now satisfies complete_guard). *)
From LH Require Import Proofs.ComposeBind Proofs.ComposeBindRun.

(* model level: with the prefix filter *)
Theorem C14_complete_at_visible_partial : forall P w o col pre n,
  in_fragment P = true -> Laid2 P -> no_repoint P = true ->
  In o (bind_file P) -> is_decl (s_role o) = false -> (sc (s_loc o) <= col <= ec (s_loc o))%Z ->
  In n (env_names (s_env o) []) -> starts_with pre n = true ->
  In n (complete_at w (analyse P) pre (sl (s_loc o)) col).
Proof. exact complete_at_visible. Qed.
Print Assumptions C14_complete_at_visible_partial.

Theorem C14_complete_bytes_partial : forall W files f line col o labels pre off,
  complete_guard W files f = true -> spec_occ files f line col = Some o -> is_decl (s_role o) = false ->
  offset_of (bytes_of files f) line col 0 = Some off -> complete_prefix (bytes_of files f) off = CutName pre ->
  run_complete files f line col = Some labels ->
  forallb (fun n => negb (starts_with pre n) || name_in n labels) (env_names (s_env o) []) = true.
Proof. exact complete_request_locals. Qed.
Print Assumptions C14_complete_bytes_partial.

Example C14_complete_guard_nonvacuous :
  complete_guard 1000 [(a_lua, src_ok)] a_lua = true /\ complete_guard 1000 [(a_lua, src_core)] a_lua = true /\
  complete_guard 1000 [(a_lua, src_ok); (b_lua, src_core)] b_lua = true /\
  length (filter (fun o => negb (is_decl (s_role o))) (bind_file (chunk_of src_core))) = 29%nat /\
  complete_guard 1000 w_B5_for_step_order a_lua = true.
Proof. vm_compute. repeat split; reflexivity. Qed.

(* ================================================================== wide fragment (agent wide-fragment)
   see Properties/C05.v: completion of a bare identifier prefix inside wide programs (prefix cut with the square-bracket
   aware GetBeforeIndex; nothing is offered for the bare word `_G`); decided by the legs c14.wide / c14.widecorr. *)
From LH Require Import Model.ResolveWide Spec.LuaScopeWide Proofs.WideNarrow Proofs.WideRun.

Theorem C14_wide_prefix_narrow : forall bs off, text_ok bs = true -> complete_prefix_wide bs off = complete_prefix bs off.
Proof. exact complete_prefix_wide_narrow. Qed.
Print Assumptions C14_wide_prefix_narrow.

Theorem C14_wide_complete_narrow : forall w fi pre line col,
  beq_bytes pre name_G = false -> complete_at_wide w fi pre line col = complete_at w fi pre line col.
Proof. exact complete_at_wide_narrow. Qed.
Print Assumptions C14_wide_complete_narrow.
