(* C01 - the server never crashes or hangs. Totality / fault-freedom of the modelled cores for ALL inputs
   (the models return `Res`: a Go panic site is `Fault`, an unbounded recursion runs out of fuel).
   Only statements closed by `exact` + Print Assumptions live here (and vm_compute witnesses). *)
From Coq Require Import List NArith ZArith Bool.
From LH Require Import Base.Bytes Base.Res Model.Lexer Model.Ast Model.Parser Model.LuaFront
  Proofs.LexerTotalWf Proofs.LexerTotalMain Proofs.ParserTotalNoFault Proofs.ParserTotalMain
  Model.AnnLexer Model.AnnParser Proofs.AnnTotal
  Model.Classes Proofs.ClassesTotal Proofs.ClassesElem
  Model.Number Proofs.NumberProofs Proofs.DepthUnbounded.
Import ListNotations.

(* ------------------------------------------------------------------ Lua front end *)
(* the lexer returns a token list for every byte string (never a Go panic, never a hang), for any GBK oracle *)
Theorem C01_lex_total : forall gbk bs, exists ts, lex_all gbk bs = Ok ts.
Proof. exact lex_all_total. Qed.
Print Assumptions C01_lex_total.

(* ... and that list ends with its only EOF token and is at most one longer than the input *)
Theorem C01_lex_wf : forall gbk bs ts, lex_all gbk bs = Ok ts -> wf_tokens ts.
Proof. exact lex_all_wf. Qed.
Print Assumptions C01_lex_wf.

(* parser.BeginAnalyze returns for every file: never Fault (so its recover() only ever sees the TooManyErr sentinel,
   the analysis of a file is never silently abandoned) and never OutOfFuel (every loop iteration consumes a token) *)
Theorem C01_parse_total : forall gbk classify bs, exists r, parse_bytes gbk classify bs = Ok r.
Proof. exact parse_bytes_total. Qed.
Print Assumptions C01_parse_total.

Theorem C01_parse_no_fault : forall classify fuel ts k, parse_tokens classify fuel ts <> Fault k.
Proof. exact parse_no_fault. Qed.
Print Assumptions C01_parse_no_fault.

(* fuel (= recursion depth of the model, an upper bound of the Go recursion depth) linear in the input length *)
Theorem C01_parse_depth_linear : forall gbk classify bs ts fuel,
  lex_all gbk bs = Ok ts -> 10 * length bs + 19 <= fuel ->
  exists r, parse_tokens classify fuel (parser_view ts) = Ok r.
Proof. exact parse_bytes_fuel_linear. Qed.
Print Assumptions C01_parse_depth_linear.

(* numerals: the classification never indexes out of range (after the fix: commit for the LuaJIT suffix test) *)
Theorem C01_number_no_fault_token : forall s, num_lexer_token s = true -> exists c, classify_number s = Ok c.
Proof. exact number_no_fault_token. Qed.
Print Assumptions C01_number_no_fault_token.

(* ------------------------------------------------------------------ annotation front end *)
(* ParseCommentFragment returns for every list of comment lines (arbitrary bytes): the type assertion in
   ParserLine's recover() cannot fail, no panic escapes, every loop terminates *)
Theorem C01_ann_line_no_fault : forall line, exists r, ann_parse_line (AnnParser.fuel_of line) line = Ok r.
Proof. exact ann_parse_line_no_fault. Qed.
Print Assumptions C01_ann_line_no_fault.

Theorem C01_ann_fragment_no_fault : forall lines, exists fr, parse_fragment lines = Ok fr.
Proof. exact parse_fragment_no_fault. Qed.
Print Assumptions C01_ann_fragment_no_fault.

(* ------------------------------------------------------------------ class / alias traversal *)
(* the class traversal terminates for every workspace (cycles, diamonds, self-parents) *)
Theorem C01_class_closure_terminates : forall tm t f l, exists o, class_list (Classes.fuel_of tm) tm t f l = Ok o.
Proof. exact class_list_terminates. Qed.
Print Assumptions C01_class_closure_terminates.

(* element / value / key type resolution through aliases terminates for every workspace, cyclic alias chains included
   (the code after the fix: commit that added the set of aliases being expanded) *)
Theorem C01_alias_resolution_terminates :
  forall leaf tm t f, exists r, resolve_fx leaf tm (Classes.fuel_of tm) [] t f = Ok r.
Proof. exact resolve_fx_total. Qed.
Print Assumptions C01_alias_resolution_terminates.

(* ------------------------------------------------------------------ the crashes repaired by fix: commits stay repaired *)
Theorem C01_backslash_newline_eof_repaired :
  is_ok (lex_all (fun _ => 0%Z) [120; 32; 61; 32; 39; 97; 92; 10]%N) = true.        (* x = 'a\<LF><EOF> *)
Proof. vm_compute; reflexivity. Qed.
Print Assumptions C01_backslash_newline_eof_repaired.

Theorem C01_long_bracket_eof_repaired :
  is_ok (parse_bytes (fun _ => 0%Z) classify_tok [108;111;99;97;108;32;97;32;61;32;49;10;120;32;61;32;91;61;61]%N) = true.   (* local a = 1 / x = [== *)
Proof. vm_compute; reflexivity. Qed.
Print Assumptions C01_long_bracket_eof_repaired.

(* ------------------------------------------------------------------ nesting depth (finding C01-deep-nesting, OPEN) *)
(* What IS proved: the model parser returns for every input (C01_parse_total) with a recursion depth linear in the input
   (C01_parse_depth_linear). What the model cannot exhibit is the limit of the Go stack (10^9 bytes): the two statements
   below say that the recursion depth is not bounded by any constant - it follows the nesting of the input.  For every d
   the d opening parentheses `((((...` (a statement; `parens d` = d tokens `(` and the end-of-file token) need a
   recursion deeper than d.  On this path the model's nested calls are the Go calls parseSubExp -> parseExp0 ->
   parsePrefixExp -> parseParensExp -> parseExp -> parseSubExp, the recursion that kills the process on the witnesses
   of known_findings/C01.json (leg c01.deep). *)
Theorem C01_parse_depth_exceeds_nesting : forall classify d fuel,
  fuel <= d -> parse_tokens classify fuel (parens d) = OutOfFuel.
Proof. exact parse_depth_exceeds. Qed.
Print Assumptions C01_parse_depth_exceeds_nesting.

Theorem C01_parse_depth_unbounded_refuted : forall classify fuel, exists ts, parse_tokens classify fuel ts = OutOfFuel.
Proof. exact parse_depth_unbounded. Qed.
Print Assumptions C01_parse_depth_unbounded_refuted.

(* ... while the same inputs are parsed by the model with the linear fuel (the witness family is not outside the model) *)
Example C01_parens_parsed_with_linear_fuel :
  is_ok (parse_tokens classify_tok (fuel_of_tokens (parens 300)) (parens 300)) = true.
Proof. vm_compute; reflexivity. Qed.
