# C16 - every documented annotation form is accepted with its structure intact (DESIGN 5, C16)
#      + the annotation part of C01 (the annotation front end never faults): leg c16.total
#
# Case formats (one line each, fields separated by one space):
#   c16.line      <hex comment line> <spec tree | -> <printer c|p>
#   c16.doc       <hex line>                     (the example lines of docs/manual/annotate.md)
#   c16.fragment  <hex line>,<hex line>,...
#   c16.file      <hex line>,<hex line>,...      (embedded as "--<line>" in a Lua file that goes through the real parser)
#   c16.print     <hex type text>                (parsed, printed by TypeConvertStr, the printed text parsed again: the
#                                                 re-read type must be the documented type the first tree denotes,
#                                                 unions inside unions kept nested; demanded for every documented type,
#                                                 class printer_fun = the open finding)
#   c16.total     <hex line>,<hex line>,...
#   c16.server    <setting> <kind T|P|C> <hex line>,...   (see harness/legs_c16.go: the real server, block with a malformed
#                                                 line against the block with that line as a remark, per warning setting)
# A comment line is the CommentLine.Str the Lua lexer hands to ParseCommentFragment: the text after the leading
# "--" (so an annotation line starts with "-@", an alias continuation line with "-|").
# Spec trees are generated here (derivations of the documented grammar, depth <= 4, plus towers of array suffixes up
# to 12 deep) and printed by the canonical printer `(T[])[]` (c) or the plain printer `T[][]` (p) extracted from Coq
# (model binary, legs c16.show / c16.showtype); the OCaml driver re-checks that the line is show(spec) and that
# doc_stat(spec) holds, so impl == model == spec is a real round trip (spec = embed_line / embed_line_plain).
import os, re
import vlib
from vlib import Leg, hexs

KEYWORDS = ["fun", "table", "type", "param", "field", "class", "return", "overload", "alias", "generic", "public",
            "protected", "private", "vararg", "const", "enum"]
NAMES = ["string", "number", "boolean", "any", "void", "nil", "People", "Man", "a.b.c", "T", "K", "x1", "_p", "Car",
         "integer", "userdata", "thread", "self", "function", "start", "end", "funx", "table2", "A", "B", "t.fun", "9lives",
         "consts", "X_Y.z9"]
PNAMES = NAMES + KEYWORDS + ["...", "one", "two", "list", "sep", "i", "cb"]
CONST_CHARS = list("abcxyz09 _-+|#@()[]<>,:?.!") + ["中", "é", "\\", "=", "*"]
COMMENT_CHARS = list("abc xyz 09 @#|()[]<>,:?.'\"!-") + ["中文", "é", "\t", "\U0001f600"]


def hx(s):
    b = s if isinstance(s, bytes) else s.encode("utf8")
    return hexs(b)


# ----------------------------------------------------------------------------- spec trees (comma separated prefix form)
def g_name(rng):
    return hx(rng.choice(NAMES))


def g_const(rng):
    s = "".join(rng.choice(CONST_CHARS) for _ in range(rng.choice([1, 1, 2, 3, 5])))
    q = rng.random() < 0.5
    if not q and rng.random() < 0.1:
        s = ""
    return "C,%s,%d" % (hx(s), 1 if q else 0)


def g_params(rng, d):
    ps = []
    for _ in range(rng.choice([0, 1, 1, 2, 3])):
        n = hx(rng.choice(PNAMES))
        o = 1 if rng.random() < 0.25 else 0
        if rng.random() < 0.75:
            ps.append("%s,%d,1,%s" % (n, o, g_type(rng, d - 1)))
        else:
            ps.append("%s,%d,0" % (n, o))
    return ps


def g_fun_body(rng, d):
    ps = g_params(rng, d)
    rs = [g_type(rng, d - 1) for _ in range(rng.choice([0, 0, 1, 1, 2, 3]))]
    return ",".join([str(len(ps))] + ps + [str(len(rs))] + rs)


def g_type(rng, d):
    if d <= 0:
        r = rng.random()
        if r < 0.75:
            return "N," + g_name(rng)
        if r < 0.8:
            return "N," + hx("...")
        if r < 0.9:
            return "T0"
        return g_const(rng)
    r = rng.random()
    if r < 0.22:
        return "N," + g_name(rng)
    if r < 0.28:
        return g_const(rng)
    if r < 0.45:
        return "A," + g_type(rng, d - 1)
    if r < 0.5:
        return "T0"
    if r < 0.65:
        return "T,%s,%s" % (g_type(rng, d - 1), g_type(rng, d - 1))
    if r < 0.8:
        return "F," + g_fun_body(rng, d)
    k = rng.choice([2, 2, 3, 4])
    return "U,%d,%s" % (k, ",".join(g_type(rng, d - 1) for _ in range(k)))


def g_tower(rng, d):
    """T[][]...[]: 2..12 array suffixes around any type (the documented TYPE[] applied repeatedly)"""
    return "A," * rng.choice([2, 2, 3, 3, 4, 6, 9, 12]) + g_type(rng, d)


def g_comment(rng, allow=True):
    if not allow or rng.random() < 0.4:
        return "_"
    return "c" + hx("".join(rng.choice(COMMENT_CHARS) for _ in range(rng.choice([0, 1, 3, 6, 12]))))


def g_ident(rng):
    return hx(rng.choice([n for n in NAMES]))


def g_stat(rng, depth=None, form=None):
    d = depth if depth is not None else rng.choice([0, 1, 1, 2, 2, 3, 4])
    form = form or rng.choice(["type", "type", "class", "field", "field", "param", "param", "return", "alias", "generic",
                               "overload", "vararg", "enum"])
    if form == "type":
        k = rng.choice([1, 1, 1, 2, 3])
        items = ["%d,%d,%s" % (rng.random() < 0.2, rng.random() < 0.2, g_type(rng, d)) for _ in range(k)]
        return "type,%d,%s,%s" % (k, ",".join(items), g_comment(rng))
    if form == "alias":
        return "alias,%s,%s,%s" % (g_ident(rng), g_type(rng, d), g_comment(rng))
    if form == "class":
        name = rng.choice(NAMES + KEYWORDS)
        ps = [p for p in (rng.choice(NAMES + KEYWORDS) for _ in range(rng.choice([0, 0, 1, 2, 3]))) if p != name]
        return ",".join(["class", hx(name), str(len(ps))] + [hx(p) for p in ps] + [g_comment(rng)])
    if form == "overload":
        return "overload,%s,%s" % (g_fun_body(rng, max(d, 1)), g_comment(rng))
    if form == "field":
        sc = rng.choice(["_", "_", "0", "1", "2"])
        name = rng.choice(NAMES + KEYWORDS)
        if sc == "_" and name in ("public", "protected", "private"):
            name = "name"
        return "field,%s,%d,%s,%s,%s" % (sc, rng.random() < 0.2, hx(name), g_type(rng, d), g_comment(rng))
    if form == "param":
        isc = rng.random() < 0.2
        name = rng.choice(PNAMES)
        if not isc and name == "const":
            name = "cst"
        return "param,%d,%s,%d,%s,%s" % (isc, hx(name), rng.random() < 0.25, g_type(rng, d), g_comment(rng))
    if form == "return":
        k = rng.choice([1, 1, 2, 3])
        items = ["%s,%d" % (g_type(rng, d), rng.random() < 0.25) for _ in range(k)]
        return "return,%d,%s,%s" % (k, ",".join(items), g_comment(rng))
    if form == "generic":
        k = rng.choice([1, 1, 2, 3])
        items = ["%s,%s" % (g_ident(rng), "_" if rng.random() < 0.5 else "p" + g_ident(rng)) for _ in range(k)]
        return "generic,%d,%s,%s" % (k, ",".join(items), g_comment(rng))
    if form == "vararg":
        return "vararg,%s,%s" % (g_type(rng, d), g_comment(rng))
    return "enum,%d,%s" % (rng.random() < 0.5, g_comment(rng, allow=rng.random() < 0.3))


def model_exe():
    return os.path.join(vlib.OCAML_BUILD, "c16_run")


def show_many(leg, specs):
    """[(spec, printer)] -> [hex text] through the printer extracted from Coq"""
    out = vlib.run_worker([model_exe(), leg], ["%s %s" % sp for sp in specs], 0.05)
    res = []
    for (sp, pr), o in zip(specs, out):
        f = o.split(" ")
        if len(f) != 2 or f[1] != "1":
            raise RuntimeError("generator produced a tree outside doc_stat/doc_type: %s -> %s" % (sp, o))
        res.append(f[0])
    return res


# ----------------------------------------------------------------------------- corruptions and garbage
TOKEN_RE = re.compile(rb"[A-Za-z0-9_][A-Za-z0-9_.]*|\.\.\.|'[^']*'|\"[^\"]*\"|\s+|.", re.S)
JUNK = [b",", b":", b"(", b")", b"[", b"]", b"|", b"<", b">", b"@", b"?", b"...", b".", b"'", b'"', b"fun", b"table",
        b"type", b"const", b"enum", b"x", b"#", b"\\", b"=", b"-", b"\xe4\xb8", b"\xff", b"\x00", b" ", b"[]", b"()", b"fun(",
        b"table<", b"alias", b"start", b"end", b"public", b"--", b"-@", b"-|", b"'x'", b'"y"']


def corrupt(rng, line):
    """single-token corruption of a comment line (bytes)"""
    head, body = line[:2], line[2:]
    toks = TOKEN_RE.findall(body)
    if not toks:
        return line + rng.choice(JUNK)
    i = rng.randrange(len(toks))
    m = rng.random()
    if m < 0.25:
        del toks[i]
    elif m < 0.4:
        toks.insert(i, toks[i])
    elif m < 0.7:
        toks[i] = rng.choice(JUNK)
    elif m < 0.85:
        toks.insert(i, rng.choice(JUNK))
    elif m < 0.93 and len(toks) > 1:
        j = rng.randrange(len(toks) - 1)
        toks[j], toks[j + 1] = toks[j + 1], toks[j]
    else:
        cut = rng.randrange(len(body) + 1)
        return head + body[:cut]
    return head + b"".join(toks)


GARBAGE_PIECES = JUNK + [b"-@type ", b"-@class ", b"-@field ", b"-@param ", b"-@return ", b"-@alias ", b"-@generic ",
                         b"-@overload ", b"-@vararg ", b"-@enum ", b"string", b"number", b"a.b", b"fun<", b"T", b"K", b"\t", b"\x0b",
                         b"\r", b"name", b"const ", b"enum ", b"private ", b"protected ", b"{", b"}", b"%", b"\xc3\xa9", b"\xf0\x9f\x98\x80",
                         # string constants at the edge of the quoting rules: empty, a single quote character of the
                         # other kind, nested quotes, unterminated
                         b"''", b'""', b"'\"'", b"\"'\"", b"'\"\"'", b"\"''\"", b"'\"r\"'", b"'\"", b"\"'", b"'''",
                         b'"""', b"'\\'"]


def garbage_line(rng):
    m = rng.random()
    if m < 0.35:
        return bytes(rng.randrange(256) for _ in range(rng.choice([0, 1, 2, 3, 5, 8, 13, 30])))
    if m < 0.5:
        return rng.choice([b"-@", b"-|", b"-", b""]) + bytes(rng.randrange(256) for _ in range(rng.choice([0, 1, 2, 4, 9, 20])))
    n = rng.choice([1, 2, 3, 4, 6, 9, 14])
    s = b"".join(rng.choice(GARBAGE_PIECES) for _ in range(n))
    if rng.random() < 0.6 and not s.startswith(b"-@"):
        s = rng.choice([b"-@type ", b"-@param x ", b"-@field f ", b"-@return ", b"-@alias A ", b"-@overload ", b"-| ", b"-@"]) + s
    return s


def clean(b):
    return b.replace(b"\n", b" ")


SIZES = {"quick": 6, "thorough": 60, "search": 2}


# ----------------------------------------------------------------------------- leg c16.line
def gen_line(rng, tier):
    k = SIZES[tier]
    n_doc, n_cor, n_gar, n_plain, n_tower = 2200 * k, 1500 * k, 700 * k, 250 * k, 60 * k
    out = []
    # every statement form at every depth 0..4 is present in every run
    specs = [(g_stat(rng, d, f), "c") for d in range(5)
             for f in ("type", "class", "field", "param", "return", "alias", "generic", "overload", "vararg", "enum")]
    specs += [(g_stat(rng), "c") for _ in range(n_doc)]
    # the plain printer (string[][] instead of (string[])[]); label nested_array when a nested array occurs
    specs += [(g_stat(rng, rng.choice([2, 3, 4]), rng.choice(["type", "field", "param", "return", "alias", "vararg"])), "p")
              for _ in range(n_plain)]
    # towers of array suffixes, both printers, in every statement form that carries a type
    for _ in range(n_tower):
        t = g_tower(rng, rng.choice([0, 0, 1, 2]))
        form = rng.choice(["type", "field", "param", "return", "alias", "vararg"])
        c = g_comment(rng)
        sp = {"type": "type,1,0,0,%s,%s" % (t, c), "field": "field,_,0,%s,%s,%s" % (hx("f"), t, c),
              "param": "param,0,%s,0,%s,%s" % (hx("p"), t, c), "return": "return,1,%s,0,%s" % (t, c),
              "alias": "alias,%s,%s,%s" % (hx("Al"), t, c), "vararg": "vararg,%s,%s" % (t, c)}[form]
        specs.append((sp, rng.choice(["p", "p", "c"])))
    # enum lines with a comment (label enum_comment)
    specs += [("enum,%d,%s" % (rng.random() < 0.5, g_comment(rng)), "c") for _ in range(20 * k)]
    lines = show_many("c16.show", specs)
    for (sp, pr), h in zip(specs, lines):
        out.append("%s %s %s" % (h, sp, pr))
    good = [bytes.fromhex(h) for h in lines]
    for _ in range(n_cor):
        out.append("%s - c" % hexs(clean(corrupt(rng, rng.choice(good)))))
    for _ in range(n_gar):
        out.append("%s - c" % hexs(clean(garbage_line(rng))))
    return out


def shrink_line(case):
    f = case.split(" ")
    for part in f[0].split(","):
        pass
    lines = [bytes.fromhex(h) if h != "-" else b"" for h in f[0].split(",")]
    for li, b in enumerate(lines):
        if len(lines) > 1:
            yield " ".join([",".join(hexs(x) for j, x in enumerate(lines) if j != li)] + (["-", "c"] if len(f) > 1 else []))
        step = max(1, len(b) // 40)
        for i in range(0, len(b), step):
            nb = b[:i] + b[i + step:]
            yield " ".join([",".join(hexs(nb if j == li else x) for j, x in enumerate(lines))] + (["-", "c"] if len(f) > 1 else []))


# ----------------------------------------------------------------------------- leg c16.fragment
def gen_fragment(rng, tier):
    k = SIZES[tier]
    n = 900 * k
    specs = [(g_stat(rng, rng.choice([0, 1, 2])), "c") for _ in range(3 * n)]
    good = [bytes.fromhex(h) for h in show_many("c16.show", specs)]
    out = []
    for _ in range(n):
        lines = []
        for _ in range(rng.choice([1, 2, 3, 3, 4, 5, 7])):
            m = rng.random()
            if m < 0.4:
                lines.append(rng.choice(good))
            elif m < 0.55:
                lines.append(clean(corrupt(rng, rng.choice(good))))
            elif m < 0.63:
                lines.append(clean(garbage_line(rng)))
            elif m < 0.7:
                lines.append(rng.choice([b"- plain comment", b"", b" text", b"-- x", b"-@", b"-@enum foo", b"-@unknown x"]))
            elif m < 0.85:
                # an alias head (with or without a type) followed by continuation lines
                name = rng.choice(NAMES).encode()
                lines.append(b"-@alias " + name + rng.choice([b"", b"", b" @cmt", b" string", b" string | number", b" ?", b" 'a'"]))
                for _ in range(rng.choice([0, 1, 2, 3])):
                    c = rng.choice([b"'x'", b"'\"r\"'", b'"w"', b"'a+'", b"''", b"'", b"x", b"", b"| 'q'", b"'\xe4\xb8\xad'"])
                    lines.append(b"-|" + rng.choice([b" ", b"", b"  "]) + c + rng.choice([b"", b" # note", b"#n", b"   #  two  ", b" @x", b" plain"]))
            else:
                # a continuation line after whatever came before (malformed line, plain comment, other statement,
                # alias two lines up): it may only reach the alias of the line directly above
                lines.append(b"-|" + rng.choice([b" 'z'", b" 'z' # c", b" zz", b"", b" '\"q\"' # quoted"]))
        out.append(",".join(hexs(x) for x in lines))
    return out


# ----------------------------------------------------------------------------- leg c16.file
def gen_file(rng, tier):
    """the fragments of c16.fragment embedded in a Lua file ("--" + line): the glue from file text to CommentLine.Str.
    Lines that would open a long comment ("--[[", "--[=[") or contain a CR are left out (they are not one short comment)."""
    out = []
    for c in gen_fragment(rng, tier)[: 400 * SIZES[tier]]:
        lines = [bytes.fromhex(h) if h != "-" else b"" for h in c.split(",")]
        lines = [x for x in lines if not x.startswith(b"[") and b"\r" not in x]
        if lines:
            out.append(",".join(hexs(x) for x in lines))
    return out


# ----------------------------------------------------------------------------- leg c16.doc
def gen_doc(rng, tier):
    """every `---@` example line of docs/manual/annotate.md (read from the repository under test) must be accepted.
    `---@filed ...` in section 3.6 is a typo of the manual (not an annotation keyword): left out, counted below."""
    out = []
    path = os.path.join(vlib.REPO, "docs", "manual", "annotate.md")
    for l in open(path, encoding="utf8", errors="replace"):
        t = l.strip()
        if t.startswith("---@") and not t.startswith("---@filed "):
            out.append(hexs(t[2:].encode("utf8")))
    if len(out) < 80:
        raise RuntimeError("docs/manual/annotate.md: only %d example lines found" % len(out))
    return out


# ----------------------------------------------------------------------------- leg c16.print
def gen_print(rng, tier):
    k = SIZES[tier]
    n = 1200 * k
    specs = []
    for _ in range(n):
        specs.append((g_type(rng, rng.choice([0, 1, 2, 2, 3, 4])), "p" if rng.random() < 0.15 else "c"))
    for _ in range(n // 20):
        specs.append((g_tower(rng, rng.choice([0, 1, 2])), rng.choice(["p", "c"])))
    texts = show_many("c16.showtype", specs)
    out = list(texts)
    for _ in range(n // 6):
        out.append(hexs(clean(corrupt(rng, b"  " + bytes.fromhex(rng.choice(texts)))[2:])))
    return out


# ----------------------------------------------------------------------------- leg c16.total (annotation part of C01)
def gen_total(rng, tier):
    k = SIZES[tier]
    n = 2500 * k
    out = []
    for _ in range(n):
        lines = [clean(garbage_line(rng)) for _ in range(rng.choice([1, 1, 2, 3]))]
        out.append(",".join(hexs(x) for x in lines))
    # long / deep lines: the fuel bound and the Go stack are exercised with nesting proportional to the length
    for d in (50, 200, 1000) if tier != "thorough" else (50, 200, 1000, 4000):
        out.append(hexs(b"-@type " + b"(" * d + b"a" + b")" * d))
        out.append(hexs(b"-@type " + b"fun(a:" * d + b"x" + b")" * d))
        out.append(hexs(b"-@type " + b"table<" * d))
        out.append(hexs(b"-@type " + b"a|" * d))
        out.append(hexs(b"-@type fun<" + b"a," * d))
    return out


# ----------------------------------------------------------------------------- leg c16.server
SRV_SETTINGS = ["on", "off", "off", "alloff", "none", "json18", "jsonwarn0"]
SRV_BAD = [b"-@param )", b"-@type (", b"-@field x", b"-@return", b"-@alias", b"-@generic", b"-@class", b"-@overload fun(",
           b"-@type table<string", b"-@param a", b"-@vararg", b"-@field public", b"-@type fun(a:", b"-@return |", b"-@type Leaf |",
           b"-@param a Leaf[", b"-@class Node :", b"-@field gamma", b"-@type 'x", b"-@alias Q |"]
SRV_VALID = {
    "T": [[b"-@type Leaf"], [b"-@type Leaf @the valid neighbour"], [b"-@type Leaf[]"], [b"-@type table<string, Leaf>"],
          [b"-@type Leaf | nil"]],
    "P": [[b"-@param a Leaf", b"-@return Leaf"], [b"-@param a Leaf @first", b"-@return Leaf @result"],
          [b"-@param a Leaf"], [b"-@return Leaf"]],
    "C": [[b"-@class Node", b"-@field gamma number"], [b"-@class Node : Leaf", b"-@field gamma number", b"-@field delta Leaf"],
          [b"-@class Node : Leaf"]],
}


def srv_ok_line(b):
    if b.startswith(b"[") or b"\r" in b or b"\n" in b or b"\x00" in b:
        return False
    try:
        b.decode("utf8")
    except UnicodeDecodeError:
        return False
    return True


def gen_server(rng, tier):
    """a comment block with valid annotation lines and 1..2 malformed ones at every position, under every setting that
    shows / hides the annotation warnings; the real server must answer hover / completion on the declared names as it
    does when the malformed lines are plain remarks"""
    n = {"quick": 500, "thorough": 6000, "search": 300}[tier]
    specs = [(g_stat(rng, rng.choice([0, 1, 2])), "c") for _ in range(n)]
    good = [bytes.fromhex(h) for h in show_many("c16.show", specs)]
    out = []
    # the fixed shapes: every setting, every kind, malformed line first / in the middle / last
    for st in ["on", "off", "alloff", "none", "json18", "jsonwarn0"]:
        for kind in "TPC":
            v = SRV_VALID[kind][0]
            for pos in range(len(v) + 1):
                lines = v[:pos] + [b"-@param )"] + v[pos:]
                out.append("%s %s %s" % (st, kind, ",".join(hexs(x) for x in lines)))
    for _ in range(n):
        kind = rng.choice("TTPC")
        lines = list(rng.choice(SRV_VALID[kind]))
        if rng.random() < 0.3:
            lines.insert(rng.randrange(len(lines) + 1), rng.choice([b" plain remark", b"- text", b"-@unknown x"]))
        if rng.random() < 0.25:
            g = rng.choice(good)
            # a documented line of any form as one more neighbour (not one that re-types the declaration)
            if srv_ok_line(g) and not g.startswith((b"-@type", b"-@param", b"-@return", b"-@class", b"-@field", b"-@alias", b"-@enum")):
                lines.insert(rng.randrange(len(lines) + 1), g)
        for _ in range(rng.choice([1, 1, 1, 2])):
            m = rng.random()
            if m < 0.55:
                bad = rng.choice(SRV_BAD)
            elif m < 0.85:
                bad = clean(corrupt(rng, rng.choice(lines + [rng.choice(good)])))
            else:
                bad = clean(garbage_line(rng))
            if not srv_ok_line(bad) or bad.startswith(b"-|"):
                bad = rng.choice(SRV_BAD)
            lines.insert(rng.randrange(len(lines) + 1), bad)
        out.append("%s %s %s" % (rng.choice(SRV_SETTINGS), kind, ",".join(hexs(x) for x in lines)))
    return out


def shrink_server(case):
    st, kind, ls = case.split(" ")
    hs = ls.split(",")
    for i in range(len(hs)):
        if len(hs) > 1:
            yield "%s %s %s" % (st, kind, ",".join(hs[:i] + hs[i + 1:]))
    for s2 in ("off", "none"):
        if st not in ("on", s2):
            yield "%s %s %s" % (s2, kind, ls)


def nontriv_line(c):
    f = c.split(" ")
    return len(f[0]) > 16


LEGS = [
    Leg("c16.line", gen_line, shrink=shrink_line, nontrivial=nontriv_line,
        describe=lambda c: (bytes.fromhex(c.split(" ")[0].split(",")[0]).decode("utf8", "replace") if c.split(" ")[0] != "-" else "")[:160]),
    Leg("c16.doc", gen_doc, nontrivial=lambda c: True,
        describe=lambda c: bytes.fromhex(c).decode("utf8", "replace")[:160]),
    Leg("c16.fragment", gen_fragment, shrink=shrink_line, nontrivial=lambda c: "," in c),
    Leg("c16.file", gen_file, shrink=shrink_line, nontrivial=lambda c: "," in c),
    Leg("c16.print", gen_print, shrink=shrink_line, nontrivial=lambda c: len(c) > 12),
    Leg("c16.total", gen_total, shrink=shrink_line, nontrivial=lambda c: len(c) > 8),
    # the real server: a malformed line does not disturb the valid lines of its block, whether the annotation warnings
    # are shown or not (implementation against itself with the malformed lines turned into remarks; the model column is
    # the constant "=")
    Leg("c16.server", gen_server, shrink=shrink_server, per_case_s=3.0, py_spec=lambda c: "=",
        canon_impl=lambda o: "=" if o == "= nomalformed" else o, nontrivial=lambda c: True,
        describe=lambda c: " ".join(c.split(" ")[:2]) + " " + " / ".join(
            "--" + bytes.fromhex(h).decode("utf8", "replace") for h in c.split(" ")[2].split(",") if h != "-")),
]

TRUSTED = vlib.TRUSTED_COMMON + [
    "modelled, tied by correspondence: annotatelexer (NextTokenStruct, scanIdentifier, scanShortString, look-ahead), "
    "annotateparser (ParseCommentFragment, ParserLine, all statement and type parsers), annotateast.TypeConvertStr",
    "tied by the translator: token kinds and keyword table of annotatelexer/annotate_token.go (coq/Tie/TieAnn.v)",
    "erased in the model: token columns and AST Loc fields (error line and error columns are kept)",
    "the spec is docs/manual/annotate.md + the grammar comments of annotate_parser_state.go, formalised in coq/Spec/AnnGrammar.v",
]


def main(tier, seed):
    return vlib.standard_main("C16", LEGS, tier, seed, ties=("TieAnn",), trusted=TRUSTED,
                              coq_targets=["Proofs/AnnTotal.vo"],
                              assumptions=["Go stack depth is not modelled: nesting depth is bounded by the line length "
                                           "(C01 partial (a)); the deep-nesting cases of c16.total run to 1000 (quick) / 4000 (thorough) levels",
                                           "type-18 diagnostics and the hover / completion glue after ParseCommentFragment have no model: leg c16.server compares "
                                           "the real server with itself (malformed lines turned into remarks) under the settings on / off / alloff / none / "
                                           "luahelper.json"])
