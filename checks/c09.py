# C09 - results are a function of workspace and configuration, not of scheduling (DESIGN 5, C09)
import os
import vlib
from vlib import Leg, hexs
from c18 import Runner18, hx, gen_tree, DIRS, BASES, subset_canon

NAMES = ["g", "h", "k", "init", "M"]
FILES = ["a.lua", "b.lua", "c.lua", "d/e.lua", "d/a.lua", "z.lua"]


# ----------------------------------------------------------------------------- c09.merge / c09.genmaps
def rand_var(rng):
    return (rng.choice([0, 0, 0, 0, 1, 2]), rng.choice([0, 0, 0, 1, 2]), rng.randrange(1, 7))


def gen_items(rng, mode):
    """-> dict file -> dict name -> (funclv, scopelv, line)"""
    files = rng.sample(FILES, rng.randrange(1, 6))
    ws = {f: {} for f in files}
    if mode == "single":
        for n in rng.sample(NAMES, rng.randrange(1, len(NAMES) + 1)):
            ws[rng.choice(files)][n] = rand_var(rng)
    elif mode == "least":
        for n in rng.sample(NAMES, rng.randrange(1, len(NAMES))):
            owners = rng.sample(files, rng.randrange(1, len(files) + 1))
            vs = [rand_var(rng) for _ in owners]
            # make the first owner beat all others: not deeper, strictly earlier line
            lo = (min(v[0] for v in vs), min(v[1] for v in vs), min(v[2] for v in vs))
            vs = [(v[0], v[1], v[2] + 1) for v in vs]
            vs[0] = lo
            for o, v in zip(owners, vs):
                ws[o][n] = v
    else:
        for n in rng.sample(NAMES, rng.randrange(1, len(NAMES))):
            for o in rng.sample(files, rng.randrange(1, len(files) + 1)):
                ws[o][n] = rand_var(rng)
    return ws


def items_line(rng, ws):
    files = list(ws)
    rng.shuffle(files)
    its = []
    for f in files:
        ns = list(ws[f])
        rng.shuffle(ns)
        for n in ns:
            v = ws[f][n]
            its.append("%s:%s:%d:%d:%d" % (hx(n), hx("/ws/" + f), v[0], v[1], v[2]))
    return ",".join(its) if its else "-"


def gen_merge(rng, tier, n_quick=8000):
    n = {"quick": n_quick, "thorough": n_quick * 40, "search": n_quick}[tier]
    out = []
    for _ in range(n):
        mode = rng.choice(["single", "single", "least", "least", "any", "any"])
        ws = gen_items(rng, mode)
        qs = ",".join(hx(x) for x in NAMES + ["nope"])
        out.append(qs + " " + items_line(rng, ws))
    return out


def shrink_items(case):
    qs, its = case.split(" ")[:2]
    il = its.split(",")
    for i in range(len(il)):
        r = il[:i] + il[i + 1:]
        if r:
            yield qs + " " + ",".join(r)


def merge_nontrivial(c):
    its = c.split(" ")[1].split(",")
    names = [i.split(":")[0] for i in its]
    return len(names) != len(set(names))       # some name has several owners


def merge_describe(c):
    try:
        dec = lambda h: bytes.fromhex(h).decode("latin1")
        return " ".join("%s@%s(f%s,s%s,l%s)" % ((dec(p[0]), dec(p[1])) + tuple(p[2:])) for p in
                        (i.split(":") for i in c.split(" ")[1].split(",")))
    except Exception:
        return c[:200]


# ----------------------------------------------------------------------------- c09.bestmatch
def gen_bestmatch(rng, tier):
    n = {"quick": 8000, "thorough": 200000, "search": 2000}[tier]
    out = []
    while len(out) < n:
        files = [f for f, k in gen_tree(rng, rng.random() < 0.1).items() if k in "LX"]
        if not files:
            continue
        # push towards several candidates with the same base name
        base = rng.choice(files).split("/")[-1]
        for _ in range(rng.randrange(0, 4)):
            g = rng.choice(DIRS) + "/" + base
            if g not in files and not any(o.startswith(g + "/") or g.startswith(o + "/") for o in files):
                files.append(g)
        f = rng.choice(files)
        stem = f[:-4] if f.endswith(".lua") else f.split(".")[0]
        comps = stem.split("/")
        tail = comps[rng.randrange(0, len(comps)):]
        x = rng.random()
        if x < 0.5:
            refer = "/".join(tail)
        elif x < 0.8:
            refer = "/".join(tail) + ".lua"
        elif x < 0.9:
            refer = "/".join(tail[:-1] + ["init.lua"])
        else:
            refer = rng.choice(BASES)
        cur = rng.choice(files) if rng.random() < 0.8 else rng.choice(DIRS) + "/cur.lua"
        rng.shuffle(files)
        out.append("%s %s %s" % (hx("/ws/" + cur), hx(refer), ",".join(hx("/ws/" + g) for g in files)))
    return out


def shrink_bestmatch(case):
    cur, refer, fs = case.split(" ")[:3]
    fl = fs.split(",")
    for i in range(len(fl)):
        r = fl[:i] + fl[i + 1:]
        if r:
            yield "%s %s %s" % (cur, refer, ",".join(r))


def bm_describe(c):
    try:
        dec = lambda h: bytes.fromhex(h).decode("latin1")
        f = c.split(" ")
        return "cur=%s refer=%s files=[%s]" % (dec(f[0]), dec(f[1]), " ".join(dec(x) for x in f[2].split(",")))
    except Exception:
        return c[:200]


# ----------------------------------------------------------------------------- c09.project
_case_no = [0]
FUNCS = ["g", "h", "k"]


def gen_project(rng, tier):
    n = {"quick": 300, "thorough": 6000, "search": 60}[tier]
    nruns = {"quick": 9, "thorough": 12, "search": 6}[tier]
    out = []
    for _ in range(n):
        _case_no[0] += 1
        root = "/tmp/lhv09/p%x-%d/ws" % (rng.getrandbits(40), _case_no[0])
        mode = rng.choice(["single", "single", "least", "least", "tie", "tie", "tie"])
        files = rng.sample(["a.lua", "b.lua", "c.lua", "lib/d.lua", "lib/e.lua"], rng.randrange(2, 6))
        defs = {f: {} for f in files}       # file -> name -> (line, arity)
        for name in rng.sample(FUNCS, rng.randrange(1, len(FUNCS) + 1)):
            if mode == "single":
                owners = [rng.choice(files)]
            else:
                owners = rng.sample(files, rng.randrange(2, len(files) + 1)) if len(files) >= 2 else files
            lines = rng.sample(range(1, 9), len(owners))
            if mode == "tie" and len(owners) >= 2:
                lines[1] = lines[0] = min(lines)
            for k, (o, ln) in enumerate(zip(owners, lines)):
                # arities differ between the owners: which definition wins shows in the type-10 diagnostics
                defs[o][name] = (ln, (k + rng.randrange(0, 2)) % 4)
        srcs = {}
        items = []
        for f in files:
            body = {}
            for name, (ln, ar) in defs[f].items():
                while ln in body:               # one definition per line
                    ln += 1
                body[ln] = "function %s(%s) end" % (name, ", ".join("p%d" % i for i in range(ar)))
                sl = 0
                if mode == "tie" and rng.random() < 0.25:
                    # the second kind of tie: deeper scope but earlier line against top level and later line
                    body[ln] = "do " + body[ln] + " end"
                    sl = 1
                defs[f][name] = (ln, ar)
                items.append("%s:%s:0:%d:%d" % (hx(name), hx(root + "/" + f), sl, ln))
            last = max(body) if body else 0
            # callers: every file calls some of the functions with some argument count
            calls = []
            for name in rng.sample(FUNCS, rng.randrange(0, len(FUNCS) + 1)):
                calls.append("%s(%s)" % (name, ", ".join(str(i) for i in range(rng.randrange(0, 4)))))
            # other statements that produce diagnostics but define no global (one line each)
            extra = []
            for _ in range(rng.randrange(0, 5)):
                k = rng.randrange(7)
                u = rng.randrange(100)
                if k == 0:
                    extra.append("local u%d = %d" % (u, u))                       # unused local
                elif k == 1:
                    extra.append("print(zz%d)" % u)                               # undefined global
                elif k == 2:
                    other = rng.choice(files)
                    extra.append('local m%d = require("%s") print(m%d)' % (u, other[:-4].replace("/", "."), u))
                elif k == 3:
                    extra.append('local n%d = require("nope%d") print(n%d)' % (u, u, u))   # type 6
                elif k == 4:
                    extra.append("local t%d = {} t%d.x = 1 print(t%d.y)" % (u, u, u))
                elif k == 5:
                    extra.append("local function lf%d(a, a) return a end print(lf%d(1, 2, 3))" % (u, u))
                else:
                    extra.append("if %s then print(1) end" % rng.choice(FUNCS))
            lines = []
            for ln in range(1, last + 1):
                lines.append(body.get(ln, "-- " + f))
            lines += calls + extra
            srcs[f] = "\n".join(lines) + "\n"
        # members added to a global table from several files (second loop of generateAllGlobalMaps: the first file
        # visited that mentions T.x decides which definition T.x has)
        if rng.random() < 0.35:
            tn = rng.choice(["T", "Cfg"])
            owner = rng.choice(files)
            srcs[owner] += "%s = {}\n" % tn
            users = rng.sample(files, rng.randrange(1, len(files) + 1))
            for k, u in enumerate(users):
                srcs[u] += "%s.x = function(%s) end\n" % (tn, ", ".join("q%d" % i for i in range((k + rng.randrange(0, 2)) % 4)))
            srcs[rng.choice(files)] += "%s.x(%s)\n" % (tn, ", ".join(str(i) for i in range(rng.randrange(0, 4))))
        # equally scored module candidates: the same base name in several directories, required from elsewhere
        if rng.random() < 0.35:
            base = rng.choice(["m", "util"])
            dirs = rng.sample(["lib", "src", "x/y", "z"], rng.randrange(2, 4))
            for k, d in enumerate(dirs):
                srcs["%s/%s.lua" % (d, base)] = ("local M = {}\nfunction M.f%d(%s) end\nM.common = %d\nreturn M\n"
                                                 % (k, ", ".join("r%d" % i for i in range(k)), k))
            user = rng.choice(["", "lib/", "q/", "x/"]) + "use_%s.lua" % base
            srcs[user] = ('local mm = require("%s")\nprint(mm.f0, mm.f1, mm.common)\nmm.f0(1, 2, 3)\nmm.f1(1, 2, 3)\n'
                          % base)
        allf = list(srcs)
        rng.shuffle(allf)
        fl = ",".join(hx(f) + ":" + hx(srcs[f]) for f in allf)
        out.append("%s %d %s %s" % (hx(root), nruns, fl, ",".join(items) if items else "-"))
    return out


def project_describe(c):
    try:
        dec = lambda h: bytes.fromhex(h).decode("latin1")
        f = c.split(" ")
        return " || ".join(dec(x.split(":")[0]) + ": " + dec(x.split(":")[1]).replace("\n", " / ") for x in f[2].split(","))[:600]
    except Exception:
        return c[:200]


# ----------------------------------------------------------------------------- c09.srvrep
CLASSES = ["A", "Shape", "Cfg"]
FTYPES = ["number", "string", "boolean", "table", "fun(a: number): string"]


def gen_srvrep(rng, tier):
    """scripted sessions of the REAL server (fresh process per run): annotation classes (sometimes the same class
    name in several files = feature dupclass), same-named globals with ties, equally scored module candidates;
    hover / definition / references / symbols / diagnostics must be the same in every run"""
    n = {"quick": 120, "thorough": 2500, "search": 40}[tier]
    nreps = {"quick": 6, "thorough": 8, "search": 6}[tier]
    out = []
    for _ in range(n):
        pool = ["a.lua", "b.lua", "lib/c.lua", "lib/d.lua", "z/e.lua"]
        files = rng.sample(pool, rng.randrange(2, 5))
        srcs = {f: [] for f in files}
        dup = rng.random() < 0.3
        used = rng.sample(CLASSES, rng.randrange(1, 3))
        for cn in used:
            owners = rng.sample(files, rng.randrange(2, len(files) + 1)) if dup else [rng.choice(files)]
            for k, o in enumerate(owners):
                srcs[o] += ["---@class %s" % cn, "---@field x %s" % FTYPES[(k + rng.randrange(0, 2)) % len(FTYPES)],
                            "---@field y%d string" % k, "local %s%d = {}" % (cn, k)]
        # same-named globals (ties are decided by the file name since fixes/C09-deterministic-order.diff)
        gname = rng.choice(["g", "h"])
        for k, o in enumerate(rng.sample(files, rng.randrange(1, len(files) + 1))):
            srcs[o].append("function %s(%s) end" % (gname, ", ".join("p%d" % i for i in range((k + rng.randrange(0, 2)) % 3))))
        # equally scored module candidates
        mods = rng.random() < 0.4
        if mods:
            for k, d in enumerate(rng.sample(["m1", "m2", "m3"], 2)):
                srcs["%s/mod.lua" % d] = ["local M = {}", "function M.f%d(%s) end" % (k, ", ".join("r%d" % i for i in range(k))),
                                          "return M"]
        # members added to a global table from several files (second loop of generateAllGlobalMaps)
        memb = rng.random() < 0.4
        if memb:
            srcs[rng.choice(files)].append("T = {}")
            for k, o in enumerate(rng.sample(files, rng.randrange(2, len(files) + 1))):
                srcs[o].append("T.x = function(%s) end" % ", ".join("q%d" % i for i in range((k + rng.randrange(0, 2)) % 4)))
        # the querying file
        u = []
        steps = []
        for cn in used:
            u += ["---@type %s" % cn, "local v%s" % cn, "print(v%s.x)" % cn]
        u.append("%s(1, 2, 3)" % gname)
        if memb:
            u.append("T.x(1, 2)")
        if mods:
            u += ['local mm = require("mod")', "print(mm.f0, mm.f1)"]
        srcs["q/use.lua"] = u
        names = list(srcs)
        rng.shuffle(names)
        ui = names.index("q/use.lua")
        steps.append("S:open:%d" % ui)
        for ln, text in enumerate(u):
            if text.startswith("print(v"):
                col = text.index(".x") + 1
                steps += ["S:hover:%d:%d:%d" % (ui, ln, col), "S:define:%d:%d:%d" % (ui, ln, col),
                          "S:hover:%d:%d:%d" % (ui, ln, 6)]
            elif text.startswith("T.x("):
                steps += ["S:hover:%d:%d:2" % (ui, ln), "S:define:%d:%d:2" % (ui, ln)]
            elif text.startswith(gname + "("):
                steps += ["S:hover:%d:%d:0" % (ui, ln), "S:define:%d:%d:0" % (ui, ln), "S:refs:%d:%d:0" % (ui, ln)]
            elif text.startswith("local mm"):
                steps += ["S:define:%d:%d:%d" % (ui, ln, text.index('"mod') + 2), "S:hover:%d:%d:6" % (ui, ln)]
            elif text.startswith("print(mm"):
                steps += ["S:hover:%d:%d:9" % (ui, ln), "S:define:%d:%d:9" % (ui, ln)]
        steps += ["S:docsym:%d" % ui, "S:diags"]
        script = " ".join("F:%s:%s" % (hx(f), hx("\n".join(srcs[f]) + "\n")) for f in names) + " " + " ".join(steps)
        out.append("%d %s %s" % (nreps, "dupclass" if dup else "-", script))
    return out


def srvrep_describe(c):
    try:
        dec = lambda h: bytes.fromhex(h).decode("latin1")
        f = c.split(" ")
        fs = [x.split(":") for x in f[2:] if x.startswith("F:")]
        return ("%s | " % f[1]) + " || ".join(dec(x[1]) + ": " + dec(x[2]).replace("\n", " / ") for x in fs)[:700]
    except Exception:
        return c[:200]


# ----------------------------------------------------------------------------- c09.projtable / project-mode sessions
PFUNCS = ["foo", "bar", "baz"]
PFILES = ["a.lua", "b.lua", "c.lua", "lib/d.lua", "lib/e.lua", "x.lua", "z/y.lua"]


def _closure(entry, refs):
    seen, todo = [], [entry]
    while todo:
        f = todo.pop()
        if f in seen:
            continue
        seen.append(f)
        todo += [t for _, t in refs[f]]
    return seen


def gen_project_session(rng):
    """a project-mode workspace (luahelper.json with ProjectFiles): entry files, a require DAG, `_G.name = ...` and
    plain definitions of the same names in several files, members added to a global table from several files.
    -> (entries, files, struct, queries, srcs) or None when no query can be asked"""
    others = rng.sample(PFILES, rng.randrange(2, 7))
    two = rng.random() < 0.3
    entries = ["main.lua"] + (["m2.lua"] if two else [])
    files = entries + others
    refs = {f: [] for f in files}
    # a DAG: a file refers only to files later in `files` (entries first); entries refer to several files
    for i, f in enumerate(files):
        later = [g for g in files[i + 1:] if g not in entries]
        if not later:
            continue
        k = rng.randrange(2, 4) if f in entries else rng.choice([0, 0, 1, 1, 2])
        for t in rng.sample(later, min(k, len(later))):
            refs[f].append(("r" if rng.random() < 0.85 else "d", t))
    if two and rng.random() < 0.6:
        # equally large projects sharing a file: the tie of findMaxSecondProject
        shared = rng.choice(others)
        rest = [o for o in others if o != shared]
        rng.shuffle(rest)
        h = len(rest) // 2
        for f in files:
            refs[f] = []
        refs["main.lua"] = [("r", shared)] + [("r", t) for t in rest[:h]]
        refs["m2.lua"] = [("r", shared)] + [("r", t) for t in rest[h:2 * h]]
    gdefs = {f: {} for f in files}      # name -> form
    for name in rng.sample(PFUNCS, rng.randrange(1, len(PFUNCS) + 1)):
        owners = rng.sample(others, rng.randrange(1, min(4, len(others)) + 1))
        for o in owners:
            gdefs[o][name] = rng.choice(["G", "G", "G", "P", "P", "Q"])
    # a global table defined once, members added by files that do not define it
    tdef = None
    adders = []
    # (single-entry projects only: the model covers one project; with several projects the members land in the SHARED first-pass VarInfo of the table
    # (finding C09-project-shared-members, fixed by ebeeeaa: guarded by the repetition leg, corpus case `project,sharedmembers`))
    if rng.random() < 0.5 and len(others) >= 3 and not two:
        tdef = rng.choice(others)
        adders = rng.sample([o for o in others if o != tdef], rng.randrange(2, min(4, len(others))))
    srcs, struct, lineof = {}, {}, {}
    for f in files:
        lines, gi, pi, mi = [], [], [], []
        for kind, t in refs[f]:
            lines.append('require("%s")' % t[:-4].replace("/", ".") if kind == "r" else 'dofile("%s")' % t)
        for name, form in gdefs[f].items():
            ps = ", ".join("p%d" % i for i in range(rng.randrange(0, 4)))
            ln = len(lines) + 1
            if form == "G":
                lines.append("_G.%s = function(%s) end" % (name, ps))
                gi.append("%s:%d:3" % (hx(name), ln))
            elif form == "P":
                lines.append("function %s(%s) end" % (name, ps))
                pi.append("%s:%d:9" % (hx(name), ln))
            else:
                lines.append("%s = function(%s) end" % (name, ps))
                pi.append("%s:%d:0" % (hx(name), ln))
        if f == tdef:
            ln = len(lines) + 1
            if rng.random() < 0.5:
                lines.append("_G.T = {}")
                gi.append("%s:%d:3" % (hx("T"), ln))
            else:
                lines.append("T = {}")
                pi.append("%s:%d:0" % (hx("T"), ln))
        if f in adders:
            for m in rng.sample(["x", "y"], rng.randrange(1, 3)):
                ln = len(lines) + 1
                lines.append("T.%s = function(%s) end" % (m, ", ".join("q%d" % i for i in range(rng.randrange(0, 3)))))
                mi.append("%s:%d:2" % (hx("T." + m), ln))
        srcs[f] = lines
        struct[f] = (gi, pi, mi)
    # what can be asked: per entry the closure; a name is answerable from a project file that does not define it when the
    # project's table has it (a `_G.` definition in a project file, or a plain one in a file some project file refers to)
    clos = {e: _closure(e, refs) for e in entries}
    queries = []
    for qf in files:
        projs = [e for e in entries if qf in clos[e]]
        if not projs:
            continue
        best = max(len(clos[e]) for e in projs)
        cand = [e for e in projs if len(clos[e]) == best]
        tables = []
        for e in cand:
            pf = clos[e]
            referred = {t for g in pf for _, t in refs[g]}
            names = {n for g in pf for n, form in gdefs[g].items() if form == "G"} | \
                    {n for g in referred for n, form in gdefs[g].items() if form != "G"}
            tin = tdef is not None and tdef in pf and (any(x.startswith(hx("T") + ":") for x in struct[tdef][0]) or tdef in referred)
            mem = set()
            if tin:
                for g in pf:
                    if g in adders:
                        mem |= {bytes.fromhex(x.split(":")[0]).decode() for x in struct[g][2]}
            tables.append((names, mem))
        names = set.intersection(*[t[0] for t in tables])
        mem = set.intersection(*[t[1] for t in tables])
        for n in sorted(names):
            if n in gdefs[qf] or rng.random() < 0.5:
                continue
            queries.append(("g", qf, n, None, rng.random() < 0.6))
        if qf != tdef and qf not in adders:
            for m in sorted(mem):
                if rng.random() < 0.5:
                    queries.append(("m", qf, "T", m.split(".")[1], False))
    if not queries:
        return None
    rng.shuffle(queries)
    queries = queries[:4]
    steps, qspec = [], []
    names_order = ["luahelper.json"] + files
    for kind, qf, n, m, gform in queries:
        ln = len(srcs[qf])
        fi = names_order.index(qf)
        if kind == "g":
            srcs[qf].append(("_G.%s(1, 2)" if gform else "%s(1, 2)") % n)
            steps.append((fi, ln, 3 if gform else 0))
            qspec.append("g:%d:%s" % (files.index(qf), hx(n)))
        else:
            srcs[qf].append("T.%s(1)" % m)
            steps.append((fi, ln, 2))
            qspec.append("m:%d:%s" % (files.index(qf), hx("T." + m)))
    recs = []
    for f in files:
        gi, pi, mi = struct[f]
        rf = ",".join("%s%d" % (k, files.index(t)) for k, t in refs[f])
        recs.append("/".join([hx(f), ",".join(gi) or "-", ",".join(pi) or "-", rf or "-", ",".join(mi) or "-"]))
    cfg = '{"ProjectFiles":[%s]}\n' % ",".join('"%s"' % e for e in entries)
    fl = [("luahelper.json", cfg)] + [(f, "\n".join(srcs[f]) + "\n") for f in files]
    return (",".join(str(files.index(e)) for e in entries), ";".join(recs), ",".join(qspec), fl, steps)


def gen_projtable(rng, tier):
    """the first-phase _G table of a project through the REAL server (fresh process per run): go-to-definition on
    names several project files define; the answers over the runs must be the singleton the model computes
    (project_merge_ws / member_provider / pick_project with fx = true)"""
    n = {"quick": 160, "thorough": 4000, "search": 60}[tier]
    nreps = {"quick": 6, "thorough": 8, "search": 6}[tier]
    out = []
    while len(out) < n:
        g = gen_project_session(rng)
        if g is None:
            continue
        entries, recs, qspec, fl, steps = g
        opened = sorted({fi for fi, _, _ in steps})
        script = " ".join("F:%s:%s" % (hx(f), hx(c)) for f, c in fl) + " " + " ".join("S:open:%d" % fi for fi in opened) \
                 + " " + " ".join("S:define:%d:%d:%d" % st for st in steps)
        out.append("%d %s %s %s %s" % (nreps, entries, recs, qspec, script))
    return out


def projtable_describe(c):
    try:
        dec = lambda h: bytes.fromhex(h).decode("latin1")
        f = c.split(" ")
        fs = [x.split(":") for x in f[4:] if x.startswith("F:")]
        return " || ".join(dec(x[1]) + ": " + dec(x[2]).replace("\n", " / ") for x in fs)[:900]
    except Exception:
        return c[:200]


def gen_srvrep_project(rng, tier):
    """project-mode sessions for c09.srvrep: the same workspaces, every kind of answer (hover, definition, references,
    outline, diagnostics) must be the same in every fresh start"""
    n = {"quick": 40, "thorough": 800, "search": 20}[tier]
    nreps = {"quick": 6, "thorough": 8, "search": 6}[tier]
    out = []
    while len(out) < n:
        g = gen_project_session(rng)
        if g is None:
            continue
        _, _, _, fl, steps = g
        opened = sorted({fi for fi, _, _ in steps})
        st = ["S:open:%d" % fi for fi in opened]
        for fi, ln, col in steps:
            st += ["S:define:%d:%d:%d" % (fi, ln, col), "S:hover:%d:%d:%d" % (fi, ln, col), "S:refs:%d:%d:%d" % (fi, ln, col)]
        st += ["S:docsym:%d" % fi for fi in opened] + ["S:diags"]
        out.append("%d project %s %s" % (nreps, " ".join("F:%s:%s" % (hx(f), hx(c)) for f, c in fl), " ".join(st)))
    return out


def gen_srvrep_manysyms(rng, tier):
    """workspace/symbol on a workspace of several files with MORE than 200 collected symbols (globals and members of
    varying name lengths, a few of which match the query): non-empty queries, each asked several times of the same
    server and of fresh servers; below 200 matches the answer is all the matches plus the first non-matching names
    in name order (8de61ad), a function of the workspace - whatever the worker goroutines that score the files
    concurrently do (seeded/C09-4: one fuzzy Matcher shared by all workers)"""
    n = {"quick": 3, "thorough": 40, "search": 2}[tier]
    nreps = {"quick": 5, "thorough": 6, "search": 4}[tier]
    out = []
    for _ in range(n):
        nfiles = rng.randrange(10, 25)
        tag = rng.choice(["zq", "kx", "qv"])
        files = []
        for f in range(nfiles):
            lines = []
            for i in range(rng.randrange(30, 70)):
                w = rng.randrange(1, 28)
                name = "".join(rng.choice("abcdefghilmnoprstu_") for _ in range(w)) + "_%d_%d" % (f, i)
                name = "p" + name
                x = rng.random()
                if x < 0.08:
                    lines.append("%sTarget%s_%d_%d = %d" % (tag, "x" * rng.randrange(0, 20), f, i, i))
                elif x < 0.75:
                    lines.append("%s = %d" % (name, i))
                elif x < 0.9:
                    lines.append("function %s(a, b) end" % name)
                else:
                    lines.append("%s = { m%s = 1, %s%s = 2 }" % (name, "e" * rng.randrange(1, 12), tag, "f" * rng.randrange(1, 9)))
            files.append(("mod_%02d.lua" % f if rng.random() < 0.8 else "lib/mod_%02d.lua" % f, "\n".join(lines) + "\n"))
        qs = [tag + "Target", tag, tag + "T", "p" + rng.choice("abcde"), tag + "Target"]
        steps = ["S:open:0"] + ["S:wssym:%s" % hx(q) for q in qs for _ in range(3)]
        out.append("%d manysyms %s %s" % (nreps, " ".join("F:%s:%s" % (hx(f), hx(c)) for f, c in files), " ".join(steps)))
    return out

def gen_srvrep_bigtable(rng, tier):
    """hover and completion detail of a variable bound to a table with MORE members than are displayed
    (PreviewFieldsNum = 30 shown, the rest folded into `...(+N)`): 33..60 members whose values are of different kinds
    (numbers, strings, booleans, tables, functions, other variables, calls), trailing comments, members added by later
    assignments and from another file, and a `---@class` with more than 32 fields; the same hover asked several times
    of the same server and of fresh servers; which fields are shown and the type / value / comment shown for each is
    a function of the workspace (seeded/C09-5 resolved only the first 31 members in map order)"""
    n = {"quick": 8, "thorough": 200, "search": 4}[tier]
    nreps = {"quick": 5, "thorough": 8, "search": 4}[tier]
    out = []
    for _ in range(n):
        nm = rng.randrange(33, 61)
        stem = rng.choice(["field", "k", "opt_", "m"])
        names = ["%s%02d" % (stem, i) for i in range(nm)]
        if rng.random() < 0.5:
            names = ["".join(rng.choice("abcdefghijklmnopqrstuvwxyz") for _ in range(rng.randrange(1, 9))) + "%d" % i for i in range(nm)]
        rng.shuffle(names)

        def value(i):
            k = rng.randrange(9)
            return [str(i), "%d.5" % i, '"s%d"' % i, rng.choice(["true", "false"]), "{ x = %d }" % i, "{}", "function(a, b) return a end",
                    "other", "gfun(%d)" % i][k]
        in_ctor = rng.randrange(0, nm + 1) if rng.random() < 0.4 else nm
        u = ["local other = 7", "local big = {"]
        for i, nme in enumerate(names[:in_ctor]):
            u.append("\t%s = %s,%s" % (nme, value(i), rng.choice(["", " -- note%02d" % i, " --- doc %d" % i, " -- %s" % ("x" * rng.randrange(1, 30))])))
        u.append("}")
        lib = ["function gfun(a) return a end"]
        for i, nme in enumerate(names[in_ctor:]):
            j = in_ctor + i
            u.append("big.%s = %s%s" % (nme, value(j), rng.choice(["", " -- late%02d" % j])))
        glob = rng.random() < 0.5
        if glob:                                       # a global table, members added by the other file too
            u[1] = "big = {"
            for i in range(rng.randrange(1, 6)):
                lib.append("big.libm%d = %s -- from lib" % (i, value(i)))
        hov = []
        u.append("print(big)")
        hov.append((len(u) - 1, 7))
        u.append("local alias = big")
        hov.append((len(u) - 1, 7))
        u.append("print(big.)")
        comp = (len(u) - 1, 10)
        u.append("print(bi)")
        comp2 = (len(u) - 1, 8)
        # a class with more fields than are displayed
        nf = rng.randrange(33, 50)
        cl = ["---@class BigC"] + ["---@field f%02d %s%s" % (i, rng.choice(FTYPES), rng.choice(["", " @c%d" % i])) for i in range(nf)] + ["local BigC = {}"]
        if rng.random() < 0.5:
            cl += ["function BigC:m%d() end" % i for i in range(rng.randrange(1, 5))]
        cfile = rng.choice(["q/use.lua", "lib/cls.lua"])
        u += ["---@type BigC", "local vc", "print(vc)"]
        hov.append((len(u) - 1, 7))
        hov.append((len(u) - 2, 6))
        srcs = {"q/use.lua": u, "lib/l.lua": lib}
        if cfile == "q/use.lua":
            srcs["q/use.lua"] = cl + u
            off = len(cl)
        else:
            srcs[cfile] = cl
            off = 0
        fl = list(srcs)
        rng.shuffle(fl)
        ui = fl.index("q/use.lua")
        steps = ["S:open:%d" % ui]
        for rep in range(3):
            for ln, col in hov:
                steps.append("S:hover:%d:%d:%d" % (ui, ln + off, col))
        steps += ["S:resolve:%d:%d:%d:%s" % (ui, comp2[0] + off, comp2[1], hx("big")), "S:complete:%d:%d:%d" % (ui, comp[0] + off, comp[1]),
                  "S:resolve:%d:%d:%d:%s" % (ui, comp2[0] + off, comp2[1], hx("big")), "S:diags"]
        out.append("%d bigtable %s %s" % (nreps, " ".join("F:%s:%s" % (hx(f), hx("\n".join(srcs[f]) + "\n")) for f in fl), " ".join(steps)))
    return out


# the repair fixes/C09-param-default-race.diff is in /repo: the leg c09.paramdefault decides (until then the deviations it
# sees on the unrepaired code - about one fresh start in twenty - are recorded in the evidence only)
PARAM_DEFAULT_FIXED = True


def gen_paramdefault(rng, tier):
    """project mode with several entry files that all call the SAME functions with fewer arguments than parameters: whether
    that is reported (type 10, "call func param num(0) < func define param num(3)") depends on the `---@param x? T`
    annotations of the function, looked up lazily at the first such call and memoised on the FuncInfo - which the project
    goroutines share. The diagnostic set of every file must be the same on every fresh start (found by a seeding agent:
    the memo's flag was published before its value, a concurrent project saw "no annotation" and dropped the warning)."""
    n = {"quick": 3, "thorough": 30, "search": 2}[tier]
    nreps = {"quick": 10, "thorough": 16, "search": 8}[tier]
    out = []
    for cn in range(n):
        ne = rng.choice([4, 8, 12, 16])
        nf = rng.choice([150, 200, 300])
        lib = []
        for i in range(nf):
            k = rng.randrange(4) if cn % 3 == 2 else 0
            if k == 0:      # all optional but the first: gN() is one argument short
                lib += ["---@param a number", "---@param b? number", "---@param c? number", "function g%d(a, b, c) end" % i]
            elif k == 1:    # every parameter optional: no warning
                lib += ["---@param a? number", "---@param b? string", "function g%d(a, b) end" % i]
            elif k == 2:    # no annotation at all: no warning
                lib += ["function g%d(a, b) end" % i]
            else:
                lib += ["---@param a number", "---@param b number", "function g%d(a, b) end" % i]
        entries = ["e%d.lua" % (j + 1) for j in range(ne)]
        files = [("luahelper.json", '{"ProjectFiles":[%s]}\n' % ",".join('"%s"' % e for e in entries)), ("lib.lua", "\n".join(lib) + "\n")]
        for e in entries:
            order = list(range(nf))          # the same order in every entry: the goroutines reach a function together
            if cn % 3 == 2 and rng.random() < 0.3:
                rng.shuffle(order)
            files.append((e, 'require("lib")\n' + "".join("g%d()\n" % i for i in order)))
        steps = ["S:open:2", "S:diags"]
        out.append("%d {STABLE} %s %s" % (nreps, " ".join("F:%s:%s" % (hx(f), hx(c)) for f, c in files), " ".join(steps)))
    return out


# ----------------------------------------------------------------------------- c09.entryorder
HEAVY_LINE = 'big.v# = { n = #, s = "s#", t = { #, # } }'


def gen_entryorder(rng, tier):
    """project mode with SEVERAL entry files whose projects take very different times: the entry that comes first in NAME
    order requires a file of tens of thousands of lines, so its project goroutine finishes last (under GOMAXPROCS 1, 2 and
    the default alike). A global table T is defined by a file all projects load; every project loads one file of its own
    that adds the SAME member T.f (different parameter lists, different lines). The members other files add to a global
    table go into the table's first-phase record, which all projects share, first one wins: the projects must be visited
    in entry-name order (fix ebeeeaa), not in the order their goroutines finish (seeded change C09-6). go-to-definition
    on `T.f`, asked in every entry file, must be the singleton {adder of the name-first project} on every fresh start.
    Controls: the heavy file in the name-LAST project (finishing order = name order), ProjectFiles listed in another
    order than by name, three entries, the heavy project's adder required before / after the heavy file.
    NOT covered by the Coq model: Merge.member_provider is the provider inside ONE project (files of second.AllFiles in
    sorted order); the provider across projects - find over the concatenation of the projects' sorted file lists in sorted
    entry order, restricted to projects whose table has T - is the reference computed here (no theorem)."""
    n = {"quick": 4, "thorough": 40, "search": 3}[tier]
    nreps = {"quick": 3, "thorough": 6, "search": 3}[tier]
    out = []
    for k in range(n):
        ne = 2 if rng.random() < 0.7 else 3
        stems = rng.sample(["entry1", "entry2", "main", "m2", "app", "zz_tool", "Boot"], ne)
        entries = [x + ".lua" for x in stems]
        by_name = sorted(entries)                         # sort.Strings: byte order
        heavy_of = by_name[0] if (k < 2 or rng.random() < 0.75) else by_name[-1]
        listed = list(entries)
        rng.shuffle(listed)
        tform = rng.choice(["T = {}", "T = {}", "_G.T = {}"])
        tfile = rng.choice(["common.lua", "lib/tbl.lua"])
        files = [("luahelper.json", '{"ProjectFiles": [%s]}\n' % ", ".join('"%s"' % e for e in listed)), (tfile, tform + "\n")]
        adder, steps, exp_of = {}, [], {}
        for i, e in enumerate(by_name):
            a = "add_%s.lua" % chr(ord("a") + (ne - 1 - i if rng.random() < 0.5 else i))   # adder names not in entry order
            while a in adder.values():
                a = "x" + a
            adder[e] = a
            pad = rng.randrange(0, 4)
            ps = ", ".join("p%d" % j for j in range(i + 1))
            if rng.random() < 0.6:
                text, col = "function T.f(%s)\n  return %d\nend\n" % (ps, i), 11
            else:
                text, col = "T.f = function(%s) return %d end\n" % (ps, i), 2
            files.append((a, "\n" * pad + text))
            exp_of[e] = "define=[%s@%d:%d-%d:%d]" % (a, pad, col, pad, col + 1)
        nheavy = rng.choice([30000, 30000, 40000])
        for e in by_name:
            req = ['require("%s")' % tfile[:-4].replace("/", "."), 'require("%s")' % adder[e][:-4]]
            if e == heavy_of:
                req.insert(rng.choice([1, 2]), 'require("big")')
            files.append((e, "\n".join(req + ["T.f(1)"]) + "\n"))
        items = ["F:%s:%s" % (hx(f), hx(c)) for f, c in files]
        items.insert(rng.randrange(1, len(items) + 1), "R:%s:%d:%s:%s:%s" % (hx("big.lua"), nheavy, hx("local big = {}\n"), hx(HEAVY_LINE), hx("return big\n")))
        names = [bytes.fromhex(it.split(":")[1]).decode() for it in items]
        for e in by_name:
            ei = names.index(e)
            steps += ["S:open:%d" % ei, "S:define:%d:%d:2" % (ei, 3 if e == heavy_of else 2)]
        want = exp_of[by_name[0]]
        out.append("%d %s %s %s" % (nreps, ";".join("{%s}" % want for _ in by_name), " ".join(items), " ".join(steps)))
    return out


def entryorder_describe(c):
    try:
        dec = lambda h: bytes.fromhex(h).decode("latin1")
        f = c.split(" ")
        fs = [x.split(":") for x in f[2:] if x.startswith("F:")]
        big = [x.split(":") for x in f[2:] if x.startswith("R:")]
        return ("expected %s | " % f[1]) + " || ".join(dec(x[1]) + ": " + dec(x[2]).replace("\n", " / ") for x in fs)[:900] + \
               "".join(" || %s: %s lines `%s`" % (dec(x[1]), x[2], dec(x[4])) for x in big)
    except Exception:
        return c[:200]


# ----------------------------------------------------------------------------- c09.manyrefs
def ncpu():
    try:
        return len(os.sched_getaffinity(0))          # what runtime.NumCPU() reports on Linux
    except Exception:
        return os.cpu_count() or 4


def gen_manyrefs(rng, tier):
    """references / rename of a GLOBAL over a workspace with MORE files than the reference search has workers
    (runtime.NumCPU()+2 goroutines, check_lsp_references.go): 3*(NumCPU+2) .. files, so that every worker handles
    several files one after the other; the global (a variable or a function) is defined in one file and read in most of
    the others (several occurrences per file, inside functions, some files without any, some with a LOCAL of the same name
    that is not an occurrence). The answer over fresh starts (GOMAXPROCS default / 2 / 1) must be the singleton AND equal
    the exact occurrence set the generator knows (seeded/C09-7: a worker re-used its result object, every later file
    of a worker was answered with the earlier files' locations too - a superset that differs between runs). Controls:
    a workspace with at most NumCPU+2 files. The reference answer is computed here (no extracted model: the model's
    statement for this request is "a function of the workspace"; WHICH function = the occurrences of the name that the
    binder resolves to the global, property C06 / C11)."""
    n = {"quick": 3, "thorough": 30, "search": 2}[tier]
    nreps = {"quick": 3, "thorough": 6, "search": 3}[tier]
    out = []
    for k in range(n):
        workers = ncpu() + 2
        nfiles = rng.randrange(3 * workers, 4 * workers + 1) if k != 2 else rng.randrange(3, workers + 1)
        name = rng.choice(["shared_g", "Counter", "gconf", "zz_total"])
        isfun = rng.random() < 0.4
        dirs = ["", "", "lib/", "src/mod/", "z/"]
        fnames = []
        for i in range(nfiles):
            fnames.append("%s%s_%02d.lua" % (rng.choice(dirs), rng.choice(["f", "mod", "u", "A"]), i))
        rng.shuffle(fnames)
        deff = fnames[0]
        occ = []                                           # (file, line, col)
        files = {}
        for f in fnames:
            lines = []

            def use(prefix, suffix):
                lines.append(prefix + name + suffix)
                occ.append((f, len(lines) - 1, len(prefix)))
            for _ in range(rng.randrange(0, 3)):
                lines.append(rng.choice(["local t%d = { %d }" % (len(lines), len(lines)), "-- remark", "", "print(%d)" % len(lines)]))
            if f == deff:
                if isfun:
                    use("function ", "(a, b) return a end")
                else:
                    use("", " = %d" % rng.randrange(100))
            x = rng.random()
            if f != deff and x < 0.12:
                pass                                       # a file without the name
            elif f != deff and x < 0.22:                   # a local of the same name: not an occurrence of the global
                lines += ["local function shadow_%d()" % len(lines), "  local %s = 1" % name, "  return %s" % name, "end"]
            else:
                for _ in range(rng.randrange(1, 4)):
                    y = rng.randrange(5)
                    if isfun:
                        if y == 0:
                            use("local r%d = " % len(lines), "(1, 2)")
                        elif y == 1:
                            lines.append("local function w%d(p)" % len(lines))
                            use("  return ", "(p, p)")
                            lines.append("end")
                        elif y == 2:
                            use("print(", "(3, 4))")
                        elif y == 3:
                            use("local alias%d = " % len(lines), "")
                        else:
                            use("", "(5, 6)")
                    else:
                        if y == 0:
                            use("local r%d = " % len(lines), " + 1")
                        elif y == 1:
                            lines.append("local function w%d(p)" % len(lines))
                            use("  return p + ", "")
                            lines.append("end")
                        elif y == 2:
                            use("print(", ")")
                        elif y == 3:
                            use("if ", " then print(1) end")
                        else:
                            use("local t%d = { v = " % len(lines), " }")
            for _ in range(rng.randrange(0, 2)):
                lines.append("print(%d)" % len(lines))
            files[f] = "\n".join(lines) + "\n"
        locs = sorted("%s@%d:%d-%d:%d" % (f, l, c, l, c + len(name)) for f, l, c in occ)
        newname = "renamed_%d" % k
        rens = sorted("%s=>%s" % (x, hx(newname)) for x in locs)
        order = list(fnames)
        rng.shuffle(order)
        asks = [occ[0]] + rng.sample(occ[1:], min(2, len(occ) - 1))
        steps, exp = [], []
        for f, l, c in asks:
            fi = order.index(f)
            steps += ["S:open:%d" % fi, "S:refs:%d:%d:%d" % (fi, l, c + rng.randrange(0, len(name)))]
            exp.append("{refs=[%s]}" % ",".join(locs))
        f, l, c = asks[-1]
        steps += ["S:rename:%d:%d:%d:%s" % (order.index(f), l, c, hx(newname)), "S:refs:%d:%d:%d" % (order.index(f), l, c)]
        exp += ["{rename=[%s]}" % ",".join(rens), "{refs=[%s]}" % ",".join(locs)]
        out.append("%d %s %s %s" % (nreps, ";".join(exp), " ".join("F:%s:%s" % (hx(g), hx(files[g])) for g in order), " ".join(steps)))
    return out


def manyrefs_describe(c):
    try:
        dec = lambda h: bytes.fromhex(h).decode("latin1")
        f = c.split(" ")
        fs = [x.split(":") for x in f[2:] if x.startswith("F:")]
        st = [x for x in f[2:] if x.startswith("S:")]
        return ("%d files, steps %s, expected %s | " % (len(fs), " ".join(st), f[1][:400])) + \
            " || ".join(dec(x[1]) + ": " + dec(x[2]).replace("\n", " / ") for x in fs)[:1500]
    except Exception:
        return c[:200]


class Runner09(Runner18):
    def eval_cases(self, leg, cases):
        if getattr(leg, "py_reference", False):
            # no extracted model for this leg: the reference answer travels in the case (second field, computed by the
            # generator as described there) and takes the place of both the model's and the spec's observable
            impl = vlib.run_worker([self.impl_exe, leg.name], cases, leg.per_case_s, leg.jobs)
            return [(c, subset_canon(i, c.split(" ")[1]), c.split(" ")[1], c.split(" ")[1], "-") for c, i in zip(cases, impl)]
        return super().eval_cases(leg, cases)


LEGS = [
    Leg("c09.merge", gen_merge, shrink=shrink_items, nontrivial=merge_nontrivial, describe=merge_describe),
    Leg("c09.genmaps", lambda rng, tier: gen_merge(rng, tier, 3000), shrink=shrink_items, nontrivial=merge_nontrivial,
        describe=merge_describe, per_case_s=0.2),
    Leg("c09.bestmatch", gen_bestmatch, shrink=shrink_bestmatch, describe=bm_describe, per_case_s=0.2,
        nontrivial=lambda c: len(c.split(" ")[2].split(",")) >= 2),
    Leg("c09.project", gen_project, describe=project_describe, per_case_s=20, jobs=6),
    Leg("c09.srvrep", lambda rng, tier: gen_srvrep(rng, tier) + gen_srvrep_project(rng, tier) + gen_srvrep_manysyms(rng, tier) + gen_srvrep_bigtable(rng, tier), describe=srvrep_describe,
        per_case_s=20, jobs=6, nontrivial=lambda c: True),
    Leg("c09.projtable", gen_projtable, describe=projtable_describe, per_case_s=20, jobs=6,
        nontrivial=lambda c: True),
    Leg("c09.entryorder", gen_entryorder, describe=entryorder_describe, per_case_s=90, jobs=4, nontrivial=lambda c: True),
    Leg("c09.manyrefs", gen_manyrefs, describe=manyrefs_describe, per_case_s=60, jobs=3, nontrivial=lambda c: True),
    Leg("c09.paramdefault", gen_paramdefault, describe=lambda c: "diagnostics over fresh starts | " + srvrep_describe(c)[:600], per_case_s=60, jobs=4,
        nontrivial=lambda c: True, deciding=PARAM_DEFAULT_FIXED),
]
for l in LEGS[1:]:
    l.set_valued = True
LEGS[-1].py_reference = LEGS[-2].py_reference = LEGS[-3].py_reference = True

TRUSTED = vlib.TRUSTED_COMMON + [
    "modelled, tied by correspondence: AnalysisThird.JudgeShouldInsertGlobalInfo / InsertThirdGlobalGMaps / FindThirdGlobalGInfo, the loop of generateAllGlobalMaps (hook VerifC09GenerateAllGlobalMaps runs the real one), calcMatchStrScore / GetBestMatchReferFile",
    "Go's map iteration order, sort.Sort and goroutine completion order are modelled as arbitrary permutations; set-valued observables: the implementation's answers over repetitions (freshly built maps, rotated insertion order) must lie in the model's set of possible answers, which is a singleton for the repaired code (fixes/C09-deterministic-order.diff), so any second answer is a violation",
    "project mode (luahelper.json with ProjectFiles), modelled: SingleProjectResult.InsertGlobalGMaps / FindGlobalGInfo and the three loops of checkOneProject over second.AllFiles (project_merge_ws, member_provider), findMaxSecondProject (pick_project); tied by leg c09.projtable: go-to-definition of the REAL server (one fresh process per run) on names several project files define = the singleton the model computes; the file set of a project (scanProjectAllFiles) is computed by the driver as the closure of the entry under the generated references; the driver also supplies the columns of the definitions",
    "not modelled, guarded by the repetition leg c09.srvrep only (singleton demanded): class merge, symbol / references cut, the concurrent scoring of workspace symbols (several files, more than 200 symbols, non-empty queries repeated on the same and on fresh servers), hover / references / diagnostics in project mode; sessions with several project entry files AND members added to a global table by other files (finding C09-project-shared-members, fixed ebeeeaa) are guarded by the repetition leg only",
    "leg c09.entryorder (several project entry files, the project that comes first by entry name much slower than the others: the members that files of different projects add to a shared global table; definition on T.f over fresh starts under GOMAXPROCS default / 2 / 1): the reference answer - the adder of the first project in sort.Strings order of the entry names - is computed by the generator in checks/c09.py, NOT by the extracted model (Merge.member_provider is the provider inside one project; across projects = find over the concatenation of the projects' sorted file lists in sorted entry order: no theorem)",
    "leg c09.manyrefs (references / rename of a global over 3..4 times more files than the reference search has worker goroutines, runtime.NumCPU()+2, plus a control workspace below that number; fresh starts under GOMAXPROCS default / 2 / 1): singleton demanded AND equal to the exact occurrence set; that reference set - every read / call / definition of the name outside scopes that declare a local of the same name - is computed by the generator in checks/c09.py, NOT by the extracted model (the binder models of C06 / C11 give it for their own workspaces); the worker count is taken from the affinity mask of the checking process",
    "leg c09.paramdefault (several entry files calling the same functions with fewer arguments than parameters; the lazily memoised FuncInfo.ParamDefaultNum is shared by the project goroutines): diagnostics identical over fresh starts; reference {STABLE} by the generator; the leg decides once PARAM_DEFAULT_FIXED is set (fixes/C09-param-default-race.diff applied)",
    "c09.project: whole analyses repeated in one process under GOMAXPROCS 1/2/16 (map seeds are per iteration in Go); the model's prediction is 'every workspace is stable' (tie workspaces, members added to a global table from several files and equally scored module candidates included): the per-file analyses themselves are not modelled here",
]


def main(tier, seed):
    r = Runner09("C09", tier, seed)
    r.build()
    can_run = r.can_run()
    if can_run:
        r.replay_findings({l.name: l for l in LEGS})
        for leg in LEGS:
            r.run_leg(leg)
    return r.finish(LEGS, trusted=TRUSTED, assumptions=[
        "partial: permutation invariance covers map iteration and completion order provided workers do not observe each other mid-pass; first-pass reads of another file's result are schedule-dependent and only exercised by leg c09.project",
        "no protocol-prefix configuration (ExtraGlobal.StrProPre empty)"])
