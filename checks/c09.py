# C09 - results are a function of workspace and configuration, not of scheduling (DESIGN 5, C09)
import vlib
from vlib import Leg, hexs
from c18 import Runner18, hx, gen_tree, DIRS, BASES

NAMES = ["g", "h", "k", "init", "M"]
FILES = ["a.lua", "b.lua", "c.lua", "d/e.lua", "d/a.lua", "z.lua"]


# ----------------------------------------------------------------------------- c09.merge / c09.genmaps
def rand_var(rng):
    return (rng.choice([0, 0, 0, 0, 1, 2]), rng.choice([0, 0, 0, 1, 2]), rng.randrange(1, 7))


def gen_items(rng, mode):
    """-> dict file -> dict name -> (funclv, scopelv, line)"""
    files = rng.sample(FILES, rng.randrange(1, 6))
    ws = {f: {} for f in files}
    if mode == "single":
        for n in rng.sample(NAMES, rng.randrange(1, len(NAMES) + 1)):
            ws[rng.choice(files)][n] = rand_var(rng)
    elif mode == "least":
        for n in rng.sample(NAMES, rng.randrange(1, len(NAMES))):
            owners = rng.sample(files, rng.randrange(1, len(files) + 1))
            vs = [rand_var(rng) for _ in owners]
            # make the first owner beat all others: not deeper, strictly earlier line
            lo = (min(v[0] for v in vs), min(v[1] for v in vs), min(v[2] for v in vs))
            vs = [(v[0], v[1], v[2] + 1) for v in vs]
            vs[0] = lo
            for o, v in zip(owners, vs):
                ws[o][n] = v
    else:
        for n in rng.sample(NAMES, rng.randrange(1, len(NAMES))):
            for o in rng.sample(files, rng.randrange(1, len(files) + 1)):
                ws[o][n] = rand_var(rng)
    return ws


def items_line(rng, ws):
    files = list(ws)
    rng.shuffle(files)
    its = []
    for f in files:
        ns = list(ws[f])
        rng.shuffle(ns)
        for n in ns:
            v = ws[f][n]
            its.append("%s:%s:%d:%d:%d" % (hx(n), hx("/ws/" + f), v[0], v[1], v[2]))
    return ",".join(its) if its else "-"


def gen_merge(rng, tier, n_quick=8000):
    n = {"quick": n_quick, "thorough": n_quick * 40, "search": n_quick}[tier]
    out = []
    for _ in range(n):
        mode = rng.choice(["single", "single", "least", "least", "any", "any"])
        ws = gen_items(rng, mode)
        qs = ",".join(hx(x) for x in NAMES + ["nope"])
        out.append(qs + " " + items_line(rng, ws))
    return out


def shrink_items(case):
    qs, its = case.split(" ")[:2]
    il = its.split(",")
    for i in range(len(il)):
        r = il[:i] + il[i + 1:]
        if r:
            yield qs + " " + ",".join(r)


def merge_nontrivial(c):
    its = c.split(" ")[1].split(",")
    names = [i.split(":")[0] for i in its]
    return len(names) != len(set(names))       # some name has several owners


def merge_describe(c):
    try:
        dec = lambda h: bytes.fromhex(h).decode("latin1")
        return " ".join("%s@%s(f%s,s%s,l%s)" % ((dec(p[0]), dec(p[1])) + tuple(p[2:])) for p in
                        (i.split(":") for i in c.split(" ")[1].split(",")))
    except Exception:
        return c[:200]


# ----------------------------------------------------------------------------- c09.bestmatch
def gen_bestmatch(rng, tier):
    n = {"quick": 8000, "thorough": 200000, "search": 2000}[tier]
    out = []
    while len(out) < n:
        files = [f for f, k in gen_tree(rng, rng.random() < 0.1).items() if k in "LX"]
        if not files:
            continue
        # push towards several candidates with the same base name
        base = rng.choice(files).split("/")[-1]
        for _ in range(rng.randrange(0, 4)):
            g = rng.choice(DIRS) + "/" + base
            if g not in files and not any(o.startswith(g + "/") or g.startswith(o + "/") for o in files):
                files.append(g)
        f = rng.choice(files)
        stem = f[:-4] if f.endswith(".lua") else f.split(".")[0]
        comps = stem.split("/")
        tail = comps[rng.randrange(0, len(comps)):]
        x = rng.random()
        if x < 0.5:
            refer = "/".join(tail)
        elif x < 0.8:
            refer = "/".join(tail) + ".lua"
        elif x < 0.9:
            refer = "/".join(tail[:-1] + ["init.lua"])
        else:
            refer = rng.choice(BASES)
        cur = rng.choice(files) if rng.random() < 0.8 else rng.choice(DIRS) + "/cur.lua"
        rng.shuffle(files)
        out.append("%s %s %s" % (hx("/ws/" + cur), hx(refer), ",".join(hx("/ws/" + g) for g in files)))
    return out


def shrink_bestmatch(case):
    cur, refer, fs = case.split(" ")[:3]
    fl = fs.split(",")
    for i in range(len(fl)):
        r = fl[:i] + fl[i + 1:]
        if r:
            yield "%s %s %s" % (cur, refer, ",".join(r))


def bm_describe(c):
    try:
        dec = lambda h: bytes.fromhex(h).decode("latin1")
        f = c.split(" ")
        return "cur=%s refer=%s files=[%s]" % (dec(f[0]), dec(f[1]), " ".join(dec(x) for x in f[2].split(",")))
    except Exception:
        return c[:200]


# ----------------------------------------------------------------------------- c09.project
_case_no = [0]
FUNCS = ["g", "h", "k"]


def gen_project(rng, tier):
    n = {"quick": 300, "thorough": 6000, "search": 60}[tier]
    nruns = {"quick": 9, "thorough": 12, "search": 6}[tier]
    out = []
    for _ in range(n):
        _case_no[0] += 1
        root = "/tmp/lhv09/p%x-%d/ws" % (rng.getrandbits(40), _case_no[0])
        mode = rng.choice(["single", "single", "single", "least", "least", "tie"])
        files = rng.sample(["a.lua", "b.lua", "c.lua", "lib/d.lua", "lib/e.lua"], rng.randrange(2, 6))
        defs = {f: {} for f in files}       # file -> name -> (line, arity)
        for name in rng.sample(FUNCS, rng.randrange(1, len(FUNCS) + 1)):
            if mode == "single":
                owners = [rng.choice(files)]
            else:
                owners = rng.sample(files, rng.randrange(2, len(files) + 1)) if len(files) >= 2 else files
            lines = rng.sample(range(1, 9), len(owners))
            if mode == "tie" and len(owners) >= 2:
                lines[1] = lines[0] = min(lines)
            for o, ln in zip(owners, lines):
                defs[o][name] = (ln, rng.randrange(0, 4))
        srcs = {}
        items = []
        for f in files:
            body = {}
            for name, (ln, ar) in defs[f].items():
                while ln in body:               # one definition per line
                    ln += 1
                body[ln] = "function %s(%s) end" % (name, ", ".join("p%d" % i for i in range(ar)))
                defs[f][name] = (ln, ar)
                items.append("%s:%s:0:0:%d" % (hx(name), hx(root + "/" + f), ln))
            last = max(body) if body else 0
            # callers: every file calls some of the functions with some argument count
            calls = []
            for name in rng.sample(FUNCS, rng.randrange(0, len(FUNCS) + 1)):
                calls.append("%s(%s)" % (name, ", ".join(str(i) for i in range(rng.randrange(0, 4)))))
            # other statements that produce diagnostics but define no global (one line each)
            extra = []
            for _ in range(rng.randrange(0, 5)):
                k = rng.randrange(7)
                u = rng.randrange(100)
                if k == 0:
                    extra.append("local u%d = %d" % (u, u))                       # unused local
                elif k == 1:
                    extra.append("print(zz%d)" % u)                               # undefined global
                elif k == 2:
                    other = rng.choice(files)
                    extra.append('local m%d = require("%s") print(m%d)' % (u, other[:-4].replace("/", "."), u))
                elif k == 3:
                    extra.append('local n%d = require("nope%d") print(n%d)' % (u, u, u))   # type 6
                elif k == 4:
                    extra.append("local t%d = {} t%d.x = 1 print(t%d.y)" % (u, u, u))
                elif k == 5:
                    extra.append("local function lf%d(a, a) return a end print(lf%d(1, 2, 3))" % (u, u))
                else:
                    extra.append("if %s then print(1) end" % rng.choice(FUNCS))
            lines = []
            for ln in range(1, last + 1):
                lines.append(body.get(ln, "-- " + f))
            lines += calls + extra
            srcs[f] = "\n".join(lines) + "\n"
        fl = ",".join(hx(f) + ":" + hx(srcs[f]) for f in sorted(files, key=lambda z: rng.random()))
        out.append("%s %d %s %s" % (hx(root), nruns, fl, ",".join(items) if items else "-"))
    return out


def project_describe(c):
    try:
        dec = lambda h: bytes.fromhex(h).decode("latin1")
        f = c.split(" ")
        return " || ".join(dec(x.split(":")[0]) + ": " + dec(x.split(":")[1]).replace("\n", " / ") for x in f[2].split(","))[:600]
    except Exception:
        return c[:200]


LEGS = [
    Leg("c09.merge", gen_merge, shrink=shrink_items, nontrivial=merge_nontrivial, describe=merge_describe),
    Leg("c09.genmaps", lambda rng, tier: gen_merge(rng, tier, 3000), shrink=shrink_items, nontrivial=merge_nontrivial,
        describe=merge_describe, per_case_s=0.2),
    Leg("c09.bestmatch", gen_bestmatch, shrink=shrink_bestmatch, describe=bm_describe, per_case_s=0.2,
        nontrivial=lambda c: len(c.split(" ")[2].split(",")) >= 2),
    Leg("c09.project", gen_project, describe=project_describe, per_case_s=20, jobs=6),
]
for l in LEGS[1:]:
    l.set_valued = True

TRUSTED = vlib.TRUSTED_COMMON + [
    "modelled, tied by correspondence: AnalysisThird.JudgeShouldInsertGlobalInfo / InsertThirdGlobalGMaps / FindThirdGlobalGInfo, the loop of generateAllGlobalMaps (hook VerifC09GenerateAllGlobalMaps runs the real one), calcMatchStrScore / GetBestMatchReferFile",
    "Go's map iteration order, sort.Sort and goroutine completion order are modelled as arbitrary permutations; set-valued observables: the implementation's answers over repetitions must lie in the model's set of possible answers",
    "c09.project: whole analyses repeated in one process under GOMAXPROCS 1/2/16 (map seeds are per iteration in Go); not modelled beyond 'stable unless some global has no least owner'",
]


def main(tier, seed):
    r = Runner18("C09", tier, seed)
    r.build()
    can_run = r.can_run()
    if can_run:
        r.replay_findings({l.name: l for l in LEGS})
        for leg in LEGS:
            r.run_leg(leg)
    return r.finish(LEGS, trusted=TRUSTED, assumptions=[
        "partial: permutation invariance covers map iteration and completion order provided workers do not observe each other mid-pass; first-pass reads of another file's result are schedule-dependent and only exercised by leg c09.project",
        "no protocol-prefix configuration (ExtraGlobal.StrProPre empty)"])
