# C12 - definition, references, highlight and hover agree with each other (DESIGN 5, binder family).
# Per cursor the four features are queried; the spec column of the driver is the feature's own answer when the C12
# relation (Spec/LuaScope.v, Section Consistency) holds of the model's answers at that cursor, else INCONSISTENT:<which>.
import c05
from vlib import Leg


def gen_consist(rng, tier):
    out = []
    for _ in range(c05.n_programs(tier, quick=200)):
        k = rng.random()
        ws = c05.gen_twin_workspace(rng) if k < 0.08 else (c05.gen_returned_local_workspace(rng) if k < 0.12 else c05.gen_workspace(rng))
        steps = c05.cursor_steps(["define", "refs", "highlight", "hover"], ws, rng)
        if rng.random() < 0.3:
            fn, text, ids = ws[0]
            lines = text.split("\n")
            for op in ("define", "refs", "highlight", "hover"):
                steps.append("%s:0:%d:%d" % (op, len(lines) - 1, len(lines[-1])))
        out.append(c05.make_case([(fn, text) for fn, text, _ in ws], steps))
    return out


def gen_consist_wide(rng, tier):
    out = []
    for _ in range(c05.n_programs(tier, quick=36)):
        ws = c05.pick_wide_workspace(rng)
        steps = c05.cursor_steps(["define", "refs", "highlight", "hover"], ws, rng)
        out.append(c05.make_case([(fn, text) for fn, text, _ in ws], steps))
    return out


LEGS = [
    Leg("c12.consist", gen_consist, nontrivial=c05.nontrivial, describe=c05.describe, per_case_s=2.5,
        skip_model=c05.skip_model),
    c05.wide_leg("c12.wide", "c12.consist", gen_consist_wide, per_case_s=2.5),
]


def main(tier, seed):
    return c05.run_family("C12", LEGS, tier, seed)
