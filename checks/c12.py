# C12 - definition, references, highlight and hover agree with each other (DESIGN 5, binder family).
# Per cursor the four features are queried; the spec column of the driver is the feature's own answer when the C12
# relation (Spec/LuaScope.v, Section Consistency) holds of the model's answers at that cursor, else INCONSISTENT:<which>.
import binascii, re
import c05, vlib
from vlib import Leg


def gen_consist(rng, tier):
    out = []
    for _ in range(c05.n_programs(tier, quick=200)):
        k = rng.random()
        ws = c05.gen_twin_workspace(rng) if k < 0.08 else (c05.gen_returned_local_workspace(rng) if k < 0.12 else c05.gen_workspace(rng))
        steps = c05.cursor_steps(["define", "refs", "highlight", "hover"], ws, rng)
        if rng.random() < 0.3:
            fn, text, ids = ws[0]
            lines = text.split("\n")
            for op in ("define", "refs", "highlight", "hover"):
                steps.append("%s:0:%d:%d" % (op, len(lines) - 1, len(lines[-1])))
        out.append(c05.make_case([(fn, text) for fn, text, _ in ws], steps))
    return out


def gen_consist_wide(rng, tier):
    out = []
    for _ in range(c05.n_programs(tier, quick=36)):
        ws = c05.pick_wide_workspace(rng)
        steps = c05.cursor_steps(["define", "refs", "highlight", "hover"], ws, rng)
        out.append(c05.make_case([(fn, text) for fn, text, _ in ws], steps))
    for ws in c05.chain_workspaces(rng, tier, 6):        # call-chain statements with callbacks (seeded C05-5)
        steps = c05.cursor_steps(["define", "refs", "highlight", "hover"], ws, rng, both_ends=False)
        out.append(c05.make_case([(fn, text) for fn, text, _ in ws], steps))
    return out


# ----------------------------------------------------------------------------- relation-only leg on MEMBER names
# Field / method names are outside the modelled fragment ("field names are not queried": no reference binder for them),
# but C12 is a relation between the server's OWN four answers and needs no oracle: for a cursor p on a member name
#   (1) every r in references(p) resolves, via definition, to the same location set as p      [refs-resolve-elsewhere]
#   (2) p's own range is among references(d) for every d in definition(p)                      [not-in-refs-of-own-definition]
#   (3) highlight(p) = the ranges of references(p) that lie in p's file                        [highlight-differs-from-refs-in-file]
#   (4) hover(p) names the identifier under the cursor and says `local` exactly when definition(p) is a local
#       declaration (decided on the text: the generator writes one statement per line)        [hover-names-other / local-flag-...]
# are evaluated here, in Python, on the answers of the real server ALONE (two rounds: the cursors, then definition /
# references at every location the first round returned).  Row per (cursor, feature): implementation = model = the
# server's answer (no model demand), spec = the answer when the clauses that concern the feature hold, else
# `<op>=INCONSISTENT:<clauses>`; classes = the MEMBER_CLASSES predicates true of the cursor (exact predicates over the
# case text; the OCaml driver belongs to the model side of the family, so they live here).  An unlisted deviation is a
# VIOLATION like in every other leg.
MEMBER_LEG = "c12.members"
TABLES = ["T", "Cfg", "Cls", "Mod"]
MEMS = ["k", "n", "size", "level", "name"]
METHS = ["m", "get", "init", "step"]
MEMBER_RE = re.compile(r"(?<=[.:])[A-Za-z_][A-Za-z0-9_]*")
KEY_RE = re.compile(r"[{,]\s*([A-Za-z_][A-Za-z0-9_]*)\s*=(?!=)")
SELF_RE = re.compile(r"\bself\b")


def member_cursors(text):
    """[(line, start, end, kind)] kind in member | key | self"""
    out = []
    for li, ln in enumerate(text.split("\n")):
        code = ln.split("--")[0]
        for m in MEMBER_RE.finditer(code):
            if m.start() >= 2 and code[m.start() - 2:m.start()] == "..":
                continue
            out.append((li, m.start(), m.end(), "member"))
        for m in KEY_RE.finditer(code):
            out.append((li, m.start(1), m.end(1), "key"))
        for m in SELF_RE.finditer(code):
            out.append((li, m.start(), m.end(), "self"))
    return sorted(set(out))


def closure_lines(rng, ms, meths, u, val):
    """a closure nested in a colon method that uses the method's `self` as an upvalue (seeded/C12-7: in the passes after
    the first `self` was translated to its table only DIRECTLY in the body of `function T:m()`: references / highlight of
    `T.v` missed `self.v` inside `local cb = function() self.v = q end` while definition / hover still resolved it).
    Indented lines (the line-based readers `enclosing_method` / `chain_before` look for the nearest `function X:m(` header
    above that no column-0 `end` closes)"""
    m, m2 = rng.choice(ms), rng.choice(ms)
    k = rng.random()
    if k < 0.3:
        out = ["  local cb = function(q)", "    self.%s = q" % m, "    return self.%s" % m2, "  end"]
    elif k < 0.5:
        out = ["  %s(function() return self.%s end)" % (u(), m)]
    elif k < 0.65:
        out = ["  local function helper(q)", "    self.%s = %s" % (m, val()), "    %s(self.%s, self)" % (u(), m2), "  end"]
    elif k < 0.8:
        out = ["  local cb = function()", "    return function(q)", "      self.%s = self.%s" % (m, m2), "    end", "  end"]
    elif k < 0.9 and meths:
        out = ["  local later = function(q)", "    self:%s(q)" % rng.choice(meths), "    return self.%s" % m, "  end"]
    else:
        out = ["  for i = 1, 2 do", "    %s(function(q) self.%s = i end)" % (u(), m), "  end"]
    return out


def gen_member_workspace(rng):
    """2-3 files, one statement per line.  Global tables, each defined at top level in exactly ONE file (constructor with
    keys or empty), members assigned / read / called in every file, colon methods using `self.k`, writes from files
    that do not define the table, a write textually above the table's definition (inside a function), members of a
    local table, `_G.T.k`, nested member chains and string-key access"""
    nfiles = rng.choice([2, 2, 3])
    names = ["a.lua", "b.lua", "sub/c.lua"][:nfiles]
    tabs = rng.sample(TABLES, rng.choice([1, 2, 2, 3]))
    owner = {t: rng.randrange(nfiles) for t in tabs}
    mems = {t: rng.sample(MEMS, rng.choice([1, 2, 3])) for t in tabs}
    meths = {t: rng.sample(METHS, rng.choice([0, 1, 2])) for t in tabs}
    u = lambda: rng.choice(c05.UNDEF)
    val = lambda: rng.choice(["1", "2", "'s'", "true", "{}", "nil"])
    files = []
    for fi in range(nfiles):
        head, body = [], []
        for t in tabs:
            ms = mems[t]
            if owner[t] == fi:
                k = rng.random()
                if k < 0.4:
                    head.append("%s = {}" % t)
                elif k < 0.8:
                    head.append("%s = { %s }" % (t, ", ".join("%s = %s" % (m, val()) for m in ms[:rng.choice([1, 2])])))
                else:
                    # the write sits above the definition, inside a function
                    head.append("local function setup%d()" % len(head))
                    head.append("  %s.%s = %s" % (t, rng.choice(ms), val()))
                    head.append("end")
                    head.append("%s = {}" % t)
                for m in ms:
                    if rng.random() < 0.85:                                                 # else: maybe never assigned
                        body.append("%s.%s = %s" % (t, m, val()))
                for f in meths[t]:
                    colon = rng.random() < 0.6
                    body.append("function %s%s%s(%s)" % (t, ":" if colon else ".", f, rng.choice(["", "x", "x, y"])))
                    recv = "self" if colon else t
                    for _ in range(rng.choice([1, 2, 3])):
                        m = rng.choice(ms)
                        body.append("  " + rng.choice(["%s.%s = %s" % (recv, m, val()), "%s(%s.%s)" % (u(), recv, m),
                                                      "local v = %s.%s" % (recv, m), "%s.%s = %s.%s" % (recv, m, recv, rng.choice(ms))]))
                    if colon and rng.random() < 0.5:
                        body += closure_lines(rng, ms, meths[t], u, val)
                    if rng.random() < 0.4:
                        body.append("  return %s.%s" % (recv, rng.choice(ms)))
                    body.append("end")
            # uses (in every file, also the owner's)
            for _ in range(rng.choice([1, 2, 3, 4])):
                m = rng.choice(ms)
                k = rng.random()
                if k < 0.30:
                    body.append("%s.%s = %s" % (t, m, val()))                               # member WRITE
                elif k < 0.50:
                    body.append("%s(%s.%s)" % (u(), t, m))
                elif k < 0.58:
                    body.append("local v%d = %s.%s" % (len(body), t, m))
                elif k < 0.66:
                    body.append("%s.%s = %s.%s" % (t, m, t, rng.choice(ms)))
                elif k < 0.72 and meths[t]:
                    f = rng.choice(meths[t])
                    body.append(rng.choice(["%s:%s(%s)", "%s.%s(%s)"]) % (t, f, rng.choice(["", "1", "%s.%s" % (t, m)])))
                elif k < 0.80:
                    f = rng.choice(METHS)
                    body.append("function %s:%s()" % (t, f))                                  # a method added from this file
                    body.append("  self.%s = %s" % (m, val()))
                    if rng.random() < 0.4:
                        body += closure_lines(rng, ms, meths[t], u, val)
                    if rng.random() < 0.5:
                        body.append("  return self.%s" % rng.choice(ms))
                    body.append("end")
                elif k < 0.85:
                    body.append("_G.%s.%s = %s" % (t, m, val()))
                elif k < 0.90:
                    body.append('%s(%s["%s"])' % (u(), t, m))
                elif k < 0.95:
                    body.append("%s.sub = {}" % t)
                    body.append("%s.sub.%s = %s" % (t, m, val()))
                    body.append("%s(%s.sub.%s)" % (u(), t, m))
                else:
                    body.append("if %s.%s then %s.%s = %s end" % (t, m, t, m, val()))
        if rng.random() < 0.5:
            l = rng.choice(["L", "loc", "t"])
            m = rng.choice(MEMS)
            body.append("local %s = {}" % l)
            body.append("%s.%s = %s" % (l, m, val()))
            body.append("%s(%s.%s)" % (u(), l, m))
        if not (head or body):
            body.append("%s(1)" % u())
        files.append((names[fi], "\n".join(head + body) + "\n"))
    return files


def gen_members(rng, tier):
    out = []
    for _ in range(c05.n_programs(tier, quick=60)):
        fs = gen_member_workspace(rng)
        steps = []
        for fi, (fn, text) in enumerate(fs):
            for (l, s, e, kind) in member_cursors(text):
                for col in ((s, e) if rng.random() < 0.25 else (s,)):
                    steps += ["%s:%d:%d:%d" % (op, fi, l, col) for op in ("define", "refs", "highlight", "hover")]
        out.append(c05.make_case(fs, steps))
    return out


def parse_locs(ans):
    """'refs=[a.lua@1:2-1:3,...]' -> [(file, l, c, l2, c2)] ; highlight (no file) -> file None; None if not a list"""
    body = ans.split("=", 1)[1] if "=" in ans else ""
    if not (body.startswith("[") and body.endswith("]")):
        return None
    out = []
    for it in body[1:-1].split(","):
        if not it:
            continue
        f, rg = it.rsplit("@", 1) if "@" in it else (None, it)
        a, b = rg.split("-")
        out.append((f, int(a.split(":")[0]), int(a.split(":")[1]), int(b.split(":")[0]), int(b.split(":")[1])))
    return out


def member_hover_proj(item):
    """hover=<hex markdown> -> hover=<L|G>:<last component of the dotted path the label names> | hover=none"""
    h = item[len("hover="):]
    if h in ("", "-"):
        return "hover=none"
    try:
        v = binascii.unhexlify(h).decode("utf8", "replace")
    except Exception:
        return item
    lines = v.split("\n")
    label = lines[1] if len(lines) > 1 and lines[0].startswith("```") else lines[0]
    loc = label.startswith("local ")
    rest = label[6:] if loc else label
    if rest.startswith("function "):
        rest = rest[9:]
    m = re.match(r"[A-Za-z_][A-Za-z0-9_]*(?:[.:][A-Za-z_][A-Za-z0-9_]*)*", rest)
    return "hover=%s:%s" % ("L" if loc else "G", re.split(r"[.:]", m.group(0))[-1] if m else "?")


def local_decl_at(files, loc):
    """is the identifier at loc a local declaration?  (text level: `local x`, `local function x`, `local a, x`, a
    parameter, a loop variable; the generator of this leg writes one statement per line)"""
    f, l, c = loc[0], loc[1], loc[2]
    text = dict(files).get(f)
    if text is None:
        return None
    lines = text.decode("latin1").split("\n")
    if l >= len(lines):
        return None
    before = lines[l][:c]
    if re.search(r"\bfunction\s+[A-Za-z_][A-Za-z0-9_.]*:$", before):
        return None              # a colon-method name: the parser puts the synthetic parameter `self` there as well
    if re.search(r"\blocal\s+(function\s+)?([A-Za-z_][A-Za-z0-9_]*\s*,\s*)*$", before):
        return True
    if re.search(r"\bfunction\b[^()]*\(([^()]*,)?\s*$", before) or re.search(r"\bfor\s+([A-Za-z_][A-Za-z0-9_]*\s*,\s*)*$", before):
        return True
    return False


def ident_span(files, fi, line, col):
    lines = files[fi][1].decode("latin1").split("\n")
    if line >= len(lines):
        return None
    for m in c05.IDENT_RE.finditer(lines[line]):
        if m.start() <= col <= m.end():
            return (m.group(0), line, m.start(), m.end())
    return None


def enclosing_method(lines, l):
    """(table chain, method, colon?) of the `function X:m(` header the line lies in (one statement per line: the nearest
    header above that is not closed by an `end` in column 0)"""
    for k in range(l, -1, -1):
        if k < l and lines[k].startswith("end"):
            return None
        m = re.match(r"function\s+([A-Za-z_][A-Za-z0-9_.]*)([.:])([A-Za-z_][A-Za-z0-9_]*)\s*\(", lines[k])
        if m:
            return (m.group(1), m.group(3), m.group(2) == ":")
    return None


def chain_before(lines, l, s):
    """the member chain a member name at column s hangs on: `T`, `T.sub`; `_G.` stripped, `self` = the method's table"""
    m = re.search(r"([A-Za-z_][A-Za-z0-9_]*(?:\.[A-Za-z_][A-Za-z0-9_]*)*)[.:]$", lines[l][:s])
    if not m:
        return None
    ch = m.group(1)
    if ch.startswith("_G."):
        ch = ch[3:]
    if ch == "self" or ch.startswith("self."):
        em = enclosing_method(lines, l)
        if not em or not em[2]:
            return None
        ch = em[0] + ch[4:]
    return ch


HDR_RE = re.compile(r"function\s+[A-Za-z_][A-Za-z0-9_.]*[.:][A-Za-z_][A-Za-z0-9_]*\s*\(")


def in_nested_function(lines, k, col):
    """position (line k, column col) lies inside a function NESTED in the column-0 `function X.m(` / `function X:m(` the
    line belongs to (the generator writes nested functions indented: `local cb = function(q)` ... `  end`, or on one line)"""
    k0 = k
    while k0 >= 0 and not HDR_RE.match(lines[k0]):
        if k0 < k and lines[k0].startswith("end"):
            return False
        k0 -= 1
    if k0 < 0 or k0 == k:
        return False
    depth = 0
    for j in range(k0 + 1, k + 1):
        code = lines[j].split("--")[0]
        if j == k:
            return depth > 0 or re.search(r"\bfunction\b", code[:col]) is not None
        opens = len(re.findall(r"\bfunction\b", code))
        if opens or depth > 0:
            depth += opens + len(re.findall(r"\b(do|then)\b", code)) - len(re.findall(r"\bend\b", code))
    return False


def defined_members(files, self_anywhere=True, self_in_closure=True):
    """{(chain, name)} with a defining occurrence somewhere in the workspace: `chain.name = e` (also through `_G.`, and
    through `self` - with self_anywhere=False only in a file that assigns the table `X = ...` itself),
    `function chain.name(` / `chain:name(`, a key of the constructor `chain = { ... }`"""
    out = set()
    for _, content in files:
        lines = content.decode("latin1").split("\n")
        for l, ln in enumerate(lines):
            code = ln.split("--")[0]
            for m in re.finditer(r"(?<=[.])([A-Za-z_][A-Za-z0-9_]*)\s*=(?!=)", code):
                ch = chain_before(lines, l, m.start(1))
                if ch and not self_in_closure and re.search(r"\bself(\.[A-Za-z_][A-Za-z0-9_]*)*\.$", code[:m.start(1)]) \
                        and in_nested_function(lines, l, m.start(1)):
                    continue
                if ch and not self_anywhere and re.search(r"\bself(\.[A-Za-z_][A-Za-z0-9_]*)*\.$", code[:m.start(1)]):
                    root = ch.split(".")[0]
                    if not any(re.match(r"%s\s*=(?!=)" % re.escape(root), x) for x in lines):
                        continue
                if ch:
                    out.add((ch, m.group(1)))
            m = re.match(r"\s*function\s+([A-Za-z_][A-Za-z0-9_.]*)[.:]([A-Za-z_][A-Za-z0-9_]*)\s*\(", code)
            if m:
                out.add((m.group(1)[3:] if m.group(1).startswith("_G.") else m.group(1), m.group(2)))
            m = re.match(r"\s*([A-Za-z_][A-Za-z0-9_.]*)\s*=\s*\{(.*)\}\s*$", code)
            if m:
                for k in KEY_RE.finditer("{" + m.group(2)):
                    out.add((m.group(1), k.group(1)))
    return out


def cls_cursor_on_self(files, fi, lines, name, l, s, e):
    return name == "self"


def cls_self_in_redefined_method(files, fi, lines, name, l, s, e):
    """`self`, or a member reached through `self`, in the body of a `function X:m(` that has an earlier `function X:m(` /
    `function X.m(` in the same file"""
    if name != "self" and not re.search(r"\bself(\.[A-Za-z_][A-Za-z0-9_]*)*[.:]$", lines[l][:s]):
        return False
    return in_redefined_method(lines, l)


def cls_self_member_in_redefined_method_with_closure(files, fi, lines, name, l, s, e):
    """a member reached through `self` (`self.k`, `self:m(`) in the body of a re-defined colon method (see above) that
    contains a NESTED function mentioning a member of `self` (`self.x` / `self:x(`): hover then shows the bare type
    (`any`) without the `self.k : ` label"""
    if name == "self" or not re.search(r"\bself(\.[A-Za-z_][A-Za-z0-9_]*)*[.:]$", lines[l][:s]):
        return False
    if not in_redefined_method(lines, l):
        return False
    k0 = l
    while k0 >= 0 and not HDR_RE.match(lines[k0]):
        k0 -= 1
    k1 = k0 + 1
    while k1 < len(lines) and not lines[k1].startswith("end"):
        k1 += 1
    for k in range(k0 + 1, k1):
        code = lines[k].split("--")[0]
        for m in re.finditer(r"\bself[.:][A-Za-z_]", code):
            if in_nested_function(lines, k, m.start()):
                return True
    return False


def cls_defined_through_self_in_closure_only(files, fi, lines, name, l, s, e):
    """every defining occurrence of the member is a `self.name = e` INSIDE a function nested in a colon method"""
    if name == "self":
        return False
    ch = chain_before(lines, l, s)
    return ch is not None and (ch, name) in defined_members(files) and (ch, name) not in defined_members(files, True, False)


def in_redefined_method(lines, l):
    em = enclosing_method(lines, l)
    if not em or not em[2]:
        return False
    hdr = re.compile(r"function\s+%s[.:]%s\s*\(" % (re.escape(em[0]), re.escape(em[1])))
    seen = 0
    for k in range(0, l + 1):
        if hdr.match(lines[k]):
            seen += 1
    return seen >= 2


def cls_member_used_in_redefined_method(files, fi, lines, name, l, s, e):
    """the cursor's member name is reached through `self.` somewhere in the body of a re-defined colon method: that
    occurrence belongs to the synthetic local `self`, yet the name-based reference search lists it"""
    pat = re.compile(r"\bself\.%s\b" % re.escape(name))
    for _, c in files:
        ls = c.decode("latin1").split("\n")
        for k, ln in enumerate(ls):
            if pat.search(ln) and in_redefined_method(ls, k):
                return True
    return False


def cls_depth2_member_other_file(files, fi, lines, name, l, s, e):
    """a member of a member table (`X.sub.name`) unless `X.sub` is assigned in exactly one file and every defining
    occurrence of `X.sub.name` is in that file"""
    ch = chain_before(lines, l, s)
    if ch is None or "." not in ch:
        return False
    parent = re.compile(r"^\s*(_G\.)?%s\s*=(?!=)" % re.escape(ch))
    fdef = re.compile(r"^\s*(_G\.)?%s\.%s\s*=(?!=)" % (re.escape(ch), re.escape(name)))
    fp, fd = set(), set()
    for n, c in files:
        for ln in c.decode("latin1").split("\n"):
            if parent.match(ln):
                fp.add(n)
            if fdef.match(ln):
                fd.add(n)
    return not (len(fp) == 1 and fd <= fp)


def cls_undefined_member(files, fi, lines, name, l, s, e):
    if name == "self":
        return False
    ch = chain_before(lines, l, s)
    return ch is not None and (ch, name) not in defined_members(files)


def cls_defined_through_self_elsewhere(files, fi, lines, name, l, s, e):
    """every defining occurrence of the member is a `self.name = e` in a file that does not assign the table itself"""
    if name == "self":
        return False
    ch = chain_before(lines, l, s)
    return ch is not None and (ch, name) in defined_members(files) and (ch, name) not in defined_members(files, False)


def cls_string_key_reference(files, fi, lines, name, l, s, e):
    pat = re.compile(r"\[\s*([\"'])%s\1\s*\]" % re.escape(name))
    return any(pat.search(c.decode("latin1")) for _, c in files)


# (class, exact predicate over the case text and the cursor, the clauses it explains)
MEMBER_CLASSES = [
    ("member_cursor_on_self", cls_cursor_on_self, {"hover-names-other"}),
    ("member_self_in_redefined_method", cls_self_in_redefined_method, {"refs-resolve-elsewhere", "not-in-refs-of-own-definition"}),
    ("member_used_in_redefined_method", cls_member_used_in_redefined_method, {"refs-resolve-elsewhere", "not-in-refs-of-own-definition"}),
    ("member_self_in_redefined_method_closure", cls_self_member_in_redefined_method_with_closure, {"hover-names-other"}),
    ("member_defined_through_self_in_closure_only", cls_defined_through_self_in_closure_only, {"not-in-refs-of-own-definition", "hover-names-other"}),
    ("member_undefined", cls_undefined_member, {"not-in-refs-of-own-definition", "hover-names-other"}),
    ("member_defined_through_self_elsewhere", cls_defined_through_self_elsewhere, {"not-in-refs-of-own-definition", "hover-names-other"}),
    ("member_depth2_other_file", cls_depth2_member_other_file, {"not-in-refs-of-own-definition", "hover-names-other"}),
    ("member_string_key_reference", cls_string_key_reference, {"refs-resolve-elsewhere"}),
]


def member_classes(files, fi, span, bad):
    """the classes true of the cursor that explain failing clauses - only when EVERY failing clause is explained"""
    name, l, s, e = span
    lines = files[fi][1].decode("latin1").split("\n")
    true = [(k, ex) for k, pred, ex in MEMBER_CLASSES if pred(files, fi, lines, name, l, s, e)]
    if not all(any(b in ex for _, ex in true) for b in bad):
        return []
    return [k for k, ex in true if ex & set(bad)]


class C12Runner(c05.BinderRunner):
    def __init__(self, pid, tier, seed):
        super().__init__(pid, tier, seed)
        # the findings of the relation-only leg are recorded beside their class predicates (MEMBER_FINDINGS below)
        self.findings = self.findings + [dict(f) for f in MEMBER_FINDINGS if f["id"] not in {g["id"] for g in self.findings}]
        self.open_classes = {f["class"]: f for f in self.findings if f.get("status") == "open" and f.get("class")}

    def eval_cases(self, leg, cases):
        if leg.name != MEMBER_LEG:
            return super().eval_cases(leg, cases)
        return self.eval_members(leg, cases)

    def srv(self, leg, cases):
        return vlib.run_worker([self.impl_exe, "srv.script"], cases, leg.per_case_s, leg.jobs)

    def eval_members(self, leg, cases):
        first = self.srv(leg, cases)
        parsed = []
        follow = []
        for c, ans in zip(cases, first):
            fs, steps = c05.split_case(c)
            files = c05.case_files(c)
            items = ans.split(" | ")
            if len(items) != len(steps):
                parsed.append((c, fs, files, steps, None, ans))
                follow.append(None)
                continue
            names = [n for n, _ in files]
            want = set()
            for st, it in zip(steps, items):
                op = st.split(":")[0]
                if op in ("define", "refs"):
                    for (f, l, cc, _, _) in (parse_locs(it) or []):
                        if f in names:
                            want.add((names.index(f), l, cc))
            want = sorted(want)
            parsed.append((c, fs, files, steps, items, want))
            follow.append(" ".join(fs + ["S:open:%d" % k for k in range(len(fs))] +
                                   ["S:%s:%d:%d:%d" % (op, f, l, cc) for (f, l, cc) in want for op in ("define", "refs")])
                          if want else None)
        second = self.srv(leg, [x for x in follow if x is not None])
        second = iter(second)
        rows = []
        for (c, fs, files, steps, items, want), fo in zip(parsed, follow):
            opens = ["S:open:%d" % k for k in range(len(fs))]
            if items is None:
                rows.append((c, want[:2000], "an-answer-per-step", "-", "-"))      # crash / timeout of the whole process
                continue
            names = [n for n, _ in files]
            tab = {}
            if fo is not None:
                a2 = next(second).split(" | ")
                if len(a2) != 2 * len(want):
                    rows.append((fo, " | ".join(a2)[:2000], "an-answer-per-step", "-", "-"))
                    continue
                for k, (f, l, cc) in enumerate(want):
                    tab[("define", names[f], l, cc)] = parse_locs(a2[2 * k])
                    tab[("refs", names[f], l, cc)] = parse_locs(a2[2 * k + 1])
            by_cursor = {}
            for st, it in zip(steps, items):
                a = st.split(":")
                by_cursor.setdefault((int(a[1]), int(a[2]), int(a[3])), {})[a[0]] = it
            # a case whose steps all concern ONE cursor (the replayable form of a row, see `one`) reports its last step only
            single = len(by_cursor) == 1
            for k, (st, it) in enumerate(zip(steps, items)):
                if single and k != len(steps) - 1:
                    continue
                a = st.split(":")
                op, fi, l, col = a[0], int(a[1]), int(a[2]), int(a[3])
                one = " ".join(fs + opens + ["S:%s:%d:%d:%d" % (o, fi, l, col) for o in ("define", "refs", "highlight", "hover")
                                             if o != op] + ["S:" + st])
                got = by_cursor[(fi, l, col)]
                span = ident_span(files, fi, l, col)
                d = parse_locs(got.get("define", ""))
                r = parse_locs(got.get("refs", ""))
                h = parse_locs(got.get("highlight", ""))
                shown = member_hover_proj(it) if op == "hover" else it
                bad = []
                if span is not None and d is not None and r is not None:
                    me = (names[fi], l, span[2], l, span[3])
                    if op == "refs":
                        for x in r:
                            dx = tab.get(("define", x[0], x[1], x[2]))
                            if dx is not None and sorted(set(dx)) != sorted(set(d)):
                                bad.append("refs-resolve-elsewhere")
                                break
                        for x in d:
                            rx = tab.get(("refs", x[0], x[1], x[2]))
                            if rx is not None and me not in rx:
                                bad.append("not-in-refs-of-own-definition")
                                break
                    elif op == "highlight" and h is not None:
                        if sorted(x[1:] for x in h) != sorted(x[1:] for x in r if x[0] == names[fi]):
                            bad.append("highlight-differs-from-refs-in-file")
                    elif op == "hover" and d:
                        if shown == "hover=none" or shown.split(":", 1)[1] != span[0]:
                            bad.append("hover-names-other")
                        ld = [local_decl_at(files, x) for x in d]
                        if None not in ld and shown != "hover=none" and (shown.startswith("hover=L:") != any(ld)):
                            bad.append("local-flag-differs-from-definition")
                spec = shown if not bad else "%s=INCONSISTENT:%s" % (op, "+".join(bad))
                cls = member_classes(files, fi, span, bad) if (bad and span is not None) else []
                rows.append((one, shown, shown, spec if op != "define" else "-", ",".join(cls) or "-"))
        return rows


def witness(files, fi, line, col, op):
    return c05.make_case(files, ["%s:%d:%d:%d" % (o, fi, line, col) for o in ("define", "refs", "highlight", "hover") if o != op]
                         + ["%s:%d:%d:%d" % (op, fi, line, col)])


_REDEF = [("a.lua", "T = {}\nT.k = 1\nfunction T:m()\n  return self.k\nend\nfunction T:m()\n  return self.k\nend\n")]
# Findings of the relation-only leg on the UNCHANGED code (recorded here, beside their predicates: known_findings/C12.json
# belongs to the model side of the family; the lead may move them there verbatim - the Runner merges both lists).
# the findings of the relation-only leg (witnesses, replayed on every run) live in known_findings/C12.json like all others
_REDEF_CLOSURE = [("a.lua", "T = {}\nT.k = 1\nT.n = 1\nfunction T.m() end\nfunction T:m()\n  self.k = 2\n  local cb = function() return self.n end\nend\n")]
_CLOSURE_DEF = [("a.lua", "Cfg = {}\nfunction Cfg:init()\n  local cb = function(q)\n    self.k = q\n  end\nend\nprobe(Cfg.k)\n")]
MEMBER_FINDINGS = []


LEGS = [
    Leg("c12.consist", gen_consist, nontrivial=c05.nontrivial, describe=c05.describe, per_case_s=2.5,
        skip_model=c05.skip_model),
    c05.wide_leg("c12.wide", "c12.consist", gen_consist_wide, per_case_s=2.5),
    Leg(MEMBER_LEG, gen_members, nontrivial=c05.nontrivial, describe=c05.describe, per_case_s=2.5),
]


def make_runner(tier, seed):
    return C12Runner("C12", tier, seed)


def main(tier, seed):
    return c05.run_family("C12", LEGS, tier, seed, runner_cls=C12Runner, assume_extra=[
        "leg c12.members: cursors on member / method names, constructor keys and `self` (outside the modelled fragment: no "
        "reference binder for field names).  RELATION-ONLY: the four clauses of C12 are evaluated in Python on the answers of "
        "the real server alone (two rounds: the cursors, then definition / references at every location the first round "
        "returned); implementation column = model column (no model demand), spec column = the answer when the clauses hold.  "
        "Deviations of the unchanged code fall into the MEMBER_CLASSES predicates of checks/c12.py (exact predicates over "
        "the case text and the cursor, each bound to the clauses it explains; a class covers a row only when EVERY failing "
        "clause is explained); their findings (in known_findings/C12.json, with witnesses, replayed on every run) stand beside "
        "known_findings/C12.json.  `local` in clause 4 is decided on the text (one statement per line).  Workspaces: every "
        "global table is assigned at top level in exactly one file"])
