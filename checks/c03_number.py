# C03, numeral part: leg c03.number (parser_number.go + parseNumberExp vs Model/Number.v vs Spec/LuaNumeral.v).
# Exports LEGS_NUMBER (imported by checks/c03.py) and TRUSTED_NUMBER / ASSUMPTIONS_NUMBER.
import itertools, re
import vlib
from vlib import Leg, hexs

DIG = "0123456789"
HEXL = "0123456789abcdefABCDEF"
# what lexer.scanNumber can put into a number token
LEXER_ALPHABET = DIG + "abcdefABCDEF" + "uUlL" + "." + "pP" + "xX" + "+-"
# one representative per character class the code distinguishes (exhaustive enumeration)
REP = "01ae.ulpx+-"
REP_THOROUGH = "01ae.ulpx+-"
JUNK = " \t_gGnNiIzZ#\x00\x7f,;:"


def digits(rng, lo=1, hi=6, alphabet=DIG):
    return "".join(rng.choice(alphabet) for _ in range(rng.randint(lo, hi)))


def exponent(rng, marks):
    return rng.choice(marks) + rng.choice(["", "+", "-"]) + digits(rng, 1, rng.choice([1, 2, 4]))


def mantissa(rng, alphabet):
    k = rng.random()
    if k < 0.3:
        return digits(rng, 1, 5, alphabet)
    if k < 0.55:
        return digits(rng, 1, 4, alphabet) + "." + digits(rng, 1, 4, alphabet)
    if k < 0.7:
        return digits(rng, 1, 4, alphabet) + "."
    if k < 0.85:
        return "." + digits(rng, 1, 4, alphabet)
    return digits(rng, 1, 20, alphabet) + "." + digits(rng, 0, 20, alphabet)


BOUNDARY_DEC = ["0", "00", "9223372036854775807", "9223372036854775808", "9223372036854775806",
                "18446744073709551615", "18446744073709551616", "18446744073709551614",
                "99999999999999999999", "009223372036854775807", "0000000000000000000000001",
                "184467440737095516150", "1844674407370955161", "1844674407370955162", "100000000000000000000"]
BOUNDARY_HEX = ["0", "f", "7fffffffffffffff", "8000000000000000", "ffffffffffffffff", "10000000000000000",
                "1ffffffffffffffff", "123456789abcdef01", "0000000000000000f", "8000000000000001",
                "ffffffffffffffffffffffff", "00000000000000000", "deadbeefDEADBEEFcafe"]


def valid_numeral(rng):
    k = rng.random()
    if k < 0.12:
        return rng.choice(BOUNDARY_DEC) if rng.random() < 0.5 else digits(rng, 1, rng.choice([3, 19, 20, 22]))
    if k < 0.30:      # decimal float
        m = mantissa(rng, DIG)
        e = exponent(rng, "eE") if rng.random() < 0.5 or "." not in m else ""
        return m + e
    if k < 0.45:      # hex integer
        h = rng.choice(BOUNDARY_HEX) if rng.random() < 0.4 else digits(rng, 1, rng.choice([2, 8, 16, 17, 20]), HEXL)
        return "0" + rng.choice("xX") + h
    if k < 0.65:      # hex float
        m = mantissa(rng, HEXL)
        e = exponent(rng, "pP") if rng.random() < 0.6 or "." not in m else ""
        return "0" + rng.choice("xX") + m + e
    suf = rng.choice(["ll", "LL", "ull", "ULL", "uLL", "Ull", "lL", "UlL"])
    if k < 0.83:      # LuaJIT decimal
        d = rng.choice(BOUNDARY_DEC) if rng.random() < 0.5 else digits(rng, 1, rng.choice([3, 19, 20, 21]))
        return d + suf
    h = rng.choice(BOUNDARY_HEX) if rng.random() < 0.4 else digits(rng, 1, rng.choice([2, 16, 17, 19]), HEXL)
    return "0" + rng.choice("xX") + h + suf


def mutate(rng, s):
    if not s:
        return rng.choice(LEXER_ALPHABET)
    i = rng.randrange(len(s))
    k = rng.random()
    if k < 0.2:
        return s[:i] + s[i + 1:]                                  # drop
    if k < 0.35:
        return s[:i] + s[i] + s[i:]                               # duplicate
    if k < 0.5 and len(s) > 1:
        j = rng.randrange(len(s) - 1)
        return s[:j] + s[j + 1] + s[j] + s[j + 2:]                # swap neighbours
    if k < 0.62:
        return s[:i] + "." + s[i:]                                # extra dot
    if k < 0.72:
        return s[:i] + rng.choice("eEpP") + rng.choice(["", "+", "-"]) + s[i:]   # dangling / extra exponent
    if k < 0.82:
        return s + rng.choice(["l", "u", "ll", "ull", "lll", "ul", "llu", "LLU", "uull", "x", "p", "e", ".", "e+", "p-"])
    if k < 0.9:
        return s[:i] + rng.choice(LEXER_ALPHABET) + s[i + 1:]     # replace within the alphabet
    if k < 0.95:
        return s.swapcase()
    return s[:i] + rng.choice(LEXER_ALPHABET) + s[i:]             # insert


def hex_cut_family(rng):
    """long texts around the `cut long hex string` branch (the former class hex_cut, repaired by 8dd49c7, and its valid neighbours)"""
    n = rng.choice([14, 15, 16, 17, 18, 24])
    h = digits(rng, n, n, rng.choice([HEXL, "0", "0f"]))
    pre = rng.choice([".0x", "0x.", "0x", ".0x.", "0x..", "0xl", "0xp", ".00x", ".x0x", "0x0x", "1.0x", "0xu", ".5e0x"])
    suf = rng.choice(["ll", "ull", "LL", "..", "l.", "u..", "p1", "ul", "", "1", "lll", "e+", "p-"])
    return pre + h + suf


def gen_number(rng, tier):
    n_valid, n_mut, n_junk, n_cut, maxlen = {
        "quick": (2500, 4000, 1200, 800, 4),
        "thorough": (60000, 120000, 30000, 20000, 5),
        "search": (3000, 6000, 1500, 1000, 3),
    }[tier]
    out = ["-"]
    # (1) exhaustive over one representative per character class
    rep = REP_THOROUGH if tier == "thorough" else REP
    for k in range(1, maxlen + 1):
        for t in itertools.product(rep, repeat=k):
            out.append(hexs("".join(t).encode()))
    # every single character of the 7-bit range and of the alphabet in a few contexts
    for c in range(128):
        for ctx in ("%s", "1%s", "%s1", "0x%s", "1%sll", "0x1%s"):
            out.append(hexs((ctx % chr(c)).encode("latin1")))
    # (2) grammar-derived, mostly valid
    for _ in range(n_valid):
        out.append(hexs(valid_numeral(rng).encode()))
    # (3) mutations of valid numerals (1-3 edits)
    for _ in range(n_mut):
        s = valid_numeral(rng)
        for _ in range(rng.choice([1, 1, 1, 2, 3])):
            s = mutate(rng, s)
        out.append(hexs(s.encode()))
    # (4) the hex-cut family
    for _ in range(n_cut):
        out.append(hexs(hex_cut_family(rng).encode()))
    # (5) malformed stream outside the lexer's alphabet: white space, signs, underscores, other 7-bit characters
    for _ in range(n_junk):
        s = valid_numeral(rng) if rng.random() < 0.8 else digits(rng, 0, 3, LEXER_ALPHABET)
        k = rng.random()
        if k < 0.25:
            s = rng.choice([" ", "\t", "\n ", "\v\f\r", "+", "-", "+ ", " -"]) + s + rng.choice(["", " ", "\r\n", "\t "])
        elif k < 0.55:
            for _ in range(rng.choice([1, 1, 2])):
                i = rng.randrange(len(s) + 1)
                s = s[:i] + "_" + s[i:]
        elif k < 0.8:
            i = rng.randrange(len(s) + 1)
            s = s[:i] + rng.choice(JUNK) + s[i:]
        elif k < 0.9:
            s = rng.choice(["inf", "Inf", "+inf", "-Infinity", "infinity", "nan", "NaN", "infx", "in", "1nan", "0xinf", "nanll", "infinit"]) + rng.choice(["", s])
        else:
            s = "".join(chr(rng.randrange(128)) for _ in range(rng.randint(1, 4)))
        out.append(hexs(s.encode("latin1")))
    return out


def shrink_number(case):
    h = case.split(" ")[0]
    if h == "-":
        return
    b = bytes.fromhex(h)
    for i in range(len(b)):
        yield hexs(b[:i] + b[i + 1:])


def canon_number(line):
    # a recovered Go panic: keep only its kind
    if line.startswith("PANIC"):
        if "index out of range" in line:
            return "PANIC index"
        if "slice bounds out of range" in line:
            return "PANIC slice"
    return line


def describe_number(case):
    h = case.split(" ")[0]
    try:
        return "%s  (%r)" % (h, bytes.fromhex(h).decode("latin1") if h != "-" else "")
    except ValueError:
        return case


HF_REP = "0af.p+-xP"


def gen_hexfloat(rng, tier):
    n, maxlen = {"quick": (3000, 4), "thorough": (60000, 5), "search": (2000, 3)}[tier]
    out = ["-"]
    for k in range(1, maxlen + 1):
        for t in itertools.product(HF_REP, repeat=k):
            out.append(hexs("".join(t).encode()))
    for c in range(128):
        for ctx in ("%s", "1%s", "%s1", "1.%s", "1p%s", "1p%s1", "1%sp1"):
            out.append(hexs((ctx % chr(c)).encode("latin1")))
    for _ in range(n):
        s = mantissa(rng, "0123456789abcdef" if rng.random() < 0.8 else HEXL)
        if rng.random() < 0.6:
            s += exponent(rng, "p" if rng.random() < 0.85 else "pPeE")
        for _ in range(rng.choice([0, 0, 1, 1, 2])):
            s = mutate(rng, s)
        if rng.random() < 0.05:
            s += rng.choice(["\n", " ", "\np1", "p1\n"])
        out.append(hexs(s.encode()))
    return out


LEGS_NUMBER = [
    Leg("c03.number", gen_number, shrink=shrink_number, canon_impl=canon_number, describe=describe_number,
        nontrivial=lambda c: c != "-" and len(c) >= 4 and re.search(r"[^0-9]", bytes.fromhex(c.split(" ")[0]).decode("latin1")) is not None),
    # parseHexFloat / reHexFloat directly (the regexp is modelled by a hand-written recogniser)
    Leg("c03.hexfloat", gen_hexfloat, shrink=shrink_number, canon_impl=canon_number, describe=describe_number,
        nontrivial=lambda c: c != "-" and len(c) >= 4),
]

TRUSTED_NUMBER = [
    "modelled, tied by correspondence (leg c03.number): parser_number.go (parseInteger, parseFloat, parseLuajitNum, parseHexFloat, is* helpers) and parseNumberExp's order, through the add-only hook parser.VerifClassifyNumber",
    "Go library modelled for acceptance only: strconv.ParseUint/ParseInt (base 10/16, 64 bit), strconv.ParseFloat syntax (special, readFloat, underscoreOK; decimal.set assumed to accept what readFloat accepted), strings.TrimSpace/ToLower on 7-bit text; reHexFloat modelled by a hand-written recogniser (no regexp engine in the model)",
]
ASSUMPTIONS_NUMBER = [
    "number tokens are 7-bit ASCII (lexer.scanNumber only cuts out [0-9a-fA-FuUlLpPxX.+-]); for bytes >= 128 Go's rune-based TrimSpace/ToLower are not modelled",
    "float values are not modelled (only integer value / float / not a number)",
    "LuaJIT suffix semantics in Spec/LuaNumeral.v: suffixed decimal must fit in 64 bits (as lj_strscan), suffixed hex wraps",
]
