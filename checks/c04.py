# C04 - every reported range lies in the document and covers what it names (DESIGN 5, C04)
import re
import vlib, luagen
from vlib import Leg, hexs

RAW_EXCLUDED = {"59", "0", "1"}          # TkString, IKIllegal, TkEOF (their recorded text is not the source text)


class OkGen(luagen.Gen):
    """programs inside the guard of C04_tok_range_exact: no escapes, no long brackets, no astral / 2-byte characters"""
    def short_string(self):
        r = self.r
        q = r.choice(['"', "'"])
        body = "".join(r.choice(list("abcxyz 0123_-+*/.,;:(){}<>=~#%^&|!?@$") + ["中", "文", "漢", "か", "한", "€", "…", "\t"])
                       for _ in range(r.choice([0, 1, 2, 3, 5, 9])))
        return luagen.Tok("string", (q + body + q).encode("utf8"))

    def string(self):
        return self.short_string()


OK_SEPS = [b" ", b" ", b"  ", b"\t", b"\n", b"\r\n", b"\r", b" -- c\n", b" -- \xe4\xb8\xad\xe6\x96\x87 note\r\n", b"\n\n", b"\x0b", b" \x0c "]


def render_ok(tokens, rng):
    out = bytearray()
    if tokens and tokens[0].text.startswith(b"#"):
        out += b" "
    for i, t in enumerate(tokens):
        if i > 0:
            sep = rng.choice(OK_SEPS)
            if out.endswith(b"-") and sep.startswith(b"-"):
                sep = b" " + sep
            out += sep
        out += t.text
    if rng.random() < 0.3:
        out += rng.choice([b"\n", b" -- end \xe6\xbc\xa2", b"\r\n"])
    return bytes(out)


def case_of(bs):
    s = bs.decode("utf8")
    return hexs(bs) + " " + (",".join(str(ord(c)) for c in s) if s else "-")


def gen_toks(rng, tier):
    n = {"quick": 3000, "thorough": 100000, "search": 3000}[tier]
    out = []
    for k in range(n):
        if rng.random() < 0.6:
            toks = OkGen(rng, max_depth=rng.choice([1, 2, 3])).chunk()
            out.append(case_of(render_ok(toks, rng)))
        else:
            toks = luagen.Gen(rng, max_depth=rng.choice([1, 2, 3]), strings=rng.choice(["mixed", "unicode", "escapes"])).chunk()
            bs = luagen.render(toks, rng, "wild")
            if rng.random() < 0.2:
                bs = bs.replace(b"\r\n", b"\n\r", 1)
            try:
                bs.decode("utf8")
            except UnicodeDecodeError:
                continue
            out.append(case_of(bs))
    return out


# ---- independent Python reading of "the text under the range" (UTF-16 columns, LF / CRLF / CR line ends)
def line_starts(text):
    starts = [0]
    i = 0
    while i < len(text):
        c = text[i]
        if c == "\r":
            if i + 1 < len(text) and text[i + 1] == "\n":
                i += 1
            starts.append(i + 1)
        elif c == "\n":
            starts.append(i + 1)
        i += 1
    return starts


def pos_to_index(text, starts, line, col):
    if line < 0 or line >= len(starts) or col < 0:
        return None
    i = starts[line]
    units = 0
    while units < col:
        if i >= len(text) or text[i] in "\r\n":
            return None
        units += 2 if ord(text[i]) > 0xFFFF else 1
        i += 1
    return i if units == col else None


TOK = re.compile(r" (\d+):([0-9a-f]+|-)@(-?\d+)\.(-?\d+)\.(-?\d+)\.(-?\d+)")


def coverage(case, obs):
    """COVERED iff every raw token's range lies in the document, start <= end, and the text under it is the token"""
    if not obs.startswith("L: T:"):
        # a file with lexical errors: no token Locs are compared by this leg (outside its domain)
        return "COVERED" if obs.startswith("L:") else "?" + obs[:12]
    text = bytes.fromhex(case.split(" ")[0]).decode("utf8") if case.split(" ")[0] != "-" else ""
    starts = line_starts(text)
    for m in TOK.finditer(obs):
        kind, hx, sl, sc, el, ec = m.group(1), m.group(2), int(m.group(3)), int(m.group(4)), int(m.group(5)), int(m.group(6))
        if kind in RAW_EXCLUDED:
            continue
        want = bytes.fromhex(hx).decode("utf8") if hx != "-" else ""
        a = pos_to_index(text, starts, sl - 1, sc)
        b = pos_to_index(text, starts, el - 1, ec)
        if a is None or b is None or a > b or text[a:b] != want:
            return "NOTCOVERED"
    return "COVERED"


# ---- names leg: every name-bearing AST node (NameExp, local / parameter / loop variable, local function name)
NAME_PATS = [re.compile(r"\((?:nm|fornum|localfn) ([0-9a-f]+)@(-?\d+)\.(-?\d+)\.(-?\d+)\.(-?\d+)")]
LIST_PAT = re.compile(r"\((?:local|forin) \[((?: [0-9a-f]+@-?\d+\.-?\d+\.-?\d+\.-?\d+(?::\d+)?)*) \]|\(fn (?:[0-9a-f]+|-) (?:[0-9a-f]+|-) [01] ([01]) \[((?: [0-9a-f]+@-?\d+\.-?\d+\.-?\d+\.-?\d+)*) \]")
ITEM = re.compile(r"([0-9a-f]+)@(-?\d+)\.(-?\d+)\.(-?\d+)\.(-?\d+)")


def named_locs(obs):
    out = []
    for p in NAME_PATS:
        out += [m.groups() for m in p.finditer(obs)]
    for m in LIST_PAT.finditer(obs):
        if m.group(1) is not None:
            out += [x.groups() for x in ITEM.finditer(m.group(1))]
        else:
            items = [x.groups() for x in ITEM.finditer(m.group(3) or "")]
            # `function a:m()`: the first parameter is the synthetic `self` (placed at the method name, not in the text)
            out += items[1:] if m.group(2) == "1" else items
    return out


def names_coverage(case, obs):
    """NAMESCOVERED iff the file has a syntax error (no demand) or every name-bearing node's range lies in the document,
    has start <= end and the text under it (LSP reading) is exactly the identifier"""
    if not obs.startswith("OK L: P: AST:"):
        return "NAMESCOVERED" if (obs.startswith("OK ") or obs == "TOOMANY") else "?" + obs[:12]
    text = bytes.fromhex(case.split(" ")[0]).decode("utf8") if case.split(" ")[0] != "-" else ""
    starts = line_starts(text)
    for hx, sl, sc, el, ec in named_locs(obs):
        want = bytes.fromhex(hx).decode("utf8", "replace")
        a = pos_to_index(text, starts, int(sl) - 1, int(sc))
        b = pos_to_index(text, starts, int(el) - 1, int(ec))
        if a is None or b is None or a > b or text[a:b] != want:
            return "NOTCOVERED:%s@%s.%s.%s.%s" % (want, sl, sc, el, ec)
    return "NAMESCOVERED"


def gen_names(rng, tier):
    n = {"quick": 1500, "thorough": 60000, "search": 1500}[tier]
    out = []
    for k in range(n):
        if rng.random() < 0.8:
            toks = OkGen(rng, max_depth=rng.choice([1, 2, 3, 4])).chunk()
            out.append(case_of(render_ok(toks, rng)))
        else:
            toks = luagen.Gen(rng, max_depth=rng.choice([1, 2, 3]), strings=rng.choice(["mixed", "unicode", "escapes"])).chunk()
            bs = luagen.render(toks, rng, "wild")
            try:
                bs.decode("utf8")
            except UnicodeDecodeError:
                continue
            out.append(case_of(bs))
    return out


ILLEGAL = [b"$", b"@", b"!", b"`", b"?", b"\\", b"\xe4\xb8\xad", b"\xc3\xa9", b"$$", b"@x", b"\x01", b"\x7f"]


def gen_errlocs(rng, tier):
    """near-valid programs with illegal tokens / unfinished strings at line ends, in the middle of lines and at the end of
    the file, under all three line-ending conventions: the token Locs AFTER the lexical error are compared"""
    n = {"quick": 1500, "thorough": 60000, "search": 1500}[tier]
    out = []
    for k in range(n):
        toks = OkGen(rng, max_depth=rng.choice([1, 2, 3])).chunk()
        eol = rng.choice([b"\n", b"\r\n", b"\r", b"\n", b"\r\n"])
        lines = render_ok(toks, rng).replace(b"\r\n", b"\n").replace(b"\r", b"\n").split(b"\n")
        for _ in range(rng.choice([1, 1, 2, 3])):
            i = rng.randrange(len(lines))
            bad = rng.choice(ILLEGAL + [b"'abc", b'"x y', b"0x", b"1e", b"[=", b"--[==[ open"])
            m = rng.random()
            if m < 0.5:
                lines[i] = lines[i] + rng.choice([b"", b" ", b"  "]) + bad           # last thing on the line
            elif m < 0.8:
                j = rng.randrange(len(lines[i]) + 1)
                lines[i] = lines[i][:j] + b" " + bad + b" " + lines[i][j:]
            else:
                lines[i] = bad + b" " + lines[i]
        bs = eol.join(lines)
        try:
            bs.decode("utf8")
        except UnicodeDecodeError:
            pass
        out.append(hexs(bs))
    return out


# ---------------------------------------------------------------------------------------------- leg c04.ranges
# Programs for the REAL server: small name pools so that definitions, member chains and references connect; identifiers
# placed after escaped strings, long brackets, comments, tabs, non-ASCII text; LF / CRLF / CR; several files.
# A query (define, refs, highlight, rename) is placed on EVERY identifier occurrence (positions are computed here from the
# rendering: UTF-16 columns, LF / CRLF / CR lines; the driver finds the identifier under the cursor with the MODEL lexer).
BASES = ["cfg", "M", "obj", "tbl", "a"]
KEYS = ["net", "port", "b", "c", "foo", "bar", "k", "s", "name_1", "x"]
LOCALS = ["x", "y", "t", "v", "n1", "res"]
SRV_KW = set(luagen.KEYWORDS)
NAME_RE = re.compile(rb"^[A-Za-z_][A-Za-z_0-9]*$")


class SrvGen:
    def __init__(self, rng, mode):
        self.r, self.mode = rng, mode            # mode: "ok" (inside the guard) / "wild"
        self.ok = OkGen(rng, max_depth=1)
        self.wild = luagen.Gen(rng, max_depth=1, strings="mixed")

    def base(self):
        return self.r.choice(BASES)

    def key(self):
        return self.r.choice(KEYS)

    def strtok(self):
        if self.mode == "wild" and self.r.random() < 0.6:
            return self.wild.string().text.decode("utf8")
        return self.ok.short_string().text.decode("utf8")

    def value(self, d=1):
        r = self.r
        k = r.random()
        if k < 0.2:
            return [str(r.choice([0, 1, 2, 42, 8080]))]
        if k < 0.35:
            return [self.strtok()]
        if k < 0.45:
            return [r.choice(BASES + LOCALS)]
        if k < 0.6:
            return self.chain(r.choice([1, 2]))
        if k < 0.75 and d > 0:
            return self.table(d - 1)
        if k < 0.85 and d > 0:
            return ["function", "(", "p", ")", "return", "p", "end"]
        if k < 0.92:
            return self.chain(r.choice([1, 2])) + ["(", ")"]
        return ["{", "}"]

    def chain(self, n, base=None):
        out = [base or self.base()]
        for _ in range(n):
            if self.r.random() < 0.15:
                out += ["[", '"%s"' % self.key(), "]"]
            else:
                out += [".", self.key()]
        return out

    def table(self, d):
        out = ["{"]
        for i in range(self.r.choice([1, 2, 3])):
            k = self.r.random()
            if k < 0.6:
                out += [self.key(), "="] + self.value(d)
            elif k < 0.8:
                out += ["[", '"%s"' % self.key(), "]", "="] + self.value(d)
            else:
                out += self.value(d)
            out += [self.r.choice([",", ";"])]
        return out[:-1] + ["}"] if self.r.random() < 0.7 else out + ["}"]

    def stat(self):
        r = self.r
        k = r.random()
        B, K = self.base, self.key
        if k < 0.10:
            return [r.choice(["local", ""]), B(), "="] + r.choice([["{", "}"], self.table(1)])
        if k < 0.30:
            return self.chain(r.choice([1, 2, 2, 3])) + ["="] + self.value()
        if k < 0.40:
            return ["function"] + self.chain(r.choice([1, 2, 3]))[:] + ["(", "p", ",", "q", ")", "return", "p", ",", r.choice(LOCALS + BASES), "end"]
        if k < 0.50:
            c = self.chain(r.choice([0, 1]))
            return ["function"] + c + [":", K(), "(", "p", ")", "self", ".", K(), "=", "p", r.choice([";", ""]), "return", "self", ",",
                                       "self", ".", K(), "end"]
        if k < 0.56:
            return self.chain(r.choice([0, 1])) + [":", K(), "("] + self.value(0) + [")"]
        if k < 0.62:
            return ["print", "("] + self.chain(r.choice([0, 1, 2])) + [","] + self.chain(r.choice([1, 2])) + [")"]
        if k < 0.68:
            x = r.choice(LOCALS)
            return ["local", x, "="] + self.value() + r.choice([[], [";", "print", "(", x, ")"]])
        if k < 0.72:
            x, y = r.sample(LOCALS, 2)
            return ["local", x, ",", y, "="] + self.value(0) + [","] + self.value(0)
        if k < 0.76:
            return ["local", "function", r.choice(LOCALS + ["foo"]), "(", "p", ")", "return", "p", ",", B(), "end"]
        if k < 0.80:
            return ["for", "i", "=", "1", ",", "3", "do"] + self.chain(1) + ["=", "i", "end"]
        if k < 0.84:
            return ["for", "k", ",", "v", "in", "pairs", "("] + self.chain(r.choice([0, 1])) + [")", "do", "print", "(", "k", ",", "v", ")", "end"]
        if k < 0.88:
            return ["if"] + self.chain(r.choice([0, 1])) + ["then"] + self.chain(2) + ["="] + self.value(0) + ["end"]
        if k < 0.91:
            return ["self", ".", K(), "="] + self.value(0)
        if k < 0.94:
            return ["local", r.choice(LOCALS), "=", "require", "(", '"%s"' % r.choice(["f0", "f1", "sub.f2"]), ")"]
        if k < 0.97:
            return ["return", B()]
        g = luagen.Gen(r, names=BASES + KEYS[:4] + LOCALS[:3], max_depth=2,
                       strings="mixed" if self.mode == "wild" else "none")
        return [t.text.decode("utf8") for t in g.stat(2)]

    def file(self):
        stats = [[x for x in self.stat() if x != ""] for _ in range(self.r.choice([2, 4, 6, 9]))]
        # `return` must be the last statement of its block
        out = []
        for i, st in enumerate(stats):
            if st and st[0] == "return" and i != len(stats) - 1:
                st = ["do"] + st + ["end"]
            out.append(st)
        return out


WILD_FILL = ['"a\\nb"', '"\\65\\x41"', "[[s]]", "[==[ x ]==]", '"\U0001F600"', '"é"', "'\\''"]
WILD_SEP = [" --[[ c ]] ", " --[=[ c ]=] ", "\n\r"]
OKS = [" ", " ", " ", "  ", "\t", "\n", " -- c\n", " -- 中文 note\n", "\n\n", " \x0c "]


def render_srv(stats, rng, mode):
    """-> (text, [(byte offset, name)]) ; statements are joined on one line or by line ends"""
    eol = rng.choice(["\n", "\n", "\r\n", "\r"])
    dense = rng.random() < 0.3
    out = []
    names = []
    pos = 0

    def emit(s):
        nonlocal pos
        out.append(s)
        pos += len(s.encode("utf8"))

    if mode == "wild" and rng.random() < 0.15:
        emit("﻿")
    for si, st in enumerate(stats):
        if si > 0:
            emit(rng.choice([eol, eol, " ", "; ", eol + "\t", " -- c" + eol]))
        # material in front of the statement, on its line: strings with escapes / long brackets / non-ASCII text
        if rng.random() < 0.35:
            fill = rng.choice(WILD_FILL) if mode == "wild" else rng.choice(['"中文"', "'x y'", '"€…"', '""'])
            emit("local _ = " + fill + rng.choice([" ", "; ", "\t"]))
        for ti, t in enumerate(st):
            if ti > 0:
                prev = st[ti - 1]
                tight = dense and not (prev[-1:].isalnum() or prev[-1:] == "_") or not (t[:1].isalnum() or t[:1] == "_") and rng.random() < 0.5
                if prev[-1:] == "-" and t[:1] == "-" or prev[-1:] == "[" and t[:1] in "[=" or prev[-1:] == "." and t[:1] in ".0123456789" \
                        or prev[-1:].isdigit() and t[:1] == ".":
                    tight = False
                if not tight or ((prev[-1:].isalnum() or prev[-1:] == "_") and (t[:1].isalnum() or t[:1] == "_")):
                    sep = rng.choice(OKS if mode == "ok" or rng.random() < 0.8 else WILD_SEP)
                    emit(sep.replace("\n\r", "\0").replace("\n", eol).replace("\0", "\n\r"))
            tb = t.encode("utf8")
            if NAME_RE.match(tb) and t not in SRV_KW:
                names.append((pos, t))
            emit(t)
    if rng.random() < 0.5:
        emit(rng.choice([eol, " -- end 漢", eol + eol]))
    return "".join(out), names


def lsp_positions(text, offsets):
    """byte offsets -> (line, UTF-16 column) under the LSP reading (LF, CRLF, CR)"""
    starts = line_starts(text)
    # char index of every byte offset
    idx = {}
    want = sorted(set(offsets))
    b = 0
    wi = 0
    for ci, ch in enumerate(text):
        while wi < len(want) and want[wi] == b:
            idx[b] = ci
            wi += 1
        b += len(ch.encode("utf8"))
    while wi < len(want):
        idx[want[wi]] = len(text)
        wi += 1
    out = {}
    import bisect
    for o in want:
        ci = idx[o]
        ln = bisect.bisect_right(starts, ci) - 1
        col = sum(2 if ord(c) > 0xFFFF else 1 for c in text[starts[ln]:ci])
        out[o] = (ln, col)
    return out


def hxs(s):
    return s.encode("utf8").hex() if s else "-"


def srv_case(files, qfile, names, rng, max_q):
    """files: [(rel, text)]; names: [(byte offset, name)] of file qfile"""
    text = files[qfile][1]
    items = ["F:%s:%s" % (hxs(p), hxs(t)) for p, t in files]
    items += ["S:open:%d" % i for i in range(len(files))]
    if len(names) > max_q:
        names = rng.sample(names, max_q)
    posn = lsp_positions(text, [o for o, _ in names])
    for o, nm in sorted(names):
        l, c = posn[o]
        c += rng.choice([0, 0, len(nm) // 2, len(nm) - 1])
        for op in ["define", "refs", "highlight"]:
            items.append("S:%s:%d:%d:%d" % (op, qfile, l, c))
        items.append("S:rename:%d:%d:%d:%s" % (qfile, l, c, hxs(rng.choice(["zz", "network", "q_1"]))))
    items += ["S:docsym:%d" % i for i in range(len(files))]
    items += ["S:wssym:%s" % hxs(rng.choice(["", "", "a", "net", "M."])), "S:diags"]
    return " ".join(items)


# ---- annotation blocks (names written in COMMENTS: ---@class / ---@alias / ---@field, type names inside annotation types).
# The lines of one comment block start in DIFFERENT columns (a `-- note` in column 0 directly followed by indented
# ---@class / ---@field lines inside a function body, and the reverse; tabs; CJK text before the annotation on the line);
# typed variables (`---@type Point` + `local p`), members resolved to a ---@field (`p.xpos`).
ANN_CLASSES = ["Point", "Other", "ns.Vec", "Shape_2", "T1"]
ANN_ALIASES = ["Mode", "Num", "Handler"]
ANN_FIELDS = ["xpos", "ypos", "name", "cb", "arr", "w"]
ANN_PRIMS = ["number", "string", "boolean", "any", "table"]
ANN_INDENTS = ["", "", "  ", "    ", "\t", "\t\t", " \t", "      "]
ANN_NOTES = ["scratch types used below", "note", "中文 说明", "漢字 note", "x", "TODO: 说明 types"]


class AnnFile:
    """one Lua file built line by line; records (byte offset, name, kind): kind "id" = Lua identifier occurrence,
    "ty" = type name inside an annotation"""
    def __init__(self, rng, defined):
        self.r = rng
        self.eol = rng.choice(["\n", "\n", "\r\n", "\r"])
        self.out, self.pos, self.marks = [], 0, []
        self.defined = defined              # class / alias names defined somewhere in the workspace
        self.vars = []                      # (variable, class) typed so far in this file
        self.nvar = 0
        self.lua = SrvGen(rng, "ok")

    def emit(self, s):
        self.out.append(s)
        self.pos += len(s.encode("utf8"))

    def line(self, parts):
        """parts: strings or (name, kind) marks"""
        for p in parts:
            if isinstance(p, tuple):
                self.marks.append((self.pos, p[0], p[1]))
                self.emit(p[0])
            else:
                self.emit(p)
        self.emit(self.eol)

    def tyname(self, allow_undef=False):
        r = self.r
        if allow_undef and r.random() < 0.06:
            return ("Undef%d" % r.randrange(3), "ty")
        if self.defined and r.random() < 0.7:
            return (r.choice(self.defined), "ty")
        return r.choice(ANN_PRIMS)

    def tyexpr(self):
        r = self.r
        k = r.random()
        T = lambda: self.tyname(True)
        if k < 0.45:
            return [T()]
        if k < 0.65:
            return [T(), r.choice(["|", " | ", "| "]), T()]
        if k < 0.75:
            return [T(), "[]"]
        if k < 0.85:
            return ["table<string, ", T(), ">"]
        if k < 0.93:
            return ["fun(a: ", T(), ", b: ", T(), "): ", T()]
        return ['"中文"', " | ", T()] if r.random() < 0.5 else ['"a" | "b" | ', T()]

    def indents(self, base, n):
        """n indentations for the lines of one comment block: aligned, or every line in its own column"""
        r = self.r
        if r.random() < 0.35:
            return [base] * n
        pool = [base, base, "", "\t", base + "  ", base + "\t", "  ", "    "]
        return [r.choice(pool) for _ in range(n)]

    def note(self, ind):
        self.line([ind, self.r.choice(["-- ", "--", "--- ", "--  "]), self.r.choice(ANN_NOTES)])

    def class_block(self, base, name):
        r = self.r
        nf = r.choice([0, 1, 2, 3])
        before, after = r.random() < 0.55, r.random() < 0.15
        inds = self.indents(base, before + 1 + nf + after)
        i = 0
        if before:
            self.note(inds[i]); i += 1
        head = [inds[i], r.choice(["---@class ", "---@class ", "---@class  ", "---@class\t"]), name]; i += 1
        others = [c for c in self.defined if c != name and c in ANN_CLASSES]
        if others and r.random() < 0.3:
            head += [r.choice([" : ", ": ", " :"]), (r.choice(others), "ty")]
        if r.random() < 0.3:
            head += [" @", r.choice(ANN_NOTES)]
        self.line(head)
        fields = r.sample(ANN_FIELDS, nf)
        for f in fields:
            ln = [inds[i], "---@field ", r.choice(["", "", "public "]), f, " "] + self.tyexpr(); i += 1
            if r.random() < 0.3:
                ln += [" @", r.choice(ANN_NOTES)]
            self.line(ln)
        if after:
            self.note(inds[i])
        var = name.replace(".", "_")
        self.line([base, r.choice(["local ", "local ", ""]), (var, "id"), " = {}"])
        return fields

    def alias_block(self, base, name):
        r = self.r
        before = r.random() < 0.5
        inds = self.indents(base, before + 1)
        if before:
            self.note(inds[0])
        self.line([inds[-1], "---@alias ", name, " "] + self.tyexpr())

    def typed_var(self, base, cls, fields):
        r = self.r
        self.nvar += 1
        v = "%s%d" % (r.choice(["p", "q", "v"]), self.nvar)
        k = r.random()
        if k < 0.2:            # tail comment, possibly after CJK text on the line
            self.line([base, "local ", (v, "id"), " = ", r.choice(['{}', '"中文"', "nil", '"x y"']), r.choice([" ", "  ", "\t"]),
                       "---@type ", (cls, "ty")])
        else:
            before = r.random() < 0.5
            inds = self.indents(base, before + 1)
            if before:
                self.note(inds[0])
            self.line([inds[-1], r.choice(["---@type ", "---@type ", "---@type  ", "---@type\t"]), (cls, "ty")] +
                      ([r.choice(["|", " | "]), self.tyname(True)] if r.random() < 0.3 else []))
            self.line([base, "local ", (v, "id"), " = ", r.choice(["{}", "nil", "make()"])])
        self.vars.append((v, fields))
        return v

    def use(self, base):
        r = self.r
        if not self.vars:
            return
        v, fields = r.choice(self.vars)
        f = r.choice(fields) if fields and r.random() < 0.85 else r.choice(ANN_FIELDS)
        k = r.random()
        if k < 0.4:
            self.line([base, "print(", (v, "id"), ".", (f, "id"), ", ", (v, "id"), ")"])
        elif k < 0.7:
            self.line([base, (v, "id"), ".", (f, "id"), " = 1"])
        else:
            self.line([base, "local _ = ", r.choice(['"中文"', "'x'", "{}"]), "; print(", (v, "id"), ".", (f, "id"), ")"])

    def func_block(self, base):
        r = self.r
        n = r.choice([1, 2])
        params = ["a", "b"][:n]
        lines = [["---@param ", (p, "par"), " ", self.tyname(True)] for p in params] + [["---@return ", self.tyname(True)]]
        before = r.random() < 0.4
        inds = self.indents(base, before + len(lines))
        if before:
            self.note(inds[0])
        for ind, ln in zip(inds[before:], lines):
            self.line([ind] + [x if not (isinstance(x, tuple) and x[1] == "par") else x[0] for x in ln])
        fn = r.choice(["f", "g", "mk"])
        self.line([base, r.choice(["local function ", "function "]), (fn, "id"), "("] +
                  sum([[(p, "id"), ", "] for p in params], [])[:-1] + [") return ", (params[0], "id"), " end"])

    def lua_stat(self, base):
        toks = [t for t in self.lua.stat() if t != ""]
        if toks and toks[0] == "return":
            toks = ["do"] + toks + ["end"]
        parts = [base]
        for i, t in enumerate(toks):
            if i > 0:
                parts.append(" ")
            parts.append((t, "id") if NAME_RE.match(t.encode("utf8")) and t not in SRV_KW else t)
        if self.r.random() < 0.15:
            parts.append(self.r.choice([" -- c", " -- 中文 note"]))
        self.line(parts)

    def build(self, defs):
        """defs: the class / alias names this file defines"""
        r = self.r
        if r.random() < 0.1:
            self.note("")
            self.line([""])
        classes = {}
        depth = 0
        base = ""
        todo = list(defs)
        steps = r.choice([3, 5, 8])
        while todo or steps > 0:
            steps -= 1
            k = r.random()
            if depth == 0 and k < 0.3:
                self.line([base, r.choice(["local function make()", "do", "function build()", "if cond then"])])
                depth, base = 1, r.choice(["  ", "    ", "\t"])
                continue
            if depth == 1 and k < 0.2:
                depth, base = 0, ""
                self.line(["end"])
                continue
            if todo and k < 0.6:
                nm = todo.pop(0)
                if nm in ANN_ALIASES:
                    self.alias_block(base, nm)
                else:
                    classes[nm] = self.class_block(base, nm)
            elif k < 0.75:
                # mostly a class; sometimes an alias (a variable typed by an alias of table<K, V> / V[]: the members
                # resolve to the value type written in the alias definition, possibly in another file)
                known = [c for c in self.defined if c in ANN_CLASSES or r.random() < 0.35]
                if known:
                    c = r.choice(known)
                    self.typed_var(base, c, classes.get(c, []))
            elif k < 0.85:
                self.use(base)
            elif k < 0.92:
                self.func_block(base)
            else:
                self.lua_stat(base)
        if self.vars:
            self.use(base)
        if depth:
            self.line(["end"])
        text = "".join(self.out)
        if r.random() < 0.3:          # no line end after the last line
            text = text[:len(text) - len(self.eol)]
        return text, self.marks


def ann_case(rng):
    nfiles = rng.choice([1, 1, 1, 2, 2, 3])
    names = rng.sample(ANN_CLASSES, rng.choice([1, 2, 3])) + rng.sample(ANN_ALIASES, rng.choice([0, 1, 2]))
    rng.shuffle(names)
    owner = [rng.randrange(nfiles) for _ in names]
    files, marks = [], []
    for f in range(nfiles):
        g = AnnFile(rng, names)
        text, mk = g.build([n for n, o in zip(names, owner) if o == f])
        files.append(("f%d.lua" % f if f < 2 else "sub/f2.lua", text))
        marks.append(mk)
    items = ["F:%s:%s" % (hxs(p), hxs(t)) for p, t in files]
    items += ["S:open:%d" % i for i in range(len(files))]
    for f in range(nfiles):
        text = files[f][1]
        mk = marks[f]
        if len(mk) > 24:
            mk = rng.sample(mk, 24)
        posn = lsp_positions(text, [o for o, _, _ in mk])
        for o, nm, kind in sorted(mk):
            l, c = posn[o]
            c += rng.choice([0, 0, len(nm) // 2, len(nm) - 1, len(nm)])
            items.append("S:define:%d:%d:%d" % (f, l, c))
            if kind == "id" and rng.random() < 0.5:
                items.append("S:refs:%d:%d:%d" % (f, l, c))
                items.append("S:rename:%d:%d:%d:%s" % (f, l, c, hxs(rng.choice(["zz", "q_1"]))))
    items += ["S:docsym:%d" % i for i in range(len(files))]
    items += ["S:wssym:%s" % hxs(rng.choice(["", "", "P", "o", "ns."])), "S:diags"]
    return " ".join(items)


# ---- members defined in ANOTHER file than their table (seeded/C04-6: FindReferenceVarDefine took the FILE of a member's
# definition from the parent table: `M = {}` in one file, `M.yy = 2` / `function M.f()` in another - references / rename /
# highlight reported the member's Loc under the table's URI). The table file and the member file have DIFFERENT layouts
# (head comments, indentation, other statements in front), so a Loc carried over to the wrong file does not designate the name.
X_TABLES = ["M", "cfg", "Mod_1", "registry"]
X_MEMBERS = ["yy", "port", "name_1", "zz", "handler", "k"]
X_HEADS = ["-- members of %s, added by another file", "-- 中文 说明", "", "local _ = 0", "-- c", "\t-- note", "local unused_1 = {}"]


def cross_case(rng):
    eol = rng.choice(["\n", "\n", "\r\n", "\r"])
    tb = rng.choice(X_TABLES)
    subs = rng.sample(["sub", "net", "inner"], rng.choice([0, 1, 1, 2]))
    mems = rng.sample(X_MEMBERS, rng.choice([1, 2, 3]))
    nfiles = rng.choice([2, 2, 2, 3])
    rels = ["a.lua", "b.lua", "sub/c.lua"][:nfiles]
    if rng.random() < 0.3:
        rels = rels[::-1]                       # the member file sorts BEFORE the table file
    lines = [[] for _ in range(nfiles)]         # per file: list of part lists (strings or (name, "id") marks)
    home = {}                                   # chain (tuple) -> file that defines it
    tfile = 0
    # heads: every file starts differently
    for f in range(nfiles):
        for _ in range(rng.choice([0, 1, 2, 4]) if f == tfile else rng.choice([1, 2, 3, 5, 7])):
            h = rng.choice(X_HEADS)
            lines[f].append([h % tb if "%s" in h else h])
    lines[tfile].append([rng.choice(["", "", "  "]), (tb, "id"), " = ", rng.choice(["{}", "{ }", "{ version = 1 }"])])
    chains = []
    for sname in subs:                          # sub-tables: defined in the table file or elsewhere
        f = tfile if rng.random() < 0.5 else rng.randrange(nfiles)
        lines[f].append([rng.choice(["", " ", "\t"]), (tb, "id"), ".", (sname, "id"), " = {}"])
        home[(tb, sname)] = f
    for m in mems:
        owner = [tb] + ([rng.choice(subs)] if subs and rng.random() < 0.45 else [])
        f = rng.choice([x for x in range(nfiles) if x != tfile]) if rng.random() < 0.85 else tfile
        ind = rng.choice(["", "", "  ", "\t", "      "])
        pre = rng.choice([[], [], ["local _ = ", rng.choice(['"中文"', "'x y'", "0"]), "; "]])
        ch = sum([[(o, "id"), "."] for o in owner], [])
        k = rng.random()
        if k < 0.45:
            lines[f].append([ind] + pre + ch + [(m, "id"), " = ", rng.choice(["2", '"v"', "{}", "function() end"])])
        elif k < 0.75:
            lines[f].append([ind] + pre + ["function "] + ch + [(m, "id"), "(p) return p end"])
        elif k < 0.9:
            lines[f].append([ind] + pre + ["function "] + ch[:-1] + [":", (m, "id"), "(p) return p end"])
        else:
            lines[f].append([ind] + pre + ch + [(m, "id"), " = ", (tb, "id"), ".", (m, "id"), " or 1"])
        chains.append(owner + [m])
    for f in range(nfiles):                     # uses in every file
        for _ in range(rng.choice([1, 2, 3])):
            c = rng.choice(chains)
            ch = sum([[(o, "id"), "."] for o in c[:-1]], []) + [(c[-1], "id")]
            k = rng.random()
            ind = rng.choice(["", "", "  ", "\t"])
            if k < 0.4:
                lines[f].append([ind, "print("] + ch + [")"])
            elif k < 0.6:
                c2 = rng.choice(chains)
                ch2 = sum([[(o, "id"), "."] for o in c2[:-1]], []) + [(c2[-1], "id")]
                lines[f].append([ind, "print("] + ch + [" , "] + ch2 + [")"])
            elif k < 0.8:
                lines[f].append([ind, "local v%d = " % rng.randrange(9)] + ch)
            else:
                lines[f].append([ind] + ch + [" = 3"])
    if rng.random() < 0.3:                      # the table itself used after the members
        lines[rng.randrange(nfiles)].append(["return ", (tb, "id")])
    files, marks = [], []
    for f in range(nfiles):
        out, pos, mk = [], 0, []
        for ln in lines[f]:
            for part in ln:
                if isinstance(part, tuple):
                    mk.append((pos, part[0]))
                    part = part[0]
                out.append(part)
                pos += len(part.encode("utf8"))
            out.append(eol)
            pos += len(eol)
        text = "".join(out)
        if rng.random() < 0.25:
            text = text[:len(text) - len(eol)]
        files.append((rels[f], text))
        marks.append(mk)
    items = ["F:%s:%s" % (hxs(p), hxs(t)) for p, t in files]
    order = list(range(nfiles))
    rng.shuffle(order)
    nopen = rng.choice([nfiles, nfiles, 1, 0])  # also files the server only knows from the workspace scan
    items += ["S:open:%d" % i for i in order[:nopen]]
    for f in range(nfiles):
        mk = [x for x in marks[f] if x[1] != tb or rng.random() < 0.3]
        if len(mk) > 10:
            mk = rng.sample(mk, 10)
        posn = lsp_positions(files[f][1], [o for o, _ in mk])
        for o, nm in sorted(mk):
            l, c = posn[o]
            c += rng.choice([0, 0, len(nm) // 2, len(nm) - 1, len(nm)])
            for op in rng.sample(["define", "refs", "highlight"], rng.choice([2, 3])):
                items.append("S:%s:%d:%d:%d" % (op, f, l, c))
            items.append("S:rename:%d:%d:%d:%s" % (f, l, c, hxs(rng.choice(["zz9", "renamed", "q_1"]))))
    # the outline only sometimes: a row is accepted as a known-finding instance when ANY of its classes is open (lib/vlib.py
    # classify), and documentSymbol answers nearly always carry the open class outline_span - a case that also holds a
    # range of the repaired class wrong_file would pass as known
    if rng.random() < 0.3:
        items += ["S:docsym:%d" % i for i in range(nfiles)]
    items += ["S:wssym:%s" % hxs(rng.choice(["", tb, tb + "."])), "S:diags"]
    return " ".join(items)


# ---- plain globals / global functions defined in ANOTHER file than the one asked in (seeded/C04-7: documentHighlight added
# the DEFINITION's range unconditionally; a highlight carries no URI, so the other file's line / column came back as a range
# of the asked document). The defining file and the using files have DIFFERENT layouts (head comments, indentation,
# statements in front; using files often SHORTER than the definition's line number), so a Loc carried over from the other
# file lies outside the asked document or does not designate the name there.
G_VARS = ["g_count", "Config_1", "APP_NAME", "limit", "registry2", "on_ready"]
G_FUNS = ["handler_1", "make_widget", "util_trim", "Init", "dispatch"]


def gcross_case(rng):
    eol = rng.choice(["\n", "\n", "\r\n", "\r"])
    nfiles = rng.choice([2, 2, 2, 3])
    rels = ["a.lua", "b.lua", "sub/c.lua"][:nfiles]
    if rng.random() < 0.3:
        rels = rels[::-1]                       # the using file sorts BEFORE the defining file
    names = rng.sample(G_VARS, rng.choice([1, 2])) + rng.sample(G_FUNS, rng.choice([1, 2]))
    rng.shuffle(names)
    lines = [[] for _ in range(nfiles)]
    dfile = 0
    for f in range(nfiles):
        for _ in range(rng.choice([2, 3, 5, 8, 12]) if f == dfile else rng.choice([0, 0, 1, 2, 4])):
            h = rng.choice(X_HEADS)
            lines[f].append([h % "globals" if "%s" in h else h])
    for nm in names:                            # definitions: mostly in the defining file, far down and indented
        f = dfile if rng.random() < 0.85 else rng.randrange(nfiles)
        ind = rng.choice(["", "  ", "\t", "      ", "          "])
        pre = rng.choice([[], [], ["local _ = ", rng.choice(['"中文"', "'x y'", "0"]), "; "]])
        if nm in G_FUNS:
            k = rng.random()
            if k < 0.6:
                lines[f].append([ind] + pre + ["function ", (nm, "id"), "(p, q) return p end"])
            elif k < 0.8:
                lines[f].append([ind] + pre + [(nm, "id"), " = function(p) return p end"])
            else:
                lines[f] += [["--- doc of " + nm], [ind] + pre + ["function ", (nm, "id"), "(p)"], [ind, "  return p"], [ind, "end"]]
        else:
            lines[f].append([ind] + pre + [(nm, "id"), " = ", rng.choice(["2", '"v"', "{}", "{ k = 1 }", "nil or 0"])])
        if rng.random() < 0.3:
            lines[f].append([rng.choice(X_HEADS[1:])])
    for f in range(nfiles):                     # uses in every file (few in the defining file)
        for _ in range(rng.choice([1, 2, 3]) if f != dfile else rng.choice([0, 1])):
            nm = rng.choice(names)
            ind = rng.choice(["", "", "  ", "\t"])
            k = rng.random()
            if nm in G_FUNS and k < 0.6:
                lines[f].append([ind, rng.choice(["", "local r = ", "print("]), (nm, "id"), "(1, 2)"])
                if lines[f][-1][1] == "print(":
                    lines[f][-1].append(")")
            elif k < 0.75:
                nm2 = rng.choice(names)
                lines[f].append([ind, "print(", (nm, "id"), ", ", (nm2, "id"), ")"])
            elif k < 0.9:
                lines[f].append([ind, "local v%d = " % rng.randrange(9), (nm, "id")])
            else:
                lines[f].append([ind, "if ", (nm, "id"), " then print(", (nm, "id"), ") end"])
    files, marks = [], []
    for f in range(nfiles):
        out, pos, mk = [], 0, []
        for ln in lines[f]:
            for part in ln:
                if isinstance(part, tuple):
                    mk.append((pos, part[0]))
                    part = part[0]
                out.append(part)
                pos += len(part.encode("utf8"))
            out.append(eol)
            pos += len(eol)
        text = "".join(out)
        if rng.random() < 0.25:
            text = text[:len(text) - len(eol)]
        files.append((rels[f], text))
        marks.append(mk)
    items = ["F:%s:%s" % (hxs(p), hxs(t)) for p, t in files]
    order = list(range(nfiles))
    rng.shuffle(order)
    # position queries are answered for OPEN documents only: all files open, or all but the defining file (which the
    # server then knows from the workspace scan only), or a single using file
    k = rng.random()
    opened = order if k < 0.6 else ([i for i in order if i != dfile] if k < 0.9 else [rng.choice([i for i in order if i != dfile])])
    items += ["S:open:%d" % i for i in opened]
    for f in sorted(opened):
        mk = marks[f]
        if len(mk) > 8:
            mk = rng.sample(mk, 8)
        posn = lsp_positions(files[f][1], [o for o, _ in mk])
        for o, nm in sorted(mk):
            l, c = posn[o]
            c += rng.choice([0, 0, len(nm) // 2, len(nm) - 1, len(nm)])
            items.append("S:highlight:%d:%d:%d" % (f, l, c))
            for op in rng.sample(["define", "refs"], rng.choice([1, 2])):
                items.append("S:%s:%d:%d:%d" % (op, f, l, c))
            if rng.random() < 0.5:
                items.append("S:rename:%d:%d:%d:%s" % (f, l, c, hxs(rng.choice(["zz9", "renamed", "q_1"]))))
    # no documentSymbol steps here: their answers carry the open class outline_span, and a row is accepted as a
    # known-finding instance when ANY of its classes is open (lib/vlib.py classify) - a range of the repaired class wrong_file
    # in the same case would pass as known
    items += ["S:wssym:%s" % hxs(rng.choice(["", names[0], names[0][:2]])), "S:diags"]
    return " ".join(items)


def gen_ranges(rng, tier):
    n = {"quick": 400, "thorough": 12000, "search": 300}[tier]
    out = []
    for k in range(n):
        if rng.random() < 0.4:
            out.append(ann_case(rng))
            continue
        if rng.random() < 0.2:
            out.append(cross_case(rng))
            continue
        if rng.random() < 0.12:
            out.append(gcross_case(rng))
            continue
        mode = "ok" if rng.random() < 0.8 else "wild"
        nfiles = rng.choice([1, 1, 1, 2, 3])
        files, allnames = [], []
        for f in range(nfiles):
            g = SrvGen(rng, mode)
            text, names = render_srv(g.file(), rng, mode)
            if rng.random() < 0.08:      # near-valid: damage
                i = rng.randrange(len(text) + 1)
                text2 = text[:i] + rng.choice(["(", "'", "end", " = ", "$", "]]"]) + text[i:]
                text, names = text2, []
            files.append(("f%d.lua" % f if f < 2 else "sub/f2.lua", text))
            allnames.append(names)
        q = rng.randrange(nfiles)
        if not allnames[q]:
            q = max(range(nfiles), key=lambda i: len(allnames[i]))
        out.append(srv_case(files, q, allnames[q], rng, 30))
    return out


def describe_ranges(c):
    fs = [it for it in c.split(" ") if it.startswith("F:")]
    return " ### ".join(bytes.fromhex(f.split(":")[2]).decode("utf8", "replace") if f.split(":")[2] != "-" else "" for f in fs)[:400]


PROJ = {}


def spec_proj_for(case_holder):
    return None


class C04Leg(Leg):
    pass


def main(tier, seed):
    r = vlib.Runner("C04", tier, seed)
    r.build()
    holder = {}
    leg = Leg("c04.toks", gen_toks, skip_model=lambda m: m.startswith("SKIP"),
              nontrivial=lambda c: len(c.split(" ")[0]) > 40,
              describe=lambda c: bytes.fromhex(c.split(" ")[0]).decode("utf8", "replace")[:300] if c[0] != "-" else "")
    # the projection needs the case text: classify() calls py_spec(case) first, so remember the case there
    leg.py_spec = lambda c: (holder.__setitem__("case", c), "COVERED")[1]
    leg.spec_proj = lambda obs: coverage(holder["case"], obs)
    nleg = Leg("c04.names", gen_names, skip_model=lambda m: m.startswith("SKIP"),
               nontrivial=lambda c: len(c.split(" ")[0]) > 40,
               describe=lambda c: bytes.fromhex(c.split(" ")[0]).decode("utf8", "replace")[:300] if c[0] != "-" else "")
    nleg.py_spec = lambda c: (holder.__setitem__("ncase", c), "NAMESCOVERED")[1]
    nleg.spec_proj = lambda obs: names_coverage(holder["ncase"], obs)
    eleg = Leg("c04.errlocs", gen_errlocs, skip_model=lambda m: m.startswith("SKIP"),
               nontrivial=lambda c: len(c) > 40,
               describe=lambda c: bytes.fromhex(c.split(" ")[0]).decode("utf8", "replace")[:300] if c[0] != "-" else "")
    # the ranges the REAL server sends: the oracle leg c04.srvans runs the scripted server once per case and appends its
    # answer; the implementation observable is that answer, the spec column is the answer again iff every range in it passes
    # the judgement extracted from Coq (range_in_doc / ranges_designate, theorem C04_designate_sound)
    rleg = Leg("c04.ranges", gen_ranges, oracle="c04.srvans", per_case_s=2.0, jobs=16,
               skip_model=lambda m: m.startswith("SKIP") or m == "BAD-CASE",
               nontrivial=lambda c: c.count(" S:") > 8, describe=describe_ranges)
    # every offending range of an answer carries its own class: the row is known only if ALL of them are open
    rleg.all_classes = True
    legs = [leg, nleg, eleg, rleg]
    can_run = r.can_run()
    extra = {}
    if can_run:
        r.replay_findings({l.name: l for l in legs})
        rows = r.run_leg(leg)
        r.run_leg(nleg)
        r.run_leg(eleg)
        rrows = r.run_leg(rleg)
        nr = sum(1 for c, i, m, s, cls in rrows if s == m and m.startswith("A:"))
        extra_ranges = {"server_cases_all_ranges_right": nr, "server_cases": len(rrows)}
        # the two readings of the spec (Gallina covers/slice_lsp on the model's Locs, Python slicing) must agree
        dis = 0
        cls_count = {}
        ok_files = 0
        for c, i, m, s, cls in rows:
            if m.startswith("SKIP") or m == "BAD-CASE":
                continue
            g = "gcov1" in cls.split(",")
            holder["case"] = c
            p = coverage(c, m) == "COVERED"
            if m.startswith("L: T:") and g != p:
                dis += 1
            ks = [x for x in cls.split(",") if not x.startswith("gcov")]
            if not ks:
                ok_files += 1
            for k in ks:
                cls_count[k] = cls_count.get(k, 0) + 1
        extra = {"spec_readings_disagree": dis, "files_inside_guard": ok_files, "class_counts": cls_count}
        extra.update(extra_ranges)
        if dis:
            r.build_problems.append(("model-build", "Spec/LspRange.v vs Python reading of the LSP range", "%d disagreements" % dis))
    return r.finish(legs, extra_cov=extra, trusted=vlib.TRUSTED_COMMON + [
        "modelled, tied by correspondence: position bookkeeping of lexer.go (GetNowTokenLoc), LocToRange",
        "independent Python reading of LSP ranges (UTF-16 columns; LF, CRLF, CR) cross-checks Spec/LspRange.v on every case"],
        assumptions=["leg c04.ranges judges the answers of the real server (definition, references, highlight, rename, documentSymbol, workspace/symbol, diagnostics) with the predicates proved sound by C04_designate_sound (identifier tokens) and C04_text_designate_sound (names written in comments: annotation classes / aliases / fields / type names; the text under the range is the name); there is no model of the handlers in this property: that every answer passes is established for the generated cases only (the handlers' models belong to C05/C06/C11/C19)"])
