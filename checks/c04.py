# C04 - every reported range lies in the document and covers what it names (DESIGN 5, C04)
import re
import vlib, luagen
from vlib import Leg, hexs

RAW_EXCLUDED = {"59", "0", "1"}          # TkString, IKIllegal, TkEOF (their recorded text is not the source text)


class OkGen(luagen.Gen):
    """programs inside the guard of C04_tok_range_exact: no escapes, no long brackets, no astral / 2-byte characters"""
    def short_string(self):
        r = self.r
        q = r.choice(['"', "'"])
        body = "".join(r.choice(list("abcxyz 0123_-+*/.,;:(){}<>=~#%^&|!?@$") + ["中", "文", "漢", "か", "한", "€", "…", "\t"])
                       for _ in range(r.choice([0, 1, 2, 3, 5, 9])))
        return luagen.Tok("string", (q + body + q).encode("utf8"))

    def string(self):
        return self.short_string()


OK_SEPS = [b" ", b" ", b"  ", b"\t", b"\n", b"\r\n", b"\r", b" -- c\n", b" -- \xe4\xb8\xad\xe6\x96\x87 note\r\n", b"\n\n", b"\x0b", b" \x0c "]


def render_ok(tokens, rng):
    out = bytearray()
    if tokens and tokens[0].text.startswith(b"#"):
        out += b" "
    for i, t in enumerate(tokens):
        if i > 0:
            sep = rng.choice(OK_SEPS)
            if out.endswith(b"-") and sep.startswith(b"-"):
                sep = b" " + sep
            out += sep
        out += t.text
    if rng.random() < 0.3:
        out += rng.choice([b"\n", b" -- end \xe6\xbc\xa2", b"\r\n"])
    return bytes(out)


def case_of(bs):
    s = bs.decode("utf8")
    return hexs(bs) + " " + (",".join(str(ord(c)) for c in s) if s else "-")


def gen_toks(rng, tier):
    n = {"quick": 3000, "thorough": 100000, "search": 3000}[tier]
    out = []
    for k in range(n):
        if rng.random() < 0.6:
            toks = OkGen(rng, max_depth=rng.choice([1, 2, 3])).chunk()
            out.append(case_of(render_ok(toks, rng)))
        else:
            toks = luagen.Gen(rng, max_depth=rng.choice([1, 2, 3]), strings=rng.choice(["mixed", "unicode", "escapes"])).chunk()
            bs = luagen.render(toks, rng, "wild")
            if rng.random() < 0.2:
                bs = bs.replace(b"\r\n", b"\n\r", 1)
            try:
                bs.decode("utf8")
            except UnicodeDecodeError:
                continue
            out.append(case_of(bs))
    return out


# ---- independent Python reading of "the text under the range" (UTF-16 columns, LF / CRLF / CR line ends)
def line_starts(text):
    starts = [0]
    i = 0
    while i < len(text):
        c = text[i]
        if c == "\r":
            if i + 1 < len(text) and text[i + 1] == "\n":
                i += 1
            starts.append(i + 1)
        elif c == "\n":
            starts.append(i + 1)
        i += 1
    return starts


def pos_to_index(text, starts, line, col):
    if line < 0 or line >= len(starts) or col < 0:
        return None
    i = starts[line]
    units = 0
    while units < col:
        if i >= len(text) or text[i] in "\r\n":
            return None
        units += 2 if ord(text[i]) > 0xFFFF else 1
        i += 1
    return i if units == col else None


TOK = re.compile(r" (\d+):([0-9a-f]+|-)@(-?\d+)\.(-?\d+)\.(-?\d+)\.(-?\d+)")


def coverage(case, obs):
    """COVERED iff every raw token's range lies in the document, start <= end, and the text under it is the token"""
    if not obs.startswith("L: T:"):
        # a file with lexical errors: no token Locs are compared by this leg (outside its domain)
        return "COVERED" if obs.startswith("L:") else "?" + obs[:12]
    text = bytes.fromhex(case.split(" ")[0]).decode("utf8") if case.split(" ")[0] != "-" else ""
    starts = line_starts(text)
    for m in TOK.finditer(obs):
        kind, hx, sl, sc, el, ec = m.group(1), m.group(2), int(m.group(3)), int(m.group(4)), int(m.group(5)), int(m.group(6))
        if kind in RAW_EXCLUDED:
            continue
        want = bytes.fromhex(hx).decode("utf8") if hx != "-" else ""
        a = pos_to_index(text, starts, sl - 1, sc)
        b = pos_to_index(text, starts, el - 1, ec)
        if a is None or b is None or a > b or text[a:b] != want:
            return "NOTCOVERED"
    return "COVERED"


# ---- names leg: every name-bearing AST node (NameExp, local / parameter / loop variable, local function name)
NAME_PATS = [re.compile(r"\((?:nm|fornum|localfn) ([0-9a-f]+)@(-?\d+)\.(-?\d+)\.(-?\d+)\.(-?\d+)")]
LIST_PAT = re.compile(r"\((?:local|forin) \[((?: [0-9a-f]+@-?\d+\.-?\d+\.-?\d+\.-?\d+(?::\d+)?)*) \]|\(fn (?:[0-9a-f]+|-) (?:[0-9a-f]+|-) [01] ([01]) \[((?: [0-9a-f]+@-?\d+\.-?\d+\.-?\d+\.-?\d+)*) \]")
ITEM = re.compile(r"([0-9a-f]+)@(-?\d+)\.(-?\d+)\.(-?\d+)\.(-?\d+)")


def named_locs(obs):
    out = []
    for p in NAME_PATS:
        out += [m.groups() for m in p.finditer(obs)]
    for m in LIST_PAT.finditer(obs):
        if m.group(1) is not None:
            out += [x.groups() for x in ITEM.finditer(m.group(1))]
        else:
            items = [x.groups() for x in ITEM.finditer(m.group(3) or "")]
            # `function a:m()`: the first parameter is the synthetic `self` (placed at the method name, not in the text)
            out += items[1:] if m.group(2) == "1" else items
    return out


def names_coverage(case, obs):
    """NAMESCOVERED iff the file has a syntax error (no demand) or every name-bearing node's range lies in the document,
    has start <= end and the text under it (LSP reading) is exactly the identifier"""
    if not obs.startswith("OK L: P: AST:"):
        return "NAMESCOVERED" if (obs.startswith("OK ") or obs == "TOOMANY") else "?" + obs[:12]
    text = bytes.fromhex(case.split(" ")[0]).decode("utf8") if case.split(" ")[0] != "-" else ""
    starts = line_starts(text)
    for hx, sl, sc, el, ec in named_locs(obs):
        want = bytes.fromhex(hx).decode("utf8", "replace")
        a = pos_to_index(text, starts, int(sl) - 1, int(sc))
        b = pos_to_index(text, starts, int(el) - 1, int(ec))
        if a is None or b is None or a > b or text[a:b] != want:
            return "NOTCOVERED:%s@%s.%s.%s.%s" % (want, sl, sc, el, ec)
    return "NAMESCOVERED"


def gen_names(rng, tier):
    n = {"quick": 1500, "thorough": 60000, "search": 1500}[tier]
    out = []
    for k in range(n):
        if rng.random() < 0.8:
            toks = OkGen(rng, max_depth=rng.choice([1, 2, 3, 4])).chunk()
            out.append(case_of(render_ok(toks, rng)))
        else:
            toks = luagen.Gen(rng, max_depth=rng.choice([1, 2, 3]), strings=rng.choice(["mixed", "unicode", "escapes"])).chunk()
            bs = luagen.render(toks, rng, "wild")
            try:
                bs.decode("utf8")
            except UnicodeDecodeError:
                continue
            out.append(case_of(bs))
    return out


ILLEGAL = [b"$", b"@", b"!", b"`", b"?", b"\\", b"\xe4\xb8\xad", b"\xc3\xa9", b"$$", b"@x", b"\x01", b"\x7f"]


def gen_errlocs(rng, tier):
    """near-valid programs with illegal tokens / unfinished strings at line ends, in the middle of lines and at the end of
    the file, under all three line-ending conventions: the token Locs AFTER the lexical error are compared"""
    n = {"quick": 1500, "thorough": 60000, "search": 1500}[tier]
    out = []
    for k in range(n):
        toks = OkGen(rng, max_depth=rng.choice([1, 2, 3])).chunk()
        eol = rng.choice([b"\n", b"\r\n", b"\r", b"\n", b"\r\n"])
        lines = render_ok(toks, rng).replace(b"\r\n", b"\n").replace(b"\r", b"\n").split(b"\n")
        for _ in range(rng.choice([1, 1, 2, 3])):
            i = rng.randrange(len(lines))
            bad = rng.choice(ILLEGAL + [b"'abc", b'"x y', b"0x", b"1e", b"[=", b"--[==[ open"])
            m = rng.random()
            if m < 0.5:
                lines[i] = lines[i] + rng.choice([b"", b" ", b"  "]) + bad           # last thing on the line
            elif m < 0.8:
                j = rng.randrange(len(lines[i]) + 1)
                lines[i] = lines[i][:j] + b" " + bad + b" " + lines[i][j:]
            else:
                lines[i] = bad + b" " + lines[i]
        bs = eol.join(lines)
        try:
            bs.decode("utf8")
        except UnicodeDecodeError:
            pass
        out.append(hexs(bs))
    return out


PROJ = {}


def spec_proj_for(case_holder):
    return None


class C04Leg(Leg):
    pass


def main(tier, seed):
    r = vlib.Runner("C04", tier, seed)
    r.build()
    holder = {}
    leg = Leg("c04.toks", gen_toks, skip_model=lambda m: m.startswith("SKIP"),
              nontrivial=lambda c: len(c.split(" ")[0]) > 40,
              describe=lambda c: bytes.fromhex(c.split(" ")[0]).decode("utf8", "replace")[:300] if c[0] != "-" else "")
    # the projection needs the case text: classify() calls py_spec(case) first, so remember the case there
    leg.py_spec = lambda c: (holder.__setitem__("case", c), "COVERED")[1]
    leg.spec_proj = lambda obs: coverage(holder["case"], obs)
    nleg = Leg("c04.names", gen_names, skip_model=lambda m: m.startswith("SKIP"),
               nontrivial=lambda c: len(c.split(" ")[0]) > 40,
               describe=lambda c: bytes.fromhex(c.split(" ")[0]).decode("utf8", "replace")[:300] if c[0] != "-" else "")
    nleg.py_spec = lambda c: (holder.__setitem__("ncase", c), "NAMESCOVERED")[1]
    nleg.spec_proj = lambda obs: names_coverage(holder["ncase"], obs)
    eleg = Leg("c04.errlocs", gen_errlocs, skip_model=lambda m: m.startswith("SKIP"),
               nontrivial=lambda c: len(c) > 40,
               describe=lambda c: bytes.fromhex(c.split(" ")[0]).decode("utf8", "replace")[:300] if c[0] != "-" else "")
    legs = [leg, nleg, eleg]
    can_run = r.can_run()
    extra = {}
    if can_run:
        r.replay_findings({l.name: l for l in legs})
        rows = r.run_leg(leg)
        r.run_leg(nleg)
        r.run_leg(eleg)
        # the two readings of the spec (Gallina covers/slice_lsp on the model's Locs, Python slicing) must agree
        dis = 0
        cls_count = {}
        ok_files = 0
        for c, i, m, s, cls in rows:
            if m.startswith("SKIP") or m == "BAD-CASE":
                continue
            g = "gcov1" in cls.split(",")
            holder["case"] = c
            p = coverage(c, m) == "COVERED"
            if m.startswith("L: T:") and g != p:
                dis += 1
            ks = [x for x in cls.split(",") if not x.startswith("gcov")]
            if not ks:
                ok_files += 1
            for k in ks:
                cls_count[k] = cls_count.get(k, 0) + 1
        extra = {"spec_readings_disagree": dis, "files_inside_guard": ok_files, "class_counts": cls_count}
        if dis:
            r.build_problems.append(("model-build", "Spec/LspRange.v vs Python reading of the LSP range", "%d disagreements" % dis))
    return r.finish(legs, extra_cov=extra, trusted=vlib.TRUSTED_COMMON + [
        "modelled, tied by correspondence: position bookkeeping of lexer.go (GetNowTokenLoc), LocToRange",
        "independent Python reading of LSP ranges (UTF-16 columns; LF, CRLF, CR) cross-checks Spec/LspRange.v on every case"],
        assumptions=["ranges of definition/references/rename/symbol answers are AST Locs forwarded from these token Locs: covered by the checks of C05/C06/C11/C19"])
