# C13 - hover shows the right symbol and its comment verbatim (DESIGN 5, C13)
import vlib
from vlib import Leg, hexs

ASCII = [chr(c) for c in range(32, 127)] + ["\n", "\t"]
TWO = list("éñüßøçÀÿ") + list("ЖдяПривет") + list("αβγΩ") + ["\u0080", "߿"]
CJK = list("中文注释漢字テストかな한글") + ["ࠀ", "￿", "퟿", ""]
ASTRAL = ["😀", "🚀", "𝔘", "\U00010000", "\U0010ffff", "𠀀"]


def rand_text(rng, classes, n):
    return "".join(rng.choice(rng.choice(classes)) for _ in range(n))


def gen_convert(rng, tier):
    n = {"quick": 3000, "thorough": 150000, "search": 4000}[tier]
    out = ["- -"]
    for k in range(n):
        mode = rng.random()
        if mode < 0.45:
            classes = [ASCII, CJK, ASTRAL]           # inside the guard of C13_utf8_identity
        elif mode < 0.6:
            classes = [ASCII]
        elif mode < 0.7:
            classes = [CJK]
        else:
            classes = [ASCII, TWO, CJK, ASTRAL]      # known class
        s = rand_text(rng, classes, rng.choice([1, 1, 2, 3, 5, 8, 13, 40]))
        if rng.random() < 0.05:
            s = "".join(chr(rng.choice([rng.randrange(0x80, 0x800), rng.randrange(0x800, 0xd800), rng.randrange(0xe000, 0x10000), rng.randrange(0x10000, 0x110000)])) for _ in range(rng.randrange(1, 6)))
        out.append(hexs(s.encode("utf8")) + " " + ",".join(str(ord(c)) for c in s))
    # long texts: a multi-byte character straddling every power-of-two byte offset a buffered / prefix-sniffing
    # implementation might cut at (the theorems are for ALL lengths; sampled lengths above stop at 40 characters)
    for B in (64, 128, 255, 256, 512, 1000, 1023, 1024, 1025, 2048, 4096, 8192, 16384, 65536):
        for k in (1, 2, 3):
            ch = rng.choice(CJK[:12] + ASTRAL)
            s = "a" * (B - k) + ch + rand_text(rng, [ASCII, CJK], rng.choice([0, 3, 40]))
            out.append(hexs(s.encode("utf8")) + " " + ",".join(str(ord(c)) for c in s))
        s = rand_text(rng, [CJK], B // 3 + 2)
        out.append(hexs(s.encode("utf8")) + " " + ",".join(str(ord(c)) for c in s))
    return out


def gen_isutf8(rng, tier):
    n = {"quick": 6000, "thorough": 300000, "search": 8000}[tier]
    out = ["-"]
    # exhaustive: every single byte and every pair with an interesting lead byte
    out += ["%02x" % b for b in range(256)]
    for a in (0x7f, 0x80, 0xbf, 0xc0, 0xc2, 0xdf, 0xe0, 0xef, 0xf0, 0xf7, 0xf8, 0xfb, 0xfc, 0xfd, 0xfe, 0xff):
        for b in range(0, 256, 3):
            out.append("%02x%02x" % (a, b))
    for k in range(n):
        mode = rng.random()
        if mode < 0.3:
            bs = bytes(rng.randrange(256) for _ in range(rng.randrange(1, 12)))
        elif mode < 0.8:
            s = rand_text(rng, [ASCII, TWO, CJK, ASTRAL], rng.randrange(1, 10)).encode("utf8")
            bs = bytearray(s)
            for _ in range(rng.randrange(0, 3)):      # byte-level mutation: flip, drop, insert
                if not bs:
                    break
                i = rng.randrange(len(bs)); m = rng.random()
                if m < 0.4:
                    bs[i] = rng.randrange(256)
                elif m < 0.7:
                    del bs[i]
                else:
                    bs.insert(i, rng.choice([0x80, 0xbf, 0xc0, 0xe0, 0xf0, 0xf8, 0xfc, 0xfe, 0xff, 0x41]))
            bs = bytes(bs)
        else:
            lead = rng.choice([0xe0, 0xe4, 0xef, 0xf0, 0xf4, 0xf8, 0xfc, 0xfe, 0xff])
            bs = bytes([lead] + [rng.choice([0x80, 0xbf, 0x90, 0x41, 0xc0]) for _ in range(rng.randrange(0, 8))])
        out.append(hexs(bs))
    return out


def shrink_hex(case):
    h = case.split(" ")[0]
    if h == "-":
        return
    b = bytes.fromhex(h)
    for i in range(len(b)):
        yield hexs(b[:i] + b[i + 1:])


def shrink_convert(case):
    h, cps = case.split(" ")[:2]
    if cps == "-":
        return
    cs = [int(x) for x in cps.split(",")]
    for i in range(len(cs)):
        r = cs[:i] + cs[i + 1:]
        s = "".join(chr(c) for c in r)
        yield hexs(s.encode("utf8")) + " " + (",".join(str(c) for c in r) if r else "-")


LEGS = [
    Leg("c13.convert", gen_convert, oracle="c13.gbk", shrink=shrink_convert,
        nontrivial=lambda c: any(int(x) > 127 for x in c.split(" ")[1].split(",") if x != "-")),
    Leg("c13.isutf8", gen_isutf8, shrink=shrink_hex, nontrivial=lambda c: c != "-" and any(b > 127 for b in bytes.fromhex(c))),
]

TRUSTED = vlib.TRUSTED_COMMON + [
    "oracle: GBK decoder of golang.org/x/text (Section variable gbk_decode; the theorems hold for every decoder)",
    "modelled, tied by correspondence: codingconv.isUtf8 / preNUm / ConvertStrToUtf8",
]


def main(tier, seed):
    return vlib.standard_main("C13", LEGS, tier, seed, trusted=TRUSTED,
                              assumptions=["label rendering and comment attachment: see legs c13.hover* (when present)"])
