# C13 - hover shows the right symbol and its comment verbatim (DESIGN 5, C13)
import vlib
from vlib import Leg, hexs

ASCII = [chr(c) for c in range(32, 127)] + ["\n", "\t"]
TWO = list("éñüßøçÀÿ") + list("ЖдяПривет") + list("αβγΩ") + ["\u0080", "߿"]
CJK = list("中文注释漢字テストかな한글") + ["ࠀ", "￿", "퟿", ""]
ASTRAL = ["😀", "🚀", "𝔘", "\U00010000", "\U0010ffff", "𠀀"]


def rand_text(rng, classes, n):
    return "".join(rng.choice(rng.choice(classes)) for _ in range(n))


def gen_convert(rng, tier):
    n = {"quick": 3000, "thorough": 150000, "search": 4000}[tier]
    out = ["- -"]
    for k in range(n):
        mode = rng.random()
        if mode < 0.45:
            classes = [ASCII, CJK, ASTRAL]           # inside the guard of C13_utf8_identity
        elif mode < 0.6:
            classes = [ASCII]
        elif mode < 0.7:
            classes = [CJK]
        else:
            classes = [ASCII, TWO, CJK, ASTRAL]      # known class
        s = rand_text(rng, classes, rng.choice([1, 1, 2, 3, 5, 8, 13, 40]))
        if rng.random() < 0.05:
            s = "".join(chr(rng.choice([rng.randrange(0x80, 0x800), rng.randrange(0x800, 0xd800), rng.randrange(0xe000, 0x10000), rng.randrange(0x10000, 0x110000)])) for _ in range(rng.randrange(1, 6)))
        out.append(hexs(s.encode("utf8")) + " " + ",".join(str(ord(c)) for c in s))
    # long texts: a multi-byte character straddling every power-of-two byte offset a buffered / prefix-sniffing
    # implementation might cut at (the theorems are for ALL lengths; sampled lengths above stop at 40 characters)
    for B in (64, 128, 255, 256, 512, 1000, 1023, 1024, 1025, 2048, 4096, 8192, 16384, 65536):
        for k in (1, 2, 3):
            ch = rng.choice(CJK[:12] + ASTRAL)
            s = "a" * (B - k) + ch + rand_text(rng, [ASCII, CJK], rng.choice([0, 3, 40]))
            out.append(hexs(s.encode("utf8")) + " " + ",".join(str(ord(c)) for c in s))
        s = rand_text(rng, [CJK], B // 3 + 2)
        out.append(hexs(s.encode("utf8")) + " " + ",".join(str(ord(c)) for c in s))
    return out


def gen_isutf8(rng, tier):
    n = {"quick": 6000, "thorough": 300000, "search": 8000}[tier]
    out = ["-"]
    # exhaustive: every single byte and every pair with an interesting lead byte
    out += ["%02x" % b for b in range(256)]
    for a in (0x7f, 0x80, 0xbf, 0xc0, 0xc2, 0xdf, 0xe0, 0xef, 0xf0, 0xf7, 0xf8, 0xfb, 0xfc, 0xfd, 0xfe, 0xff):
        for b in range(0, 256, 3):
            out.append("%02x%02x" % (a, b))
    for k in range(n):
        mode = rng.random()
        if mode < 0.3:
            bs = bytes(rng.randrange(256) for _ in range(rng.randrange(1, 12)))
        elif mode < 0.8:
            s = rand_text(rng, [ASCII, TWO, CJK, ASTRAL], rng.randrange(1, 10)).encode("utf8")
            bs = bytearray(s)
            for _ in range(rng.randrange(0, 3)):      # byte-level mutation: flip, drop, insert
                if not bs:
                    break
                i = rng.randrange(len(bs)); m = rng.random()
                if m < 0.4:
                    bs[i] = rng.randrange(256)
                elif m < 0.7:
                    del bs[i]
                else:
                    bs.insert(i, rng.choice([0x80, 0xbf, 0xc0, 0xe0, 0xf0, 0xf8, 0xfc, 0xfe, 0xff, 0x41]))
            bs = bytes(bs)
        else:
            lead = rng.choice([0xe0, 0xe4, 0xef, 0xf0, 0xf4, 0xf8, 0xfc, 0xfe, 0xff])
            bs = bytes([lead] + [rng.choice([0x80, 0xbf, 0x90, 0x41, 0xc0]) for _ in range(rng.randrange(0, 8))])
        out.append(hexs(bs))
    return out


def shrink_hex(case):
    h = case.split(" ")[0]
    if h == "-":
        return
    b = bytes.fromhex(h)
    for i in range(len(b)):
        yield hexs(b[:i] + b[i + 1:])


def shrink_convert(case):
    h, cps = case.split(" ")[:2]
    if cps == "-":
        return
    cs = [int(x) for x in cps.split(",")]
    for i in range(len(cs)):
        r = cs[:i] + cs[i + 1:]
        s = "".join(chr(c) for c in r)
        yield hexs(s.encode("utf8")) + " " + (",".join(str(c) for c in r) if r else "-")



# ---------------------------------------------------------------------------------------------------------------
# comment map, clean-up, hover (Model/Comments.v, Model/Hover.v)
import luagen

WS = [" ", " ", "  ", "\t", "    ", "\x0b", "\x0c", ""]
NLS = ["\n", "\n", "\n", "\r\n", "\r\n", "\r", "\n\r"]
DASH_STYLES = ["--", "-- ", "--  ", "---", "--- ", "--*", "---*", "-- -", "--\t", "----", "-- * ", "--- -* "]


def comment_text(rng, script=None, n=None):
    script = script or rng.choice(["ascii", "ascii", "cjk", "astral", "two", "mix"])
    cls = {"ascii": [ASCII[:95]], "cjk": [CJK, ASCII[:95]], "astral": [ASTRAL, ASCII[:95]], "two": [TWO, ASCII[:95]],
           "mix": [ASCII[:95], CJK, ASTRAL]}[script]
    n = rng.choice([0, 1, 2, 3, 5, 8, 13]) if n is None else n
    t = rand_text(rng, cls, n).replace("\n", " ").replace("\r", " ")
    if script == "two" and not any(c in TWO for c in t):
        t += rng.choice(TWO)
    return t


def short_comment(rng, script=None):
    t = rng.choice(DASH_STYLES) + comment_text(rng, script)
    if t.startswith("--[") and (t[3:4] in "[="):
        t = "-- " + t[2:]
    return t.replace("---@", "--- @")


def long_comment(rng):
    lvl = rng.choice([0, 0, 1, 2])
    body = "".join(rng.choice(["a", " x ", "\n", "--", "中", "\r\n", "-- y\n", "]", "="]) for _ in range(rng.choice([0, 1, 3, 6])))
    close = "]" + "=" * lvl + "]"
    body = body.replace(close, "")
    while body.endswith("]") or body.endswith("="):
        body = body[:-1]
    return "--[" + "=" * lvl + "[" + body + (close if rng.random() < 0.93 else "")


def doc_long_comment(rng, script, indent=""):
    """a long-bracket documentation comment of 1..3 lines, level 0-2, closed; styles `--[[ t ]]`, `--[[\n t\n]]`, `--[[\n t\n--]]`
    -> (source text, content as the lexer keeps it: first line break dropped, closing "\n--" trimmed)"""
    lvl = rng.choice([0, 0, 0, 1, 2])
    close = "]" + "=" * lvl + "]"
    n = rng.choice([1, 1, 2, 3])
    ls = []
    for _ in range(n):
        t = comment_text(rng, script).replace(close, "").replace("]", ")")
        ls.append(rng.choice(["", " ", "  ", "- ", "-* "]) + t)
    style = rng.random()
    if style < 0.5:
        body = "\n".join(ls) + rng.choice(["", " "])
    elif style < 0.75:
        body = "\n" + "\n".join(ls) + "\n" + indent
    else:
        body = "\n" + "\n".join(ls) + "\n" + "--"          # closing line `--]]`
    while body.endswith("]") or (lvl and body.endswith("=")):
        body = body[:-1]
    content = body[1:] if body.startswith("\n") else body
    if content.endswith("\n--"):
        content = content[:-3]
    return "--[" + "=" * lvl + "[" + body + close, content


CODE_BITS = ["local x = 1", "x = x + 1", "print(x)", "local s = \"a--b\"", "local t = {1, 2}", "f(a, b)", "do", "end",
             "if x then", "return", "local l = [[long\nstring -- no comment]]", "y = 'it''s'", "::lab::", "goto lab",
             "function f(a, b)", "local function g(...)", "while true do", "break", "x = -- mid\n 2", "a.b.c = nil",
             "local u = 'unfinished", "x = 1e-", "@", "é = 1", "}", "local q <const> = 5"]


def gap_file(rng):
    """lines of (indent, code?, comment?) with all newline kinds: the shapes skipWhiteSpaces distinguishes"""
    out = []
    if rng.random() < 0.1:
        out.append(rng.choice(["﻿", "#!/usr/bin/lua", "#", "﻿#! x"]))
        if rng.random() < 0.7:
            out.append(rng.choice(NLS))
    for _ in range(rng.choice([1, 2, 3, 5, 8, 12])):
        out.append(rng.choice(WS))
        k = rng.random()
        if k < 0.3:
            out.append(rng.choice(CODE_BITS))
            out.append(rng.choice(WS))
        if rng.random() < 0.08:
            out.append(long_comment(rng) + rng.choice(WS))
            if rng.random() < 0.5:
                out.append(rng.choice(CODE_BITS) + rng.choice(WS))
        k = rng.random()
        if k < 0.55:
            out.append(short_comment(rng))
        elif k < 0.65:
            out.append(long_comment(rng))
        out.append(rng.choice(NLS) if rng.random() < 0.9 else rng.choice(NLS) * 2)
    if rng.random() < 0.3 and out:
        out.pop()
    return "".join(out).encode("utf8")


LUA_SEPS = [b" ", b" ", b"\n", b"\t", b"\r\n", b" --c\n", b" -- comment \xe4\xb8\xad\n", b" --[[ x ]] ", b"\n-- a\n-- b\n",
            b"--[==[\n multi ]] \n]==]", b"\n\n", b" ---x\r\n", b"\n--\n", b" --[[ a\n b ]] -- c\n", b"\n  -- i\n\n-- j\n"]


def lua_with_comments(rng):
    g = luagen.Gen(rng, max_depth=3)
    toks = g.chunk()
    if rng.random() < 0.3:
        toks, _ = luagen.mutate(toks, rng)
    out = bytearray(rng.choice([b"", b"", b"-- head\n", b"--[[ h ]]\n", b"\n-- h1\n-- h2\n"]))
    for i, t in enumerate(toks):
        if i > 0:
            sep = rng.choice(LUA_SEPS)
            if out.endswith(b"-") and sep.startswith(b"-"):
                sep = b" " + sep
            out += sep
        out += t.text
    out += rng.choice([b"", b"\n", b" -- tail", b"\n-- last\n-- block", b" --[[ t ]]"])
    return bytes(out)


def gen_cmap(rng, tier):
    n = {"quick": 2500, "thorough": 100000, "search": 4000}[tier]
    out = ["-", hexs(b"-- a\n-- b\nlocal x = 1 -- t\n"), hexs(b"--\n-- text\nlocal a = 1"), hexs(b"x = 1 --[[ a\n b ]] -- c\nlocal y"),
           hexs(b"-- s1\n--[[ doc\n two ]]\nlocal a = 1 --[[ t ]]\n--[==[\n x\n--]==]\n-- y\nlocal z = [[q\nr]] -- after\n"),
           hexs(b"--[[ a ]] --[[ b ]] local x --[[ c ]] --[=[ d\n]=] y = 1 --[[ unclosed\n")]
    for k in range(n):
        m = rng.random()
        if m < 0.6:
            b = gap_file(rng)
        elif m < 0.9:
            b = lua_with_comments(rng)
        else:
            b = bytearray(gap_file(rng) if rng.random() < 0.5 else lua_with_comments(rng))
            for _ in range(rng.randrange(1, 4)):
                if not b:
                    break
                i = rng.randrange(len(b)); q = rng.random()
                if q < 0.4:
                    b[i] = rng.choice([0x2d, 0x0a, 0x0d, 0x5b, 0x5d, 0x20, 0x22, 0x27, rng.randrange(256)])
                elif q < 0.7:
                    del b[i]
                else:
                    b.insert(i, rng.choice([0x2d, 0x0a, 0x0d, 0x5b, 0x3d, 0x22]))
            b = bytes(b)
        out.append(hexs(b))
    return out


def gen_cleanup(rng, tier):
    n = {"quick": 3000, "thorough": 100000, "search": 4000}[tier]
    bits = ["-", "-", "*", " ", " ", "\n", "-*", "@param", "@class", "@return x", "@type", "@version", "@vararg", "@overload",
            "@generic", "@alias", "@par", "a", "b c", "中", "é", "😀", "\t", "- ", " -", "* ", "@"]
    out = ["-", hexs(b"-"), hexs(b"\n"), hexs(b" a\n"), hexs(b"-* a\n*b\n- c\n  d\n"), hexs(b"@param a\n@return b\ntext\n@type x")]
    for k in range(n):
        s = "".join(rng.choice(bits) for _ in range(rng.choice([1, 2, 3, 5, 8, 12])))
        out.append(hexs(s.encode("utf8")))
    return out


# ---- hover: generated declarations with comments
def py_hover_line(l):
    l = l.lstrip(" ")
    if l.startswith("-*"):
        l = l[2:]
    if l.startswith("-"):
        l = l[1:]
    return l.lstrip(" ")


def string_literal(rng, script):
    if script == "two" and rng.random() < 0.7:
        script = "ascii"                                      # a 2-byte character inside a string literal needs the lexer's GBK oracle
    body = comment_text(rng, script, rng.choice([0, 1, 3, 6])).replace("\\", "/").replace('"', "'").replace("\n", " ")
    if rng.random() < 0.3:
        return "'" + body.replace("'", "") + "'"
    if rng.random() < 0.15:
        return "[[" + body.replace("]", ")") + "]]"
    return '"' + body + '"'


def hover_file(rng):
    """-> (source text, [(line, col_lo, col_hi)] hover targets, [announced documentation texts])"""
    script = rng.choice(["ascii", "ascii", "cjk", "astral", "mix", "two"])
    lines, targets, names, docs, long_docs = [], [], [], [], []
    ndecl = rng.choice([1, 2, 3, 4, 6])
    nl_style = rng.random()
    for d in range(ndecl):
        name = rng.choice(["a", "b", "cfg", "val", "x1", "Name", "_p", "fn", "go", "T"]) + str(d)
        indent = rng.choice(["", "", "", " ", "  ", "\t"])
        lead = []
        k = rng.random()
        if k < 0.7:
            for _ in range(rng.choice([1, 1, 2, 3])):
                lead.append(indent + short_comment(rng, script))
        elif k < 0.78:
            lead.append(indent + long_comment(rng).replace("\r\n", "\n"))
        elif k < 0.92:
            # documentation in a long-bracket comment (1..3 lines, levels 0-2), alone or mixed with `--` lines above /
            # below it: a long-bracket comment is a block of its own (fix C13-long-comment-doc)
            for _ in range(rng.choice([0, 0, 1, 2])):
                lead.append(indent + short_comment(rng, script))
            src_l, content = doc_long_comment(rng, script, indent)
            lead.append(indent + src_l + rng.choice(["", "", " ", "\t"]))
            long_docs.append(content)
            for _ in range(rng.choice([0, 0, 0, 1])):
                lead.append(indent + short_comment(rng, script))
        if lead and rng.random() < 0.12:
            lead.append("")                                   # separated by a blank line
        if lead and rng.random() < 0.06:
            lead.insert(rng.randrange(len(lead) + 1), indent + "--")
        if len(lead) >= 2 and lead[-1] != "" and rng.random() < 0.15:
            lead.insert(rng.randrange(1, len(lead)), "")      # two blocks separated by a blank line: only the lower one counts
        lines += [x for l in lead for x in l.split("\n")]
        kind = rng.choice(["local", "local", "global", "lfunc", "gfunc", "lfval", "gfval", "local2", "global2"])
        if names and rng.random() < 0.3:
            # a declaration initialised from another (earlier) name: the server follows the chain of definitions, shows
            # the type / value of the declaration the chain ends in and the FIRST non-empty comment along the chain
            # (chains of length 2-3 arise from aliases of aliases; both / only one / none of them commented)
            kind = rng.choice(["lalias", "lalias", "galias"])
        params = rng.choice([[], ["p"], ["p", "q"], ["self", "n"]])
        va = rng.random() < 0.25
        plist = ", ".join(params + (["..."] if va else []))
        body = rng.choice([" ", " print(%s) " % (params[0] if params else "1"), " print(1) print(2) ",
                           "\n  print(1)\n", "\n  print(%s)\n  print(2)\n" % (params[0] if params else "1")])
        val = rng.choice([str(rng.choice([0, 1, 7, 42, 65536, 2 ** 40])), "0x%x" % rng.randrange(1 << 20), string_literal(rng, script),
                          string_literal(rng, script), "true", "false", "nil"])
        if rng.random() < 0.12:
            # a multi-line initialiser: the statement (and a trailing comment behind it) ends on a later line than the
            # identifier's - that comment is NOT the declaration's (reading of "the trailing comment on its line")
            val = "[" + "=" * rng.choice([0, 0, 1]) + "[" + rng.choice(["a\nb", "\nfirst\nsecond", "x\n\ny ", "1\n2\n3"])
            val += "]" + val[1:val.index("[", 1)] + "]"
        col0 = len(indent)
        if kind == "local":
            has_val = rng.random() < 0.85
            text = "local " + name + (" = " + val if has_val else "")
            spots = [(col0 + 6, name)]
        elif kind == "global":
            text = name + " = " + val
            spots = [(col0, name)]
        elif kind == "lfunc":
            text = "local function %s(%s)%send" % (name, plist, body)
            spots = [(col0 + 15, name)]
        elif kind == "gfunc":
            text = "function %s(%s)%send" % (name, plist, body)
            spots = [(col0 + 9, name)]
        elif kind == "lfval":
            text = "local %s = function(%s)%send" % (name, plist, body)
            spots = [(col0 + 6, name)]
        elif kind == "gfval":
            text = "%s = function(%s)%send" % (name, plist, body)
            spots = [(col0, name)]
        elif kind == "lalias":
            text = "local %s = %s" % (name, rng.choice(names[-4:]) if rng.random() < 0.6 else rng.choice(names))
            spots = [(col0 + 6, name)]
        elif kind == "galias":
            text = "%s = %s" % (name, rng.choice(names[-4:]) if rng.random() < 0.6 else rng.choice(names))
            spots = [(col0, name)]
        elif kind == "local2":
            n2 = name + "b"
            text = "local %s, %s = %s, %s" % (name, n2, val, rng.choice(["1", "true", "nil", '"s"']))
            spots = [(col0 + 6, name), (col0 + 8 + len(name), n2)]
        else:
            n2 = name + "b"
            text = "%s, %s = %s, %s" % (name, n2, val, rng.choice(["2", "false", '"z"']))
            spots = [(col0, name), (col0 + 2 + len(name), n2)]
        trail = ""
        k = rng.random()
        if k < 0.4:
            trail = rng.choice([" ", "  ", "\t", ""]) + short_comment(rng, script)
        elif k < 0.47:
            trail = " " + long_comment(rng).replace("\n", " ").replace("\r", " ")
        if text.endswith("-") and trail.startswith("-"):
            trail = " " + trail
        ln = len(lines)
        if "\n" in text and k < 0.47 and rng.random() < 0.5:
            text = text.replace("\n", " " + short_comment(rng, script) + "\n", 1)   # a comment on the identifier's line, mid-statement
        lines += (indent + text + trail).split("\n")
        for (c, nm) in spots:
            targets.append((ln, c, c + len(nm)))
            names.append(nm)
        # the documentation the generator expects (only used to announce GBK oracle inputs; never decides anything)
        cands = []
        if trail.lstrip(" \t").startswith("--") and not trail.lstrip(" \t").startswith("--["):
            cands.append([trail.lstrip(" \t")[2:]])
        if " --" in lines[ln]:
            cands.append([lines[ln][lines[ln].index(" --") + 3:]])
        blk = []
        for l in reversed(lines[:ln]):
            if l.lstrip(" \t").startswith("--") and not l.lstrip(" \t").startswith("--["):
                blk.insert(0, l.lstrip(" \t")[2:])
            else:
                break
        for j in range(len(blk)):
            c = blk[j:]
            cands.append(c)                                   # plain join (after the leading-empty-line fix)
            while c and c[0] == "":
                c = c[1:]                                     # before the fix the join dropped leading empty lines
            cands.append(c)
        for c in cands:
            docs.append("".join("  \n" + py_hover_line(x) for x in c))
        for c in long_docs:
            docs.append("".join("  \n" + py_hover_line(x) for x in c.split("\n")))
        if trail.lstrip(" \t").startswith("--[") and "[" in trail.lstrip(" \t")[3:5] + " ":
            tl = trail.lstrip(" \t")
            o = tl.index("[", 3) + 1
            cl = "]" + tl[3:o - 1] + "]"
            if cl in tl[o:]:
                docs.append("".join("  \n" + py_hover_line(x) for x in tl[o:tl.index(cl, o)].split("\n")))
        if rng.random() < 0.2:
            lines.append("")
    # uses
    for _ in range(rng.choice([1, 2, 3])):
        pick = [rng.choice(names) for _ in range(rng.choice([1, 2, 3]))]
        form = rng.choice(["print", "do", "func", "if"])
        if form == "print":
            pre, post = "print(", ")"
        elif form == "do":
            pre, post = "do print(", ") end"
        elif form == "func":
            pre, post = "function use%d() print(" % len(lines), ") end"
        else:
            pre, post = "if true then print(", ") end"
        col = len(pre)
        ln = len(lines)
        for i, nm in enumerate(pick):
            targets.append((ln, col, col + len(nm)))
            col += len(nm) + 2
        lines.append(pre + ", ".join(pick) + post + rng.choice(["", "", " -- use"]))
    nl = "\r\n" if nl_style < 0.12 else "\n"
    src = nl.join(lines) + rng.choice(["", nl])
    if rng.random() < 0.04:
        src = "﻿" + src
        targets = [(l, a + (1 if l == 0 else 0) * 0, b) for (l, a, b) in targets]   # the BOM is not part of line 0's columns
    return src, targets, docs


def hover_case(rng, src, targets, docs, k):
    items = ["F:%s:%s" % (hexs(b"a.lua"), hexs(src.encode("utf8"))), "S:open:0"]
    for (l, a, b) in rng.sample(targets, min(k, len(targets))):
        items.append("S:hover:0:%d:%d" % (l, rng.randint(a, b)))
    for d in sorted(set(docs)):
        if d and any(0x80 <= ord(c) < 0x800 for c in d):
            items.append("G:" + hexs(d.encode("utf8")))
    return " ".join(items)


# ---- cross-file hover (seeded/C13-7: the documentation comment was looked up by the declaration's LINE NUMBER in the
# REQUESTING file).  File 0 = a generated declaration file (hover_file), file 1 = uses of file 0's GLOBALS whose own lines
# carry decoy comments on every line number (trailing comments on the use lines, comment-only lines between them), or no
# comment at all.  `H:<line>:<col>` names, per hover step on file 1, the declaration's position in file 0: the model side
# (ocaml/c13_run.ml) demands the hover text of the declaration in the DECLARING file.
def xhover_case(rng):
    while True:
        src, targets, docs = hover_file(rng)
        if src.startswith("\ufeff"):
            continue
        nl = "\r\n" if "\r\n" in src else "\n"
        lines = src.split(nl)
        gl = []
        for (ln, a, b) in targets:
            st = lines[ln].lstrip(" \t")
            if st.startswith(("local", "print(", "do print(", "function use", "if true")):
                continue
            gl.append((ln, a, b, lines[ln][a:b]))
        if gl:
            break
    style = rng.choice(["full", "full", "full", "lead", "none"])
    nuse = rng.choice([1, 2, 3])
    picks = [[rng.choice(gl) for _ in range(rng.choice([1, 2]))] for _ in range(nuse)]
    blines, spots = [], []                      # spots: (line in B, col_lo, col_hi, decl spot)
    total = max(len(lines) + 2, 2 * nuse + 1) if style != "none" else nuse
    pending = list(picks)
    for i in range(total):
        use_here = pending and (style == "none" or i % 2 == 1 or total - i <= len(pending))
        if use_here:
            pk = pending.pop(0)
            pre = rng.choice(["print(", "  print(", "local _ = {", "\tprint(1, "])
            col = len(pre)
            for g in pk:
                spots.append((i, col, col + len(g[3]), g))
                col += len(g[3]) + 2
            text = pre + ", ".join(g[3] for g in pk) + ("}" if pre.endswith("{") else ")")
            if style == "full":
                text += " -- decoy trailing %d" % i
            blines.append(text)
        elif style == "none":
            blines.append("")
        else:
            blines.append(rng.choice(["", "  "]) + "-- decoy block %d" % i)
    bsrc = nl.join(blines) + rng.choice(["", nl])
    an, bn = rng.choice([("a.lua", "b.lua"), ("a.lua", "b.lua"), ("z.lua", "b.lua"), ("lib/defs.lua", "main.lua")])
    items = ["F:%s:%s" % (hexs(an.encode()), hexs(src.encode("utf8"))), "F:%s:%s" % (hexs(bn.encode()), hexs(bsrc.encode("utf8")))]
    items += rng.choice([["S:open:0", "S:open:1"], ["S:open:1", "S:open:0"], ["S:open:1"]])
    hints = []
    for (l, a, b, g) in spots:
        items.append("S:hover:1:%d:%d" % (l, rng.randint(a, b)))
        hints.append("H:%d:%d" % (g[0], rng.randint(g[1], g[2])))
    items += hints
    for d in sorted(set(docs)):
        if d and any(0x80 <= ord(c) < 0x800 for c in d):
            items.append("G:" + hexs(d.encode("utf8")))
    return " ".join(items)


HOVER_FIXED = [
    # long-bracket comments as documentation (fix C13-long-comment-doc): one line, several lines, `--]]` closing style, level 2,
    # mixed with `--` lines (a long-bracket comment is a block of its own), trailing long-bracket comment
    ("--[[ doc one ]]\nlocal a = 1\n--[[ doc\n two ]]\nlocal b = 2\n--[==[\n doc\n three\n--]==]\nlocal c = 3\n-- s1\n--[[ doc d ]]\nlocal d = 4\n"
     "--[[ doc e ]]\n-- s2\nlocal e = 5\nlocal f = 6 --[[ tail f ]]\n--[[ sep ]]\n\nlocal g = 7\nprint(a, b, c, d, e, f, g)\n",
     [(1, 6), (4, 6), (9, 6), (12, 6), (15, 6), (16, 6), (19, 6), (20, 6), (20, 9), (20, 12), (20, 15), (20, 18), (20, 21), (20, 24)]),
    # a trailing comment behind a multi-line initialiser is not on the identifier's line: no documentation from it;
    # a comment on the identifier's line (mid-statement) is
    ("local s = [[a\nb]] -- after string\n-- above t\nlocal t = [==[\nx\ny]==] -- after t\nlocal function f(a,\n  b) print(1)\nend -- after f\n"
     "local u = [[k -- in string\nl]]\nfunction g() -- on g's line\n  print(2)\nend -- after g\nprint(s, t, f, u, g)\n",
     [(0, 6), (3, 6), (6, 15), (9, 6), (11, 9), (14, 6), (14, 9), (14, 12), (14, 15), (14, 18)]),
    ("-- leading one\n-- leading two\nlocal a = 1 -- trailing a\n-- block for b\nlocal b = \"str\"\n\n-- separated\n\nlocal c = 3\n"
     "--[[ long lead ]]\nlocal d = true\nlocal e = nil --[[ long trail ]]\n--- triple dash\ng1 = 12\n-- func doc\n"
     "function f1(x, y) end\nlocal function f2(p, ...) end -- tail f2\nprint(a, b, c, d, e, g1, f1, f2)\n",
     [(2, 6), (4, 6), (8, 6), (10, 6), (11, 6), (13, 0), (15, 9), (16, 15), (17, 6), (17, 9), (17, 12), (17, 15), (17, 18), (17, 22), (17, 26), (17, 30)]),
    ("-- 中文注释\nlocal zh = \"漢字\" -- テスト😀\n--\n-- after an empty line\nlocal e2 = 0x10\n", [(1, 6), (4, 6)]),
    # declarations initialised from another name: own comment wins; without one the initialiser's comment is shown
    ("local base = 10 -- A\nlocal limit = base -- B\nlocal l3 = limit\nlocal n1 = base\n-- G\ngname = 'g'\n-- own block\ngalias = gname\n"
     "local function work(a, b) end -- W\nlocal run = work -- R\nrun2 = work\nlocal run3 = run2\nprint(limit, l3, n1, galias, run, run2, run3)\n",
     [(1, 7), (2, 7), (3, 7), (7, 1), (9, 7), (10, 1), (11, 7), (12, 7), (12, 14), (12, 18), (12, 23), (12, 30), (12, 35), (12, 41)]),
]


def gen_hover(rng, tier):
    n = {"quick": 1000, "thorough": 20000, "search": 1500}[tier]
    out = []
    for (src, pos) in HOVER_FIXED:
        out.append(" ".join(["F:%s:%s" % (hexs(b"a.lua"), hexs(src.encode("utf8"))), "S:open:0"] + ["S:hover:0:%d:%d" % p for p in pos]))
    for k in range(n):
        src, targets, docs = hover_file(rng)
        out.append(hover_case(rng, src, targets, docs, rng.choice([1, 2, 3, 4])))
    for k in range(n // 8):
        out.append(xhover_case(rng))
    return out


def shrink_hover(case):
    its = case.split(" ")
    if sum(1 for x in its if x.startswith("F:")) > 1:         # cross-file case: one hover step with its H: hint
        hs = [x for x in its if x.startswith("S:hover")]
        hh = [x for x in its if x.startswith("H:")]
        if len(hs) > 1 and len(hs) == len(hh):
            for st, h in zip(hs, hh):
                yield " ".join([x for x in its if x.startswith(("F:", "S:open"))] + [st, h] + [x for x in its if x.startswith("G:")])
        return
    f = [x for x in its if x.startswith("F:")][0]
    steps = [x for x in its if x.startswith("S:hover")]
    rest = [x for x in its if x.startswith("G:")]
    if len(steps) > 1:
        for s in steps:
            yield " ".join([f, "S:open:0", s] + rest)


def hover_nontrivial(c):
    f = [x for x in c.split(" ") if x.startswith("F:")][0]
    return b"--" in bytes.fromhex(f.split(":")[2])


SKIP = lambda m: m.startswith("SKIP")

LEGS = [
    Leg("c13.convert", gen_convert, oracle="c13.gbk", shrink=shrink_convert,
        nontrivial=lambda c: any(int(x) > 127 for x in c.split(" ")[1].split(",") if x != "-")),
    Leg("c13.isutf8", gen_isutf8, shrink=shrink_hex, nontrivial=lambda c: c != "-" and any(b > 127 for b in bytes.fromhex(c))),
    Leg("c13.cmap", gen_cmap, shrink=shrink_hex, skip_model=SKIP, nontrivial=lambda c: c != "-" and b"--" in bytes.fromhex(c)),
    Leg("c13.cleanup", gen_cleanup, shrink=shrink_hex, nontrivial=lambda c: c != "-"),
    Leg("c13.hover", gen_hover, oracle="c13.gbkdoc", shrink=shrink_hover, skip_model=SKIP, nontrivial=hover_nontrivial, per_case_s=0.12),
]

TRUSTED = vlib.TRUSTED_COMMON + [
    "oracle: GBK decoder of golang.org/x/text (Section variable gbk_decode; the theorems hold for every decoder)",
    "modelled, tied by correspondence: codingconv.isUtf8 / preNUm / ConvertStrToUtf8",
    "modelled, tied by correspondence (leg c13.cmap, parser.BeginAnalyze directly): the comment map of lexer.skipWhiteSpaces as consumed by the parser",
    "modelled, tied by correspondence (leg c13.cleanup): getFinalStrComment (hook check.VerifFinalStrComment) and GetStrComment",
    "modelled, tied by correspondence through the real server (leg c13.hover = srv.script): GetLineComment, label forms of Model/Hover.v, TextDocumentHover assembly",
    "shared Lua front end (Model/Lexer.v, Parser.v, LuaFront.v) as validated by C01/C03/C04",
]


def main(tier, seed):
    return vlib.standard_main("C13", LEGS, tier, seed, trusted=TRUSTED,
                              assumptions=["label rendering is modelled for the declaration forms of Model/Hover.v only (top-level local/global with integer/string/boolean/nil/no value, four function forms with plain bodies); other forms, annotation comments (---@), files with syntax errors and hover on the first line of a BOM file are skipped by the hover leg",
                                           "C13_comment_attach_file / _decl / C13_hover_file cover files whose gaps consist of white space, LF/CRLF line breaks and `--text` comments not starting with `[` (boolean class file_gaps <> None; key-disjointness of different gaps is proved there, not assumed) and that the parser reads to the end; gaps with long-bracket comments, `--[x` comments, lone CR / LFCR are covered by correspondence (legs c13.cmap, c13.hover) only",
                                           "long-bracket comments (fix C13-long-comment-doc, variant flag fx of Model/Comments.v; C13_VARIANT=prefix runs the pre-fix model): proved for EVERY file: the deployed lexer differs from the shared model only in the text kept for long-bracket comments (C13_deployed_differs_in_long_text_only) and coincides with it on files with structured gaps (C13_deployed_is_shared_on_class, C13_comment_attach_file_deployed); for files of file_class_long (gaps of white space, LF/CRLF, `--text` and closed long-bracket comments, no two blocks under one line) the demand spec_attach(file_blocks) - a long-bracket comment is a block of its own and counts as documentation - is stated from the bytes (C13_comment_attach_long_full) and decided by correspondence (leg c13.hover), not yet by proof; 'the trailing comment on its line' is read as the line of the declaration's identifier (a comment behind a multi-line initialiser is not the declaration's)",
                                           "the hover model of the driver (hover_with_v) follows, for a function, the last link of the server's chain of definitions: the function expression, whose comment is looked up on the line of `end` (class inherited_doc); C13_hover_file is proved for hover_with (without that link), C13_hover_file_v_full is stated only",
                                           "the spec column of leg c13.hover: for a file of file_class the documentation demanded is spec_comment on the declarative table of the file's comment lines (file_table), the statement of C13_comment_attach_file; for a file of file_class_long spec_attach on file_blocks (blocks computed from the bytes; long-bracket comments count); otherwise spec_attach on the recorded entries, stated only for files whose comments are all `--` line comments",
                                           "cross-file hover (two-file cases of leg c13.hover, `H:` items): Model/Hover.v resolves a name inside ONE file; for a hover on a use in ANOTHER file of a global / global function that file 0 declares, the driver (ocaml/c13_run.ml) demands the model's and the spec's hover text at the declaration position in the DECLARING file (label, documentation = the declaring file's comment, the declaring file's name) after checking that the same word stands under both positions; that a global used in one file resolves to the single top-level declaration in the other file is not modelled here (binder family C05/C06), it is part of the correspondence observed on the generated cases; members of tables are not covered (outside the label forms of Model/Hover.v)"])
